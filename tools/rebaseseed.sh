#!/bin/sh
# rebaseseed.sh <seed id>: the archived patch no longer applies to /repo HEAD (fix commits moved the context):
# re-create it on its base commit in a scratch worktree, cherry-pick onto HEAD, and store the rebased diff
# (the original is kept as patch.base-<commit>.diff). Fails loudly on conflicts.
set -eu
sid=$1; d=/verif/seeded/$sid
base=$(python3 -c "import json;print(json.load(open('$d/meta.json'))['base_commit_of_the_change'])")
WT=/tmp/rebaseseed.$$
git -C /repo worktree add -q --detach $WT $base
trap 'git -C /repo worktree remove --force $WT' EXIT
cd $WT
git apply $d/patch.diff
git add -A; git -c user.name=seed -c user.email=seed@x commit -qm "seed $sid"
c=$(git rev-parse HEAD)
git checkout -q --detach $(git -C /repo rev-parse HEAD)
if git -c user.name=seed -c user.email=seed@x cherry-pick $c >/dev/null 2>&1; then
  [ -f $d/patch.base-$base.diff ] || cp $d/patch.diff $d/patch.base-$base.diff
  git diff HEAD~1 HEAD > $d/patch.diff
  echo "rebased $sid onto $(git -C /repo rev-parse --short HEAD)"
else
  git status --short | head; echo "CONFLICT rebasing $sid"; exit 1
fi
