#!/usr/bin/env python3
import json, jsonschema, glob, sys
ms = json.load(open('/root/.vp/MANIFEST.schema.json')); es = json.load(open('/root/.vp/EVIDENCE.schema.json'))
m = json.load(open('/verif/MANIFEST.json')); jsonschema.validate(m, ms)
ids = [json.loads(l)['id'] for l in open('/verif/properties.jsonl')]
claimed = [c['property_id'] for c in m['checks']]; na = [n['property_id'] for n in m.get('not_applicable', [])]
assert sorted(claimed + na) == sorted(ids), (claimed, na)
bad = 0
for c in m['checks']:
    try:
        e = json.load(open('/verif/' + c['evidence_file'])); jsonschema.validate(e, es)
        assert e['property_id'] == c['property_id']
        print(c['property_id'], e['tier'], 'evals', e['coverage']['evaluations'], 'distinct', e['coverage']['distinct_nontrivial'], 'viol', e.get('violations'), 'wall', e['wall_s'])
    except Exception as ex:
        bad += 1; print(c['property_id'], 'EVIDENCE INVALID', str(ex)[:200])
print('manifest ok;', len(claimed), 'claimed;', len(na), 'not claimed;', bad, 'bad evidence')
sys.exit(1 if bad else 0)
