#!/bin/bash
# revert_one.sh <fix commit> <check ids...>: hand-mutation probe - reverts ONE fix commit on a scratch worktree of /repo HEAD (skips it if the revert conflicts or does not build) and runs the quick tier of the named checks against it. Expected: exit 1.
export GOFLAGS=-mod=mod GOPROXY=off GOSUMDB=off GOTOOLCHAIN=local
h=$1; shift
WT=/tmp/rev_$h
git -C /repo worktree add -q --detach $WT HEAD || exit 2
cleanup() { git -C /repo worktree remove --force $WT; sfx=$(echo $WT | tr "/" "_"); rm -rf /verif/work/*$sfx* /verif/bin/*$sfx* /verif/evidence/_scratch_rev_$h*.json; }
trap cleanup EXIT
cd $WT
if ! git revert --no-commit $h >/dev/null 2>&1; then echo "$h SKIP revert-conflict"; exit 0; fi
if ! (go build ./... && go build -tags verif ./...) >/dev/null 2>&1; then echo "$h SKIP does-not-build"; exit 0; fi
suite=green; go test -vet=off -count=1 ./... >/dev/null 2>&1 || suite=RED
cd /verif
res=""
for id in "$@"; do
  out=$(VERIF_EVIDENCE_NAME=_scratch_rev_${h}_$id VERIF_REPO=$WT VERIF_ONLY=$id timeout 900 ./run.sh $id quick 2>&1); code=$?
  res="$res $id=exit$code[$(echo "$out" | grep -o 'sig=[^ ]*' | sort -u | head -2 | tr '\n' ',')]"
done
echo "$h suite=$suite$res"
