#!/bin/sh
# reseedall.sh [parallelism]: re-confirms EVERY archived seeded change against /repo HEAD and re-runs the checks
# recorded for it (plus the check of the property it breaks), several at a time. Rewrites the meta.json files.
P=${1:-6}
cd /verif
ls seeded | grep '^C' | while read sid; do
  checks=$(python3 -c "
import json
j=json.load(open('/verif/seeded/$sid/meta.json'))
c=list(j['checks_run_quick_tier'].keys())
if j['breaks_property'] not in c: c.insert(0,j['breaks_property'])
print(' '.join(c))")
  echo "$sid $checks"
done | xargs -P $P -L 1 sh -c 'tools/reseed.sh "$@"' _ 
# binaries built for the scratch worktrees
rm -f bin/vcheck-*_tmp_tryseed.* work/alt_tmp_tryseed.*
