#!/bin/sh
# benign.sh [NN-name ...]: false-alarm probe. Applies each behaviour-preserving refactoring under /verif/benign/<dir>/patch.diff
# to a scratch worktree of /repo HEAD (never /repo itself), confirms build + suite, and runs the quick tier of ALL checks
# against it (4 at a time). Expected: every check exits 0. Writes benign/<dir>/result.txt.
export GOFLAGS=-mod=mod GOPROXY=off GOSUMDB=off GOTOOLCHAIN=local
cd /verif
dirs="$@"; [ -n "$dirs" ] || dirs=$(ls benign | grep '^[0-9]')
ids=$(python3 -c "import json;print(' '.join(c['property_id'] for c in json.load(open('MANIFEST.json'))['checks']))")
for d in $dirs; do
  WT=/tmp/benign.$$.$(echo $d | cut -c1-2)
  git -C /repo worktree add -q --detach $WT HEAD || exit 2
  if ! git -C $WT apply /verif/benign/$d/patch.diff 2>/tmp/benign.$$.err; then echo "$d: PATCH DOES NOT APPLY to HEAD"; git -C /repo worktree remove --force $WT; continue; fi
  if ! (cd $WT && go build ./... && go build -tags verif ./... && go test -vet=off -count=1 ./... >/dev/null 2>&1); then echo "$d: build or suite FAILED (not behaviour preserving on this HEAD?)"; fi
  : > benign/$d/result.txt
  for id in $ids; do echo $id; done | xargs -P 4 -I{} sh -c 'out=$(VERIF_REPO='$WT' VERIF_ONLY={} VERIF_EVIDENCE_NAME=_scratch_benign_{} timeout 1200 ./run.sh {} quick 2>&1); code=$?; echo "{} exit=$code violations=$(echo "$out" | grep -c "^VIOLATION") $(echo "$out" | grep -o "sig=[^ ]*" | sort -u | head -4 | tr "\n" " ")" >> benign/'$d'/result.txt'
  sort -o benign/$d/result.txt benign/$d/result.txt
  bad=$(grep -v "exit=0 violations=0" benign/$d/result.txt | tr '\n' ';')
  echo "$d: ${bad:-all 20 checks silent}"
  git -C /repo worktree remove --force $WT
  sfx=$(echo $WT | tr '/' '_'); rm -rf work/*$sfx* bin/*$sfx* evidence/_scratch_benign_*
done
