#!/bin/sh
# wave.sh <wave prefix e.g. /tmp/seed2_> <id suffix e.g. w2> <property e.g. C05>: confirms and archives all seeds of one property
PFX=$1; TAG=$2; P=$3
low=$(echo $P | tr A-Z a-z)
case $P in
 C01) rel="C01 C16";; C02) rel="C02 C08";; C03) rel="C03";; C04) rel="C04";; C05) rel="C05 C09";; C06) rel="C06 C03 C01";;
 C07) rel="C07";; C08) rel="C08 C02 C09";; C09) rel="C09 C05 C08";; C10) rel="C10 C11";; C11) rel="C11 C10";; C12) rel="C12 C15";;
 C13) rel="C13 C04";; C14) rel="C14 C18";; C15) rel="C15 C12";; C16) rel="C16 C01";; C17) rel="C17 C07";; C18) rel="C18 C14";;
 C19) rel="C19";; C20) rel="C20 C12";;
esac
base=$(git -C ${PFX}$low rev-parse --short HEAD)
for d in ${PFX}$low/_seed/*/; do
  l=$(basename $d)
  [ -f $d/patch.diff ] || continue
  pkg=$(grep -m1 '^package ' $d/demo_test.go | awk '{print $2}' | sed 's/_test$//')
  case $pkg in ucfg) dir=.;; *) dir=$pkg;; esac
  /verif/tools/keepseed.py $d $P-$TAG$l $P $dir $base $rel | tail -1
done
