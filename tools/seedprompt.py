#!/usr/bin/env python3
"""Prints the prompt for a fresh breakage-seeding sub-agent: property text + its scratch worktree only."""
import json, sys
pid = sys.argv[1]
wt = sys.argv[2]
n = sys.argv[3] if len(sys.argv) > 3 else "two"
p = next(json.loads(l) for l in open('/verif/properties.jsonl') if json.loads(l)['id'] == pid)
print(f"""You are helping to evaluate how well a test/verification setup detects regressions in the Go library elastic/go-ucfg (hierarchical configuration: normalizes YAML/JSON/HJSON/Go values into a Config tree, merges with append/prepend/replace policies, expands ${{var}} references, unpacks into structs). You have your OWN scratch git worktree of the library at {wt} (a detached checkout; work ONLY inside it; do not look at or touch /repo, /verif or any other directory; there is no network). Every shell call needs: export GOFLAGS=-mod=mod GOPROXY=off GOSUMDB=off GOTOOLCHAIN=local

The property under study (it currently HOLDS on this tree):
TITLE: {p['title']}
STATEMENT: {p['statement']}
HOLDS FOR: {p['quantifier']['text']}

Your task: produce {n} INDEPENDENT, realistic source changes to the library (non-test .go files), each of which BREAKS this property while the library still compiles (`go build ./...` and `go vet ./...` fine, also with `-tags verif`) and the existing test suite still passes unchanged (`go test -vet=off -count=1 ./...` in the worktree must stay green — run it). Think of plausible refactoring slips, off-by-one/boundary mistakes, a forgotten copy, a wrong condition, a cache or state that outlives its scope, two cooperating sites that each look fine alone — the kind of bug a maintainer could really introduce. IMPORTANT: prefer changes that need something SPECIFIC to manifest — an unusual input shape, a particular nesting depth, a multi-step sequence of operations, a particular combination of options, a boundary value, a particular interleaving — NOT ones that any ordinary use would expose at once (those would fail the existing tests anyway). Do not touch files named verif_on.go / verif_off.go and do not remove lines calling functions whose name starts with `verif` (instrumentation; leave it alone). Keep each change small (a few lines). NEVER use `git stash` (the stash is shared with other worktrees of the same repository and entries get swapped): to test without your change use `git diff > /tmp/<your-own-name>.diff; git apply -R ...; ...; git apply ...`.

For EACH change deliver, inside {wt}/_seed/<letter>/ (letter = a, b, ...):
 1. patch.diff — `git diff` of the change against the worktree HEAD (only that change; reset the tree with `git checkout -- .` between changes so the patches are independent and each applies alone with `git apply`);
 2. demo_test.go — a small Go test in the package it needs (say in a comment at the top which directory it must be copied to, e.g. the repository root for `package ucfg`) that FAILS with the change applied and PASSES without it (verify both, by copying it into place, running `go test -run <Name> .` and removing it again before you take the diff, so the demo is NOT part of patch.diff);
 3. meta.txt — 5–10 lines: what the change is, why it breaks the property (which sentence of the statement), what exactly is needed for it to manifest (the specific input / sequence / option combination), and the commands you ran (build, full test suite result, demo result with and without the change).
Leave the worktree clean (no applied change, no demo file in place) at the end: everything you deliver lives under _seed/. Report back a short summary of each change (one paragraph each).""")
