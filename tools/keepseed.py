#!/usr/bin/env python3
"""keepseed.py <seed dir> <seed id e.g. C01-a> <property> <demo dir> <base commit> <checks...>
Copies a confirmed seeded change into /verif/seeded/<id>/ and writes meta.json after re-running
tools/tryseed.sh (confirmation + the named checks, quick tier)."""
import json, os, shutil, subprocess, sys, re
seed, sid, prop, demodir, base = sys.argv[1:6]
checks = sys.argv[6:]
dst = f"/verif/seeded/{sid}"
os.makedirs(dst, exist_ok=True)
prev = None
if os.path.exists(os.path.join(dst, "meta.json")):
    prev = json.load(open(os.path.join(dst, "meta.json")))
for f in ("patch.diff", "demo_test.go", "meta.txt"):
    if os.path.exists(os.path.join(seed, f)) and os.path.abspath(seed) != os.path.abspath(dst):
        shutil.copy(os.path.join(seed, f), os.path.join(dst, f))
out = subprocess.run(["/verif/tools/tryseed.sh", seed, demodir] + checks, capture_output=True, text=True).stdout
print(out)
res = {}
for m in re.finditer(r"check (C\d+) quick: exit=(\d+) ?(.*)", out):
    res[m.group(1)] = {"exit": int(m.group(2)), "signatures": re.findall(r"sig=(\S+) \(x\d+\)", m.group(3))}
meta = {
    "id": sid,
    "breaks_property": prop,
    "origin": "fresh sub-agent given only the property text and a private scratch worktree of /repo (nothing from /verif)",
    "base_commit_of_the_change": base,
    "applies_to_repo_head": "PATCH DOES NOT APPLY" not in out,
    "what_it_needs_to_manifest": open(os.path.join(dst, "meta.txt")).read() if os.path.exists(os.path.join(dst, "meta.txt")) else "",
    "confirmed_here": {
        "builds_with_and_without_verif_tag": "build: ok" in out,
        "existing_suite_green_with_change": "suite with change: green" in out,
        "demo_passes_without_change": "demo on clean tree: PASS" in out,
        "demo_fails_with_change": "demo with change: FAIL" in out,
        "how": "tools/tryseed.sh: scratch worktree of /repo HEAD, git apply patch.diff, go build ./... (also -tags verif), go test -vet=off -count=1 ./..., demo copied to %s and run with and without the change" % demodir,
    },
    "checks_run_quick_tier": res,
    "caught_by": sorted(k for k, v in res.items() if v["exit"] == 1),
}
if prev is not None and (prev.get("missed_at_first") or not prev.get("caught_by")):
    meta["missed_at_first"] = True
    meta["first_run_checks"] = prev.get("first_run_checks") or prev.get("checks_run_quick_tier")
if prev is not None and prev.get("refreshed"):
    meta["refreshed"] = prev["refreshed"]
if os.path.exists(os.path.join(dst, "OBSOLETE.txt")) and not meta["caught_by"] and not meta["confirmed_here"]["demo_fails_with_change"]:
    # a later fix commit made the change harmless (the demo passes with it): kept for the record
    meta["obsolete"] = open(os.path.join(dst, "OBSOLETE.txt")).read().strip()
json.dump(meta, open(os.path.join(dst, "meta.json"), "w"), indent=1)
print("kept", sid, "caught_by", meta["caught_by"])
