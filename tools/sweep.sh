#!/bin/sh
# sweep.sh <tier> <seed...>: runs every registered check at each seed, prints one line per run.
tier=$1; shift
cd "$(dirname "$0")/.."
for sd in "$@"; do
  for id in $(python3 -c "import json;print(' '.join(c['property_id'] for c in json.load(open('MANIFEST.json'))['checks']))"); do
    s=$(date +%s)
    out=$(VERIF_SEED=$sd ./run.sh $id $tier 2>&1); code=$?
    e=$(date +%s)
    echo "$id seed=$sd tier=$tier exit=$code $((e-s))s $(echo "$out" | grep -c '^VIOLATION') viol $(echo "$out" | grep -c '^KNOWN-FINDING') known $(echo "$out" | grep -c '^INCONCLUSIVE') inconc $(echo "$out" | grep -o 'sig=[^ ]*' | sort -u | head -3 | tr '\n' ' ')"
  done
done
