#!/bin/sh
# sweepsome.sh <tier> <seed> <id...>: like sweep.sh for the given checks only (evidence goes to scratch names).
tier=$1; sd=$2; shift 2
cd "$(dirname "$0")/.."
for id in "$@"; do
  s=$(date +%s)
  out=$(VERIF_SEED=$sd VERIF_EVIDENCE_NAME=_scratch_some_$id ./run.sh $id $tier 2>&1); code=$?
  e=$(date +%s)
  echo "$id seed=$sd tier=$tier exit=$code $((e-s))s $(echo "$out" | grep -c '^VIOLATION') viol $(echo "$out" | grep -c '^KNOWN-FINDING') known $(echo "$out" | grep -c '^INCONCLUSIVE') inconc $(echo "$out" | grep -o 'sig=[^ ]*' | sort -u | head -3 | tr '\n' ' ')"
done
