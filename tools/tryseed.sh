#!/bin/sh
# tryseed.sh <seed dir containing patch.diff demo_test.go> <demo target dir relative to repo root> <check ids...>
# Confirms a seeded change (applies to a scratch worktree of /repo HEAD, suite green, demo fails with / passes without)
# and runs the given checks (quick tier) against it. Never touches /repo's working tree.
set -u
export GOFLAGS=-mod=mod GOPROXY=off GOSUMDB=off GOTOOLCHAIN=local
SEED=$1; DEMODIR=$2; shift 2
WT=/tmp/tryseed.$$
git -C /repo worktree add -q $WT HEAD || exit 2
cleanup() { git -C /repo worktree remove --force $WT; sfx=$(echo $WT | tr "/" "_"); rm -rf /verif/work/*$sfx /verif/work/alt$sfx.* /verif/bin/*$sfx; }
trap cleanup EXIT
cd $WT
# demo on the clean tree
cp $SEED/demo_test.go $WT/$DEMODIR/zz_seed_demo_test.go
if (cd $WT/$DEMODIR && go test -vet=off -count=1 -run 'Seed|Demo' . >/tmp/tryseed.$$.clean 2>&1); then echo "demo on clean tree: PASS"; else echo "demo on clean tree: FAIL (unexpected)"; tail -5 /tmp/tryseed.$$.clean; fi
rm $WT/$DEMODIR/zz_seed_demo_test.go
if ! git apply $SEED/patch.diff 2>/tmp/tryseed.$$.apply; then echo "PATCH DOES NOT APPLY to HEAD:"; cat /tmp/tryseed.$$.apply; exit 3; fi
if go build ./... && go build -tags verif ./... ; then echo "build: ok"; else echo "build: FAILED"; exit 4; fi
if go test -vet=off -count=1 ./... >/tmp/tryseed.$$.suite 2>&1; then echo "suite with change: green"; else echo "suite with change: RED"; grep -v "^ok\|no test files" /tmp/tryseed.$$.suite | head; fi
cp $SEED/demo_test.go $WT/$DEMODIR/zz_seed_demo_test.go
if (cd $WT/$DEMODIR && go test -vet=off -count=1 -run 'Seed|Demo' . >/tmp/tryseed.$$.demo 2>&1); then echo "demo with change: PASS (unexpected)"; else echo "demo with change: FAIL (as intended)"; fi
rm $WT/$DEMODIR/zz_seed_demo_test.go
cd /verif
for id in "$@"; do
  out=$(VERIF_EVIDENCE_NAME=_scratch_$id VERIF_REPO=$WT VERIF_ONLY=$id timeout 900 ./run.sh $id quick 2>&1)
  code=$?
  echo "check $id quick: exit=$code $(echo "$out" | grep -o 'sig=[^ ]* (x[0-9]*)' | sort -u | head -6 | tr '\n' ' ')"
done
rm -f /tmp/tryseed.$$.*
