#!/usr/bin/env python3
"""Writes /verif/seeded/README.md from the meta.json files."""
import json, glob, os
rows = []
for d in sorted(glob.glob('/verif/seeded/*/')):
    mp = os.path.join(d, 'meta.json')
    if not os.path.exists(mp): continue
    m = json.load(open(mp))
    txt = m.get('what_it_needs_to_manifest', '').strip().split('\n')
    first = ' '.join(t.strip() for t in txt[:3])[:260]
    sigs = []
    for c, r in m['checks_run_quick_tier'].items():
        if r['exit'] == 1: sigs.append(f"{c}: " + ', '.join(r['signatures'][:3]))
    caught = ', '.join(m['caught_by']) or ('obsolete: no longer breaks the property (see OBSOLETE.txt)' if m.get('obsolete') else '**missed**')
    if m.get('missed_at_first'):
        caught += ' (missed at first, see below)'
    rows.append((m['id'], m['breaks_property'], first, caught, '; '.join(sigs), m['applies_to_repo_head']))
out = ["# Independently seeded breaking changes\n",
"Each directory holds `patch.diff` (git diff), `demo_test.go` (fails with the change, passes without), `meta.txt` (the seeding sub-agent's own notes) and `meta.json` (what was confirmed here and which checks were run).",
"The changes were written by fresh sub-agents that saw only the property text and a private scratch worktree of `/repo` — nothing from `/verif`. Every one was confirmed with `tools/tryseed.sh` (scratch worktree of `/repo` HEAD, `git apply`, build with and without the `verif` tag, existing suite green, demo fails with / passes without the change) and then run against the named checks' **quick** tier (`VERIF_REPO=<worktree>`). None was ever applied to `/repo`.\n",
"To re-run one: `tools/tryseed.sh seeded/<id> <demo dir> <check ids...>`.\n",
"| id | property | change (first lines of the author's notes) | caught by (quick tier) | signatures |", "|---|---|---|---|---|"]
for r in rows:
    out.append(f"| {r[0]} | {r[1]} | {r[2].replace('|','/')} | {r[3]} | {r[4].replace('|','/')} |")
missed_then = """
## Changes that were missed at first, and what was strengthened

| seeded change | why it was missed | what was added |
|---|---|---|
| C12-a / C15-b (SetChild keeps aliasing a direct child of the receiver) | C12 never handed an already parented handle to SetChild | C12: SetChild of live child handles (also of the receiver's own children); model stores a copy |
| C08-a / C09-b (cache hit does not propagate dependencies) | whole-config reads were only checked for termination/failure, and no object tested from inside | C08: whole-config read == single read differential (map target, structs of interface{} fields in 3 declaration orders); worlds seeded with a value that tests the object it is used in |
| C08-b (FlattenedKeys cycle scope per level) | FlattenedKeys was only checked for termination | C08: expected FlattenedKeys for graphs without re-entry (own path for text, paths below the final target for objects/lists) |
| C02-a (list elements resolve from a stale root after a later merge) | no referencing strings inside list elements | C02: settings `ls.0`, `ls.1`, `ls.2.k` with expressions, list always delivered by one merge, referenced names redefined by others |
| C10-a (embedded non-root config linked uncopied; a second spelling writes into the source) | no second spelling of the embedding namespace in the same input | C10: placements `map-second-spelling`, `struct-second-spelling` |
| C11-a (reader's PathSep written into a shared expansion object) | all readers used the same options; baselines came from the config already read | C11: a second shared config built without PathSep read under 3 option sets; every baseline from a FRESH identically built config; cross-read purity check |
| C11-b (merge with MetaData writes the metadata into the source) | no merge passed MetaData; fingerprint lacked the source | C11: `dst.Merge(shared, MetaData)`, Unpack with MetaData into *Config; fingerprint includes the source |
| C05-b (pointer to interface no longer followed) | no `*interface{}` representation | C05: `ptr-iface`, `ptr-iface-values` representations |
| C04-a, C14-b, C14-c | see the respective meta.json | forwarded to the sub-agents that built C04/C14 (generator extended: list merge modes + empty list settings; typed path-less errors below interface{} targets; dotted-key construction route) |

Three seeding agents also reported defects of the UNCHANGED tree (false cyclic error for two slices referencing one list; `{"a.b":{"c":nil},"a":{"b":{"c":1}}}` order dependent; ReplaceValues dropping one of two spellings): each was reproduced by the responsible check after extending it, then repaired in `/repo` (`fixed:` lines in `known_findings.txt`).
"""
out.append(missed_then)
out.append(open('/verif/tools/seedreadme_wave2.md').read())
out.append(open('/verif/tools/seedreadme_wave3.md').read())
out.append(open('/verif/tools/seedreadme_wave4.md').read())
out.append(open('/verif/tools/seedreadme_wave5.md').read())
out.append(open('/verif/tools/seedreadme_wave6.md').read())
open('/verif/seeded/README.md', 'w').write('\n'.join(out) + '\n')
print(len(rows), "seeds")
