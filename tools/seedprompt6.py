#!/usr/bin/env python3
"""seedprompt6.py <property> <worktree> [n]: the seeding prompt of tools/seedprompt.py followed by the list of
mechanisms earlier seeding agents already used for this property (first lines of their own notes), so that a new
author goes elsewhere. Nothing about the checks themselves is disclosed."""
import json, os, subprocess, sys
pid, wt = sys.argv[1], sys.argv[2]
n = sys.argv[3] if len(sys.argv) > 3 else "two"
base = subprocess.run([sys.executable, os.path.join(os.path.dirname(__file__), "seedprompt.py"), pid, wt, n], capture_output=True, text=True).stdout
print(base)
print("""Earlier authors have already delivered the changes listed below for this property (one line each, from their own notes). Do NOT repeat any of these mechanisms or their close relatives (same function + same kind of slip). Go somewhere else: code paths that are rarely travelled (sub-packages cfgutil / flag / diff / parse / json / yaml / hjson front-ends, option plumbing, error construction, getters and setters, path parsing, validators, caches and state that lives across calls, the evaluation state of ${...} expansion, snapshot / private-copy logic of merges, handling of nil / empty containers, typed nil pointers, inline fields, list renumbering), and prefer changes that need TWO things to come together (two options; a history of several calls on one object; a value shape AND a policy; a large size AND a position; a first call that leaves state for a second call).
""")
for d in sorted(os.listdir("/verif/seeded")):
    if not d.startswith(pid + "-"): continue
    p = os.path.join("/verif/seeded", d, "meta.txt")
    if not os.path.exists(p): continue
    t = " ".join(open(p).read().split())
    print(f"- {t[:330]}")
