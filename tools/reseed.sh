#!/bin/sh
# reseed.sh <seed id e.g. C08-w2c> <checks...>: re-runs an archived seeded change after a check was strengthened
# (keeps "missed_at_first" in meta.json)
sid=$1; shift
d=/verif/seeded/$sid
P=$(echo $sid | cut -d- -f1)
pkg=$(grep -m1 '^package ' $d/demo_test.go | awk '{print $2}' | sed 's/_test$//')
case $pkg in ucfg) dir=.;; *) dir=$pkg;; esac
base=$(python3 -c "import json;print(json.load(open('$d/meta.json'))['base_commit_of_the_change'])")
/verif/tools/keepseed.py $d $sid $P $dir $base "$@" | tail -1
