#!/usr/bin/env python3
"""Regenerates /verif/MANIFEST.json from the table below (single source of truth)."""
import json, os, subprocess
ROOT = os.path.dirname(os.path.dirname(os.path.abspath(__file__)))

# id -> (technique, level text, level note, design ref)
CHECKS = {}
SUFFIX = (" Fourth to sixth wave (2026-09-26 .. 2026-09-28): the workload dimensions added for this check after 163 more independently"
          " seeded changes and an audit of the unchanged tree are listed in DESIGN.md section 3 under 'Fourth wave' / 'Fifth wave' /"
          " 'Sixth wave'; the 'after N fixes' count and the call counts above predate them - known_findings.txt lists every repair"
          " (157, each with the property it was found under) and the ten open findings, evidence/<id>.json has the counts of the"
          " last run.")
def chk(id, technique, text, note):
    CHECKS[id] = dict(technique=technique, text=text + SUFFIX, note=note)

exec(open(os.path.join(ROOT, "tools", "checks_table.py")).read())

props = [json.loads(l)["id"] for l in open(os.path.join(ROOT, "properties.jsonl"))]
hook_commits = [l.strip() for l in open(os.path.join(ROOT, "tools", "hook_commits.txt")) if l.strip()]

m = {
 "version": 1,
 "setup_cmd": "./run.sh --build",
 "hooks": {
  "guard": "verif",
  "enable": "go build -tags verif (run.sh builds cmd/vcheck with the tag; the module's replace directive points at /repo, so the working tree is what gets compiled)",
  "baseline_off_cmd": "cd /repo && GOFLAGS=-mod=mod GOPROXY=off GOSUMDB=off GOTOOLCHAIN=local go test -vet=off -count=1 -timeout 25m ./...",
  "source_commits": hook_commits,
  "add_only": True,
 },
 "engines": [
  {"name": "vcheck", "path": "cmd/vcheck", "serves_properties": sorted(CHECKS),
   "kind_free_text": "runtime monitoring: supervisor + child worker processes driving the real library with generated workloads; oracles are executable reference models, differential twins, conservation counts and structural invariants observed at the public API and at verif-tagged hooks; Go race detector for C11"},
 ],
 "checks": [],
 "not_applicable": [],
 "notes": "All checks: ./run.sh <id> <tier>. VERIF_SEED selects the workload; case counts are fixed per tier. Known findings: known_findings.txt. Replay: ./run.sh <id> --replay <file>.",
}
for id in props:
    if id in CHECKS:
        c = CHECKS[id]
        m["checks"].append({
            "property_id": id,
            "quick_cmd": f"./run.sh {id} quick",
            "thorough_cmd": f"./run.sh {id} thorough",
            "evidence_file": f"evidence/{id}.json",
            "replay_cmd_template": f"./run.sh {id} --replay {{path}}",
            "engine": "vcheck",
            "level_claimed": {"category": "exploration", "text": c["text"], "design_ref": f"DESIGN.md section 3 {id}"},
            "level_note": c["note"],
            "technique": c["technique"],
        })
    else:
        m["not_applicable"].append({"property_id": id, "reason": "not claimed yet: the runtime monitor for this property is still being built (see DESIGN.md section 3 for the planned oracle); nothing is asserted about it"})
json.dump(m, open(os.path.join(ROOT, "MANIFEST.json"), "w"), indent=1)
print("wrote MANIFEST.json:", len(m["checks"]), "checks,", len(m["not_applicable"]), "not claimed")
