#!/bin/sh
# run.sh <id> <tier>           run one check (tier: quick | thorough)
# run.sh <id> --replay <file>  re-execute one recorded case
# run.sh --build               build only
# Always rebuilds from /repo's current working tree with the verif hooks on.
set -u
cd "$(dirname "$0")"
export GOFLAGS=-mod=mod GOPROXY=off GOSUMDB=off GOTOOLCHAIN=local CGO_ENABLED=${CGO_ENABLED:-1}
REPO=${VERIF_REPO:-/repo}
MODFLAG=""
TAGS="verif"
BIN=bin/vcheck
# VERIF_ONLY=C03 links only that check (bin/vcheck-C03): lets one check be built while others are mid-edit
if [ -n "${VERIF_ONLY:-}" ]; then
  TAGS="verif only only_$(echo "$VERIF_ONLY" | tr 'A-Z' 'a-z')"
  BIN=bin/vcheck-$VERIF_ONLY
fi
build() {
  cp "$REPO/go.sum" go.sum 2>/dev/null
  mkdir -p bin work
  if [ "$REPO" != "/repo" ]; then
    # testing against a scratch worktree: same module file, other replace target
    alt=work/alt$(echo "$REPO" | tr '/' '_')
    sed "s#=> /repo#=> $REPO#" go.mod > $alt.mod; cp go.sum $alt.sum
    MODFLAG="-modfile=$alt.mod"
  fi
  go build $MODFLAG -tags "$TAGS" -o $BIN.tmp.$$ ./cmd/vcheck && mv -f $BIN.tmp.$$ $BIN || { echo "BUILD-FAILED: vcheck does not build against $REPO" >&2; exit 3; }
}
build_race() {
  go build $MODFLAG -race -tags "$TAGS" -o $BIN-race.tmp.$$ ./cmd/vcheck && mv -f $BIN-race.tmp.$$ $BIN-race || { echo "BUILD-FAILED: race build" >&2; exit 3; }
}
case "${1:-}" in
  --build) build; exit 0;;
esac
id=$1; tier=${2:-quick}
build
bin=$BIN
case "$id" in
  C11) build_race; bin=$BIN-race;;
esac
if [ "$tier" = "--replay" ]; then
  exec $bin replay "$3"
fi
exec $bin run "$id" "$tier"
