#!/bin/sh
# run.sh <id> <tier>           run one check (tier: quick | thorough)
# run.sh <id> --replay <file>  re-execute one recorded case
# run.sh --build               build only
# Always rebuilds from /repo's current working tree with the verif hooks on.
set -u
cd "$(dirname "$0")"
export GOFLAGS=-mod=mod GOPROXY=off GOSUMDB=off GOTOOLCHAIN=local CGO_ENABLED=${CGO_ENABLED:-1}
REPO=${VERIF_REPO:-/repo}
MODFLAG=""
build() {
  cp "$REPO/go.sum" go.sum 2>/dev/null
  mkdir -p bin work
  if [ "$REPO" != "/repo" ]; then
    # testing against a scratch worktree: same module file, other replace target
    sed "s#=> /repo#=> $REPO#" go.mod > work/alt.mod; cp go.sum work/alt.sum
    MODFLAG="-modfile=work/alt.mod"
  fi
  go build $MODFLAG -tags verif -o bin/vcheck ./cmd/vcheck || { echo "BUILD-FAILED: vcheck does not build against $REPO" >&2; exit 3; }
}
build_race() {
  go build $MODFLAG -race -tags verif -o bin/vcheck-race ./cmd/vcheck || { echo "BUILD-FAILED: race build" >&2; exit 3; }
}
case "${1:-}" in
  --build) build; exit 0;;
esac
id=$1; tier=${2:-quick}
build
bin=bin/vcheck
case "$id" in
  C11) build_race; bin=bin/vcheck-race;;
esac
if [ "$tier" = "--replay" ]; then
  exec $bin replay "$3"
fi
exec $bin run "$id" "$tier"
