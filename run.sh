#!/bin/sh
# run.sh <id> <tier>           run one check (tier: quick | thorough)
# run.sh <id> --replay <file>  re-execute one recorded case
# run.sh --build               build only
# Always rebuilds from /repo's current working tree with the verif hooks on.
set -u
cd "$(dirname "$0")"
export GOFLAGS=-mod=mod GOPROXY=off GOSUMDB=off GOTOOLCHAIN=local CGO_ENABLED=${CGO_ENABLED:-1}
REPO=${VERIF_REPO:-/repo}
MODFLAG=""
TAGS="verif"
BIN=bin/vcheck
# VERIF_ONLY=C03 links only that check (bin/vcheck-C03): lets one check be built while others are mid-edit
if [ -n "${VERIF_ONLY:-}" ]; then
  TAGS="verif only only_$(echo "$VERIF_ONLY" | tr 'A-Z' 'a-z')"
  BIN=bin/vcheck-$VERIF_ONLY
fi
if [ "$REPO" != "/repo" ]; then
  # a run against a scratch worktree gets its own binary and work directory, so
  # that several of them (tools/reseedall.sh) can run side by side
  sfx=$(echo "$REPO" | tr '/' '_')
  BIN=$BIN$sfx
  export VERIF_WORKDIR_SUFFIX=${VERIF_WORKDIR_SUFFIX:-$sfx}
fi
build() {
  cp "$REPO/go.sum" go.sum 2>/dev/null
  mkdir -p bin work
  if [ "$REPO" != "/repo" ]; then
    # testing against a scratch worktree: same module file, other replace target
    # one module file per (worktree, check): several checks may be built against
    # the same worktree side by side; written under a temporary name and moved
    # into place so that no build reads a half-written file
    alt=work/alt$(echo "$REPO" | tr '/' '_')${VERIF_ONLY:+_$VERIF_ONLY}
    sed "s#=> /repo#=> $REPO#" go.mod > $alt.mod.tmp.$$ && mv -f $alt.mod.tmp.$$ $alt.mod
    cp go.sum $alt.sum.tmp.$$ && mv -f $alt.sum.tmp.$$ $alt.sum
    MODFLAG="-modfile=$alt.mod"
  fi
  go build $MODFLAG -tags "$TAGS" -o $BIN.tmp.$$ ./cmd/vcheck && mv -f $BIN.tmp.$$ $BIN || { echo "BUILD-FAILED: vcheck does not build against $REPO" >&2; exit 3; }
}
build_race() {
  go build $MODFLAG -race -tags "$TAGS" -o $BIN-race.tmp.$$ ./cmd/vcheck && mv -f $BIN-race.tmp.$$ $BIN-race || { echo "BUILD-FAILED: race build" >&2; exit 3; }
}
case "${1:-}" in
  --build) build; exit 0;;
esac
id=$1; tier=${2:-quick}
build
bin=$BIN
case "$id" in
  C11) build_race; bin=$BIN-race;;
esac
if [ "$tier" = "--replay" ]; then
  exec $bin replay "$3"
fi
if [ "$id" = "C09" ] && [ "$tier" = "thorough" ] && command -v go1.26.8 >/dev/null 2>&1; then
  # supplementary pass: the same workload built with go1.26.8, whose Swiss-table maps
  # enumerate in a fully randomised order (not rotations of insertion order). Its
  # evidence goes to evidence/C09-go1.26.8.json; the registered evidence file is
  # written by the default-toolchain run below. Either pass failing fails the check.
  if GOTOOLCHAIN=local go1.26.8 build $MODFLAG -tags "$TAGS" -o $BIN-go126.tmp.$$ ./cmd/vcheck 2>work/go126.build.log && mv -f $BIN-go126.tmp.$$ $BIN-go126; then
    VERIF_EVIDENCE_NAME=C09-go1.26.8 VERIF_WORKDIR_SUFFIX=-go126 $BIN-go126 run C09 thorough; rc126=$?
  else
    echo "NOTE: go1.26.8 build not available (see work/go126.build.log); supplementary pass skipped"; rc126=0
  fi
  $bin run "$id" "$tier"; rc=$?
  [ $rc126 -ne 0 ] && [ $rc -eq 0 ] && rc=$rc126
  exit $rc
fi
exec $bin run "$id" "$tier"
