// vcheck is the single binary behind every registered check command: it is
// the supervisor (run), the child worker (worker) and the replayer (replay).
package main

import (
	"fmt"
	"os"
	"strconv"

	_ "verif/internal/checks"
	"verif/internal/harness"
)

func seed() int64 {
	if v := os.Getenv("VERIF_SEED"); v != "" {
		if s, err := strconv.ParseInt(v, 10, 64); err == nil {
			return s
		}
	}
	return 1
}

func main() {
	if len(os.Args) < 2 {
		fmt.Fprintln(os.Stderr, "usage: vcheck run <id> <tier> | worker ... | replay <file> | list")
		os.Exit(2)
	}
	// the tree the binary works in (known findings, work/, replays/, evidence/):
	// run.sh always starts it from the root of its own tree
	if r := os.Getenv("VERIF_ROOT"); r != "" {
		harness.Root = r
	} else if wd, err := os.Getwd(); err == nil {
		if _, err := os.Stat(wd + "/known_findings.txt"); err == nil {
			harness.Root = wd
		}
	}
	switch os.Args[1] {
	case "list":
		for _, id := range harness.IDs() {
			fmt.Println(id)
		}
	case "run":
		if len(os.Args) < 4 {
			os.Exit(2)
		}
		os.Exit(harness.Supervise(os.Args[2], os.Args[3], seed()))
	case "worker":
		a := os.Args[2:]
		if len(a) < 7 {
			os.Exit(2)
		}
		s, _ := strconv.ParseInt(a[2], 10, 64)
		lo, _ := strconv.Atoi(a[3])
		hi, _ := strconv.Atoi(a[4])
		os.Exit(harness.Worker(a[0], a[1], s, lo, hi, a[5], a[6]))
	case "replay":
		if len(os.Args) < 3 {
			os.Exit(2)
		}
		os.Exit(harness.Replay(os.Args[2]))
	default:
		os.Exit(2)
	}
}
