package c11

// Reused targets: two to four ordinary Unpack calls into the SAME Go value.
// The value has fields of type *Config ([]*Config, map[string]*Config,
// **Config): after the first call they hold what the property calls "captured
// *Config fields". The later calls are reads like the first one - of the same
// config under another merge policy, of a second config, under another Env
// config - and none of the configs involved may change.
// Only Unpack fills the targets; the one thing the caller puts into them up
// front are configs of its own (New(), NewFrom(...)), never a handle of a
// config that is read here (that would be handing a setting in as the target
// of a write, see Assumptions()).

import (
	"fmt"
	"math/rand"
	"sort"
	"strings"
	"sync"

	ucfg "github.com/elastic/go-ucfg"

	"verif/internal/harness"
)

type reuseTarget struct {
	Out *ucfg.Config            `config:"out"`
	L   []*ucfg.Config          `config:"l"`
	M   map[string]*ucfg.Config `config:"m"`
	Ref *ucfg.Config            `config:"ref"`
	PP  **ucfg.Config           `config:"out"`
	Any interface{}             `config:"m"`
}

type reuseStep struct {
	src, env, pol int
}

func (s reuseStep) String() string {
	return fmt.Sprintf("c%d.Unpack(&t, PathSep(\".\"), Env(e%d)%s)", s.src, s.env, []string{"", ", ReplaceValues", ", AppendValues", ", PrependValues"}[s.pol])
}

type reuseWorld struct {
	cfg   [4]*ucfg.Config // c0 c1 e0 e1
	names [4]string
	desc  string
	fp    [4]string
	read  [4]string
	// containers without settings in the four configs
	empties int
}

func newReuseWorld(r *rand.Rand) *reuseWorld {
	words := []string{"alpha", "beta", "gamma", "delta"}
	w := func() string { return words[r.Intn(len(words))] }
	w2 := &reuseWorld{names: [4]string{"c0", "c1", "e0", "e1"}}
	objInCfg := r.Intn(2) == 0
	var descs []string
	for k := 0; k < 2; k++ {
		l := []interface{}{map[string]interface{}{"a": w()}, map[string]interface{}{"b": w()}}
		if r.Intn(2) == 0 {
			l = append(l, map[string]interface{}{"c": w()})
		}
		m := map[string]interface{}{
			"out": map[string]interface{}{"hosts": []interface{}{w()}, fmt.Sprintf("k%d", k): w()},
			"l":   l,
			"m":   map[string]interface{}{"x": map[string]interface{}{fmt.Sprintf("p%d", k): w()}, "y": map[string]interface{}{"q": w()}},
			"ref": "${obj}",
		}
		if objInCfg {
			m["obj"] = map[string]interface{}{fmt.Sprintf("o%d", k): w()}
		}
		// fifth wave: empty containers where the targets capture (literal ones
		// and ones emptied by Remove before the first read)
		emptied := ""
		switch r.Intn(5) {
		case 0:
			m["out"] = map[string]interface{}{}
		case 1:
			m["out"] = map[string]interface{}{"tmp": 1}
			emptied = "out.tmp"
		}
		if r.Intn(3) == 0 {
			l[r.Intn(len(l))] = map[string]interface{}{}
		}
		if r.Intn(3) == 0 {
			m["m"].(map[string]interface{})["x"] = map[string]interface{}{}
		}
		if objInCfg && r.Intn(3) == 0 {
			m["obj"] = map[string]interface{}{}
		}
		c, err := ucfg.NewFrom(m, ucfg.PathSep("."), ucfg.VarExp)
		if err != nil {
			panic(err)
		}
		if emptied != "" {
			if _, err := c.Remove(emptied, -1, ucfg.PathSep(".")); err != nil {
				panic(err)
			}
		}
		w2.cfg[k] = c
		w2.empties += emptyContainers(c)
		descs = append(descs, fmt.Sprintf("c%d=%v (out.tmp removed again where present)", k, m))
		em := map[string]interface{}{"obj": map[string]interface{}{fmt.Sprintf("e%d", k): w()}}
		if r.Intn(4) == 0 {
			em["obj"] = map[string]interface{}{}
			w2.empties++
		}
		e, err := ucfg.NewFrom(em, ucfg.PathSep("."))
		if err != nil {
			panic(err)
		}
		w2.cfg[2+k] = e
		descs = append(descs, fmt.Sprintf("e%d=%v", k, em))
	}
	w2.desc = strings.Join(descs, "; ")
	for k := range w2.cfg {
		w2.fp[k] = fingerprint(w2.cfg[k])
		w2.read[k] = w2.render(k)
	}
	return w2
}

func (w *reuseWorld) render(k int) string {
	var m map[string]interface{}
	err := w.cfg[k].Unpack(&m, ucfg.PathSep("."), ucfg.Env(w.cfg[2]))
	return canon(m, err) + "|" + strings.Join(w.cfg[k].FlattenedKeys(ucfg.PathSep(".")), ",")
}

func newReuseTarget(r *rand.Rand) (*reuseTarget, string) {
	own := func() *ucfg.Config {
		c, err := ucfg.NewFrom(map[string]interface{}{"own": 1})
		if err != nil {
			panic(err)
		}
		return c
	}
	switch r.Intn(6) {
	case 0:
		return &reuseTarget{L: []*ucfg.Config{ucfg.New()}}, "t.L = []*Config{New()}"
	case 1:
		return &reuseTarget{L: []*ucfg.Config{own(), ucfg.New()}}, "t.L = []*Config{NewFrom({own:1}), New()}"
	case 2:
		return &reuseTarget{Out: own()}, "t.Out = NewFrom({own:1})"
	case 3:
		return &reuseTarget{M: map[string]*ucfg.Config{"x": ucfg.New()}}, "t.M = {x: New()}"
	}
	return &reuseTarget{}, "t zero"
}

func drawSteps(r *rand.Rand) []reuseStep {
	n := 2 + r.Intn(3)
	steps := make([]reuseStep, n)
	for i := range steps {
		steps[i] = reuseStep{src: r.Intn(2), env: r.Intn(2)}
		if r.Intn(2) == 0 {
			steps[i].pol = 1 + r.Intn(3)
		}
	}
	return steps
}

func (w *reuseWorld) apply(t *reuseTarget, s reuseStep) error {
	o := []ucfg.Option{ucfg.PathSep("."), ucfg.Env(w.cfg[2+s.env])}
	switch s.pol {
	case 1:
		o = append(o, ucfg.ReplaceValues)
	case 2:
		o = append(o, ucfg.AppendValues)
	case 3:
		o = append(o, ucfg.PrependValues)
	}
	return w.cfg[s.src].Unpack(t, o...)
}

// changed names the first config whose stored state or rendering differs from
// the start of the case ("" if none).
func (w *reuseWorld) changed() (int, string) {
	for k := range w.cfg {
		if fp := fingerprint(w.cfg[k]); fp != w.fp[k] {
			return k, fmt.Sprintf("stored state: %q vs %q; read before %s, now %s", firstDiff(w.fp[k], fp), firstDiff(fp, w.fp[k]), w.read[k], w.render(k))
		}
		if rd := w.render(k); rd != w.read[k] {
			return k, fmt.Sprintf("read before %s, now %s", w.read[k], rd)
		}
	}
	return -1, ""
}

const sigReuse = "unpack-into-reused-target-modifies-a-config-through-captured-handle"

const sigReuseRace = "data-race:unpack-into-reused-target-vs-readers"

// runReusedTargets: when the sequential part finds a config modified the
// concurrent part is skipped (it would only add the data races that follow
// from the same write). The race reports written during the concurrent part
// are judged here under one signature; their positions in the race log
// (from, to] are returned so that the general accounting leaves them out.
func runReusedTargets(res *harness.R, r *rand.Rand, goroutines int) (skipFrom, skipTo int) {
	w := newReuseWorld(r)
	res.Ev("empty_containers_in_reused_target_configs", int64(w.empties))
	seqClean := true
	for rep := 0; rep < 6 && seqClean; rep++ {
		t, pre := newReuseTarget(r)
		steps := drawSteps(r)
		var hist []string
		for _, s := range steps {
			var err error
			if p, pv, where := harness.Safe(func() { err = w.apply(t, s) }); p {
				res.Violate("panic", "%s panicked after %v (%s): %s at %s", s, hist, pre, pv, where)
				return 0, 0
			}
			res.Eval(1)
			res.Ev("unpack_calls_into_a_target_filled_by_an_earlier_unpack", 1)
			res.SetAdd("reuse_step", fmt.Sprintf("src=%d env=%d pol=%d err=%v", s.src, s.env, s.pol, err != nil))
			hist = append(hist, s.String())
			if k, how := w.changed(); k >= 0 {
				role := "a config read by an earlier call"
				switch {
				case k == s.src:
					role = "the config being unpacked"
				case k == 2+s.env:
					role = "the Env config of this call"
				case k >= 2:
					role = "the Env config of an earlier call"
				}
				res.Violate(sigReuse, "%s (%s) was modified by Unpack: %s. Target: %s; calls into the same target value: %s. %s",
					w.names[k], role, how, pre, strings.Join(hist, "; "), w.desc)
				seqClean = false
				break
			}
		}
	}
	if !seqClean {
		res.Ev("reused_target_concurrent_part_skipped", 1)
		return 0, 0
	}
	skipFrom, _ = raceReports()
	defer func() {
		var log string
		skipTo, log = raceReports()
		if skipTo > skipFrom {
			inner := map[string]bool{}
			for _, k := range dedupeKeys(log, skipFrom) {
				inner[strings.SplitN(k, "@", 2)[0]] = true
			}
			var l []string
			for k := range inner {
				l = append(l, k)
			}
			sort.Strings(l)
			res.Ev("race_reports_reused_targets", int64(skipTo-skipFrom))
			res.Violate(sigReuseRace, "the race detector reported %d data race(s) while %d goroutines unpacked the same configs 2-4 times each into a target of their own (fields of type *Config, []*Config, map[string]*Config) and read the configs in between; racing accesses in %v. %s", skipTo-skipFrom, goroutines, l, w.desc)
		}
	}()
	// concurrently: every goroutine has a target of its own and reads the shared configs in between
	if goroutines > 8 {
		goroutines = 8
	}
	type plan struct {
		t     *reuseTarget
		steps []reuseStep
	}
	plans := make([]plan, goroutines)
	for g := range plans {
		t, _ := newReuseTarget(r)
		plans[g] = plan{t, drawSteps(r)}
	}
	var wg sync.WaitGroup
	var mu sync.Mutex
	var bad []string
	start := make(chan struct{})
	for g := range plans {
		wg.Add(1)
		go func(p plan) {
			defer wg.Done()
			<-start
			for _, s := range p.steps {
				pn, pv, where := harness.Safe(func() {
					w.apply(p.t, s)
					k := s.src
					if rd := w.render(k); rd != w.read[k] {
						mu.Lock()
						bad = append(bad, fmt.Sprintf("%s read %s alone and %s while other goroutines unpacked into targets of their own", w.names[k], w.read[k], rd))
						mu.Unlock()
					}
				})
				if pn {
					mu.Lock()
					bad = append(bad, "panic: "+pv+" at "+where)
					mu.Unlock()
				}
			}
		}(plans[g])
	}
	close(start)
	wg.Wait()
	res.Ev("reused_target_concurrent_goroutines", int64(goroutines))
	if len(bad) > 0 {
		sig := sigReuse
		if strings.HasPrefix(bad[0], "panic") {
			sig = "panic-under-concurrency"
		}
		res.Violate(sig, "%s; %s", bad[0], w.desc)
		return
	}
	if k, how := w.changed(); k >= 0 {
		res.Violate(sigReuse, "%s was modified by concurrent Unpack calls, each goroutine into a target of its own: %s. %s", w.names[k], how, w.desc)
	}
	return
}

// nilReceiver: a nil *Config is not a configuration with a state (outside the
// property, class C07); the reads are still called on it once per case and
// panics are counted as a monitor, not judged.
func nilReceiver(res *harness.R) {
	var c *ucfg.Config
	calls := map[string]func(){
		"GetFields":     func() { c.GetFields() },
		"Has":           func() { c.Has("a", -1) },
		"Child":         func() { c.Child("a", -1) },
		"CountField":    func() { c.CountField("") },
		"String":        func() { c.String("a", -1) },
		"Path":          func() { c.Path(".") },
		"FlattenedKeys": func() { c.FlattenedKeys() },
		"Unpack":        func() { var m map[string]interface{}; c.Unpack(&m) },
		"merge source":  func() { ucfg.New().Merge(c) },
	}
	for name, f := range calls {
		if p, _, _ := harness.Safe(f); p {
			res.Ev("nil_receiver_read_panics(monitor only)", 1)
			res.SetAdd("nil_receiver_panics_in", name)
		}
	}
}
