package c11

// Option-set twins: the same reads repeated under DIFFERENT option sets in one
// process. What a reader passes (PathSep, EscapePath, MaxIdx, EnableNumKeys,
// StructTag, ValidatorTag, Env, Resolve, merge policy) must not influence what
// another reader - earlier, later or concurrent - obtains.
//
// A worker can not start a fresh process per read, so "the result running
// alone" is taken from a twin: K isomorphic configs ("instances") are built,
// every name and path element of instance i carries a token that is unique for
// (case index, i) - nothing in this process has ever parsed, resolved or
// reflected on these names or on the struct types carrying them as tags - and
// instance i is read FIRST under option set i. These cold results, with the
// token normalised away, are the reference for set i on every other instance,
// where other option sets came first (sequentially, both orders) or come at
// the same time (concurrently, on further untouched instances).
// The instances are built under an option set no reader uses (PathSep("|"),
// MaxIdx(1)), so that the build itself does not pre-parse a reader's name.

import (
	"fmt"
	"math/rand"
	"reflect"
	"sort"
	"strconv"
	"strings"
	"sync"

	ucfg "github.com/elastic/go-ucfg"
	"github.com/elastic/go-ucfg/parse"

	"verif/internal/harness"
	"verif/internal/model"
)

type oset struct {
	sep     string // "", ".", "/"
	esc     bool   // EscapePath()
	maxIdx  bool   // MaxIdx(1)
	numKeys bool   // EnableNumKeys(true)
	stag    bool   // StructTag("alt")
	vtag    bool   // ValidatorTag("vt")
	env     int    // 0 none, 1, 2: Env(instance env k)
	res     int    // 0 none, 1, 2: Resolve(resolver k)
	pol     int    // 0 default, 1 ReplaceValues, 2 AppendValues, 3 PrependValues
}

var dimNames = []string{"PathSep", "EscapePath", "MaxIdx", "EnableNumKeys", "StructTag", "ValidatorTag", "Env", "Resolve", "MergePolicy"}

func (s oset) diff(t oset) []string {
	var d []string
	add := func(b bool, i int) {
		if b {
			d = append(d, dimNames[i])
		}
	}
	add(s.sep != t.sep, 0)
	add(s.esc != t.esc, 1)
	add(s.maxIdx != t.maxIdx, 2)
	add(s.numKeys != t.numKeys, 3)
	add(s.stag != t.stag, 4)
	add(s.vtag != t.vtag, 5)
	add(s.env != t.env, 6)
	add(s.res != t.res, 7)
	add(s.pol != t.pol, 8)
	return d
}

func otherInt(r *rand.Rand, cur, n int) int {
	v := r.Intn(n - 1)
	if v >= cur {
		v++
	}
	return v
}

var seps = []string{"", ".", "/"}

func (s oset) flip(d int, r *rand.Rand) oset {
	switch d {
	case 0:
		cur := 0
		for i, x := range seps {
			if x == s.sep {
				cur = i
			}
		}
		s.sep = seps[otherInt(r, cur, len(seps))]
	case 1:
		s.esc = !s.esc
	case 2:
		s.maxIdx = !s.maxIdx
	case 3:
		s.numKeys = !s.numKeys
	case 4:
		s.stag = !s.stag
	case 5:
		s.vtag = !s.vtag
	case 6:
		s.env = otherInt(r, s.env, 3)
	case 7:
		s.res = otherInt(r, s.res, 3)
	case 8:
		s.pol = otherInt(r, s.pol, 4)
	}
	return s
}

func randomSet(r *rand.Rand) oset {
	s := oset{
		esc: r.Intn(2) == 0, maxIdx: r.Intn(3) == 0, numKeys: r.Intn(3) == 0,
		stag: r.Intn(3) == 0, vtag: r.Intn(3) == 0,
		env: r.Intn(3), res: r.Intn(3), pol: r.Intn(4),
	}
	// a separator in 5 of 6 sets: without one most other path options are idle
	switch r.Intn(6) {
	case 0:
		s.sep = ""
	case 1, 2:
		s.sep = "/"
	default:
		s.sep = "."
	}
	return s
}

func (s oset) label() string {
	var l []string
	if s.sep != "" {
		l = append(l, "PathSep("+strconv.Quote(s.sep)+")")
	}
	if s.esc {
		l = append(l, "EscapePath()")
	}
	if s.maxIdx {
		l = append(l, "MaxIdx(1)")
	}
	if s.numKeys {
		l = append(l, "EnableNumKeys(true)")
	}
	if s.stag {
		l = append(l, `StructTag("alt")`)
	}
	if s.vtag {
		l = append(l, `ValidatorTag("vt")`)
	}
	if s.env != 0 {
		l = append(l, fmt.Sprintf("Env(e%d)", s.env))
	}
	if s.res != 0 {
		l = append(l, fmt.Sprintf("Resolve(r%d)", s.res))
	}
	if s.pol != 0 {
		l = append(l, []string{"", "ReplaceValues", "AppendValues", "PrependValues"}[s.pol])
	}
	if len(l) == 0 {
		return "(no options)"
	}
	return strings.Join(l, ",")
}

var resolvers = [3]func(string) (string, parse.Config, error){
	nil,
	func(name string) (string, parse.Config, error) {
		if strings.HasPrefix(name, "x") {
			return "from-r1", parse.NoopConfig, nil
		}
		return "", parse.NoopConfig, ucfg.ErrMissing
	},
	func(name string) (string, parse.Config, error) {
		if strings.HasPrefix(name, "x") {
			return "from-r2", parse.NoopConfig, nil
		}
		return "", parse.NoopConfig, ucfg.ErrMissing
	},
}

func (s oset) options(in *instance) []ucfg.Option {
	var o []ucfg.Option
	if s.sep != "" {
		o = append(o, ucfg.PathSep(s.sep))
	}
	if s.esc {
		o = append(o, ucfg.EscapePath())
	}
	if s.maxIdx {
		o = append(o, ucfg.MaxIdx(1))
	}
	if s.numKeys {
		o = append(o, ucfg.EnableNumKeys(true))
	}
	if s.stag {
		o = append(o, ucfg.StructTag("alt"))
	}
	if s.vtag {
		o = append(o, ucfg.ValidatorTag("vt"))
	}
	if s.env != 0 {
		o = append(o, ucfg.Env(in.env[s.env]))
	}
	if s.res != 0 {
		o = append(o, ucfg.Resolve(resolvers[s.res]))
	}
	switch s.pol {
	case 1:
		o = append(o, ucfg.ReplaceValues)
	case 2:
		o = append(o, ucfg.AppendValues)
	case 3:
		o = append(o, ucfg.PrependValues)
	}
	return o
}

type instance struct {
	tok   string
	num   string
	c     *ucfg.Config
	env   [3]*ucfg.Config
	names []string
	types []reflect.Type // one single-field struct type per probed tag pair
	fp    string
}

// token: letters only (digits are left to the numeric name), unique per (idx, k)
func token(idx, k int) string {
	n := idx*64 + k
	b := []byte("zq")
	for i := 0; i < 5; i++ {
		b = append(b, byte('a'+n%26))
		n /= 26
	}
	return string(b)
}

func newInstance(idx, k int) *instance {
	t := token(idx, k)
	in := &instance{tok: t, num: strconv.Itoa(30 + (idx*64+k)%990)}
	obj := func(kv ...interface{}) map[string]interface{} {
		m := map[string]interface{}{}
		for i := 0; i < len(kv); i += 2 {
			m[kv[i].(string)] = kv[i+1]
		}
		return m
	}
	m := obj(
		"[n"+t+".m"+t+"]", "lit-dot",
		"[n"+t+"/m"+t+"]", "lit-slash",
		"[n"+t, obj("m"+t+"]", "nested-br"),
		"a"+t, obj("b"+t, "nested-ab"),
		"a"+t+".b"+t, "flat-dot",
		"a"+t+"/b"+t, "flat-slash",
		"d"+t, obj("2", "named-two"),
		"l"+t, []interface{}{"e0", "e1", "e2", "e3"},
		in.num, "numkey",
		"i"+t, 7,
		"r"+t, "${x"+t+"}",
		"s"+t, "pre-${x"+t+":dflt}",
		"o"+t, obj("p"+t, obj("z", 1)),
		"o"+t+".p"+t, obj("y", 2),
		"o"+t+"/p"+t, obj("w", 3),
	)
	// built under options no reader uses: no key holds "|", every numeral above
	// 1 is a name, lists come as Go slices
	c, err := ucfg.NewFrom(m, ucfg.PathSep("|"), ucfg.MaxIdx(1), ucfg.VarExp)
	if err != nil {
		panic(err)
	}
	in.c = c
	for k := 1; k <= 2; k++ {
		e, err := ucfg.NewFrom(obj("x"+t, fmt.Sprintf("from-e%d", k)), ucfg.PathSep("|"), ucfg.MaxIdx(1))
		if err != nil {
			panic(err)
		}
		in.env[k] = e
	}
	in.names = []string{
		"[n" + t + ".m" + t + "]", "[n" + t + "/m" + t + "]",
		"a" + t + ".b" + t, "a" + t + "/b" + t,
		"d" + t + ".2", "d" + t + "/2", "l" + t + ".2", "l" + t + "/2",
		in.num, "r" + t, "s" + t, "i" + t,
	}
	str, integer, strs, cfgp := reflect.TypeOf(""), reflect.TypeOf(0), reflect.TypeOf([]string(nil)), reflect.TypeOf((*ucfg.Config)(nil))
	field := func(ft reflect.Type, tag string) {
		in.types = append(in.types, reflect.StructOf([]reflect.StructField{{Name: "F", Type: ft, Tag: reflect.StructTag(tag)}}))
	}
	q := strconv.Quote
	field(str, "config:"+q("[n"+t+".m"+t+"]")+" alt:"+q("a"+t+".b"+t))
	field(str, "config:"+q("[n"+t+"/m"+t+"]")+" alt:"+q("a"+t+"/b"+t))
	field(str, "config:"+q("a"+t+".b"+t)+" alt:"+q("[n"+t+".m"+t+"]"))
	field(str, "config:"+q("d"+t+".2")+" alt:"+q("l"+t+".2"))
	field(str, "config:"+q("l"+t+"/2")+" alt:"+q("d"+t+"/2"))
	field(str, "config:"+q(in.num)+" alt:"+q("s"+t))
	field(str, "config:"+q("r"+t)+" alt:"+q(in.num))
	field(integer, "config:"+q("i"+t)+" validate:\"min=1\" vt:\"min=100\"")
	field(integer, "config:"+q("i"+t)+" alt:"+q("i"+t)+" validate:\"max=5\" vt:\"max=9\"")
	field(strs, "config:"+q("l"+t)+" alt:"+q("l"+t))
	field(cfgp, "config:"+q("o"+t+".p"+t)+" alt:"+q("o"+t+"/p"+t))
	in.fp = fingerprint(c) + fingerprint(in.env[1]) + fingerprint(in.env[2])
	return in
}

func (in *instance) norm(s string) string {
	s = strings.ReplaceAll(s, in.tok, "#")
	return strings.ReplaceAll(s, in.num, "<N>")
}

// reads performs every probe of the instance under one option set and returns
// the normalised results in a fixed order (parallel to readNames()).
func (in *instance) reads(s oset) []string {
	o := s.options(in)
	c := in.c
	var out []string
	add := func(v string) { out = append(out, in.norm(v)) }
	for _, n := range in.names {
		n := n
		add(func() string { v, err := c.String(n, -1, o...); return canon(v, err) }())
		add(func() string { v, err := c.Has(n, -1, o...); return fmt.Sprint(v, err != nil) }())
		add(func() string { v, err := c.CountField(n, o...); return fmt.Sprint(v, err != nil) }())
	}
	for _, n := range []string{"o" + in.tok + ".p" + in.tok, "o" + in.tok + "/p" + in.tok, "[n" + in.tok} {
		ch, err := c.Child(n, -1, o...)
		if err != nil {
			add("error")
			continue
		}
		var m map[string]interface{}
		err = ch.Unpack(&m, o...)
		add(canon(m, err) + "|" + ch.Path(".") + "|" + strings.Join(sorted(ch.GetFields()), ","))
	}
	for _, t := range in.types {
		p := reflect.New(t)
		f := p.Elem().Field(0)
		if f.Kind() == reflect.Slice {
			f.Set(reflect.ValueOf([]string{"pre"}))
		}
		if err := c.Unpack(p.Interface(), o...); err != nil {
			add("error")
			continue
		}
		if sub, ok := f.Interface().(*ucfg.Config); ok {
			if sub == nil {
				add("nil")
				continue
			}
			var m map[string]interface{}
			err := sub.Unpack(&m, o...)
			add(canon(m, err))
			continue
		}
		add(fmt.Sprintf("%q", f.Interface()))
	}
	{
		var m map[string]interface{}
		err := c.Unpack(&m, o...)
		add(canon(m, err))
	}
	add(strings.Join(c.FlattenedKeys(o...), ","))
	{
		dst := ucfg.New()
		if err := dst.Merge(c, o...); err != nil {
			add("error")
		} else {
			add(strings.Join(dst.FlattenedKeys(o...), ","))
		}
	}
	return out
}

func (in *instance) readNames() []string {
	var l []string
	for _, n := range in.names {
		n = in.norm(n)
		l = append(l, "String("+n+")", "Has("+n+")", "CountField("+n+")")
	}
	l = append(l, "Child(o#.p#)", "Child(o#/p#)", "Child([n#)")
	for _, t := range in.types {
		l = append(l, "Unpack(struct{F "+t.Field(0).Type.String()+" `"+in.norm(string(t.Field(0).Tag))+"`})")
	}
	return append(l, "Unpack(map)", "FlattenedKeys", "New().Merge(c,opts).FlattenedKeys")
}

// twins holds the option sets of a case and what each of them got alone.
type twins struct {
	idx      int
	sets     []oset
	truth    [][]string
	names    []string
	reported map[string]bool
	// attribution experiments (see attribute)
	attributed map[int][]string
	nextInst   int
}

// variants lists every option set differing from s in exactly one dimension.
func (s oset) variants() (dims []string, sets []oset) {
	add := func(d int, v oset) { dims = append(dims, dimNames[d]); sets = append(sets, v) }
	for _, x := range seps {
		if x != s.sep {
			v := s
			v.sep = x
			add(0, v)
		}
	}
	for d := 1; d <= 5; d++ {
		add(d, s.flip(d, nil))
	}
	for x := 0; x < 3; x++ {
		if x != s.env {
			v := s
			v.env = x
			add(6, v)
		}
		if x != s.res {
			v := s
			v.res = x
			add(7, v)
		}
	}
	for x := 0; x < 4; x++ {
		if x != s.pol {
			v := s
			v.pol = x
			add(8, v)
		}
	}
	return
}

// attribute finds out by experiment which option the deviating call q of
// reader j is sensitive to: for every option set differing from j's in ONE
// dimension, a further untouched instance is read under that set first and
// under j's set second. The dimensions whose earlier read changes j's answer
// make the signature (computed from observed behaviour, not from the draw).
func (tw *twins) attribute(res *harness.R, j, q int) []string {
	dims, sets := tw.sets[j].variants()
	culprit := map[string]bool{}
	for n := range sets {
		if tw.nextInst >= 64 {
			break
		}
		in := newInstance(tw.idx, tw.nextInst)
		tw.nextInst++
		var got []string
		harness.Safe(func() {
			in.reads(sets[n])
			got = in.reads(tw.sets[j])
		})
		res.Eval(2 * len(tw.names))
		if q < len(got) && got[q] != tw.truth[j][q] {
			culprit[dims[n]] = true
		}
	}
	var l []string
	for _, d := range dimNames {
		if culprit[d] {
			l = append(l, d)
		}
	}
	return l
}

func (tw *twins) judge(res *harness.R, in *instance, j int, got []string, phase string) {
	for q, g := range got {
		if g == tw.truth[j][q] {
			continue
		}
		res.Ev("answers_differing_from_the_reader_alone", 1)
		dims, done := tw.attributed[q]
		if !done {
			if len(tw.attributed) >= 2 {
				continue // two calls per case are traced to their option; the others are counted
			}
			dims = tw.attribute(res, j, q)
			tw.attributed[q] = dims
		}
		sig := "read-result-depends-on-options-of-other-reads:" + strings.Join(dims, "+")
		if len(dims) == 0 {
			sig = "read-result-depends-on-options-of-other-reads:not-reproduced-by-one-earlier-read"
		}
		if tw.reported[sig] {
			continue
		}
		tw.reported[sig] = true
		like := "the answer no reader gets alone"
		for k := range tw.sets {
			if k != j && tw.truth[k][q] == g {
				like = "what e.g. a reader with {" + tw.sets[k].label() + "} gets alone"
				break
			}
		}
		res.Violate(sig, "%s with options {%s} returned %q (%s) on a config that readers with other option sets %s; on an identical config (names differ in a token only) that no other reader had touched the same call returned %q. Traced on further untouched twins (one earlier read under a set differing in ONE option, then this read): the answer changes when the earlier reader differs in %v. Config instance token %q numeric name %q, case %d",
			tw.names[q], tw.sets[j].label(), g, like, phase, tw.truth[j][q], dims, in.tok, in.num, tw.idx)
	}
}

func runOptionTwins(res *harness.R, r *rand.Rand, idx, goroutines int) {
	base := randomSet(r)
	sets := []oset{base}
	for d := range dimNames {
		sets = append(sets, base.flip(d, r))
	}
	sets = append(sets, randomSet(r), randomSet(r))
	K := len(sets)
	tw := &twins{idx: idx, sets: sets, truth: make([][]string, K), reported: map[string]bool{}, attributed: map[int][]string{}, nextInst: 2 * K}
	inst := make([]*instance, 2*K)
	for k := range inst {
		inst[k] = newInstance(idx, k)
	}
	tw.names = inst[0].readNames()

	// cold truths: set j is the first reader instance j ever had
	for j := 0; j < K; j++ {
		var got []string
		if p, pv, where := harness.Safe(func() { got = inst[j].reads(sets[j]) }); p {
			res.Violate("panic", "reads with options {%s} panicked: %s at %s", sets[j].label(), pv, where)
			return
		}
		tw.truth[j] = got
		res.Eval(len(got))
	}
	// evidence that a dimension is exercised: flipping it alone changes at least one answer
	for d := range dimNames {
		n := 0
		for q := range tw.truth[0] {
			if tw.truth[0][q] != tw.truth[1+d][q] {
				n++
			}
		}
		if n > 0 {
			res.SetAdd("option_dimension_changes_answers", dimNames[d])
			res.Ev("answers_changed_by_flipping_"+dimNames[d], int64(n))
		}
	}
	// sequential: every set on every instance, in a drawn order (instance i was
	// read under set i first, so for every pair both orders occur)
	type task struct{ i, j int }
	var tasks []task
	for i := 0; i < K; i++ {
		for j := 0; j < K; j++ {
			tasks = append(tasks, task{i, j})
		}
	}
	r.Shuffle(len(tasks), func(a, b int) { tasks[a], tasks[b] = tasks[b], tasks[a] })
	for _, t := range tasks {
		var got []string
		if p, pv, where := harness.Safe(func() { got = inst[t.i].reads(sets[t.j]) }); p {
			res.Violate("panic", "reads with options {%s} panicked: %s at %s", sets[t.j].label(), pv, where)
			return
		}
		res.Eval(len(got))
		res.Ev("reads_repeated_under_another_option_set", int64(len(got)))
		tw.judge(res, inst[t.i], t.j, got, "had read before")
	}
	for i := 0; i < K; i++ {
		if fp := fingerprint(inst[i].c) + fingerprint(inst[i].env[1]) + fingerprint(inst[i].env[2]); fp != inst[i].fp {
			res.Violate("shared-config-modified-by-reads", "reads under %d option sets changed the stored state of the config or of an Env config: %q vs %q", K, firstDiff(inst[i].fp, fp), firstDiff(fp, inst[i].fp))
			return
		}
	}

	// concurrent: untouched instances K..2K-1, all (instance, set) pairs spread
	// over the goroutines, so that the first readers of a name differ in their options
	tasks = tasks[:0]
	for i := K; i < 2*K; i++ {
		for j := 0; j < K; j++ {
			tasks = append(tasks, task{i, j})
		}
	}
	r.Shuffle(len(tasks), func(a, b int) { tasks[a], tasks[b] = tasks[b], tasks[a] })
	type outcome struct {
		t     task
		got   []string
		panic string
	}
	outs := make([][]outcome, goroutines)
	var wg sync.WaitGroup
	start := make(chan struct{})
	for g := 0; g < goroutines; g++ {
		wg.Add(1)
		go func(g int) {
			defer wg.Done()
			<-start
			for n := g; n < len(tasks); n += goroutines {
				t := tasks[n]
				var got []string
				p, pv, where := harness.Safe(func() { got = inst[t.i].reads(sets[t.j]) })
				o := outcome{t: t, got: got}
				if p {
					o.panic = pv + " at " + where
				}
				outs[g] = append(outs[g], o)
			}
		}(g)
	}
	close(start)
	wg.Wait()
	for g := range outs {
		for _, o := range outs[g] {
			if o.panic != "" {
				res.Violate("panic-under-concurrency", "reads with options {%s} panicked: %s", sets[o.t.j].label(), o.panic)
				return
			}
			res.Eval(len(o.got))
			res.Ev("reads_concurrent_with_other_option_sets", int64(len(o.got)))
			tw.judge(res, inst[o.t.i], o.t.j, o.got, fmt.Sprintf("were reading at the same time (%d goroutines, first reads of that config)", goroutines))
		}
	}
	for i := K; i < 2*K; i++ {
		if fp := fingerprint(inst[i].c) + fingerprint(inst[i].env[1]) + fingerprint(inst[i].env[2]); fp != inst[i].fp {
			res.Violate("shared-config-modified-by-reads", "concurrent reads under %d option sets changed the stored state of the config or of an Env config: %q vs %q", K, firstDiff(inst[i].fp, fp), firstDiff(fp, inst[i].fp))
			return
		}
	}
	_ = sort.Strings
	_ = model.CanonIfc
}
