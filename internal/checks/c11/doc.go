// Package c11: see DESIGN.md section 3 C11.
package c11
