// Package c11: reads are pure, so concurrent readers are safe.
package c11

import (
	"bytes"
	"fmt"
	"math/rand"
	"os"
	"path/filepath"
	"reflect"
	"runtime"
	"sort"
	"strconv"
	"strings"
	"sync"
	"sync/atomic"
	"time"

	ucfg "github.com/elastic/go-ucfg"
	"github.com/elastic/go-ucfg/cfgutil"
	"github.com/elastic/go-ucfg/parse"

	"verif/internal/harness"
	"verif/internal/model"
)

type check struct{}

func init() { harness.Register(check{}) }

func (check) ID() string { return "C11" }

func (check) NeedsRace() bool { return true }

func (check) Cases(tier string) int {
	if tier == "thorough" {
		return 400
	}
	return 24
}

func (check) Rule() string {
	return "each case builds one shared config rich in dynamic values (references, splices, resolver-provided text that parses into objects and lists, nil values, settings captured as *Config) and lets 2-32 goroutines perform a shuffled mix of reads on it at the same time (Unpack into interface{}/typed struct/*Config capture, String/Int/Bool getters, Child, Has, CountField, GetFields, Path, FlattenedKeys, using it and a captured sub-config as merge source, directly and through cfgutil.Collector.Add followed by another Add), 10 rounds per config, preceded by 3 cold rounds in which the goroutines are the first readers of a freshly built identical config (lazily initialised state is initialised under concurrency); the worker is built with the Go race detector (reports counted from the race log per case); at the yield hook inside dynamic value evaluation a PRNG-chosen goroutine yields or sleeps 0-50us; every result is compared with the sequential baseline taken before the goroutines start; the non-evaluating fingerprint of the shared config is compared before/after every round. Fourth wave, per case: (a) option-set twins - 24 isomorphic configs whose every name, path element, struct tag and reference carries a token unique for (case, instance), so that nothing in the process has parsed/resolved/reflected on them before; 12 option sets (a drawn base over PathSep none/./slash, EscapePath, MaxIdx, EnableNumKeys, StructTag, ValidatorTag, Env of two configs, Resolve of two resolvers, Replace/Append/PrependValues; the base with each of the 9 dimensions flipped alone; 2 more drawn sets); instance j is read FIRST under set j (String/Has/CountField of 12 names incl. bracketed names holding the separator, numeric elements, a purely numeric name, references into Env/resolvers; Child+Unpack; Unpack into 11 single-field struct types built with reflect.StructOf whose tags carry the names, a second tag and validator tags; Unpack(map), FlattenedKeys, merge source), which gives the answer of that reader alone; then every set is run on every instance in a drawn order (both orders of every pair occur) and, on 12 untouched instances, by all goroutines at once - every answer must be the one its option set got alone; (b) 2-4 ordinary Unpack calls into ONE target value with *Config, []*Config, map[string]*Config, **Config fields (zero or pre-filled with configs of the caller's own), drawn from two configs, two Env configs and four merge policies: none of the four configs may change (fingerprint and rendering after every call), then the same with one target per goroutine while the configs are read. Fifth wave: the shared configs (and the configs of (b)) hold EMPTY objects and lists - literal, as list elements, behind a reference, emptied by Remove before the first read - and lists/objects of plain values only; after every merge with the shared config as source (Merge into an empty and a filled destination, Unpack into a config of the caller's own, cfgutil.Collector, the config embedded in a map, the captured sub-config) the destination lives on: every setting it stores that is no container is overwritten, every dictionary gets a new setting, every list one more element (blank containers both), and the stored state of the source must still be what it was when the case began; each goroutine does one of these per round with a destination of its own. Sixth wave, per case: five more shared configs (S object shaped with objects, lists, references to them; T; E; two list shaped L0 L1 of plain values, nulls, references, splices, objects, nested lists; O with handles of its lists and objects) are only READ by 30 calls that modify a config of the caller's own: (a) 14 merges (Merge, Unpack into *Config, cfgutil.Collector, Go data) under VarExp and Env(S) / Env(E),Env(S) / Env(S),Env(E) / Env(T),Env(S) and a drawn policy into a destination whose references - top level, below a name, as list elements, through a reference chain of its own - are defined only in S (objects, nested objects, lists, an object in a list, references to these, plain values, an empty object, a default) while the source (S itself, T, Go data) has objects / lists / plain values / references / null under the same names; (b) 16 merges of a struct (14 shapes: Config and *Config field tagged inline, at top level, under a name, next to named fields, behind a pointer / interface, two levels down, in a slice twice, inline of an inline, in Go maps and lists, not inlined) whose field is L0 / L1 / O / a handle of a list or object of O, into an empty or filled destination with and without VarExp / Env(E) and a drawn policy. After every call, after the writes all over the destination that follow, and after the same call again: fingerprint (incl. parent link, holder and stored name of every node) and rendering (Unpack, FlattenedKeys, Path of every child) of all shared configs are what they were; the destination is the same both times; then up to 8 goroutines make all 30 calls in drawn orders with destinations of their own and read the shared configs in between, inside a race-log window of its own. Distinct interleavings are counted from the merged stream of goroutine ids at the hook. Non-trivial = a round in which at least two goroutines overlapped at the hook (interleaving differs from serial order); distinct = distinct (config, round interleaving)."
}

func (check) Assumptions() []string {
	return []string{
		"the race detector only reports races on executions that happen; interleavings are widened by yields/sleeps at the evaluation hook, not enumerated",
		"safety of concurrent WRITERS is not claimed by the property and not exercised",
		"a read-only history is linearizable iff every read equals its sequential result, which is what is compared (no history checker needed)",
		"a worker can not give every read a fresh process: 'the result running alone' under an option set is taken from an isomorphic twin config whose names nothing in the process has seen before and which that option set reads first; state warmed by the construction of the configs themselves (done under PathSep(\"|\"), MaxIdx(1), which no reader uses) is not separated from a fresh process",
		"Unpack into a target the caller filled with a handle of the config being read (s.A from an earlier Unpack or Child moved by hand into another field or struct, then unpacked into) is the caller handing a setting in as the TARGET of a merge: outside, not generated. A target that only Unpack itself has filled (the same value passed to Unpack again) is inside: the caller wrote nothing",
		"a config modified by an Unpack of ANOTHER config, or an Env config modified by a call that does not even use it, counts: the statement's third sentence (every read obtains what it obtains alone) fails for the next read of the modified config, and only listed reads were performed",
		"a nil *Config receiver is not a configuration with a state (Unpack reports ErrNilConfig, the other readers panic - alone and concurrently alike): class of C07, only monitored here",
		"which of several failing settings a whole-config Unpack reports, how much of the target was filled before it failed, and the order of GetFields are not determined even for one reader alone (map iteration): failing reads are compared as 'error', GetFields as a set (as in C09)",
		"configs linked below themselves with SetChild are the product of a write and are not generated",
		"writes are performed only on destinations of merges (configs the writing goroutine owns) and before the first read (Remove emptying containers); what they do to the destination is not judged here, only that the SOURCE of the merge stays what it was",
	}
}

type op struct {
	name string
	run  func() string
}

func canon(v interface{}, err error) string {
	if err != nil {
		return "error"
	}
	return model.CanonIfc(v)
}

type typed struct {
	A   string                 `config:"a"`
	N   int                    `config:"n"`
	L   []string               `config:"l"`
	Sub map[string]interface{} `config:"sub"`
	Cap *ucfg.Config           `config:"sub"`
	Obj *ucfg.Config           `config:"fromres"`
}

func buildShared(r *rand.Rand) (*ucfg.Config, []ucfg.Option, string) {
	words := []string{"alpha", "beta", "7", "true", "x y"}
	w := func() string { return words[r.Intn(len(words))] }
	m := map[string]interface{}{
		"a":    w(),
		"n":    r.Intn(100),
		"l":    []interface{}{w(), "${a}", "p-${a}-${n}"},
		"ref":  "${a}",
		"spl":  "${a}/${n}/${sub.k}",
		"dflt": "${missing:${a}}",
		"alt":  "${a:+yes}",
		"sub": map[string]interface{}{
			"k":    w(),
			"deep": map[string]interface{}{"r": "${sub.k}", "nil": nil, "list": []interface{}{1, "${n}", nil}},
			"up":   "${ref}",
		},
		"obj":     "${sub}",
		"objdeep": "${sub.deep}",
		"fromres": "${RES_OBJ}",
		"reslist": "${RES_LIST}",
		"resstr":  "x-${RES_STR}",
		"nil":     nil,
		"twice":   "${a} ${a}",
	}
	if r.Intn(2) == 0 {
		m["cyc"] = "${cyc:absorbed}"
	}
	emptyMore := addEmpties(r, m) // fifth wave: empty containers next to the filled ones
	desc := fmt.Sprintf("%v", m)
	opts := []ucfg.Option{ucfg.PathSep("."), ucfg.VarExp}
	c, err := ucfg.NewFrom(m, opts...)
	if err != nil {
		panic(err)
	}
	emptyMore(c)
	resolver := func(name string) (string, parse.Config, error) {
		switch name {
		case "RES_OBJ":
			return "{x: 1, y: [a, b], z: {q: true}}", parse.DefaultConfig, nil
		case "RES_LIST":
			return "[1, two, {k: v}]", parse.DefaultConfig, nil
		case "RES_STR":
			return "resolved", parse.NoopConfig, nil
		}
		return "", parse.NoopConfig, ucfg.ErrMissing
	}
	opts = append(opts, ucfg.Resolve(resolver))
	return c, opts, desc + " (then Remove of sub.was.gone and wasl.0 where present)"
}

func fingerprint(c *ucfg.Config) string {
	var b strings.Builder
	for _, n := range ucfg.VerifWalk(c) {
		fmt.Fprintf(&b, "%s|%s|%x|%x|%q|%x|%x|%q|%q|%d|%d|%v\n", n.Walk, n.Kind, n.Addr, n.Fields, n.Field, n.Parent, n.Holder, n.Text, n.Source, n.NDict, n.NArr, n.HasArr)
	}
	return b.String()
}

func ops(c *ucfg.Config, captured *ucfg.Config, o []ucfg.Option, probe *srcProbe) []op {
	str := func(k string) op {
		return op{"String(" + k + ")", func() string { s, err := c.String(k, -1, o...); return canon(s, err) }}
	}
	l := []op{
		{"Unpack(map)", func() string {
			var m map[string]interface{}
			err := c.Unpack(&m, o...)
			return canon(m, err)
		}},
		{"Unpack(typed)", func() string {
			var t typed
			if err := c.Unpack(&t, o...); err != nil {
				return "error"
			}
			var capm, objm map[string]interface{}
			e1 := t.Cap.Unpack(&capm, o...)
			e2 := t.Obj.Unpack(&objm, o...)
			return fmt.Sprintf("%q|%d|%q|%s|%s|%s", t.A, t.N, t.L, model.CanonIfc(t.Sub), canon(capm, e1), canon(objm, e2))
		}},
		str("a"), str("ref"), str("spl"), str("dflt"), str("alt"), str("sub.deep.r"), str("sub.up"), str("resstr"), str("twice"), str("l.2"), str("cyc"), str("nope"),
		{"Int(n)", func() string { v, err := c.Int("n", -1, o...); return canon(v, err) }},
		{"Int(sub.deep.list.1)", func() string { v, err := c.Int("sub.deep.list", 1, o...); return canon(v, err) }},
		{"Bool(fromres.z.q)", func() string { v, err := c.Bool("fromres.z.q", -1, o...); return canon(v, err) }},
		{"Child(obj).Unpack", func() string {
			ch, err := c.Child("obj", -1, o...)
			if err != nil {
				return "error"
			}
			var m map[string]interface{}
			return canon(m, ch.Unpack(&m, o...)) + "|" + ch.Path(".") + "|" + strings.Join(sorted(ch.GetFields()), ",")
		}},
		{"Child(fromres).Unpack", func() string {
			ch, err := c.Child("fromres", -1, o...)
			if err != nil {
				return "error"
			}
			var m map[string]interface{}
			err = ch.Unpack(&m, o...)
			return canon(m, err)
		}},
		{"Child(nil)", func() string {
			ch, err := c.Child("nil", -1, o...)
			if err != nil {
				return "error"
			}
			return fmt.Sprint(ch.IsDict(), ch.IsArray(), ch.Path("."))
		}},
		{"Has", func() string {
			a, e1 := c.Has("sub.deep.r", -1, o...)
			b, e2 := c.Has("reslist", 2, o...)
			d, e3 := c.Has("fromres.y", 1, o...)
			e, e4 := c.Has("a.b", -1, o...)
			return fmt.Sprint(a, e1 != nil, b, e2 != nil, d, e3 != nil, e, e4 != nil)
		}},
		{"CountField", func() string {
			a, e1 := c.CountField("l", o...)
			b, e2 := c.CountField("reslist", o...)
			d, e3 := c.CountField("obj", o...)
			e, e4 := c.CountField("", o...)
			return fmt.Sprint(a, e1 != nil, b, e2 != nil, d, e3 != nil, e, e4 != nil)
		}},
		{"GetFields+Path", func() string { return strings.Join(sorted(c.GetFields()), ",") + "|" + c.Path(".") }},
		{"FlattenedKeys", func() string { return strings.Join(c.FlattenedKeys(o...), ",") }},
		{"dst.Merge(shared)", func() string {
			dst := ucfg.New()
			if err := dst.Merge(c, ucfg.PathSep(".")); err != nil {
				return "error"
			}
			var m map[string]interface{}
			return canon(m, dst.Unpack(&m, o...))
		}},
		{"cfgutil.Collector.Add(shared,other)", func() string {
			col := cfgutil.NewCollector(nil, ucfg.PathSep("."))
			if err := col.Add(c, nil); err != nil {
				return "error"
			}
			other, _ := ucfg.NewFrom(map[string]interface{}{"extra": 1, "sub": map[string]interface{}{"added": true}, "l": []interface{}{"x", "y", "z", "more"}})
			if err := col.Add(other, nil); err != nil {
				return "error"
			}
			return strings.Join(sorted(col.Config().GetFields()), ",")
		}},
		{"dst.Merge(shared, MetaData)", func() string {
			// the merge call carries its own source metadata; the source config has none
			dst := ucfg.New()
			if err := dst.Merge(c, ucfg.PathSep("."), ucfg.MetaData(ucfg.Meta{Source: "override.yml"})); err != nil {
				return "error"
			}
			_, err := dst.Int("a", -1, ucfg.PathSep("."))
			return strings.Join(sorted(dst.GetFields()), ",") + fmt.Sprint(err != nil)
		}},
		{"Unpack(*Config target, MetaData)", func() string {
			var t struct {
				Sub *ucfg.Config `config:"sub"`
			}
			if err := c.Unpack(&t, append(append([]ucfg.Option{}, o...), ucfg.MetaData(ucfg.Meta{Source: "reader"}))...); err != nil {
				return "error"
			}
			return strings.Join(sorted(t.Sub.GetFields()), ",")
		}},
		{"dst.Merge(map{emb: shared})", func() string {
			dst := ucfg.New()
			if err := dst.Merge(map[string]interface{}{"emb": c, "k": 1}, ucfg.PathSep(".")); err != nil {
				return "error"
			}
			ch, err := dst.Child("emb", -1)
			if err != nil {
				return "error"
			}
			return strings.Join(sorted(ch.GetFields()), ",")
		}},
	}
	l = append(l, destinationOps(c, captured, o, probe)...)
	if captured != nil {
		l = append(l,
			op{"captured.Unpack", func() string {
				var m map[string]interface{}
				return canon(m, captured.Unpack(&m, o...))
			}},
			op{"captured.String(deep.r)", func() string { s, err := captured.String("deep.r", -1, o...); return canon(s, err) }},
			op{"cfgutil.Collector.Add(captured,other)", func() string {
				// the library's other merge entry point: everything added to a
				// collector is a merge source and must stay as it is
				col := cfgutil.NewCollector(nil, ucfg.PathSep("."))
				if err := col.Add(captured, nil); err != nil {
					return "error"
				}
				other, _ := ucfg.NewFrom(map[string]interface{}{"extra": 1, "deep": map[string]interface{}{"added": true}})
				if err := col.Add(other, nil); err != nil {
					return "error"
				}
				return strings.Join(sorted(col.Config().GetFields()), ",")
			}},
			op{"dst.Merge(captured)", func() string {
				dst := ucfg.New()
				if err := dst.Merge(captured, ucfg.PathSep(".")); err != nil {
					return "error"
				}
				return strings.Join(sorted(dst.GetFields()), ",")
			}},
		)
	}
	return l
}

// mixedOps: a config built with VarExp but WITHOUT a path separator, read by
// readers that pass different option sets (with and without PathSep). What one
// reader passes must not influence what another one gets.
func mixedOps() (*ucfg.Config, []op) {
	c, err := ucfg.NewFrom(map[string]interface{}{
		"a":   map[string]interface{}{"b": "nested"},
		"a.b": "flat",
		"r":   "${a.b:fallback}",
		"s":   "${a.b}",
		"t":   "${a.b:+alt}",
		"u":   "${a.b:?boom}",
		"v":   "x-${a.b:dflt}-y",
	}, ucfg.VarExp)
	if err != nil {
		panic(err)
	}
	plain := []ucfg.Option{ucfg.VarExp}
	dotted := []ucfg.Option{ucfg.PathSep("."), ucfg.VarExp}
	slash := []ucfg.Option{ucfg.PathSep("/"), ucfg.VarExp}
	var l []op
	for _, k := range []string{"r", "s", "t", "u", "v"} {
		k := k
		for name, o := range map[string][]ucfg.Option{"plain": plain, "dotted": dotted, "slash": slash} {
			o := o
			l = append(l, op{"mixed:String(" + k + ")/" + name, func() string { s, err := c.String(k, -1, o...); return canon(s, err) }})
		}
	}
	for name, o := range map[string][]ucfg.Option{"plain": plain, "dotted": dotted} {
		o := o
		l = append(l, op{"mixed:Unpack/" + name, func() string {
			var m map[string]interface{}
			err := c.Unpack(&m, o...)
			return canon(m, err)
		}})
	}
	sort.Slice(l, func(i, j int) bool { return l[i].name < l[j].name })
	return c, l
}

func sorted(l []string) []string {
	o := append([]string{}, l...)
	sort.Strings(o)
	return o
}

func gid() int64 {
	var buf [40]byte
	n := runtime.Stack(buf[:], false)
	f := bytes.Fields(buf[:n])
	if len(f) < 2 {
		return -1
	}
	id, _ := strconv.ParseInt(string(f[1]), 10, 64)
	return id
}

// raceReports counts the data race report blocks this process has written so far.
func raceReports() (int, string) {
	p := filepath.Join(harness.Root, "work", "C11"+os.Getenv("VERIF_WORKDIR_SUFFIX"), fmt.Sprintf("race.%d", os.Getpid()))
	b, err := os.ReadFile(p)
	if err != nil {
		return 0, ""
	}
	return bytes.Count(b, []byte("WARNING: DATA RACE")), string(b)
}

// dedupeKeys reduces every race report block after the first `from` ones to
// "<innermost go-ucfg frame of the first access> @ <outermost go-ucfg entry
// point of access 1> x <outermost entry point of access 2>".
func dedupeKeys(log string, from int) []string {
	blocks := strings.Split(log, "WARNING: DATA RACE")
	var keys []string
	for i, blk := range blocks {
		if i == 0 || i <= from {
			continue
		}
		// sections: the two accesses come first, then "Goroutine N ... created at"
		var stacks [][]string
		var cur []string
		inAccess := false
		for _, line := range strings.Split(blk, "\n") {
			t := strings.TrimSpace(line)
			switch {
			case strings.HasPrefix(t, "Write at"), strings.HasPrefix(t, "Read at"), strings.HasPrefix(t, "Previous write at"), strings.HasPrefix(t, "Previous read at"),
				strings.HasPrefix(t, "Atomic"), strings.HasPrefix(t, "Previous atomic"):
				if inAccess {
					stacks = append(stacks, cur)
				}
				cur, inAccess = nil, true
			case strings.HasPrefix(t, "Goroutine "), strings.HasPrefix(t, "===="):
				if inAccess {
					stacks = append(stacks, cur)
				}
				cur, inAccess = nil, false
			case inAccess && strings.HasPrefix(t, "github.com/elastic/go-ucfg"):
				fn := strings.TrimSuffix(t, "()")
				fn = fn[strings.LastIndex(fn, "/")+1:]
				cur = append(cur, fn)
			}
		}
		if inAccess {
			stacks = append(stacks, cur)
		}
		inner, outer := "?", []string{}
		for k, st := range stacks {
			if len(st) == 0 {
				outer = append(outer, "?")
				continue
			}
			if k == 0 {
				inner = st[0]
			}
			outer = append(outer, st[len(st)-1])
		}
		sort.Strings(outer)
		keys = append(keys, inner+"@"+strings.Join(outer, "x"))
	}
	return keys
}

func (check) Run(seed int64, tier string, idx int, verbose bool) harness.Result {
	res := harness.NewR(idx)
	r := rand.New(rand.NewSource(harness.Mix(seed, "C11", idx)))
	bseed := r.Int63()
	shared, o, desc := buildShared(rand.New(rand.NewSource(bseed)))
	if idx < 2 {
		res.Sample = desc
	}
	// capture a sub-config through Unpack into a *Config field
	var cap typed
	var captured *ucfg.Config
	if err := shared.Unpack(&cap, o...); err == nil {
		captured = cap.Cap
	}
	probe := &srcProbe{seed: harness.Mix(seed, "C11/nullslots", idx)}
	nullSlotMonitors(res, shared, probe)
	res.Ev("empty_containers_in_shared_config", int64(emptyContainers(shared)))
	list := ops(shared, captured, o, probe)
	shared2, mixed := mixedOps()
	list = append(list, mixed...)
	fp0, fp0b := fingerprint(shared), fingerprint(shared2)
	// sequential baseline, taken before any goroutine starts
	base := make([]string, len(list))
	for i, op := range list {
		// the reference result of a read comes from a FRESH, identically built
		// config on which nothing else has been read before
		var pristine string
		harness.Safe(func() {
			fs, fo, _ := buildShared(rand.New(rand.NewSource(bseed)))
			var fc *ucfg.Config
			var ft typed
			if fs.Unpack(&ft, fo...) == nil {
				fc = ft.Cap
			}
			fl := ops(fs, fc, fo, probe)
			_, fm := mixedOps()
			fl = append(fl, fm...)
			if len(fl) == len(list) && fl[i].name == op.name {
				pristine = fl[i].run()
			} else {
				pristine = "<op list differs>"
			}
		})
		if p, pv, where := harness.Safe(func() { base[i] = op.run() }); p {
			res.Violate("panic", "sequential %s panicked: %s at %s", op.name, pv, where)
			return res.Done()
		}
		if liveDstViolation(res, probe, desc) {
			return res.Done()
		}
		if base[i] != pristine {
			res.Violate("read-influenced-by-earlier-reads", "%s returned %q on a fresh config and %q on an identical config after other reads had run on it", op.name, pristine, base[i])
			return res.Done()
		}
		// reads are pure: repeating the read alone gives the same result
		var again string
		harness.Safe(func() { again = op.run() })
		if again != base[i] {
			res.Violate("sequential-read-not-repeatable", "%s returned %q then %q on the same config", op.name, base[i], again)
			return res.Done()
		}
		res.Eval(2)
	}
	// reads are pure also across DIFFERENT reads: after all of them ran once,
	// each still gives its first result (in another order), and nothing stored changed
	for _, i := range r.Perm(len(list)) {
		var again string
		harness.Safe(func() { again = list[i].run() })
		res.Eval(1)
		if again != base[i] {
			res.Violate("read-influenced-by-earlier-reads", "%s returned %q alone and %q after the other reads had run on the same config", list[i].name, base[i], again)
			return res.Done()
		}
	}
	if liveDstViolation(res, probe, desc) {
		return res.Done()
	}
	if fingerprint(shared) != fp0 || fingerprint(shared2) != fp0b {
		res.Violate("shared-config-modified-by-reads", "the sequential reads changed the stored state of the config: %q vs %q", firstDiff(fp0, fingerprint(shared)), firstDiff(fingerprint(shared), fp0))
		return res.Done()
	}
	goroutines := []int{2, 4, 8, 16, 32}[r.Intn(5)]
	res.SetAdd("goroutines", strconv.Itoa(goroutines))
	// sixth wave: the shared config as Env of merges into other configs and as
	// inlined Config field of a merged struct; a generator and a race-log window
	// of its own, closed before the general accounting starts
	runEnvInline(res, rand.New(rand.NewSource(harness.Mix(seed, "C11/envinline", idx))), goroutines)
	raceBefore, _ := raceReports()
	rounds := 10
	var hookSeq int64
	// fourth wave: the same reads under different option sets (process-wide
	// state keyed by less than all options), Unpack repeated into one target
	// value (captured *Config fields met again by a later Unpack); generators
	// of their own so that the draws above and below stay what they were
	runOptionTwins(res, rand.New(rand.NewSource(harness.Mix(seed, "C11/optionsets", idx))), idx, goroutines)
	skipFrom, skipTo := runReusedTargets(res, rand.New(rand.NewSource(harness.Mix(seed, "C11/reusedtargets", idx))), goroutines)
	nilReceiver(res)
	// cold rounds: the goroutines are the FIRST readers of a freshly built,
	// identical config (nothing has been evaluated on it, so whatever a read
	// initialises lazily is initialised under concurrency)
	byName := map[string]string{}
	for i, op := range list {
		byName[op.name] = base[i]
	}
	for cold := 0; cold < 3; cold++ {
		cs, co, _ := buildShared(rand.New(rand.NewSource(bseed)))
		cl := ops(cs, nil, co, probe)
		coldHeavy := heavy(cl)
		cfp := fingerprint(cs)
		var wg sync.WaitGroup
		var mismatch atomic.Value
		var evals int64
		start := make(chan struct{})
		for g := 0; g < goroutines; g++ {
			wg.Add(1)
			order := r.Perm(len(cl))
			g := g
			go func(order []int) {
				defer wg.Done()
				<-start
				for _, i := range order {
					want, ok := byName[cl[i].name]
					if !ok {
						continue
					}
					if slot, heavy := coldHeavy[i]; heavy && slot != (cold+g)%len(coldHeavy) {
						continue
					}
					var got string
					p, pv, where := harness.Safe(func() { got = cl[i].run() })
					atomic.AddInt64(&evals, 1)
					if p {
						mismatch.Store(fmt.Sprintf("panic in %s: %s at %s", cl[i].name, pv, where))
						return
					}
					if got != want {
						mismatch.Store(fmt.Sprintf("%s returned %q as one of the first concurrent reads of a fresh config, %q alone", cl[i].name, got, want))
						return
					}
				}
			}(order)
		}
		close(start)
		wg.Wait()
		res.Eval(int(evals))
		res.Ev("cold_rounds_first_readers_concurrent", 1)
		if liveDstViolation(res, probe, desc) {
			break
		}
		if m := mismatch.Load(); m != nil {
			sig := "concurrent-first-read-differs-from-sequential"
			if strings.HasPrefix(m.(string), "panic") {
				sig = "panic-under-concurrency"
			}
			res.Violate(sig, "%s; %d goroutines, cold round %d; config %s", m, goroutines, cold, desc)
			break
		}
		if after := fingerprint(cs); after != cfp {
			res.Violate("shared-config-modified-by-reads", "fingerprint of a fresh config changed during its first concurrent reads (%d goroutines): %q vs %q; config %s", goroutines, firstDiff(cfp, after), firstDiff(after, cfp), desc)
			break
		}
	}
	heavySlots := heavy(list)
	for round := 0; round < rounds; round++ {
		fpBefore := fingerprint(shared) + fingerprint(shared2)
		var mu sync.Mutex
		var stream []int64
		hseed := r.Int63()
		ucfg.VerifSetHook(func(kind, site, s string, a, b int) {
			if kind != "yield" {
				return
			}
			g := gid()
			mu.Lock()
			stream = append(stream, g)
			mu.Unlock()
			x := uint64(atomic.AddInt64(&hookSeq, 1))*0x9E3779B97F4A7C15 ^ uint64(hseed)
			x ^= x >> 29
			switch {
			case x%64 == 0:
				time.Sleep(time.Duration(x>>8%50) * time.Microsecond)
			case x%4 == 0:
				runtime.Gosched()
			}
		})
		var wg sync.WaitGroup
		var mismatch atomic.Value
		var evals int64
		start := make(chan struct{})
		for g := 0; g < goroutines; g++ {
			wg.Add(1)
			order := r.Perm(len(list))
			g := g
			go func(order []int) {
				defer wg.Done()
				<-start
				for _, i := range order {
					if slot, heavy := heavySlots[i]; heavy && slot != (round+g)%len(heavySlots) {
						continue // the merge-and-write ops are the dearest: each goroutine runs one of them per round
					}
					var got string
					p, pv, where := harness.Safe(func() { got = list[i].run() })
					atomic.AddInt64(&evals, 1)
					if p {
						mismatch.Store(fmt.Sprintf("panic in %s: %s at %s", list[i].name, pv, where))
						return
					}
					if got != base[i] {
						mismatch.Store(fmt.Sprintf("%s returned %q concurrently, %q alone", list[i].name, got, base[i]))
						return
					}
				}
			}(order)
		}
		close(start)
		wg.Wait()
		ucfg.VerifSetHook(nil)
		res.Eval(int(evals))
		res.Ev("hook_yield_events", int64(len(stream)))
		// interleaving signature
		switches := 0
		distinctG := map[int64]bool{}
		for i, g := range stream {
			distinctG[g] = true
			if i > 0 && stream[i-1] != g {
				switches++
			}
		}
		if switches > len(distinctG) {
			sig := fmt.Sprint(stream)
			if len(sig) > 4000 {
				sig = sig[:4000]
			}
			// goroutine ids differ between rounds: normalise to first-seen order
			res.Key(fmt.Sprintf("%d|%d|%s", idx, round, normalise(stream)))
			res.Ev("rounds_with_overlap", 1)
		}
		if len(stream) == 0 {
			// the yield hook was not reached (e.g. its call site moved): the race
			// detector, the baseline comparison and the fingerprint still judge
			// the round; only the interleaving evidence is missing
			res.Key(fmt.Sprintf("%d|%d|no-hook-stream", idx, round))
			if round == 0 {
				res.Inconc("yield hook produced no events: interleavings cannot be shown for this case")
			}
		}
		res.Ev("goroutine_switches_at_hook", int64(switches))
		if liveDstViolation(res, probe, desc) {
			break
		}
		if m := mismatch.Load(); m != nil {
			sig := "concurrent-read-differs-from-sequential"
			if strings.HasPrefix(m.(string), "panic") {
				sig = "panic-under-concurrency"
			}
			res.Violate(sig, "%s; %d goroutines, round %d; config %s", m, goroutines, round, desc)
			break
		}
		if fpAfter := fingerprint(shared) + fingerprint(shared2); fpAfter != fpBefore {
			res.Violate("shared-config-modified-by-reads", "fingerprint of the shared config changed during round %d (%d goroutines): %q vs %q; config %s", round, goroutines, firstDiff(fpBefore, fpAfter), firstDiff(fpAfter, fpBefore), desc)
			break
		}
	}
	raceAfter, log := raceReports()
	res.Ev("race_reports", int64(raceAfter-raceBefore-(skipTo-skipFrom)))
	if raceAfter-(skipTo-skipFrom) > raceBefore {
		// the reports skipFrom+1..skipTo were judged by runReusedTargets
		keys := dedupeKeys(log, raceBefore)
		if skipTo > skipFrom && skipFrom >= raceBefore && skipTo-raceBefore <= len(keys) {
			keys = append(append([]string{}, keys[:skipFrom-raceBefore]...), keys[skipTo-raceBefore:]...)
		}
		byInner := map[string][]string{}
		for _, k := range keys {
			parts := strings.SplitN(k, "@", 2)
			pair := ""
			if len(parts) == 2 {
				pair = parts[1]
			}
			dup := false
			for _, p := range byInner[parts[0]] {
				if p == pair {
					dup = true
				}
			}
			if !dup {
				byInner[parts[0]] = append(byInner[parts[0]], pair)
			}
		}
		for inner, pairs := range byInner {
			sort.Strings(pairs)
			res.SetAdd("race_entry_point_pairs", strings.Join(pairs, ";"))
			res.Violate("data-race:"+inner, "the race detector reported %d data race(s) during this case (%d goroutines); racing access in %s, reached from the entry point pairs %v; full reports in work/C11/race.%d; config %s", raceAfter-raceBefore-(skipTo-skipFrom), goroutines, inner, pairs, os.Getpid(), desc)
		}
	}
	_ = reflect.TypeOf
	return res.Done()
}

// liveDstViolation reports what the destination ops noted about their source
// since the last call (and counts their writes).
func liveDstViolation(res *harness.R, probe *srcProbe, desc string) bool {
	probe.mu.Lock()
	sig, nm := probe.sig, probe.nullMerges
	probe.sig, probe.nullMerges = "", 0
	probe.mu.Unlock()
	note, writes := probe.take()
	res.Ev("writes_into_destinations_after_a_merge", writes)
	res.Ev("merges_into_destinations_with_null_slots_then_writes", nm)
	if note == "" {
		return false
	}
	if sig == "" {
		sig = sigLiveDst
	}
	res.Violate(sig, "%s; config %s", note, desc)
	return true
}

// heavy: position in the op list -> ordinal among the merge-and-write ops
func heavy(l []op) map[int]int {
	m := map[int]int{}
	for i, o := range l {
		if strings.Contains(o.name, "writes into every container") {
			m[i] = len(m)
		}
	}
	return m
}

func normalise(stream []int64) string {
	ids := map[int64]int{}
	var b strings.Builder
	for i, g := range stream {
		if i > 600 {
			break
		}
		n, ok := ids[g]
		if !ok {
			n = len(ids)
			ids[g] = n
		}
		b.WriteString(strconv.Itoa(n))
		b.WriteByte('.')
	}
	return b.String()
}

func firstDiff(a, b string) string {
	la, lb := strings.Split(a, "\n"), strings.Split(b, "\n")
	for i, l := range la {
		if i >= len(lb) || lb[i] != l {
			return l
		}
	}
	return ""
}
