package c11

// The destination lives on: using a config as a merge source is a read, and
// stays one whatever happens to the destination afterwards. After every merge
// with the shared config as source (Merge, cfgutil.Collector, Unpack into a
// config of the caller's own, the config embedded in a map) the destination is
// written to at EVERY container it holds (a named setting into dictionaries,
// one more element onto lists, both into blank containers; every setting that
// is no container is overwritten), and the stored
// state of the source is compared before and after. The shared configs hold
// empty objects and lists - literal ones, as list elements, behind a
// reference, and containers emptied by Remove before the reads start - next to
// the filled ones. In the concurrent rounds every goroutine does this with a
// destination of its own.

import (
	"fmt"
	"math/rand"
	"strings"
	"sync"

	ucfg "github.com/elastic/go-ucfg"
	"github.com/elastic/go-ucfg/cfgutil"
)

const sigLiveDst = "merge-source-modified-by-later-write-to-the-destination"

// srcProbe collects what the destination ops observe about their source.
type srcProbe struct {
	mu     sync.Mutex
	notes  []string
	writes int64
	// seventh wave (nullslots.go)
	seed       int64  // of the destinations with null slots, fixed per case
	nullMerges int64  // merges into such destinations followed by the writes
	sig        string // narrow sig of notes[0], "" = sigLiveDst
}

// noteSig: a note with a sig of its own.
func (p *srcProbe) noteSig(sig, s string) {
	p.mu.Lock()
	if len(p.notes) == 0 {
		p.sig = sig
	}
	if len(p.notes) < 4 {
		p.notes = append(p.notes, s)
	}
	p.mu.Unlock()
}

func (p *srcProbe) note(s string) {
	p.noteSig("", s)
}

func (p *srcProbe) take() (string, int64) {
	p.mu.Lock()
	defer p.mu.Unlock()
	s, n := "", p.writes
	if len(p.notes) > 0 {
		s = p.notes[0]
	}
	p.notes, p.writes = nil, 0
	return s, n
}

// addEmpties puts empty containers into the data of a shared config (drawn).
// The returned function empties further containers by Remove once the config
// is built (a history of writes that ends before the first read).
func addEmpties(r *rand.Rand, m map[string]interface{}) func(c *ucfg.Config) {
	pick := func() bool { return r.Intn(4) != 0 }
	obj := func() map[string]interface{} { return map[string]interface{}{} }
	sub := m["sub"].(map[string]interface{})
	deep := sub["deep"].(map[string]interface{})
	if pick() {
		m["eo"] = obj()
	}
	if pick() {
		m["el"] = []interface{}{}
	}
	if pick() {
		deep["eo"] = obj()
	}
	if pick() {
		sub["el"] = []interface{}{}
	}
	if pick() {
		m["lo"] = []interface{}{obj(), []interface{}{}, map[string]interface{}{"k": "v"}}
	}
	if pick() {
		m["eo"] = obj()
		m["refeo"] = "${eo}"
	}
	if pick() {
		// lists and objects of plain values only (no reference, no container inside)
		m["pl"] = []interface{}{"p", r.Intn(9), true}
		sub["po"] = map[string]interface{}{"s": "q", "i": r.Intn(9)}
	}
	wasObj, wasList := pick(), pick()
	if wasObj {
		sub["was"] = map[string]interface{}{"gone": 1}
	}
	if wasList {
		m["wasl"] = []interface{}{"gone"}
	}
	return func(c *ucfg.Config) {
		if wasObj {
			if _, err := c.Remove("sub.was.gone", -1, ucfg.PathSep(".")); err != nil {
				panic(err)
			}
		}
		if wasList {
			if _, err := c.Remove("wasl", 0, ucfg.PathSep(".")); err != nil {
				panic(err)
			}
		}
	}
}

// emptyContainers counts the containers without any setting stored in c.
func emptyContainers(c *ucfg.Config) int {
	n := 0
	for _, v := range ucfg.VerifWalk(c) {
		if v.Kind == "sub" && v.Walk != "" && v.NDict == 0 && v.NArr == 0 {
			n++
		}
	}
	return n
}

// writeEverywhere writes into every container stored in c (found by the
// non-evaluating walk, addressed by path: nothing is evaluated, references are
// not followed).
func writeEverywhere(c *ucfg.Config, n *int) {
	nodes := ucfg.VerifWalk(c)
	// first every setting that is no container is overwritten where it is (a
	// list that grows may move to new slots, so this comes before the additions)
	for _, v := range nodes {
		if v.Kind != "sub" && v.Walk != "" && v.Kind != "<nil-interface>" {
			c.SetString(v.Walk, -1, "overwritten", ucfg.PathSep("."))
			*n++
		}
	}
	for _, v := range nodes {
		if v.Kind != "sub" {
			continue
		}
		isDict, isArr := v.NDict > 0, v.NArr > 0
		if isDict || !isArr {
			name := "zzw"
			if v.Walk != "" {
				name = v.Walk + ".zzw"
			}
			c.SetString(name, -1, "written", ucfg.PathSep("."))
			*n++
		}
		if isArr || !isDict {
			c.SetString(v.Walk, v.NArr, "appended", ucfg.PathSep("."))
			*n++
		}
	}
}

// walkHash: a cheap digest of everything fingerprint() prints.
func walkHash(c *ucfg.Config) uint64 {
	h := uint64(14695981039346656037)
	mix := func(x uint64) { h = (h ^ x) * 1099511628211 }
	str := func(s string) {
		for i := 0; i < len(s); i++ {
			mix(uint64(s[i]))
		}
		mix(0xff)
	}
	for _, v := range ucfg.VerifWalk(c) {
		str(v.Walk)
		str(v.Kind)
		str(v.Field)
		str(v.Text)
		str(v.Source)
		mix(uint64(v.Addr))
		mix(uint64(v.Fields))
		mix(uint64(v.Parent))
		mix(uint64(v.Holder))
		mix(uint64(v.NDict))
		mix(uint64(v.NArr)<<1 | b2u(v.HasArr))
	}
	return h
}

// stored renders what c holds without evaluating anything.
func stored(c *ucfg.Config) string {
	var b strings.Builder
	for _, v := range ucfg.VerifWalk(c) {
		b.WriteString(v.Walk)
		b.WriteByte('|')
		b.WriteString(v.Kind)
		b.WriteByte('|')
		b.WriteString(v.Text)
		b.WriteByte('|')
		b.WriteByte(byte('0' + v.NDict%10))
		b.WriteByte(byte('0' + v.NArr%10))
		b.WriteByte(';')
	}
	return b.String()
}

// destinationOps: merges with src's root as source, followed by writes all
// over the destination. The result of an op is what the destination holds in
// the end (a destination of one's own is not influenced by other goroutines).
func destinationOps(c, captured *ucfg.Config, o []ucfg.Option, p *srcProbe) []op {
	fp0, h0 := fingerprint(c), walkHash(c) // taken when the op list is made: before any of the ops runs
	mk := func(name string, watch *ucfg.Config, build func() (*ucfg.Config, error)) op {
		return op{name, func() string {
			dst, err := build()
			if err != nil {
				return "error"
			}
			afterMerge := walkHash(watch)
			n := 0
			writeEverywhere(dst, &n)
			p.mu.Lock()
			p.writes += int64(n)
			p.mu.Unlock()
			// a source that differs already right after the merge is left to the
			// fingerprint oracle of the case (shared-config-modified-by-reads)
			if afterMerge == h0 && walkHash(watch) != h0 {
				after := fingerprint(watch)
				p.note(fmt.Sprintf("%s: the stored state of the source changed by the writes to the destination that followed the merge (right after the merge it was still what it was when the case began): %q vs %q", name, firstDiff(fp0, after), firstDiff(after, fp0)))
			}
			return stored(dst)
		}}
	}
	l := []op{
		mk("dst.Merge(shared); writes into every container of dst", c, func() (*ucfg.Config, error) {
			dst := ucfg.New()
			return dst, dst.Merge(c, ucfg.PathSep("."))
		}),
		mk("dst{filled}.Merge(shared, AppendValues); writes into every container of dst", c, func() (*ucfg.Config, error) {
			dst, err := ucfg.NewFrom(map[string]interface{}{"eo": map[string]interface{}{}, "el": []interface{}{}, "sub": map[string]interface{}{"own": 1}}, ucfg.PathSep("."))
			if err != nil {
				return nil, err
			}
			return dst, dst.Merge(c, ucfg.PathSep("."), ucfg.AppendValues)
		}),
		mk("shared.Unpack(dst *Config); writes into every container of dst", c, func() (*ucfg.Config, error) {
			dst := ucfg.New()
			return dst, c.Unpack(dst, ucfg.PathSep("."))
		}),
		mk("cfgutil.Collector.Add(shared); writes into every container of the collected config", c, func() (*ucfg.Config, error) {
			col := cfgutil.NewCollector(nil, ucfg.PathSep("."))
			if err := col.Add(c, nil); err != nil {
				return nil, err
			}
			return col.Config(), nil
		}),
		mk("dst.Merge(map{emb: shared}); writes into every container of dst", c, func() (*ucfg.Config, error) {
			dst := ucfg.New()
			return dst, dst.Merge(map[string]interface{}{"emb": c, "k": map[string]interface{}{}}, ucfg.PathSep("."))
		}),
	}
	if captured != nil {
		l = append(l, mk("dst.Merge(captured); writes into every container of dst", c, func() (*ucfg.Config, error) {
			dst := ucfg.New()
			return dst, dst.Merge(captured, ucfg.PathSep("."))
		}))
	}
	return append(l, nullSlotOps(c, p, fp0, h0)...)
}

func b2u(b bool) uint64 {
	if b {
		return 1
	}
	return 0
}
