package c11

// Sixth wave: the shared config is read by merges that MODIFY ANOTHER config.
//
// (a) Env. A destination the caller owns holds references that it does not
//     define itself; they resolve, through Env(shared), to objects, lists and
//     plain settings of the shared config (directly, through a reference of
//     the shared config, through a reference chain of the destination). The
//     merge source (the shared config itself, a second shared config, Go data)
//     has objects / lists / plain values / references under the same names, so
//     that the merge has to combine what the reference yields with the new
//     settings. The shared configs are read only: source and Env of a Merge,
//     of an Unpack into a *Config, of a cfgutil.Collector.
// (b) Inline. The shared config (list shaped, object shaped, a child handle
//     of a bigger config) is the value of a `config:",inline"` field of type
//     Config / *Config of a struct, the struct sits under a name, in a list,
//     behind a pointer / an interface, one or two levels down, and the whole
//     is handed to Merge of another config.
//
// After every call: the stored state of every shared config (incl. the parent
// link, holder and stored name of every node) and what it reads as (Unpack,
// FlattenedKeys, Path of its nodes) must be what they were when the case
// began; then the destination is written to all over and the same is asked
// again. Then the same calls by goroutines at the same time (one destination
// per goroutine and call) while the shared configs are read, inside a window
// of the race log; the result in the destination must be the one the call
// produced alone.

import (
	"fmt"
	"math/rand"
	"sort"
	"strings"
	"sync"

	ucfg "github.com/elastic/go-ucfg"
	"github.com/elastic/go-ucfg/cfgutil"

	"verif/internal/harness"
)

const (
	sigEnvModified     = "config-reached-through-Env-modified-by-merge-into-another-config"
	sigEnvSrcModified  = "merge-source-modified-by-merge-under-Env"
	sigInlineReparent  = "config-inlined-into-merged-struct:parent-links-or-names-of-its-nodes-changed"
	sigInlineModified  = "config-inlined-into-merged-struct:settings-changed"
	sigBystander       = "config-not-involved-in-the-merge-modified"
	sigEnvInlineRace   = "data-race:merges-reading-shared-config-as-Env-or-inlined-field"
	sigEnvInlineResult = "merge-reading-shared-config-as-Env-or-inlined-field-differs-from-alone"
)

// ---- the read-only world -------------------------------------------------

type eiWorld struct {
	cfg   []*ucfg.Config
	names []string
	descs []string
	fp    []string
	st    []string
	read  []string
	envE  *ucfg.Config // resolves ${name} of the list shaped configs
}

func (w *eiWorld) add(name string, c *ucfg.Config, desc string) int {
	w.cfg = append(w.cfg, c)
	w.names = append(w.names, name)
	w.descs = append(w.descs, name+"="+desc)
	return len(w.cfg) - 1
}

func (w *eiWorld) seal() {
	for k, c := range w.cfg {
		w.fp = append(w.fp, fingerprint(c))
		w.st = append(w.st, stored(c))
		w.read = append(w.read, w.render(k))
	}
}

func (w *eiWorld) render(k int) string {
	c := w.cfg[k]
	o := []ucfg.Option{ucfg.PathSep("."), ucfg.VarExp, ucfg.Env(w.envE)}
	var v interface{}
	var err error
	if c.IsArray() && !c.IsDict() {
		var l []interface{}
		err = c.Unpack(&l, o...)
		v = l
	} else {
		var m map[string]interface{}
		err = c.Unpack(&m, o...)
		v = m
	}
	paths := []string{c.Path(".")}
	for _, f := range sorted(c.GetFields()) {
		if ch, e := c.Child(f, -1, o...); e == nil {
			paths = append(paths, ch.Path("."))
		}
	}
	if n, e := c.CountField("", o...); e == nil && c.IsArray() {
		for i := 0; i < n; i++ {
			if ch, e := c.Child("", i, o...); e == nil {
				paths = append(paths, ch.Path("."))
			}
		}
	}
	return canon(v, err) + "|" + strings.Join(c.FlattenedKeys(o...), ",") + "|" + strings.Join(paths, ",")
}

// changed: index of the first shared config that is not what it was, how it
// differs, and whether only links / names differ (the settings are the same).
func (w *eiWorld) changed() (k int, how string, linksOnly bool) {
	for k := range w.cfg {
		fp := fingerprint(w.cfg[k])
		if fp != w.fp[k] {
			return k, fmt.Sprintf("stored state %q, was %q; reads as %s, before %s", firstDiff(fp, w.fp[k]), firstDiff(w.fp[k], fp), w.render(k), w.read[k]), stored(w.cfg[k]) == w.st[k]
		}
		if rd := w.render(k); rd != w.read[k] {
			return k, fmt.Sprintf("stored state unchanged, reads as %s, before %s", rd, w.read[k]), true
		}
	}
	return -1, "", false
}

// ---- recipes ---------------------------------------------------------------

type eiRecipe struct {
	label   string
	part    string // "env" | "inline"
	src     int    // index of the shared config used as source / inlined (-1: Go data)
	envs    []int  // indices of the shared configs passed as Env
	run     func() (dst *ucfg.Config, err error)
	readOpt []ucfg.Option
	alone   string
}

// result: what the destination holds after the call, and after it has been
// written to all over.
func (rc *eiRecipe) result(writes *int64) string {
	dst, err := rc.run()
	if err != nil || dst == nil {
		return "error"
	}
	var m map[string]interface{}
	e := dst.Unpack(&m, rc.readOpt...)
	s := canon(m, e)
	n := 0
	writeEverywhere(dst, &n)
	if writes != nil {
		*writes += int64(n)
	}
	return s + "|" + stored(dst)
}

type inP struct {
	Items *ucfg.Config `config:",inline"`
}
type inV struct {
	Items ucfg.Config `config:",inline"`
}
type inPX struct {
	X     int          `config:"x"`
	Items *ucfg.Config `config:",inline"`
	Y     string       `config:"y"`
}
type outP struct {
	In inP `config:"in"`
}
type outV struct {
	In inV `config:"in"`
}
type outPX struct {
	In inPX `config:"in"`
}
type outPtr struct {
	In *inP `config:"in"`
}
type outIfc struct {
	In interface{} `config:"in"`
}
type out2 struct {
	A outP `config:"a"`
}
type outList struct {
	L []inP `config:"l"`
}
type inIn struct {
	In inP `config:",inline"`
}
type outInIn struct {
	In inIn `config:"in"`
}
type namedP struct {
	Items *ucfg.Config `config:"items"`
}

var wrapNames = []string{
	"struct{Items *Config `,inline`}", "struct{Items Config `,inline`}",
	"{in: struct{Items *Config `,inline`}}", "{in: struct{Items Config `,inline`}}",
	"{in: struct{X; Items *Config `,inline`; Y}}", "{in: *struct{Items *Config `,inline`}}",
	"{in: interface{}(struct{Items *Config `,inline`})}", "{a: {in: struct{Items *Config `,inline`}}}",
	"{l: []struct{Items *Config `,inline`}} (twice)", "{in: struct{struct{Items *Config `,inline`} `,inline`}}",
	"map{in: struct{Items *Config `,inline`}}", "map{in: []interface{}{struct{Items Config `,inline`}}}",
	"&{in: struct{Items *Config `,inline`}}", "{in: struct{Items *Config `items`}} (not inlined)",
}

func wrap(kind int, c *ucfg.Config) interface{} {
	switch kind {
	case 0:
		return inP{c}
	case 1:
		return inV{*c}
	case 2:
		return outP{inP{c}}
	case 3:
		return outV{inV{*c}}
	case 4:
		return outPX{inPX{X: 3, Items: c, Y: "y"}}
	case 5:
		return outPtr{&inP{c}}
	case 6:
		return outIfc{inP{c}}
	case 7:
		return out2{outP{inP{c}}}
	case 8:
		return outList{[]inP{{c}, {c}}}
	case 9:
		return outInIn{inIn{inP{c}}}
	case 10:
		return map[string]interface{}{"in": inP{c}}
	case 11:
		return map[string]interface{}{"in": []interface{}{inV{*c}}}
	case 12:
		return &outP{inP{c}}
	}
	return struct {
		In namedP `config:"in"`
	}{namedP{c}}
}

func policyOpt(p int) (ucfg.Option, string) {
	switch p {
	case 1:
		return ucfg.ReplaceValues, ", ReplaceValues"
	case 2:
		return ucfg.AppendValues, ", AppendValues"
	case 3:
		return ucfg.PrependValues, ", PrependValues"
	}
	return nil, ""
}

// buildEnvInline draws the shared configs and the calls of one case.
func buildEnvInline(r *rand.Rand) (*eiWorld, []*eiRecipe) {
	words := []string{"alpha", "beta", "gamma", "9200", "true", "x y"}
	wd := func() string { return words[r.Intn(len(words))] }
	w := &eiWorld{}
	mustNew := func(v interface{}) *ucfg.Config {
		c, err := ucfg.NewFrom(v, ucfg.PathSep("."), ucfg.VarExp)
		if err != nil {
			panic(err)
		}
		return c
	}
	em := map[string]interface{}{"name": wd(), "obj": map[string]interface{}{"e": wd()}}
	w.envE = mustNew(em)
	iE := w.add("E", w.envE, fmt.Sprint(em))

	// ---- (a) what the references of the destinations can point at in S
	refPool := []string{
		"defaults", "defaults", "defaults.nested", "deep.obj", "deep.obj.y", "lst", "deep.l", "lst.1",
		"alias", "aliasl", "prim", "defaults.host", "eo", "nowhere:dflt", "obj",
	}
	type slot struct{ dst, src interface{} }
	nslots := 2 + r.Intn(4)
	slots := make([]slot, nslots)
	own := map[string]interface{}{}
	srcVal := func() interface{} {
		switch r.Intn(9) {
		case 0, 1, 2, 3:
			m := map[string]interface{}{"port": r.Intn(9999)}
			if r.Intn(2) == 0 {
				m["host"] = wd()
			}
			if r.Intn(3) == 0 {
				m["nested"] = map[string]interface{}{"k2": wd()}
			}
			if r.Intn(4) == 0 {
				m["tags"] = []interface{}{wd()}
			}
			return m
		case 4, 5:
			return []interface{}{wd(), map[string]interface{}{"a2": wd()}}
		case 6:
			return wd()
		case 7:
			return "${defaults.nested}"
		}
		return nil
	}
	for i := range slots {
		switch r.Intn(10) {
		case 0, 1, 2, 3, 4:
			slots[i].dst = "${" + refPool[r.Intn(len(refPool))] + "}"
		case 5:
			own["own"] = map[string]interface{}{"o": wd()}
			slots[i].dst = "${own}"
		case 6:
			slots[i].dst = map[string]interface{}{"d": wd()}
		case 7:
			slots[i].dst = wd()
		default:
			own["ownref"] = "${" + refPool[r.Intn(len(refPool))] + "}"
			slots[i].dst = "${ownref}"
		}
		slots[i].src = srcVal()
	}
	// where the slots sit: top level, below "n", elements of "items"
	place := make([]int, nslots)
	for i := range place {
		place[i] = r.Intn(3)
	}
	layout := func(pick func(s slot) interface{}, into map[string]interface{}) map[string]interface{} {
		n := map[string]interface{}{}
		var items []interface{}
		for i, s := range slots {
			v := pick(s)
			switch place[i] {
			case 0:
				into[fmt.Sprintf("out%d", i)] = v
			case 1:
				n[fmt.Sprintf("out%d", i)] = v
			default:
				items = append(items, v)
			}
		}
		if len(n) > 0 {
			into["n"] = n
		}
		if len(items) > 0 {
			into["items"] = items
		}
		return into
	}
	sData := func() map[string]interface{} {
		return map[string]interface{}{
			"defaults": map[string]interface{}{"host": wd(), "tags": []interface{}{wd(), wd()}, "nested": map[string]interface{}{"k": wd()}},
			"lst":      []interface{}{wd(), map[string]interface{}{"a": wd()}, "${defaults.host}"},
			"prim":     wd(),
			"alias":    "${defaults}",
			"aliasl":   "${lst}",
			"deep":     map[string]interface{}{"obj": map[string]interface{}{"x": wd(), "y": map[string]interface{}{"z": wd()}}, "l": []interface{}{1, 2}},
			"eo":       map[string]interface{}{},
		}
	}
	sm := layout(func(s slot) interface{} { return s.src }, sData())
	iS := w.add("S", mustNew(sm), fmt.Sprint(sm))
	tm := layout(func(s slot) interface{} { return s.src }, map[string]interface{}{})
	iT := w.add("T", mustNew(tm), fmt.Sprint(tm))
	dm := func() map[string]interface{} {
		m := layout(func(s slot) interface{} { return s.dst }, map[string]interface{}{})
		for k, v := range own {
			m[k] = v
		}
		return m
	}
	dDesc := fmt.Sprint(dm())

	// ---- (b) list shaped / object shaped configs to be inlined
	elem := func(depth int) interface{} { return nil }
	elem = func(depth int) interface{} {
		switch r.Intn(9) {
		case 0, 1:
			return wd()
		case 2:
			return r.Intn(100)
		case 3:
			return "${name}"
		case 4:
			return "x-${name}"
		case 5:
			return nil
		case 6:
			return r.Intn(2) == 0
		case 7:
			return map[string]interface{}{"k": wd(), "r": "${name}"}
		}
		if depth > 1 {
			return wd()
		}
		return []interface{}{elem(depth + 1), "${name}"}
	}
	list := func() []interface{} {
		l := make([]interface{}, 1+r.Intn(5))
		for i := range l {
			l[i] = elem(0)
		}
		return l
	}
	var inl []int
	for k := 0; k < 2; k++ {
		l := list()
		inl = append(inl, w.add(fmt.Sprintf("L%d", k), mustNew(l), fmt.Sprint(l)))
	}
	om := map[string]interface{}{"a": wd(), "r": "${name}", "l": list(), "s": map[string]interface{}{"k": wd(), "sl": list()}, "n": nil}
	oc := mustNew(om)
	iO := w.add("O", oc, fmt.Sprint(om))
	inl = append(inl, iO)
	// handles of settings of O: the same nodes, watched through O
	handles := map[int]*ucfg.Config{}
	handleName := map[int]string{}
	for hi, p := range []string{"l", "s", "s.sl"} {
		if ch, err := oc.Child(p, -1, ucfg.PathSep(".")); err == nil {
			handles[-2-hi] = ch
			handleName[-2-hi] = "O.Child(" + p + ")"
		}
	}
	w.seal()

	var recipes []*eiRecipe
	readOpt := []ucfg.Option{ucfg.PathSep("."), ucfg.VarExp, ucfg.Env(w.cfg[iS]), ucfg.Env(w.envE)}
	// (a)
	for k := 0; k < 14; k++ {
		src := []int{iS, iS, iT, iT, -1}[r.Intn(5)]
		envs := [][]int{{iS}, {iS}, {iE, iS}, {iS, iE}, {iT, iS}}[r.Intn(5)]
		pol := 0
		if r.Intn(2) == 0 {
			pol = 1 + r.Intn(3)
		}
		form := r.Intn(4)
		if src < 0 {
			form = 0
		}
		po, pname := policyOpt(pol)
		mkOpts := func() []ucfg.Option {
			o := []ucfg.Option{ucfg.PathSep("."), ucfg.VarExp}
			for _, e := range envs {
				o = append(o, ucfg.Env(w.cfg[e]))
			}
			if po != nil {
				o = append(o, po)
			}
			return o
		}
		var envNames []string
		for _, e := range envs {
			envNames = append(envNames, "Env("+w.names[e]+")")
		}
		srcName := "<Go data of T>"
		if src >= 0 {
			srcName = w.names[src]
		}
		call := []string{"D.Merge(%s, %s)", "%s.Unpack(D, %s)", "cfgutil.NewCollector(D, %[2]s).Add(%[1]s)", "D.Merge(map{\"n\": ..., all of %s}, %s)"}[form]
		rc := &eiRecipe{
			part: "env", src: src, envs: envs, readOpt: readOpt,
			label: fmt.Sprintf(call, srcName, "PathSep(\".\"), VarExp, "+strings.Join(envNames, ", ")+pname) + " with D=" + dDesc,
		}
		rc.run = func() (*ucfg.Config, error) {
			d := mustNew(dm())
			o := mkOpts()
			switch {
			case src < 0:
				return d, d.Merge(layout(func(s slot) interface{} { return s.src }, map[string]interface{}{}), o...)
			case form == 1:
				return d, w.cfg[src].Unpack(d, o...)
			case form == 2:
				col := cfgutil.NewCollector(d, o...)
				if err := col.Add(w.cfg[src], nil); err != nil {
					return nil, err
				}
				return col.Config(), nil
			case form == 3:
				// the source config as the value of a Go map: its settings under the names of the map
				var m map[string]interface{}
				if err := w.cfg[src].Unpack(&m, ucfg.PathSep("."), ucfg.VarExp, ucfg.ResolveNOOP); err != nil {
					return nil, err
				}
				return d, d.Merge(m, o...)
			}
			return d, d.Merge(w.cfg[src], o...)
		}
		recipes = append(recipes, rc)
	}
	// (b)
	for k := 0; k < 16; k++ {
		var c *ucfg.Config
		src := inl[r.Intn(len(inl))]
		name := ""
		if r.Intn(4) == 0 && len(handles) > 0 {
			h := -2 - r.Intn(3)
			if handles[h] != nil {
				c, name, src = handles[h], handleName[h], iO
			}
		}
		if c == nil {
			c, name = w.cfg[src], w.names[src]
		}
		kind := r.Intn(len(wrapNames))
		pol := 0
		if r.Intn(2) == 0 {
			pol = 1 + r.Intn(3)
		}
		po, pname := policyOpt(pol)
		pre := r.Intn(4)
		withEnv, withVar := r.Intn(2) == 0, r.Intn(3) != 0
		mkOpts := func() []ucfg.Option {
			o := []ucfg.Option{ucfg.PathSep(".")}
			if withVar {
				o = append(o, ucfg.VarExp)
			}
			if withEnv {
				o = append(o, ucfg.Env(w.envE))
			}
			if po != nil {
				o = append(o, po)
			}
			return o
		}
		preName := []string{"New()", "New()", "{in: {x: 1}}", "{in: [p, q, r], l: [{}, {z: 1}]}"}[pre]
		rc := &eiRecipe{
			part: "inline", src: src, readOpt: []ucfg.Option{ucfg.PathSep("."), ucfg.VarExp, ucfg.Env(w.envE)},
			label: fmt.Sprintf("D=%s; D.Merge(%s with Items = %s, PathSep(\".\")%s%s%s)", preName, wrapNames[kind], name,
				map[bool]string{true: ", VarExp"}[withVar], map[bool]string{true: ", Env(E)"}[withEnv], pname),
		}
		if withEnv {
			rc.envs = []int{iE}
		}
		rc.run = func() (*ucfg.Config, error) {
			var d *ucfg.Config
			switch pre {
			case 2:
				d = mustNew(map[string]interface{}{"in": map[string]interface{}{"x": 1}})
			case 3:
				d = mustNew(map[string]interface{}{"in": []interface{}{"p", "q", "r"}, "l": []interface{}{map[string]interface{}{}, map[string]interface{}{"z": 1}}})
			default:
				d = ucfg.New()
			}
			return d, d.Merge(wrap(kind, c), mkOpts()...)
		}
		recipes = append(recipes, rc)
	}
	return w, recipes
}

// judge reports the first shared config that is not what it was.
func (w *eiWorld) judge(res *harness.R, rc *eiRecipe, when string) bool {
	k, how, linksOnly := w.changed()
	if k < 0 {
		return false
	}
	isEnv := false
	for _, e := range rc.envs {
		if e == k {
			isEnv = true
		}
	}
	sig, role := sigBystander, "not involved in the call"
	switch {
	case rc.part == "inline" && k == rc.src && linksOnly:
		sig, role = sigInlineReparent, "the config inlined into the merged struct"
	case rc.part == "inline" && k == rc.src:
		sig, role = sigInlineModified, "the config inlined into the merged struct"
	case isEnv && k == rc.src:
		sig, role = sigEnvModified, "source and Env of the call"
	case isEnv:
		sig, role = sigEnvModified, "an Env config of the call"
	case k == rc.src:
		sig, role = sigEnvSrcModified, "the source of the call"
	}
	res.Violate(sig, "%s (%s) is not what it was %s: %s. Call: %s. Shared configs: %s", w.names[k], role, when, how, rc.label, strings.Join(w.descs, "; "))
	return true
}

// runEnvInline: sequentially every call alone (a config modified ends the
// part: the concurrent half would only add the races that follow from the
// same write), then the calls by goroutines at once inside a race-log window
// judged here.
func runEnvInline(res *harness.R, r *rand.Rand, goroutines int) {
	var w *eiWorld
	var recipes []*eiRecipe
	if p, pv, where := harness.Safe(func() { w, recipes = buildEnvInline(r) }); p {
		res.Violate("panic", "building the shared configs of the Env / inline part panicked: %s at %s", pv, where)
		return
	}
	var writes int64
	for _, rc := range recipes {
		if p, pv, where := harness.Safe(func() { rc.alone = rc.result(&writes) }); p {
			res.Violate("panic", "%s panicked: %s at %s. Shared configs: %s", rc.label, pv, where, strings.Join(w.descs, "; "))
			return
		}
		res.Eval(1)
		if rc.part == "env" {
			res.Ev("merges_into_own_config_with_shared_config_as_Env", 1)
			if rc.alone != "error" {
				res.Ev("merges_with_shared_config_as_Env_succeeded", 1)
			}
			for _, e := range rc.envs {
				if e == rc.src {
					res.Ev("merges_with_source_also_the_Env", 1)
					break
				}
			}
		} else {
			res.Ev("merges_of_struct_inlining_shared_config", 1)
			if rc.alone != "error" {
				res.Ev("merges_of_struct_inlining_shared_config_succeeded", 1)
			}
			if w.cfg[rc.src].IsArray() || strings.Contains(rc.label, "O.Child(l)") || strings.Contains(rc.label, "O.Child(s.sl)") {
				res.Ev("inlined_shared_config_is_a_list", 1)
			}
		}
		if w.judge(res, rc, "after the call alone (and the writes to the destination that followed)") {
			return
		}
		// the same call again gives the same destination
		var again string
		harness.Safe(func() { again = rc.result(&writes) })
		res.Eval(1)
		if again != rc.alone {
			res.Violate(sigEnvInlineResult, "%s left %q in the destination the first time and %q the second time (both alone). Shared configs: %s", rc.label, rc.alone, again, strings.Join(w.descs, "; "))
			return
		}
		if w.judge(res, rc, "after the second call alone") {
			return
		}
	}
	res.Ev("writes_into_destinations_after_env_or_inline_merge", writes)
	for _, rc := range recipes {
		if rc.part == "inline" {
			res.SetAdd("inline_wrapper_shapes", rc.label[strings.Index(rc.label, "D.Merge(")+8:strings.Index(rc.label, " with Items")])
		}
	}

	from, _ := raceReports()
	if goroutines > 8 {
		goroutines = 8
	}
	var wg sync.WaitGroup
	var mu sync.Mutex
	var bad []string
	start := make(chan struct{})
	for g := 0; g < goroutines; g++ {
		wg.Add(1)
		order := r.Perm(len(recipes))
		go func(g int, order []int) {
			defer wg.Done()
			<-start
			for n, i := range order {
				rc := recipes[i]
				var got string
				pn, pv, where := harness.Safe(func() {
					got = rc.result(nil)
					if n%4 == g%4 {
						k := (g + n) % len(w.cfg)
						if rd := w.render(k); rd != w.read[k] {
							mu.Lock()
							bad = append(bad, fmt.Sprintf("%s read as %s alone and as %s while other goroutines merged into configs of their own", w.names[k], w.read[k], rd))
							mu.Unlock()
						}
					}
				})
				switch {
				case pn:
					mu.Lock()
					bad = append(bad, "panic: "+pv+" at "+where+" in "+rc.label)
					mu.Unlock()
					return
				case got != rc.alone:
					mu.Lock()
					bad = append(bad, fmt.Sprintf("%s left %q in the destination alone and %q while other goroutines did the same with destinations of their own", rc.label, rc.alone, got))
					mu.Unlock()
					return
				}
			}
		}(g, order)
	}
	close(start)
	wg.Wait()
	res.Eval(goroutines * len(recipes))
	res.Ev("env_inline_concurrent_goroutines", int64(goroutines))
	if len(bad) > 0 {
		sort.Strings(bad)
		sig := sigEnvInlineResult
		if strings.HasPrefix(bad[0], "panic") {
			sig = "panic-under-concurrency"
		}
		res.Violate(sig, "%s. Shared configs: %s", bad[0], strings.Join(w.descs, "; "))
	} else if k, how, _ := w.changed(); k >= 0 {
		res.Violate("shared-config-modified-by-reads", "%s is not what it was after concurrent merges that read it as source / Env / inlined field, each goroutine into destinations of its own: %s. Shared configs: %s", w.names[k], how, strings.Join(w.descs, "; "))
	}
	to, log := raceReports()
	if to > from {
		inner := map[string]bool{}
		for _, k := range dedupeKeys(log, from) {
			inner[strings.SplitN(k, "@", 2)[0]] = true
		}
		var l []string
		for k := range inner {
			l = append(l, k)
		}
		sort.Strings(l)
		res.Ev("race_reports_env_inline", int64(to-from))
		res.Violate(sigEnvInlineRace, "the race detector reported %d data race(s) while %d goroutines merged into configs of their own with the shared configs as source, Env and inlined Config field, and read the shared configs in between; racing accesses in %v. Shared configs: %s", to-from, goroutines, l, strings.Join(w.descs, "; "))
	}
}
