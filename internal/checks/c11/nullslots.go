package c11

// Seventh wave: the destination of a merge with the shared config as source
// already holds LISTS WITH NULL SLOTS at positions where the shared config has
// elements - explicit nulls given as data, and gaps the library itself filled
// when the caller wrote beyond the end of a list. Under the default
// (index-wise) list policy the source's element at such a position becomes the
// destination's element; it must be a copy. The destination is derived from
// the stored structure of the shared config (non-evaluating walk: every
// non-empty list below the root), so whatever element kinds the shared config
// holds in lists (plain values, references, splices, nulls, objects, lists)
// meet null slots. The usual "destination lives on" writes follow.
//
// Oracle: the stored state of the source incl. parent link, holder and stored
// name of every node is what it was when the case began - right after the
// merge and after the writes. A deviation is attributed to the null slots by
// experiment: the twin destination, built from the same draws with "own" in
// place of every null, is merged and written to in the same way; only if the
// twin leaves the source alone the narrow sig is used.

import (
	"fmt"
	"math/rand"
	"strconv"
	"strings"

	ucfg "github.com/elastic/go-ucfg"
	"github.com/elastic/go-ucfg/cfgutil"

	"verif/internal/harness"
)

const (
	sigNullSlotReparent = "merge-source-element-changed-by-merge-onto-null-slot-of-destination-list"
	sigNullSlotShared   = "merge-source-shares-element-with-destination-after-merge-onto-null-list-slot"
)

// nullSlotStats: what a drawn destination looks like.
type nullSlotStats struct {
	lists    int            // lists of the source mirrored in the destination
	explicit int            // null slots given as data
	padded   int            // null slots left by a write beyond the end
	met      map[string]int // kind of the source's element at a null slot -> count
}

// nullSlotDst builds a destination holding, for every non-empty list stored
// below the root of src, a list at the same address with null slots at
// positions where src has elements. withNulls=false: the twin with "own" in
// place of every null (same draws).
func nullSlotDst(src *ucfg.Config, seed int64, withNulls bool) (*ucfg.Config, nullSlotStats, error) {
	r := rand.New(rand.NewSource(seed))
	st := nullSlotStats{met: map[string]int{}}
	dst := ucfg.New()
	sep := ucfg.PathSep(".")
	nodes := ucfg.VerifWalk(src)
	kindAt := map[string]string{}
	for _, v := range nodes {
		kindAt[v.Walk] = v.Kind
	}
	hole := func() interface{} {
		if withNulls {
			return nil
		}
		return "own"
	}
	for _, v := range nodes {
		if v.Kind != "sub" || v.NArr == 0 || v.Walk == "" {
			continue
		}
		n := v.NArr
		numeric := false
		for _, part := range strings.Split(v.Walk, ".") {
			if _, err := strconv.Atoi(part); err == nil {
				numeric = true
			}
		}
		mode := r.Intn(3) // 0: nulls as data, 1: gap left by a write beyond the end, 2: both
		forced := r.Intn(n)
		extra := r.Intn(2)
		kinds := make([]int, n+1)
		for i := range kinds {
			kinds[i] = r.Intn(4)
		}
		keep := r.Intn(n)   // modes 1, 2: elements given as data before the gap
		beyond := r.Intn(3) // modes 1, 2: how far beyond the source's last element the write goes
		if numeric {
			mode = 1 // a list inside a list: addressed by path and position only
			keep = 0
		}
		var holes []int
		switch mode {
		case 0:
			elems := make([]interface{}, n+extra)
			for i := range elems {
				switch {
				case i == forced || kinds[i] < 2:
					elems[i] = hole()
					if i < n {
						holes = append(holes, i)
					}
				case kinds[i] == 2:
					elems[i] = "own"
				default:
					elems[i] = map[string]interface{}{"own": i}
				}
			}
			if err := dst.Merge(map[string]interface{}{v.Walk: elems}, sep); err != nil {
				return nil, st, err
			}
			st.explicit += len(holes)
		default:
			if keep > 0 {
				elems := make([]interface{}, keep)
				for i := range elems {
					elems[i] = "own"
					if mode == 2 && kinds[i] < 2 {
						elems[i] = hole()
						holes = append(holes, i)
						st.explicit++
					}
				}
				if err := dst.Merge(map[string]interface{}{v.Walk: elems}, sep); err != nil {
					return nil, st, err
				}
			}
			last := n - 1 + beyond
			if last == keep && keep > 0 {
				last++
			}
			if err := dst.SetString(v.Walk, last, "own", sep); err != nil {
				if numeric {
					continue // the holder in the destination is no list here
				}
				return nil, st, err
			}
			for i := keep; i < last; i++ {
				if i < n {
					holes = append(holes, i)
					st.padded++
				}
				if !withNulls {
					if err := dst.SetString(v.Walk, i, "own", sep); err != nil {
						return nil, st, err
					}
				}
			}
		}
		st.lists++
		for _, i := range holes {
			st.met[kindAt[v.Walk+"."+strconv.Itoa(i)]]++
		}
	}
	return dst, st, nil
}

type nullSlotMerge struct {
	name  string
	salt  int64
	merge func(dst, src *ucfg.Config) (*ucfg.Config, error)
}

func nullSlotMerges() []nullSlotMerge {
	return []nullSlotMerge{
		{"dst{lists with null slots}.Merge(shared); writes into every container of dst", 1, func(dst, src *ucfg.Config) (*ucfg.Config, error) {
			return dst, dst.Merge(src, ucfg.PathSep("."))
		}},
		{"shared.Unpack(dst{lists with null slots} *Config); writes into every container of dst", 2, func(dst, src *ucfg.Config) (*ucfg.Config, error) {
			return dst, src.Unpack(dst, ucfg.PathSep("."))
		}},
		{"cfgutil.NewCollector(dst{lists with null slots}).Add(shared); writes into every container of the collected config", 3, func(dst, src *ucfg.Config) (*ucfg.Config, error) {
			col := cfgutil.NewCollector(dst, ucfg.PathSep("."))
			if err := col.Add(src, nil); err != nil {
				return nil, err
			}
			return col.Config(), nil
		}},
	}
}

// nullSlotOps: the merges above as ops of the shared config c. h0 / fp0: the
// stored state of c when the op list was made.
func nullSlotOps(c *ucfg.Config, p *srcProbe, fp0 string, h0 uint64) []op {
	var l []op
	for _, m := range nullSlotMerges() {
		m := m
		seed := p.seed*31 + m.salt
		// twin: the same merge and writes with a destination without null slots;
		// reports whether that alone changes the stored state of the source
		twinChanges := func(writes bool) bool {
			before := walkHash(c)
			dst, _, err := nullSlotDst(c, seed, false)
			if err != nil {
				return true
			}
			if dst, err = m.merge(dst, c); err != nil {
				return true
			}
			if writes {
				n := 0
				writeEverywhere(dst, &n)
			}
			return walkHash(c) != before
		}
		l = append(l, op{m.name, func() string {
			dst, st, err := nullSlotDst(c, seed, true)
			if err != nil {
				return "error building the destination"
			}
			if dst, err = m.merge(dst, c); err != nil {
				return "error"
			}
			afterMerge := walkHash(c)
			if afterMerge != h0 {
				after := fingerprint(c)
				if !twinChanges(false) {
					p.noteSig(sigNullSlotReparent, fmt.Sprintf("%s: the merge changed the stored state of its source (%d null slots of the destination's lists met an element of the source; the same merge into the twin destination holding \"own\" in place of every null leaves the source as it is): %q vs %q", m.name, st.explicit+st.padded, firstDiff(fp0, after), firstDiff(after, fp0)))
				}
				// otherwise: left to the fingerprint oracle of the case
				return stored(dst)
			}
			n := 0
			writeEverywhere(dst, &n)
			p.mu.Lock()
			p.writes += int64(n)
			p.nullMerges++
			p.mu.Unlock()
			if walkHash(c) != h0 {
				after := fingerprint(c)
				sig, why := sigLiveDst, ""
				if !twinChanges(true) {
					sig, why = sigNullSlotShared, " (the same merge and writes with the twin destination holding \"own\" in place of every null leave the source as it is)"
				}
				p.noteSig(sig, fmt.Sprintf("%s: the stored state of the source changed by the writes to the destination that followed the merge; %d null slots of the destination's lists had met an element of the source%s: %q vs %q", m.name, st.explicit+st.padded, why, firstDiff(fp0, after), firstDiff(after, fp0)))
			}
			return stored(dst)
		}})
	}
	return l
}

// nullSlotMonitors: what the destinations of this case look like.
func nullSlotMonitors(res *harness.R, shared *ucfg.Config, p *srcProbe) {
	for _, m := range nullSlotMerges() {
		_, st, err := nullSlotDst(shared, p.seed*31+m.salt, true)
		if err != nil {
			res.Ev("null_slot_destinations_not_built", 1)
			continue
		}
		res.Ev("null_slot_destination_lists", int64(st.lists))
		res.Ev("null_slots_explicit_meeting_a_source_element", int64(st.explicit))
		res.Ev("null_slots_padding_meeting_a_source_element", int64(st.padded))
		for k, n := range st.met {
			res.SetAdd("source_element_kinds_meeting_a_null_slot", k)
			res.Ev("null_slot_meets_"+k, int64(n))
		}
	}
}
