//go:build !only || only_c20

package checks

import _ "verif/internal/checks/c20"
