//go:build !only || only_c06

package checks

import _ "verif/internal/checks/c06"
