package c14

import (
	"errors"
	"fmt"
	"math/rand"
	"reflect"
	"strings"
	"time"

	ucfg "github.com/elastic/go-ucfg"
	"github.com/elastic/go-ucfg/parse"

	"verif/internal/harness"
	"verif/internal/model"
)

// Oracle A: drive the error paths of every entry point of the configuration
// API and inspect every error for being a ucfg.Error with Reason and Class.

type driver struct {
	res *harness.R
	ctx string
}

// call runs one API call. expectErr only feeds the monitors: whether an error
// must be returned at all is the business of other properties.
func (d *driver) call(entry, label string, expectErr bool, f func() error) {
	var err error
	panicked, pv, where := harness.Safe(func() { err = f() })
	d.res.Eval(1)
	d.res.Ev("drive_calls", 1)
	d.res.SetAdd("entry_point", entry)
	if panicked {
		d.res.Violate("panic:"+entry, "%s (%s): panic %q at %s; %s", entry, label, clip(pv, 300), where, d.ctx)
		return
	}
	if err == nil {
		if expectErr {
			d.res.Ev("drive_expected_error_missing", 1)
			d.res.SetAdd("drive_no_error", entry+":"+label)
		}
		return
	}
	d.res.Ev("drive_errors", 1)
	d.res.SetAdd("drive_error", entry+":"+label)
	typed(d.res, entry, err, fmt.Sprintf("call %s; %s", label, d.ctx))
}

type getter struct {
	name string
	f    func(c *ucfg.Config, name string, idx int, o ...ucfg.Option) error
}

var getters = []getter{
	{"Bool", func(c *ucfg.Config, n string, i int, o ...ucfg.Option) error {
		_, err := c.Bool(n, i, o...)
		return err
	}},
	{"Int", func(c *ucfg.Config, n string, i int, o ...ucfg.Option) error { _, err := c.Int(n, i, o...); return err }},
	{"Uint", func(c *ucfg.Config, n string, i int, o ...ucfg.Option) error {
		_, err := c.Uint(n, i, o...)
		return err
	}},
	{"Float", func(c *ucfg.Config, n string, i int, o ...ucfg.Option) error {
		_, err := c.Float(n, i, o...)
		return err
	}},
	{"String", func(c *ucfg.Config, n string, i int, o ...ucfg.Option) error {
		_, err := c.String(n, i, o...)
		return err
	}},
	{"Child", func(c *ucfg.Config, n string, i int, o ...ucfg.Option) error {
		_, err := c.Child(n, i, o...)
		return err
	}},
}

func getterByName(n string) getter {
	for _, g := range getters {
		if g.name == n {
			return g
		}
	}
	return getters[0]
}

type setter struct {
	name string
	f    func(c *ucfg.Config, name string, idx int, o ...ucfg.Option) error
}

var setters = []setter{
	{"SetBool", func(c *ucfg.Config, n string, i int, o ...ucfg.Option) error { return c.SetBool(n, i, true, o...) }},
	{"SetInt", func(c *ucfg.Config, n string, i int, o ...ucfg.Option) error { return c.SetInt(n, i, -4, o...) }},
	{"SetUint", func(c *ucfg.Config, n string, i int, o ...ucfg.Option) error { return c.SetUint(n, i, 4, o...) }},
	{"SetFloat", func(c *ucfg.Config, n string, i int, o ...ucfg.Option) error { return c.SetFloat(n, i, 0.5, o...) }},
	{"SetString", func(c *ucfg.Config, n string, i int, o ...ucfg.Option) error { return c.SetString(n, i, "s", o...) }},
	{"SetChild", func(c *ucfg.Config, n string, i int, o ...ucfg.Option) error {
		return c.SetChild(n, i, ucfg.MustNewFrom(map[string]interface{}{"k": 1}), o...)
	}},
}

// findPaths picks a primitive, a dictionary and a list setting of the tree
// (dotted paths; "" if there is none).
func findPaths(r *rand.Rand, t *model.Node) (prim, obj, list string, listLen int) {
	var prims, objs, lists []string
	lens := map[string]int{}
	var walk func(n *model.Node, p []seg)
	walk = func(n *model.Node, p []seg) {
		if n == nil {
			return
		}
		if len(p) > 0 {
			switch {
			case n.Kind == model.KPrim:
				if str, ok := n.Prim.(string); !ok || !strings.Contains(str, "$") {
					prims = append(prims, pathStr(p))
				}
			case n.Kind == model.KSub && n.HasA && len(n.A) > 0:
				lists = append(lists, pathStr(p))
				lens[pathStr(p)] = len(n.A)
			case n.Kind == model.KSub && len(n.D) > 0:
				objs = append(objs, pathStr(p))
			}
		}
		if n.Kind != model.KSub {
			return
		}
		for _, k := range n.SortedKeys() {
			walk(n.D[k], appendSeg(p, seg{key: k}))
		}
		for i, c := range n.A {
			walk(c, appendSeg(p, seg{idx: i, isIdx: true}))
		}
	}
	walk(t, nil)
	pick := func(l []string) string {
		if len(l) == 0 {
			return ""
		}
		return l[r.Intn(len(l))]
	}
	list = pick(lists)
	return pick(prims), pick(objs), list, lens[list]
}

type inlineInt struct {
	A int `config:",inline"`
}

type dupTags struct {
	A int               `config:"x"`
	B map[string]string `config:"x"`
}

type chanField struct {
	C chan int `config:"zz_prim"`
}

type bogusValidator struct {
	A int `config:"zz_prim" validate:"bogus"`
}

type intKeyMapField struct {
	M map[int]string `config:"zz_obj"`
}

type failingValidate struct {
	A int `config:"zz_prim"`
}

func (failingValidate) Validate() error { return errors.New("never valid") }

type failingUnpacker struct{ s string }

func (f *failingUnpacker) Unpack(v interface{}) error { return errors.New("unpacker says no") }

type failingUnpackerField struct {
	U failingUnpacker `config:"zz_prim"`
}

// drive runs the typed-error workload of one case. V is the valid tree of the
// case: the drive configuration is V (if it is a dictionary) plus a set of
// top-level zz_* settings, so that the error paths are reached at the depths
// the tree offers.
func drive(res *harness.R, r *rand.Rand, V *model.Node, src string) {
	t := model.Dict()
	if V.Kind == model.KSub && !V.HasA {
		t = V.Copy()
	}
	t.D["zz_prim"] = model.P(int64(5))
	t.D["zz_str"] = model.P("notanumber")
	t.D["zz_neg"] = model.P(int64(-1))
	t.D["zz_big"] = model.P(uint64(1) << 63)
	t.D["zz_obj"] = sub("k", int64(1))
	t.D["zz_lst"] = lst(int64(1), int64(2), int64(3))
	t.D["zz_ref"] = model.P(refMissing)
	t.D["zz_splice"] = model.P("x${nope}y")
	t.D["zz_cyc"] = model.P("${zz_cyc}")
	t.D["zz_msg"] = model.P("${nope:?custom message}")
	prim, obj, list, listLen := findPaths(r, t)
	d := &driver{res: res, ctx: fmt.Sprintf("config NewFrom[%s](%s) with PathSep(\".\"), VarExp", src, clip(t.String(), 600))}
	fresh := func() *ucfg.Config {
		c, err := ucfg.NewFrom(t.ToGo(), baseOpts(src)...)
		if err != nil {
			typed(res, "NewFrom", err, d.ctx)
			return ucfg.New()
		}
		return c
	}
	ps := ucfg.PathSep(".")
	c := fresh()
	boom := ucfg.Resolve(func(string) (string, parse.Config, error) {
		return "", parse.DefaultConfig, errors.New("resolver boom")
	})

	// getters
	for _, g := range getters {
		g := g
		get := func(label string, expect bool, name string, idx int, o ...ucfg.Option) {
			d.call(g.name, fmt.Sprintf("%s(%q,%d)", label, name, idx), expect, func() error { return g.f(c, name, idx, o...) })
		}
		get("missing", true, "zz_none", -1, ps)
		get("missing-nested", true, obj+".zz_none", -1, ps)
		get("missing-deep", true, "zz_none.x.y", -1, ps)
		get("missing-no-pathsep", true, "zz_obj.k", -1)
		get("through-primitive", true, prim+".x", -1, ps)
		get("through-primitive-deep", true, prim+".x.y", -1, ps)
		get("primitive-index-1", true, prim, 1, ps)
		get("index-out-of-range", true, list, listLen+2, ps)
		get("index-out-of-range-dotted", true, fmt.Sprintf("%s.%d", list, listLen+1), -1, ps)
		get("list-index-on-dict", true, "", 3, ps)
		get("on-object", g.name != "Child", obj, -1, ps)
		get("on-list", g.name != "Child", list, -1, ps)
		get("on-primitive", g.name == "Child" || g.name == "Bool", prim, -1, ps)
		get("on-unparsable-string", g.name != "String", "zz_str", -1, ps)
		get("on-negative", g.name == "Uint" || g.name == "Bool" || g.name == "Child", "zz_neg", -1, ps)
		get("on-2^63", g.name == "Int" || g.name == "Bool" || g.name == "Child", "zz_big", -1, ps)
		get("unresolvable-reference", true, "zz_ref", -1, ps)
		get("unresolvable-splice", true, "zz_splice", -1, ps)
		get("cyclic-reference", true, "zz_cyc", -1, ps)
		get("error-operator", true, "zz_msg", -1, ps)
		get("through-reference", true, "zz_ref.x", -1, ps)
		get("resolver-error", true, "zz_ref", -1, ps, boom)
	}

	// Has
	has := func(label string, expect bool, name string, idx int, o ...ucfg.Option) {
		d.call("Has", fmt.Sprintf("%s(%q,%d)", label, name, idx), expect, func() error { _, err := c.Has(name, idx, o...); return err })
	}
	has("missing", false, "zz_none", -1, ps)
	has("missing-deep", false, "zz_none.x.y", -1, ps)
	has("through-primitive", true, prim+".x", -1, ps)
	has("through-primitive-deep", true, prim+".x.y", -1, ps)
	has("primitive-index-1", true, prim, 1, ps)
	has("primitive-index-0", false, prim, 0, ps)
	has("index-out-of-range", false, list, listLen+2, ps)
	has("through-reference", true, "zz_ref.x", -1, ps)
	has("through-cyclic-reference", true, "zz_cyc.x", -1, ps)
	has("through-splice", true, "zz_splice.x.y", -1, ps)
	has("through-resolver-error", true, "zz_ref.x", -1, ps, boom)

	// CountField
	count := func(label string, expect bool, name string, o ...ucfg.Option) {
		d.call("CountField", fmt.Sprintf("%s(%q)", label, name), expect, func() error { _, err := c.CountField(name, o...); return err })
	}
	count("missing", true, "zz_none")
	count("dotted-name", true, "zz_obj.k", ps)
	count("primitive", false, "zz_prim")
	count("list", false, "zz_lst")
	count("unresolvable-reference", true, "zz_ref")
	count("unresolvable-splice", true, "zz_splice")
	count("cyclic-reference", true, "zz_cyc")
	count("error-operator", true, "zz_msg")
	count("resolver-error", true, "zz_ref", boom)

	// Remove and Set* work on scratch configurations
	sc := fresh()
	rem := func(label string, expect bool, name string, idx int, o ...ucfg.Option) {
		d.call("Remove", fmt.Sprintf("%s(%q,%d)", label, name, idx), expect, func() error { _, err := sc.Remove(name, idx, o...); return err })
	}
	rem("missing", false, "zz_none", -1, ps)
	rem("missing-deep", false, "zz_none.x.y", -1, ps)
	rem("below-primitive", true, prim+".x", -1, ps)
	rem("through-primitive", true, prim+".x.y", -1, ps)
	rem("primitive-index-0", true, prim, 0, ps)
	rem("primitive-index-1", true, prim, 1, ps)
	rem("primitive-index-1-below", true, prim+".1.x", -1, ps)
	rem("below-reference", true, "zz_ref.x", -1, ps)
	rem("through-reference", true, "zz_ref.x.y", -1, ps)
	rem("below-cyclic-reference", true, "zz_cyc.x", -1, ps)
	rem("below-splice", true, "zz_splice.x", -1, ps)
	rem("index-out-of-range", false, "zz_lst", 9, ps)
	rem("named-in-list", false, "zz_lst.k", -1, ps)
	rem("index-in-dict", false, "zz_obj", 0, ps)
	rem("list-index-on-dict", false, "", 4, ps)
	rem("existing", false, "zz_obj.k", -1, ps)

	for _, s := range setters {
		s := s
		sc := fresh()
		set := func(label string, expect bool, name string, idx int, o ...ucfg.Option) {
			d.call(s.name, fmt.Sprintf("%s(%q,%d)", label, name, idx), expect, func() error { return s.f(sc, name, idx, o...) })
		}
		set("below-primitive", true, prim+".x", -1, ps)
		set("through-primitive", true, prim+".x.y", -1, ps)
		set("primitive-index-2", true, prim, 2, ps)
		set("primitive-index-1-below", true, prim+".1.x", -1, ps)
		set("below-reference", true, "zz_ref.x", -1, ps)
		set("through-reference", true, "zz_ref.x.y", -1, ps)
		set("below-cyclic-reference", true, "zz_cyc.x", -1, ps)
		set("below-splice", true, "zz_splice.x.y", -1, ps)
		set("new-nested", false, "zz_new.a.2.b", -1, ps, ucfg.MetaData(ucfg.Meta{Source: src}))
		set("list-extend", false, "zz_lst", 5, ps)
	}

	// Merge / NewFrom of unsupported values
	ve := ucfg.VarExp
	type mcase struct {
		label  string
		expect bool
		v      interface{}
		o      []ucfg.Option
	}
	ip := 7
	nest := func(v interface{}) interface{} {
		// the offending value at the depth of a setting of the tree
		switch r.Intn(3) {
		case 0:
			return map[string]interface{}{"top": v}
		case 1:
			return map[string]interface{}{"a": map[string]interface{}{"l": []interface{}{1, map[string]interface{}{"k": v}}}}
		}
		return []interface{}{"x", []interface{}{v}}
	}
	brokenRefs := []string{"${a", "${", "x${y", "${}", "${a:${b}", "${a:?", "pre ${a.b suffix", "${${x}", "$${ok} ${"}
	mcases := []mcase{
		{"top-level-int", true, 5, nil},
		{"top-level-string", true, "text", nil},
		{"top-level-float", true, 2.5, nil},
		{"top-level-bool", true, true, nil},
		{"top-level-chan", true, make(chan int), nil},
		{"top-level-func", true, func() {}, nil},
		{"top-level-int-pointer", true, &ip, nil},
		{"top-level-string-with-source", true, "text", []ucfg.Option{ucfg.MetaData(ucfg.Meta{Source: src})}},
		{"top-level-duration", true, time.Second, nil},
		{"int-keyed-map", true, map[int]string{1: "x"}, nil},
		{"interface-keyed-map-with-int-key", true, map[interface{}]interface{}{1: "x", "a": 2}, nil},
		{"nested-int-keyed-map", true, nest(map[int]interface{}{3: 1}), []ucfg.Option{ps}},
		{"nested-interface-keyed-map-with-bool-key", true, nest(map[interface{}]interface{}{true: 1}), []ucfg.Option{ps}},
		{"nested-chan", true, nest(make(chan string)), []ucfg.Option{ps}},
		{"nested-func", true, nest(func() int { return 1 }), []ucfg.Option{ps, ucfg.MetaData(ucfg.Meta{Source: src})}},
		{"duplicate-struct-tags", true, dupTags{A: 1, B: map[string]string{"k": "v"}}, nil},
		{"nested-duplicate-struct-tags", true, nest(dupTags{A: 1}), nil},
		{"duplicate-dotted-key-vs-primitive", true, map[string]interface{}{"a.b": 1, "a": 5}, []ucfg.Option{ps}},
		{"duplicate-dotted-key-vs-object", false, map[string]interface{}{"a.b": 1, "a": map[string]interface{}{"b": 2}}, []ucfg.Option{ps}},
		{"duplicate-dotted-key-through-primitive", true, map[string]interface{}{"a.b.c": 1, "a.b": 2}, []ucfg.Option{ps}},
		{"inline-int-field", true, inlineInt{A: 1}, nil},
		{"nested-inline-int-field", true, nest(inlineInt{A: 1}), nil},
		{"broken-reference-syntax", true, nest(brokenRefs[r.Intn(len(brokenRefs))]), []ucfg.Option{ps, ve, ucfg.MetaData(ucfg.Meta{Source: src})}},
		{"broken-reference-syntax-top", true, map[string]interface{}{"s": brokenRefs[r.Intn(len(brokenRefs))]}, []ucfg.Option{ve}},
	}
	for _, m := range mcases {
		m := m
		d.call("NewFrom", m.label, m.expect, func() error { _, err := ucfg.NewFrom(m.v, m.o...); return err })
		into := fresh()
		d.call("Merge", m.label, m.expect, func() error { return into.Merge(m.v, m.o...) })
	}

	// Unpack into unusable targets
	type ucase struct {
		label  string
		expect bool
		to     func() interface{}
		o      []ucfg.Option
	}
	n := 0
	s := ""
	f := 0.0
	var ch chan int
	var fn func()
	var dur time.Duration
	ucases := []ucase{
		{"nil", true, func() interface{} { return nil }, nil},
		{"struct-value", true, func() interface{} { return struct{ A int }{} }, nil},
		{"int-value", true, func() interface{} { return 5 }, nil},
		{"string-value", true, func() interface{} { return "s" }, nil},
		{"slice-value", true, func() interface{} { return []interface{}{} }, nil},
		{"int-pointer", true, func() interface{} { return &n }, nil},
		{"string-pointer", true, func() interface{} { return &s }, nil},
		{"float-pointer", true, func() interface{} { return &f }, nil},
		{"chan-pointer", true, func() interface{} { return &ch }, nil},
		{"func-pointer", true, func() interface{} { return &fn }, nil},
		{"duration-pointer", true, func() interface{} { return &dur }, nil},
		{"int-keyed-map", true, func() interface{} { return &map[int]interface{}{} }, nil},
		{"int-keyed-map-field", true, func() interface{} { return &intKeyMapField{} }, nil},
		{"chan-field", true, func() interface{} { return &chanField{} }, nil},
		{"unknown-validator-tag", true, func() interface{} { return &bogusValidator{} }, nil},
		{"failing-validate-method", true, func() interface{} { return &failingValidate{} }, nil},
		{"failing-unpacker-field", true, func() interface{} { return &failingUnpackerField{} }, nil},
		{"array-too-short", true, func() interface{} {
			return &struct {
				L [2]int `config:"zz_lst"`
			}{}
		}, nil},
		{"unresolvable-reference-into-string", true, func() interface{} {
			return &struct {
				S string `config:"zz_ref"`
			}{}
		}, nil},
		{"unresolvable-reference-into-map", true, func() interface{} { return &map[string]interface{}{} }, nil},
		{"error-operator-into-string", true, func() interface{} {
			return &struct {
				S string `config:"zz_msg"`
			}{}
		}, nil},
		{"resolver-error-into-int", true, func() interface{} {
			return &struct {
				I int `config:"zz_ref"`
			}{}
		}, []ucfg.Option{boom}},
		{"list-of-structs-from-primitives", true, func() interface{} {
			return &struct {
				L []struct{ A int } `config:"zz_lst"`
			}{}
		}, nil},
	}
	for _, u := range ucases {
		u := u
		d.call("Unpack", u.label, u.expect, func() error { return c.Unpack(u.to(), u.o...) })
	}
	d.call("Unpack", "nil-config-receiver", true, func() error {
		var nc *ucfg.Config
		var m map[string]interface{}
		return nc.Unpack(&m)
	})
	d.call("Unpack", "reflect-made-pointer-to-pointer", false, func() error {
		t := reflect.TypeOf(struct {
			A int `config:"zz_prim"`
		}{})
		return c.Unpack(reflect.New(reflect.PtrTo(t)).Interface())
	})
}
