package c14

import (
	"fmt"
	"math/rand"
	"strings"

	ucfg "github.com/elastic/go-ucfg"

	"verif/internal/harness"
	"verif/internal/model"
)

// Load-time faults in an input whose KEYS are joined with the separator of
// the load call. NewFrom / Merge are called with PathSep(s), s drawn from a
// pool of separators (mostly not "."), and the way from the root to the
// faulty setting is spelled with joined keys: runs of 2-3 dictionary keys of
// the path become one key "a<s>b<s>c" of the enclosing map (what else the
// dictionaries in between hold stays nested next to it). The tree is put
// below 0-2 extra dictionaries so that every fault has a run to join above
// it. The setting at fault has ONE dotted path in the configuration, however
// the input spelled the way to it: the error has to name it with dots and
// completely, and show the source of the load call.

const joinedLoadFaultsPerCase = 3

var loadSeparators = []string{"/", "/", "::", ":", "|", "->", "~", "."}

var joinedWrappers = []string{"zz_w", "zz_x", "zz_y"}

// renderJoined renders n as Go maps and lists; along the path p runs of
// dictionary keys are joined with sep (at most three keys per run).
func renderJoined(n *model.Node, p []seg, sep string, r *rand.Rand, joined *[]int) interface{} {
	if len(p) == 0 || n == nil || n.Kind != model.KSub {
		return n.ToGo()
	}
	isList := (n.HasA || len(n.A) > 0) && len(n.D) == 0
	if p[0].isIdx {
		if !isList || p[0].idx >= len(n.A) {
			return n.ToGo()
		}
		l := make([]interface{}, 0, len(n.A))
		for i, v := range n.A {
			if i == p[0].idx {
				l = append(l, renderJoined(v, p[1:], sep, r, joined))
			} else {
				l = append(l, v.ToGo())
			}
		}
		return l
	}
	if isList || !hasKey(n, p[0].key) {
		return n.ToGo()
	}
	// the run of dictionary keys that can be joined from here
	run := 1
	for cur := n.D[p[0].key]; run < len(p) && run < 3; run++ {
		if p[run].isIdx || cur == nil || cur.Kind != model.KSub || cur.HasA || len(cur.A) > 0 || !hasKey(cur, p[run].key) {
			break
		}
		cur = cur.D[p[run].key]
	}
	take := 1
	if run > 1 && r.Intn(5) > 0 {
		take = 2 + r.Intn(run-1)
	}
	m := make(map[string]interface{}, len(n.D))
	for k, v := range n.D {
		if k != p[0].key {
			m[k] = v.ToGo()
		}
	}
	names := make([]string, take)
	holder := n
	var rest func(h *model.Node, i int) map[string]interface{}
	rest = func(h *model.Node, i int) map[string]interface{} {
		// what the dictionary h (reached by i path keys) holds beside the path
		out := map[string]interface{}{}
		for k, v := range h.D {
			if k != p[i].key {
				out[k] = v.ToGo()
			}
		}
		if i+1 < take {
			if sub := rest(h.D[p[i].key], i+1); len(sub) > 0 {
				out[p[i].key] = sub
			}
		}
		return out
	}
	for i := 0; i < take; i++ {
		names[i] = p[i].key
		holder = holder.D[p[i].key]
	}
	if take > 1 {
		if sub := rest(n.D[p[0].key], 1); len(sub) > 0 {
			m[p[0].key] = sub
		}
		*joined = append(*joined, take)
	}
	m[strings.Join(names, sep)] = renderJoined(holder, p[take:], sep, r, joined)
	return m
}

func hasKey(n *model.Node, k string) bool {
	_, ok := n.D[k]
	return ok
}

// spelledWithLoadSep: the message does not name the dotted path, but it does
// once every occurrence of the load separator is read as a dot.
func spelledWithLoadSep(msg, want, sep string) bool {
	if sep == "." || hasToken(msg, want, false) {
		return false
	}
	return hasToken(strings.ReplaceAll(msg, sep, "."), want, false)
}

func (cs *caseState) joinedLoadFaults(r *rand.Rand) {
	res := cs.res
	type at struct {
		p    []seg
		node *model.Node
	}
	for n := 0; n < joinedLoadFaultsPerCase; n++ {
		sep := loadSeparators[r.Intn(len(loadSeparators))]
		// the tree below 0-2 extra dictionaries
		W := cs.V.Copy()
		var prefix []seg
		for k := r.Intn(3); k > 0; k-- {
			w := joinedWrappers[r.Intn(len(joinedWrappers))]
			d := model.Dict().Set(w, W)
			if r.Intn(2) == 0 {
				d.Set("zz_side", model.P(int64(k)))
			}
			W = d
			prefix = append([]seg{{key: w}}, prefix...)
		}
		var all []at
		var walk func(n *model.Node, p []seg)
		walk = func(n *model.Node, p []seg) {
			if len(p) > len(prefix) {
				all = append(all, at{p, n})
			}
			if n == nil || n.Kind != model.KSub {
				return
			}
			for _, k := range n.SortedKeys() {
				if len(p) < len(prefix) && k != prefix[len(p)].key {
					continue
				}
				walk(n.D[k], appendSeg(p, seg{key: k}))
			}
			for i, c := range n.A {
				walk(c, appendSeg(p, seg{idx: i, isIdx: true}))
			}
		}
		walk(W, nil)
		if len(all) == 0 {
			return
		}
		a := all[r.Intn(len(all))]
		last := a.p[len(a.p)-1]
		kind := []string{"broken-expression", "broken-expression", "unsupported-value", "duplicate-key", "non-string-key"}[r.Intn(5)]
		want := pathStr(a.p)
		accept := []string{want}
		below := false
		var T *model.Node
		what := ""
		switch kind {
		case "broken-expression":
			e := brokenExpressions[r.Intn(len(brokenExpressions))]
			T = withNode(W, a.p, model.P(e))
			what = fmt.Sprintf("%q", e)
		case "unsupported-value":
			if r.Intn(2) == 0 {
				T = withNode(W, a.p, model.P(make(chan int)))
				what = "a chan int"
			} else {
				T = withNode(W, a.p, model.P(func() {}))
				what = "a func()"
			}
		case "non-string-key":
			T = withNode(W, a.p, model.P(map[interface{}]interface{}{7: "x"}))
			what = "map[interface{}]interface{}{7:\"x\"}"
			below = true
		case "duplicate-key":
			if last.isIdx || a.node == nil || a.node.Kind != model.KPrim {
				continue
			}
			T = W.Copy()
			getNode(T, a.p[:len(a.p)-1]).D[last.key+sep+"zz_dup"] = model.P(int64(2))
			accept = append(accept, want+".zz_dup")
			what = fmt.Sprintf("the extra key %q next to it", last.key+sep+"zz_dup")
		}
		var joined []int
		in := renderJoined(T, a.p, sep, r, &joined)
		spelling := "nested"
		if len(joined) > 0 {
			spelling = "joined"
		}
		where := "in-dict"
		if last.isIdx {
			where = "in-list"
		}
		entry := []string{"NewFrom", "Merge"}[r.Intn(2)]
		opts := []ucfg.Option{ucfg.PathSep(sep), ucfg.VarExp, ucfg.MetaData(ucfg.Meta{Source: cs.base})}
		var err error
		panicked, pv, loc := harness.Safe(func() {
			if entry == "NewFrom" {
				_, err = ucfg.NewFrom(in, opts...)
			} else {
				c := ucfg.New()
				err = c.Merge(in, opts...)
			}
		})
		res.Eval(1)
		res.Ev("load_time_faults_with_load_separator", 1)
		res.SetAdd("load_separator", sep)
		if len(joined) > 0 {
			res.Ev("load_time_faults_below_joined_keys", 1)
			if sep != "." {
				res.Ev("load_time_faults_below_keys_joined_with_another_separator", 1)
			}
			for _, j := range joined {
				res.Ev(fmt.Sprintf("joined_runs_of_%d_keys", j), 1)
			}
		}
		res.SetAdd("joined_load_fault_kind_x_where_x_spelling", kind+"|"+where+"|"+spelling+"|"+entry)
		res.SetAdd("joined_load_fault_depth", fmt.Sprint(len(a.p)))
		ctx := func() string {
			return fmt.Sprintf("%s(PathSep(%q), VarExp, source %s) of %s with %s at '%s' (%s, %s, %s; the tree is %s below %s)", entry, sep, cs.base, clip(fmt.Sprintf("%#v", in), 1500), what, want, kind, where, spelling, clip(cs.V.String(), 600), pathStr(prefix))
		}
		switch {
		case panicked:
			res.Violate("panic:"+entry+":input-with-joined-keys", "panic %q at %s; %s", clip(pv, 300), loc, ctx())
			continue
		case err == nil:
			res.Ev("joined_load_fault_without_error", 1)
			res.SetAdd("joined_load_fault_without_error", kind+"|"+where+"|"+spelling)
			continue
		}
		typed(res, entry, err, ctx())
		msg := errText(err)
		// the load separator does not delimit a path: 'k/zz_dup' does not name 'k'
		tokMsg := msg
		if sep != "." {
			tokMsg = strings.ReplaceAll(msg, sep, "_SEP_")
		}
		named := false
		for _, x := range accept {
			named = named || hasToken(tokMsg, x, below)
		}
		if !named {
			dev := "names-no-setting"
			for _, x := range accept {
				if spelledWithLoadSep(msg, x, sep) {
					dev = "path-spelled-with-load-separator"
				}
			}
			for k := 1; k < len(a.p) && dev == "names-no-setting"; k++ {
				for _, x := range accept {
					if hasToken(tokMsg, strings.Join(strings.Split(x, ".")[k:], "."), below) {
						dev = "front-of-path-dropped"
					}
				}
			}
			res.Violate("error-lacks-path:load-time:"+kind+":"+spelling+"-keys:"+dev, "message %q names none of %q; %s", clip(msg, 400), accept, ctx())
		} else {
			res.Ev("joined_load_faults_naming_the_setting", 1)
		}
		if !hasToken(msg, cs.base, false) {
			res.Violate("error-lacks-source:load-time:"+kind+":"+spelling+"-keys", "message %q lacks the source %s; %s", clip(msg, 400), cs.base, ctx())
		}
	}
}
