package c14

import (
	"fmt"
	"math"
	"strings"

	"verif/internal/model"
)

// fault is one way of breaking exactly one setting.
type fault struct {
	kind    string
	val     *model.Node // the faulty value put at the position
	del     bool        // the setting is removed instead
	lenient bool        // the documentation does not clearly demand an error: only counted if none is raised
	getters []string    // getters through which the same fault must be reported
	// parentRaised: the error is produced on behalf of the holder of the
	// setting because no value exists at the setting (absent) or the
	// documentation does not pin the outcome down (lenient): only the source
	// family is demanded, not the exact operand of a merge chain. A value that
	// exists (primitive, reference text, list, object, and an explicit null: it
	// was written in one of the operands) carries the source of the operand
	// that delivered it.
	parentRaised bool
	// form of a reference fault: "" (the whole value is the reference) or the
	// kind of splice the reference is embedded in
	form string
	// refTo: the setting a resolving reference points to (it must not be
	// named in place of the setting holding the reference)
	refTo   string
	wantRel string // the error is expected to name this setting below the fault position
	// extras are helper settings added at the top level of the configuration
	// (only when the target is a struct, which does not read them): they are
	// reached through the reference at the fault position only
	extras   map[string]*model.Node
	noSource bool // no value exists that could carry a source: not demanded
	// behind > 0: the bad VALUE does not sit at the fault position. The
	// setting there holds a reference that resolves, over a chain of `behind`
	// helper settings (refChain, top-level extras), to a value that is fine
	// where it is stored and fails only when it is converted for the target
	// of the setting being read. That setting is the one at fault.
	behind   int
	refChain []string
	group    string // stratification group (the fault kind when empty)
}

// stratum is the key the faults of a case are stratified by.
func (f fault) stratum() string {
	if f.group != "" {
		return f.group
	}
	return f.kind
}

func sub(kv ...interface{}) *model.Node {
	n := model.Dict()
	for i := 0; i+1 < len(kv); i += 2 {
		n.D[kv[i].(string)] = model.P(kv[i+1])
	}
	return n
}

func lst(v ...interface{}) *model.Node {
	n := model.List()
	for _, x := range v {
		n.A = append(n.A, model.P(x))
	}
	return n
}

const refMissing = "${nope.missing}"

var allGetters = []string{"Bool", "Int", "Uint", "Float", "String", "Child"}

func hasTag(tag, name string) bool {
	for _, t := range strings.Split(tag, ",") {
		if t == name || strings.HasPrefix(t, name+"=") {
			return true
		}
	}
	return false
}

// faultsAt lists the single faults applicable at a position.
// faultEnv is what the fault kinds need to know about the case.
type faultEnv struct {
	pick      func(n int) int
	topStruct bool                        // the Unpack target is a struct: unknown top-level keys are not read
	primFor   func(p []seg) string        // dotted path of a primitive setting elsewhere in the valid tree ("" if none)
	dictFor   func(p []seg) string        // dotted path of a non-empty dictionary elsewhere in the valid tree ("" if none)
	listFor   func(p []seg) (string, int) // dotted path and length of a non-empty list elsewhere in the valid tree
}

// sigKind is the fault kind as used in signatures: reference faults carry the
// form of the text the reference is embedded in.
func (f fault) sigKind() string {
	if f.behind > 0 {
		return f.kind + f.form + "+behind-ref"
	}
	return f.kind + f.form
}

// behindRef derives, from the conversion faults of a leaf, the variants whose
// bad value lives behind a reference: the setting holds "${zz_r<a>}", a chain
// of 1-3 helper settings at the top level leads to the value. Only for struct
// targets (which do not read the helpers).
func behindRef(p *position, leaf []fault, pick func(int) int) []fault {
	var out []fault
	for _, f := range leaf {
		if f.del || f.val == nil || f.val.Kind != model.KPrim || f.val.IsNil() || f.lenient || f.parentRaised {
			continue
		}
		if s, ok := f.val.Prim.(string); ok && (strings.Contains(s, "$") || s == "") {
			continue // an empty text behind a reference: whether that is a value at all is another matter
		}
		g := f
		switch {
		case f.kind == "out-of-range-duration":
			g.group = "behind-ref:duration"
		case strings.HasPrefix(f.kind, "out-of-range-") || f.kind == "negative-into-uint":
			g.group = "behind-ref:range"
		case f.kind == "bool-for-number" || f.kind == "number-for-bool" || strings.HasPrefix(f.kind, "unparsable-"):
			g.group = "behind-ref:type"
		default:
			continue
		}
		v := f.val.Copy()
		if f.kind == "out-of-range-duration" {
			// seconds that do not fit: positive integers (Go ints and uints),
			// negative integers, floats
			v = model.P([]interface{}{int64(9223372037), int64(math.MaxInt64), uint64(1) << 62, uint64(math.MaxInt64), uint64(math.MaxUint64), uint64(9223372037),
				int64(-9223372038), int64(math.MinInt64), 9.3e9, 1e19, -1e12}[pick(11)])
		}
		n := 1 + pick(3)
		a := pick(7)
		g.extras = map[string]*model.Node{}
		g.refChain = nil
		for k := 0; k < n; k++ {
			g.refChain = append(g.refChain, fmt.Sprintf("zz_r%d", a+k))
		}
		for k, name := range g.refChain {
			if k+1 < n {
				g.extras[name] = model.P("${" + g.refChain[k+1] + "}")
			} else {
				g.extras[name] = v
			}
		}
		g.val = model.P("${" + g.refChain[0] + "}")
		g.behind = n
		out = append(out, g)
	}
	return out
}

// refForms: how the text of a failing reference ${ref} is embedded in the
// value of the setting. Whatever the form, evaluating the setting fails, and
// the setting holding the text is the one at fault.
var refForms = []struct {
	name string
	text func(ref string, pick func(int) int) string
}{
	{"", func(ref string, _ func(int) int) string { return ref }},
	{"+splice-text", func(ref string, pick func(int) int) string {
		return []string{"pre-" + ref, ref + "/cache", "a " + ref + " b", ref + ref}[pick(4)]
	}},
	{"+splice-list", func(ref string, pick func(int) int) string {
		return []string{ref + ",extra", "first," + ref, "[1, " + ref + ", 3]"}[pick(3)]
	}},
	{"+splice-object", func(ref string, pick func(int) int) string {
		return []string{"{zk: " + ref + "}", "{zk: 1, zm: " + ref + ", zn: 2}", "{zk: {zm: [" + ref + "]}}"}[pick(3)]
	}},
}

func faultsAt(p *position, env faultEnv) []fault {
	pick := env.pick
	var out []fault
	add := func(f fault) { out = append(out, f) }
	self := "${" + pathStr(p.path) + "}"
	refs := func() {
		// the reference text is embedded as the whole value (2 of 5) or in a
		// splice evaluating to a text, a list or an object (1 of 5 each)
		ref := func(kind, r string, extras map[string]*model.Node) {
			fm := refForms[0]
			if x := pick(5); x >= 2 {
				fm = refForms[x-1]
			}
			add(fault{kind: kind, form: fm.name, val: model.P(fm.text(r, pick)), getters: allGetters, extras: extras})
		}
		// multi-segment paths failing at the first segment, ...
		ref("unresolvable-reference", []string{refMissing, "${nope}", "${nope.x.y}", "${nope.0.x}"}[pick(4)], nil)
		// ... at an intermediate or at the last segment below a namespace that exists, ...
		if d := env.dictFor(p.path); d != "" {
			ref("unresolvable-reference-intermediate", "${"+d+[]string{".zz_nope.x", ".zz_nope.x.y", ".zz_nope.0"}[pick(3)]+"}", nil)
			ref("unresolvable-reference-last", "${"+d+".zz_nope}", nil)
		}
		// ... at an index beyond a list that exists (last or intermediate)
		if l, n := env.listFor(p.path); l != "" {
			ref("unresolvable-reference-list-index", fmt.Sprintf("${%s.%d%s}", l, n+pick(3), []string{"", "", ".x", ".0"}[pick(4)]), nil)
		}
		ref("cyclic-reference", self, nil)
		// references failing with a typed error that carries no path of its
		// own: a cycle between two other settings, a path through a primitive
		if env.topStruct {
			ref("cyclic-reference-pair", "${zz_x}", map[string]*model.Node{"zz_x": model.P("${zz_y}"), "zz_y": model.P("${zz_x}")})
		}
		if q := env.primFor(p.path); q != "" {
			ref("reference-through-primitive", "${"+q+[]string{".x.y", ".x.y.z", ".0.x.y", ".k.1", ".x"}[pick(5)]+"}", nil)
		}
	}
	s := p.sp
	if s == nil || s.kind == kIface {
		// anything is data for interface{}: only references can fail
		refs()
		return out
	}
	tag := p.tag
	switch s.kind {
	case kStruct, kMap:
		add(fault{kind: "primitive-for-object", val: model.P([]interface{}{"text", int64(7), true, 2.5}[pick(4)]), getters: []string{"Child"}})
		add(fault{kind: "list-for-object", val: lst(int64(1), int64(2)), lenient: true, parentRaised: true})
		if s.kind == kMap && hasTag(tag, "nonzero") {
			add(fault{kind: "validator-nonzero", val: model.Dict()})
		}
		if s.kind == kStruct && !s.ptr && p.fld != nil {
			// the whole struct setting is absent: the first validated setting
			// inside it fails on its zero value
			if rel := s.failsOnZero(); rel != "" {
				add(fault{kind: "required-in-missing-struct", del: true, parentRaised: true, wantRel: rel, noSource: true})
				// the struct setting is present as null: its members are
				// absent all the same, but the null carries a source
				add(fault{kind: "required-in-null-struct", val: model.Nil(), wantRel: rel})
			}
		}
		refs()
	case kSlice, kArray:
		e := s.elem
		switch {
		case e.kind == kStruct || e.kind == kMap:
			add(fault{kind: "primitive-for-list", val: model.P("text")})
		case e.kind == kLeaf && (e.leaf.number() || e.leaf == lBool || e.leaf == lDuration || e.leaf == lPort || e.leaf == lRatio || e.leaf == lSpan):
			add(fault{kind: "primitive-for-list", val: model.P("not a value")})
		}
		if s.kind == kArray {
			short := model.List()
			long := model.List()
			for i := 0; i < s.n; i++ {
				long.A = append(long.A, p.node.A[i].Copy())
				if i > 0 {
					short.A = append(short.A, p.node.A[i].Copy())
				}
			}
			long.A = append(long.A, p.node.A[0].Copy())
			add(fault{kind: "array-too-short", val: short})
			add(fault{kind: "array-too-long", val: long})
		}
		if hasTag(tag, "nonzero") {
			add(fault{kind: "validator-nonzero", val: model.List()})
		}
		if hasTag(tag, "required") {
			add(fault{kind: "validator-required-empty", val: model.List()})
			if !p.elemTag {
				add(fault{kind: "validator-required-null", val: model.Nil()})
				add(fault{kind: "validator-required-missing", del: true, parentRaised: true})
			}
		}
		refs()
	case kLeaf:
		n0 := len(out)
		leafFaults(p, s, tag, add, pick)
		if env.topStruct {
			out = append(out, behindRef(p, out[n0:], pick)...)
		}
		refs()
		// a reference that resolves, but to an object of the tree (valid where
		// it is): the wrong typed setting is the one holding the reference
		if d := env.dictFor(p.path); s.leaf != lSpan && d != "" && !strings.HasPrefix(pathStr(p.path), d+".") {
			add(fault{kind: "reference-to-object-for-primitive", val: model.P("${" + d + "}"), getters: []string{"String", "Int", "Bool", "Float", "Uint"}, refTo: d})
		}
	}
	return out
}

func leafFaults(p *position, s *spec, tag string, add func(fault), pick func(int) int) {
	lk := s.leaf
	if lk == lSpan {
		add(fault{kind: "primitive-for-object", val: model.P("text"), getters: []string{"Child"}})
		add(fault{kind: "validate-method", val: sub("lo", int64(9), "hi", int64(1))})
		return
	}
	add(fault{kind: "object-for-primitive", val: sub("zz", int64(1)), getters: []string{"String", "Int", "Bool", "Float", "Uint"}})
	add(fault{kind: "list-for-primitive", val: lst(int64(1), int64(2)), getters: []string{"String", "Int", "Bool", "Float", "Uint"}})
	// validator tags: all of them are run on the converted value
	if !s.ptr {
		num := lk.number()
		if hasTag(tag, "min") {
			switch {
			case lk.float():
				add(fault{kind: "validator-min", val: model.P(3.5)})
			case num:
				add(fault{kind: "validator-min", val: model.P(int64(3))})
			case lk == lDuration:
				add(fault{kind: "validator-min", val: model.P("3s")})
			}
		}
		if hasTag(tag, "max") {
			switch {
			case lk.float():
				add(fault{kind: "validator-max", val: model.P(100.5)})
			case num:
				add(fault{kind: "validator-max", val: model.P(int64(100))})
			case lk == lDuration:
				add(fault{kind: "validator-max", val: model.P("100s")})
			}
		}
		if hasTag(tag, "positive") {
			switch {
			case lk.float():
				add(fault{kind: "validator-positive", val: model.P(-1.5)})
			case lk.signed():
				add(fault{kind: "validator-positive", val: model.P(int64(-1))})
			case lk == lDuration:
				add(fault{kind: "validator-positive", val: model.P("-5s")})
			}
		}
		if hasTag(tag, "nonzero") {
			switch {
			case num:
				add(fault{kind: "validator-nonzero", val: model.P(int64(0))})
			case lk == lDuration:
				add(fault{kind: "validator-nonzero", val: model.P("0s")})
			case lk == lString:
				add(fault{kind: "validator-nonzero", val: model.P("")})
			}
		}
		if hasTag(tag, "required") {
			switch {
			case num:
				add(fault{kind: "validator-required-empty", val: model.P(int64(0))})
			case lk == lString:
				add(fault{kind: "validator-required-empty", val: model.P("")})
			}
			if !p.elemTag {
				add(fault{kind: "validator-required-null", val: model.Nil()})
				add(fault{kind: "validator-required-missing", del: true, parentRaised: true})
			}
		}
	} else if hasTag(tag, "required") && !p.elemTag {
		add(fault{kind: "validator-required-null", val: model.Nil()})
		add(fault{kind: "validator-required-missing", del: true, parentRaised: true})
	}

	badNum := []interface{}{"notanumber", "12abc", "x y", "", "1.2.3"}
	switch {
	case lk.signed() || lk == lPort:
		add(fault{kind: "unparsable-int", val: model.P([]interface{}{"notanumber", "12abc", "x y", "", "1.5"}[pick(5)]), getters: []string{"Int"}})
		add(fault{kind: "bool-for-number", val: model.P(true), getters: []string{"Int"}})
	case lk.unsigned():
		add(fault{kind: "unparsable-uint", val: model.P(badNum[pick(len(badNum))]), getters: []string{"Uint"}})
		add(fault{kind: "negative-into-uint", val: model.P([]interface{}{int64(-1), int64(-7), -2.5, "-3"}[pick(4)]), getters: []string{"Uint"}})
	case lk.float() || lk == lRatio:
		add(fault{kind: "unparsable-float", val: model.P(badNum[pick(len(badNum))]), getters: []string{"Float"}})
		add(fault{kind: "bool-for-number", val: model.P(false), getters: []string{"Float"}})
	}
	switch lk {
	case lInt8:
		add(fault{kind: "out-of-range-int8", val: model.P([]interface{}{int64(300), int64(-200), int64(128), "300"}[pick(4)])})
	case lInt16:
		add(fault{kind: "out-of-range-int16", val: model.P([]interface{}{int64(70000), int64(-40000)}[pick(2)])})
	case lInt32:
		add(fault{kind: "out-of-range-int32", val: model.P([]interface{}{int64(1) << 40, int64(math.MinInt32) - 1}[pick(2)])})
	case lInt64, lInt:
		add(fault{kind: "out-of-range-int64", val: model.P([]interface{}{9223372036854775808.0, uint64(1) << 63, uint64(math.MaxUint64), -1e19, "9223372036854775808"}[pick(5)]), getters: []string{"Int"}})
	case lUint8:
		add(fault{kind: "out-of-range-uint8", val: model.P([]interface{}{int64(256), uint64(1000)}[pick(2)])})
	case lUint16:
		add(fault{kind: "out-of-range-uint16", val: model.P(int64(70000))})
	case lUint32:
		add(fault{kind: "out-of-range-uint32", val: model.P(int64(1) << 40)})
	case lUint64, lUint:
		add(fault{kind: "out-of-range-uint64", val: model.P([]interface{}{18446744073709551616.0, 1e30, "18446744073709551616"}[pick(3)]), getters: []string{"Uint"}})
	case lFloat32:
		add(fault{kind: "out-of-range-float32", val: model.P([]interface{}{1e40, -1e39}[pick(2)])})
	case lFloat64:
		add(fault{kind: "out-of-range-float64", val: model.P("1e999"), getters: []string{"Float"}})
	case lBool:
		add(fault{kind: "unparsable-bool", val: model.P([]interface{}{"maybe", "2", "", "tru"}[pick(4)]), getters: []string{"Bool"}})
		add(fault{kind: "number-for-bool", val: model.P([]interface{}{int64(1), 0.5, int64(-1)}[pick(3)]), getters: []string{"Bool"}})
	case lDuration:
		add(fault{kind: "unparsable-duration", val: model.P([]interface{}{"5 parsecs", "abc", "", true}[pick(4)])})
		add(fault{kind: "out-of-range-duration", val: model.P([]interface{}{1e19, uint64(math.MaxInt64), int64(math.MinInt64)}[pick(3)])})
	case lRegexp:
		add(fault{kind: "unparsable-regexp", val: model.P([]interface{}{"a(b", "[z-a]", "*x", "(?P<n"}[pick(4)])})
	case lPort:
		add(fault{kind: "validate-method", val: model.P([]interface{}{int64(0), int64(70000), int64(-5), "0"}[pick(4)])})
	case lIdent:
		add(fault{kind: "validate-method", val: model.P([]interface{}{"", "two words"}[pick(2)])})
	case lRatio:
		add(fault{kind: "validate-method", val: model.P([]interface{}{1.5, -0.25, int64(2)}[pick(3)])})
	case lLevel:
		add(fault{kind: "unpacker-rejects", val: model.P([]interface{}{"bogus", "", int64(3)}[pick(3)])})
	}
}
