package c14

import (
	"fmt"
	"hash/fnv"
	"math/rand"
	"strconv"
	"strings"

	ucfg "github.com/elastic/go-ucfg"

	"verif/internal/model"
)

// A route is one way of constructing the configuration that holds tree T:
// directly, by a chain of merges, or by a Set*/Remove history. Every route is
// planned on the VALID tree (all random choices are made then) and can be
// replayed for any tree that differs from it only at or below the fault path.

type built struct {
	cfg      *ucfg.Config
	desc     string
	exactSrc string        // source of the operation that delivered the value at the fault path
	uopts    []ucfg.Option // options every read of the configuration needs (resolvers serving expanded values)
	// insideExpanded: the value that has to carry the source lies strictly
	// inside a list or object built from expanded text
	insideExpanded bool
	// expandedItself: that value is the list or object built from the text
	expandedItself bool
	// holderSrc: the source of the holder of the faulty setting where the
	// route knows that the holder comes from one operation (demanded when
	// nothing exists at the setting itself)
	holderSrc string
}

type route struct {
	name  string
	build func(T *model.Node) (built, error)
}

func baseOpts(src string) []ucfg.Option {
	return []ucfg.Option{ucfg.PathSep("."), ucfg.VarExp, ucfg.MetaData(ucfg.Meta{Source: src})}
}

// callErr marks an error returned by the library while a route is replayed.
type callErr struct {
	entry string
	err   error
	desc  string
}

func (e *callErr) Error() string {
	return fmt.Sprintf("%s failed: %v; history: %s", e.entry, e.err, e.desc)
}

// spine builds the operand that contains only what lies on the path: the
// dictionaries hold the path key only, the lists hold copies of the elements
// before the path index (so that an index-wise merge leaves them unchanged).
func spine(t *model.Node, p []seg, leaf func(n *model.Node) *model.Node) *model.Node {
	if len(p) == 0 {
		return leaf(t)
	}
	s := p[0]
	if !s.isIdx {
		return model.Dict().Set(s.key, spine(t.D[s.key], p[1:], leaf))
	}
	n := model.List()
	for j := 0; j < s.idx; j++ {
		n.A = append(n.A, t.A[j].Copy())
	}
	n.A = append(n.A, spine(t.A[s.idx], p[1:], leaf))
	return n
}

// dictSpine wraps v in dictionaries along q (q holds keys only).
func dictSpine(q []seg, v *model.Node) *model.Node {
	for i := len(q) - 1; i >= 0; i-- {
		v = model.Dict().Set(q[i].key, v)
	}
	return v
}

// without returns T with the setting at p taken out: a dictionary key is
// deleted, a list is cut before the index (tail=false) or the element is
// replaced by a placeholder (ph != nil).
func without(T *model.Node, p []seg, ph *model.Node) *model.Node {
	c := T.Copy()
	par := getNode(c, p[:len(p)-1])
	last := p[len(p)-1]
	switch {
	case ph != nil:
		if last.isIdx {
			par.A[last.idx] = ph
		} else {
			par.D[last.key] = ph
		}
	case last.isIdx:
		par.A = par.A[:last.idx]
	default:
		delete(par.D, last.key)
	}
	return c
}

// flattener spells a tree with dotted keys (to be split by PathSep): every
// edge into a non-empty dictionary or list is either folded into the key of
// what lies below ("a.b.c": 1, "a.l.0": 1, "a.l.1.k": 2; lists are always
// spelled completely) or kept as a nested value. The decision is a function
// of (seed, absolute path), so that the valid twin and the faulty tree are
// spelled alike wherever they agree. The namespaces and lists behind folded
// edges exist only implicitly in the input.
type flattener struct{ seed uint64 }

func (f flattener) fold(abs string) bool {
	h := fnv.New64a()
	var b [8]byte
	for i := range b {
		b[i] = byte(f.seed >> (8 * uint(i)))
	}
	h.Write(b[:])
	h.Write([]byte(abs))
	return h.Sum64()%3 != 0
}

func (f flattener) dict(n *model.Node, abs string) *model.Node {
	out := model.Dict()
	for _, k := range n.SortedKeys() {
		f.emit(out, k, n.D[k], joinPath(abs, k))
	}
	return out
}

func joinPath(a, b string) string {
	if a == "" {
		return b
	}
	return a + "." + b
}

func (f flattener) emit(out *model.Node, key string, c *model.Node, abs string) {
	if c != nil && c.Kind == model.KSub && (len(c.D) > 0 || len(c.A) > 0) && f.fold(abs) {
		if len(c.A) > 0 {
			for i, e := range c.A {
				f.emit(out, key+"."+strconv.Itoa(i), e, abs+"."+strconv.Itoa(i))
			}
		} else {
			for _, k := range c.SortedKeys() {
				f.emit(out, key+"."+k, c.D[k], abs+"."+k)
			}
		}
		return
	}
	out.D[key] = f.nested(c, abs)
}

func (f flattener) nested(c *model.Node, abs string) *model.Node {
	if c == nil || c.Kind != model.KSub {
		return c.Copy()
	}
	if c.HasA || len(c.A) > 0 {
		n := model.List()
		for i, e := range c.A {
			n.A = append(n.A, f.nested(e, abs+"."+strconv.Itoa(i)))
		}
		return n
	}
	return f.dict(c, abs)
}

// flat spells a top-level operand; lists at the top level stay as they are.
func (f flattener) flat(t *model.Node) *model.Node {
	return f.nested(t, "")
}

func firstIndex(p []seg) int {
	for j, s := range p {
		if s.isIdx {
			return j
		}
	}
	return -1
}

func mergeChain(ops []*model.Node, srcs []string, policy []ucfg.Option, names string) (*ucfg.Config, string, error) {
	var d []string
	for i, op := range ops {
		d = append(d, fmt.Sprintf("Merge[%s](%s)", srcs[i], op))
	}
	desc := names + ": " + strings.Join(d, " ; ")
	c := ucfg.New()
	for i, op := range ops {
		o := append(baseOpts(srcs[i]), policy...)
		if err := c.Merge(op.ToGo(), o...); err != nil {
			return nil, desc, &callErr{"Merge", err, desc}
		}
	}
	return c, desc, nil
}

func nameIdx(q []seg, idx int, form int) (string, int) {
	if len(q) == 0 {
		if form == 0 {
			return "", idx
		}
		return strconv.Itoa(idx), -1
	}
	if form == 0 {
		return pathStr(q), idx
	}
	return pathStr(q) + "." + strconv.Itoa(idx), -1
}

// setAt writes node v at path p of c through the Set* API.
func setAt(c *ucfg.Config, p []seg, v *model.Node, src string, form int) (string, error) {
	name, idx := pathStr(p), -1
	if last := p[len(p)-1]; last.isIdx {
		name, idx = nameIdx(p[:len(p)-1], last.idx, form)
	}
	o := []ucfg.Option{ucfg.PathSep("."), ucfg.MetaData(ucfg.Meta{Source: src})}
	if v.Kind == model.KSub {
		ch, err := ucfg.NewFrom(v.ToGo(), baseOpts(src)...)
		if err != nil {
			return "NewFrom", err
		}
		return fmt.Sprintf("SetChild(%q,%d,NewFrom(%s))", name, idx, v), wrap("SetChild", c.SetChild(name, idx, ch, o...))
	}
	switch x := v.Prim.(type) {
	case string:
		return fmt.Sprintf("SetString(%q,%d,%q)", name, idx, x), wrap("SetString", c.SetString(name, idx, x, o...))
	case int64:
		return fmt.Sprintf("SetInt(%q,%d,%d)", name, idx, x), wrap("SetInt", c.SetInt(name, idx, x, o...))
	case uint64:
		return fmt.Sprintf("SetUint(%q,%d,%d)", name, idx, x), wrap("SetUint", c.SetUint(name, idx, x, o...))
	case float64:
		return fmt.Sprintf("SetFloat(%q,%d,%v)", name, idx, x), wrap("SetFloat", c.SetFloat(name, idx, x, o...))
	case bool:
		return fmt.Sprintf("SetBool(%q,%d,%v)", name, idx, x), wrap("SetBool", c.SetBool(name, idx, x, o...))
	}
	return "", fmt.Errorf("no setter for %s", v)
}

type entryErr struct {
	entry string
	err   error
}

func (e *entryErr) Error() string { return e.entry + ": " + e.err.Error() }

func wrap(entry string, err error) error {
	if err == nil {
		return nil
	}
	return &entryErr{entry, err}
}

func settable(v *model.Node) bool {
	if v == nil {
		return false
	}
	switch v.Kind {
	case model.KSub:
		return true
	case model.KPrim:
		if s, ok := v.Prim.(string); ok && strings.Contains(s, "$") {
			return false // Set* does not parse references
		}
		return true
	}
	return false
}

// leafSettable: the container is not empty and all its leaves can be written
// by setters.
func leafSettable(v *model.Node) bool {
	if v.Kind != model.KSub {
		return settable(v)
	}
	if len(v.D)+len(v.A) == 0 {
		return false
	}
	for _, c := range v.D {
		if c == nil || !leafSettable(c) {
			return false
		}
	}
	for _, c := range v.A {
		if c == nil || !leafSettable(c) {
			return false
		}
	}
	return true
}

// planRoutes lists the routes applicable to a fault at p. V is the valid tree.
func planRoutes(r *rand.Rand, V *model.Node, p []seg, f fault, base string, topStruct bool) []route {
	out := planStoredRoutes(r, V, p, f, base)
	wantLen := len(p)
	if f.wantRel != "" {
		wantLen++
	}
	if f.behind > 0 {
		// the helper settings a value-behind-reference fault resolves through
		// live in a configuration of their own (own source) handed to every
		// read as Env
		out = append(out, route{"behind-ref-env", func(T *model.Node) (built, error) {
			X, H := T.Copy(), model.Dict()
			for k := range f.extras {
				if v, ok := X.D[k]; ok {
					H.D[k] = v
					delete(X.D, k)
				}
			}
			desc := fmt.Sprintf("behind-ref-env: NewFrom[%s-op0](%s) read with Env(NewFrom[%s-op2](%s))", base, X, base, H)
			e, err := ucfg.NewFrom(H.ToGo(), baseOpts(base+"-op2")...)
			if err != nil {
				return built{desc: desc}, &callErr{"NewFrom", err, desc}
			}
			c, err := ucfg.NewFrom(X.ToGo(), baseOpts(base+"-op0")...)
			if err != nil {
				return built{desc: desc}, &callErr{"NewFrom", err, desc}
			}
			return built{cfg: c, desc: desc, exactSrc: base + "-op0", uopts: []ucfg.Option{ucfg.Env(e)}}, nil
		}})
	}
	return append(out, expandRoutes(r, V, p, wantLen, f, base, topStruct)...)
}

// planStoredRoutes: the routes that end with the tree stored as data.
func planStoredRoutes(r *rand.Rand, V *model.Node, p []seg, f fault, base string) []route {
	var out []route
	src := func(k int) string { return base + "-op" + strconv.Itoa(k) }

	// (ii) a dictionary on the fault path replaced as a whole through a
	// per-field policy: the earlier operand holds the same tree with one more
	// key in that dictionary, the later operand (FieldReplaceValues(<path>))
	// delivers the dictionary again. Everything at and below it, the
	// dictionary itself included, then comes from the later operand.
	var fieldReplace []route
	{
		var hs [][]seg
		for j := 1; j <= len(p); j++ {
			if p[j-1].isIdx {
				break // per-field options for concrete list positions are another matter
			}
			if n := getNode(V, p[:j]); n != nil && n.Kind == model.KSub && !n.HasA && len(n.D) > 0 {
				hs = append(hs, p[:j])
			}
		}
		if len(hs) > 0 {
			h := hs[r.Intn(len(hs))]
			fieldReplace = append(fieldReplace, route{"merge-field-replace", func(T *model.Node) (built, error) {
				n := getNode(T, h)
				if n == nil || n.Kind != model.KSub || n.HasA || len(n.D) == 0 {
					return built{}, errNotApplicable // the fault took the dictionary away
				}
				old := T.Copy()
				getNode(old, h).D["zz_old"] = model.P("old")
				pol := []ucfg.Option{ucfg.FieldReplaceValues(pathStr(h))} // behind PathSep(".")
				c, desc, err := mergeChain([]*model.Node{old, T}, []string{src(0), src(1)}, pol, "merge-field-replace("+pathStr(h)+")")
				return built{cfg: c, desc: desc, exactSrc: src(1), holderSrc: src(1)}, err
			}})
		}
	}

	if f.del {
		// the setting is missing because it was removed
		out = append(out, route{"remove-key", func(T *model.Node) (built, error) {
			desc := fmt.Sprintf("NewFrom[%s](%s) ; Remove(%q,-1)", src(0), V, pathStr(p))
			c, err := ucfg.NewFrom(V.ToGo(), baseOpts(src(0))...)
			if err != nil {
				return built{desc: desc}, &callErr{"NewFrom", err, desc}
			}
			ok, err := c.Remove(pathStr(p), -1, ucfg.PathSep("."))
			if err != nil {
				return built{desc: desc}, &callErr{"Remove", err, desc}
			}
			if !ok {
				return built{desc: desc}, fmt.Errorf("Remove reported nothing removed; %s", desc)
			}
			return built{cfg: c, desc: desc}, nil
		}})
		if V.Kind == model.KSub && !V.HasA {
			// the setting is missing below a namespace that exists only implicitly
			fl := flattener{seed: r.Uint64()}
			out = append(out, route{"dotted-keys", func(T *model.Node) (built, error) {
				c, desc, err := mergeChain([]*model.Node{fl.flat(T)}, []string{src(0)}, nil, "dotted-keys")
				return built{cfg: c, desc: desc, exactSrc: src(0)}, err
			}})
		}
		return append(out, fieldReplace...)
	}
	out = append(out, fieldReplace...)

	last := p[len(p)-1]

	// (ii) merges, default policy: the fault arrives with the second operand
	absent := r.Intn(2) == 0
	out = append(out, route{"merge-overlay", func(T *model.Node) (built, error) {
		var op1 *model.Node
		if absent {
			op1 = without(T, p, nil)
		} else {
			op1 = without(T, p, model.P("placeholder"))
		}
		op2 := spine(T, p, func(n *model.Node) *model.Node { return n.Copy() })
		if last.isIdx {
			// the elements behind the fault come along with it
			par := getNode(op2, p[:len(p)-1])
			for _, e := range getNode(T, p[:len(p)-1]).A[last.idx+1:] {
				par.A = append(par.A, e.Copy())
			}
		}
		c, desc, err := mergeChain([]*model.Node{op1, op2}, []string{src(0), src(1)}, nil, "merge-overlay")
		return built{cfg: c, desc: desc, exactSrc: src(1)}, err
	}})

	// (ii) merges, default policy: the fault is there first, a later operand
	// is merged over everything around it
	out = append(out, route{"merge-under", func(T *model.Node) (built, error) {
		op2 := without(T, p, nil)
		c, desc, err := mergeChain([]*model.Node{T, op2}, []string{src(0), src(1)}, nil, "merge-under")
		return built{cfg: c, desc: desc, exactSrc: src(0)}, err
	}})

	// (ii) merges under a replacing policy: an earlier operand holds other
	// data at the same places (the valid tree, every list on the fault path one
	// element longer), the later operand replaces it. With ReplaceValues
	// everything comes from the later operand; with ReplaceArrValues
	// dictionaries are merged key by key and lists are replaced as a whole.
	for _, arrOnly := range []bool{false, true} {
		arrOnly := arrOnly
		name, pol := "merge-replace", []ucfg.Option{ucfg.ReplaceValues}
		if arrOnly {
			name, pol = "merge-replace-arr", []ucfg.Option{ucfg.ReplaceArrValues}
		}
		out = append(out, route{name, func(T *model.Node) (built, error) {
			if n := getNode(T, p); n.IsNil() || (n.Kind == model.KSub && len(n.D)+len(n.A) == 0) {
				// what a null or an empty collection replaces is a matter of the merge rules
				return built{}, errNotApplicable
			}
			old := V.Copy()
			for j := 0; j <= len(p); j++ {
				if n := getNode(old, p[:j]); n != nil && n.Kind == model.KSub && len(n.A) > 0 {
					n.A = append(n.A, n.A[0].Copy())
				}
			}
			c, desc, err := mergeChain([]*model.Node{old, T}, []string{src(0), src(1)}, pol, name)
			exact := src(1)
			if o, n := getNode(old, p), getNode(T, p); arrOnly && o != nil && n != nil && o.Kind == model.KSub && n.Kind == model.KSub && !o.HasA && !n.HasA {
				// a dictionary merged key by key belongs to both operands
				exact = ""
			}
			return built{cfg: c, desc: desc, exactSrc: exact}, err
		}})
	}

	// (ii) the holder of the faulty setting has both a list part and a
	// dictionary part: a later operand adds a named setting to the list the
	// faulty element belongs to, or a first element to the dictionary the
	// faulty member belongs to
	if len(p) >= 2 {
		q := p[:len(p)-1]
		out = append(out, route{"mixed-holder", func(T *model.Node) (built, error) {
			h := getNode(T, q)
			if h == nil || h.Kind != model.KSub || len(h.D)+len(h.A) == 0 {
				return built{}, errNotApplicable
			}
			add := spine(T, q, func(*model.Node) *model.Node {
				if last.isIdx {
					return model.Dict().Set("zz_named", model.P("mixed"))
				}
				return model.List(model.P("mixed"))
			})
			c, desc, err := mergeChain([]*model.Node{T, add}, []string{src(0), src(1)}, nil, "mixed-holder")
			return built{cfg: c, desc: desc, exactSrc: src(0)}, err
		}})
	}

	// the same three constructions with the input spelled in dotted keys:
	// folded namespaces and lists are created implicitly by the library
	if V.Kind == model.KSub && !V.HasA {
		fl := flattener{seed: r.Uint64()}
		out = append(out, route{"dotted-keys", func(T *model.Node) (built, error) {
			c, desc, err := mergeChain([]*model.Node{fl.flat(T)}, []string{src(0)}, nil, "dotted-keys")
			return built{cfg: c, desc: desc, exactSrc: src(0)}, err
		}})
		out = append(out, route{"dotted-merge-overlay", func(T *model.Node) (built, error) {
			op1 := without(T, p, nil)
			op2 := spine(T, p, func(n *model.Node) *model.Node { return n.Copy() })
			if last.isIdx {
				par := getNode(op2, p[:len(p)-1])
				for _, e := range getNode(T, p[:len(p)-1]).A[last.idx+1:] {
					par.A = append(par.A, e.Copy())
				}
			}
			c, desc, err := mergeChain([]*model.Node{fl.flat(op1), fl.flat(op2)}, []string{src(0), src(1)}, nil, "dotted-merge-overlay")
			return built{cfg: c, desc: desc, exactSrc: src(1)}, err
		}})
		out = append(out, route{"dotted-merge-under", func(T *model.Node) (built, error) {
			op2 := without(T, p, nil)
			c, desc, err := mergeChain([]*model.Node{fl.flat(T), fl.flat(op2)}, []string{src(0), src(1)}, nil, "dotted-merge-under")
			return built{cfg: c, desc: desc, exactSrc: src(0)}, err
		}})
	}

	// (ii) append / prepend: the outermost list on the path is cut into
	// segments delivered by different operands, which renumbers its elements
	if j := firstIndex(p); j >= 0 {
		q, i := p[:j], p[j].idx
		n := len(getNode(V, q).A)
		c1 := r.Intn(n + 1)
		c2 := c1 + r.Intn(n-c1+1)
		for _, prepend := range []bool{false, true} {
			prepend := prepend
			name, pol := "merge-append", []ucfg.Option{ucfg.AppendValues}
			if prepend {
				name, pol = "merge-prepend", []ucfg.Option{ucfg.PrependValues}
			}
			out = append(out, route{name, func(T *model.Node) (built, error) {
				L := getNode(T, q).A
				cuts := [][2]int{{0, c1}, {c1, c2}, {c2, len(L)}}
				if prepend {
					cuts[0], cuts[2] = cuts[2], cuts[0]
				}
				var ops []*model.Node
				var srcs []string
				exact := ""
				for k, ct := range cuts {
					segm := model.List()
					for _, e := range L[ct[0]:ct[1]] {
						segm.A = append(segm.A, e.Copy())
					}
					var op *model.Node
					if k == 0 {
						if len(q) == 0 {
							op = segm
						} else {
							op = withNode(T, q, segm)
						}
					} else {
						if len(segm.A) == 0 {
							continue
						}
						op = dictSpine(q, segm)
					}
					ops = append(ops, op)
					srcs = append(srcs, src(k))
					if i >= ct[0] && i < ct[1] {
						exact = src(k)
					}
				}
				c, desc, err := mergeChain(ops, srcs, pol, name)
				return built{cfg: c, desc: desc, exactSrc: exact}, err
			}})
		}
	}

	// (iii) Remove from a list on the path shifts the fault down
	var idxPos []int
	for j, s := range p {
		if s.isIdx {
			idxPos = append(idxPos, j)
		}
	}
	if len(idxPos) > 0 {
		j := idxPos[r.Intn(len(idxPos))]
		q, i := p[:j], p[j].idx
		k := 1 + r.Intn(3)
		// layout of the first elements of the list before the removals:
		// true = extra element, false = original element
		layout := make([]bool, i+1)
		for t := 0; t < k; t++ {
			at := r.Intn(len(layout)) // in front of an original element up to the faulty one
			layout = append(layout[:at], append([]bool{true}, layout[at:]...)...)
		}
		order := r.Perm(k)
		fillers := make([]int, k)
		for t := range fillers {
			fillers[t] = r.Intn(3)
		}
		form := r.Intn(2)
		out = append(out, route{"remove-shift", func(T *model.Node) (built, error) {
			L := getNode(T, q).A
			big := model.List()
			oi, xi := 0, 0
			for _, extra := range layout {
				if extra {
					switch fillers[xi] {
					case 0:
						big.A = append(big.A, model.P("filler"))
					case 1:
						big.A = append(big.A, sub("zz", int64(1)))
					default:
						big.A = append(big.A, L[(i+1+xi)%len(L)].Copy())
					}
					xi++
				} else {
					big.A = append(big.A, L[oi].Copy())
					oi++
				}
			}
			for _, e := range L[oi:] {
				big.A = append(big.A, e.Copy())
			}
			start := withNode(T, q, big)
			desc := fmt.Sprintf("remove-shift: NewFrom[%s](%s)", src(0), start)
			c, err := ucfg.NewFrom(start.ToGo(), baseOpts(src(0))...)
			if err != nil {
				return built{desc: desc}, &callErr{"NewFrom", err, desc}
			}
			lay := append([]bool{}, layout...)
			// remove the extras in the planned order
			alive := make([]int, 0, k) // layout positions of the extras
			for pos, extra := range lay {
				if extra {
					alive = append(alive, pos)
				}
			}
			removed := map[int]bool{}
			for _, o := range order {
				pos := alive[o]
				cur := pos
				for _, o2 := range alive {
					if removed[o2] && o2 < pos {
						cur--
					}
				}
				name, idx := nameIdx(q, cur, form)
				desc += fmt.Sprintf(" ; Remove(%q,%d)", name, idx)
				ok, err := c.Remove(name, idx, ucfg.PathSep("."))
				if err != nil {
					return built{desc: desc}, &callErr{"Remove", err, desc}
				}
				if !ok {
					return built{desc: desc}, fmt.Errorf("Remove reported nothing removed; %s", desc)
				}
				removed[pos] = true
			}
			return built{cfg: c, desc: desc, exactSrc: src(0)}, nil
		}})
	}

	// (iii) the faulty value is written by a setter
	if settable(f.val) {
		phDict := r.Intn(2) == 0
		form := r.Intn(2)
		out = append(out, route{"set-value", func(T *model.Node) (built, error) {
			v := getNode(T, p)
			if !settable(v) {
				return built{}, errNotApplicable
			}
			var start *model.Node
			if last.isIdx || phDict {
				start = without(T, p, model.P("placeholder"))
			} else {
				start = without(T, p, nil)
			}
			desc := fmt.Sprintf("set-value: NewFrom[%s](%s)", src(0), start)
			c, err := ucfg.NewFrom(start.ToGo(), baseOpts(src(0))...)
			if err != nil {
				return built{desc: desc}, &callErr{"NewFrom", err, desc}
			}
			d, err := setAt(c, p, v, src(1), form)
			desc += " ; " + d + "[" + src(1) + "]"
			if err != nil {
				if e, ok := err.(*entryErr); ok {
					return built{desc: desc}, &callErr{e.entry, e.err, desc}
				}
				return built{desc: desc}, err
			}
			return built{cfg: c, desc: desc, exactSrc: src(1)}, nil
		}})
	}

	// (iii) a faulty list or object is written leaf by leaf with setters
	// using full paths: the containers in between exist only implicitly
	if f.val != nil && f.val.Kind == model.KSub && leafSettable(f.val) {
		form := r.Intn(2)
		out = append(out, route{"set-leaves", func(T *model.Node) (built, error) {
			v := getNode(T, p)
			if !settable(v) || (v.Kind == model.KSub && !leafSettable(v)) {
				return built{}, errNotApplicable
			}
			if last.isIdx && last.idx != len(getNode(T, p[:len(p)-1]).A)-1 {
				return built{}, errNotApplicable // only the last element of a list can be left out
			}
			start := without(T, p, nil)
			desc := fmt.Sprintf("set-leaves: NewFrom[%s](%s)", src(0), start)
			c, err := ucfg.NewFrom(start.ToGo(), baseOpts(src(0))...)
			if err != nil {
				return built{desc: desc}, &callErr{"NewFrom", err, desc}
			}
			var werr error
			var walk func(n *model.Node, q []seg)
			walk = func(n *model.Node, q []seg) {
				if werr != nil {
					return
				}
				if n.Kind != model.KSub {
					d, err := setAt(c, q, n, src(1), form)
					desc += " ; " + d + "[" + src(1) + "]"
					werr = err
					return
				}
				for _, k := range n.SortedKeys() {
					walk(n.D[k], appendSeg(q, seg{key: k}))
				}
				for i, e := range n.A {
					walk(e, appendSeg(q, seg{idx: i, isIdx: true}))
				}
			}
			walk(v, p)
			if werr != nil {
				if e, ok := werr.(*entryErr); ok {
					return built{desc: desc}, &callErr{e.entry, e.err, desc}
				}
				return built{desc: desc}, werr
			}
			return built{cfg: c, desc: desc, exactSrc: src(1)}, nil
		}})
	}

	// (iii) a whole subtree containing the fault is attached with SetChild:
	// a fresh configuration, or one that already belongs to another tree
	if len(p) >= 2 {
		j := 1 + r.Intn(len(p)-1)
		a := p[:j]
		reattach := r.Intn(2) == 0
		phDict := r.Intn(2) == 0
		withMeta := r.Intn(2) == 0
		name := "setchild-fresh"
		if reattach {
			name = "setchild-reattach"
		}
		out = append(out, route{name, func(T *model.Node) (built, error) {
			S := getNode(T, a)
			var start *model.Node
			if a[len(a)-1].isIdx || phDict {
				start = without(T, a, model.P("placeholder"))
			} else {
				start = without(T, a, nil)
			}
			desc := fmt.Sprintf("%s: NewFrom[%s](%s)", name, src(0), start)
			c, err := ucfg.NewFrom(start.ToGo(), baseOpts(src(0))...)
			if err != nil {
				return built{desc: desc}, &callErr{"NewFrom", err, desc}
			}
			var ch *ucfg.Config
			if reattach {
				w, err := ucfg.NewFrom(model.Dict().Set("w", model.Dict().Set("x", S.Copy())).ToGo(), baseOpts(src(1))...)
				if err != nil {
					return built{desc: desc}, &callErr{"NewFrom", err, desc}
				}
				if ch, err = w.Child("w.x", -1, ucfg.PathSep(".")); err != nil {
					return built{desc: desc}, &callErr{"Child", err, desc}
				}
				desc += fmt.Sprintf(" ; ch=NewFrom[%s]({w:{x:%s}}).Child(\"w.x\")", src(1), S)
			} else {
				if ch, err = ucfg.NewFrom(S.ToGo(), baseOpts(src(1))...); err != nil {
					return built{desc: desc}, &callErr{"NewFrom", err, desc}
				}
				desc += fmt.Sprintf(" ; ch=NewFrom[%s](%s)", src(1), S)
			}
			o := []ucfg.Option{ucfg.PathSep(".")}
			if withMeta {
				o = append(o, ucfg.MetaData(ucfg.Meta{Source: src(1)}))
			}
			nm, idx := pathStr(a), -1
			if l := a[len(a)-1]; l.isIdx {
				nm, idx = nameIdx(a[:len(a)-1], l.idx, 0)
			}
			desc += fmt.Sprintf(" ; SetChild(%q,%d,ch)", nm, idx)
			if err := c.SetChild(nm, idx, ch, o...); err != nil {
				return built{desc: desc}, &callErr{"SetChild", err, desc}
			}
			return built{cfg: c, desc: desc, exactSrc: src(1)}, nil
		}})
	}
	return out
}

var errNotApplicable = fmt.Errorf("route not applicable")

func directRoute(base string) route {
	return route{"direct", func(T *model.Node) (built, error) {
		desc := fmt.Sprintf("NewFrom[%s](%s)", base, T)
		c, err := ucfg.NewFrom(T.ToGo(), baseOpts(base)...)
		if err != nil {
			return built{desc: desc}, &callErr{"NewFrom", err, desc}
		}
		return built{cfg: c, desc: desc, exactSrc: base}, nil
	}}
}
