package c14

import (
	"math/rand"
	"reflect"
	"regexp"
	"strconv"
	"strings"
	"time"

	"verif/internal/model"
)

// ---------------------------------------------------------------------------
// type programs: a spec describes a Go target type; a valid data tree is
// generated FROM the spec, so that (tree, type) is a valid pair by construction

type skind int

const (
	kLeaf skind = iota
	kStruct
	kMap
	kSlice
	kArray
	kIface
)

type leafKind int

const (
	lString leafKind = iota
	lBool
	lInt
	lInt8
	lInt16
	lInt32
	lInt64
	lUint
	lUint8
	lUint16
	lUint32
	lUint64
	lFloat32
	lFloat64
	lDuration
	lRegexp // *regexp.Regexp, struct fields only
	lPort   // Validate, value receiver
	lIdent  // Validate, value receiver
	lRatio  // Validate, pointer receiver
	lLevel  // StringUnpacker, pointer receiver
	lSpan   // struct with Validate
)

var leafNames = map[leafKind]string{
	lString: "string", lBool: "bool", lInt: "int", lInt8: "int8", lInt16: "int16", lInt32: "int32", lInt64: "int64",
	lUint: "uint", lUint8: "uint8", lUint16: "uint16", lUint32: "uint32", lUint64: "uint64", lFloat32: "float32", lFloat64: "float64",
	lDuration: "duration", lRegexp: "regexp", lPort: "validated-int", lIdent: "validated-string", lRatio: "validated-float",
	lLevel: "unpacker-string", lSpan: "validated-struct",
}

var leafTypes = map[leafKind]reflect.Type{
	lString: reflect.TypeOf(""), lBool: reflect.TypeOf(true),
	lInt: reflect.TypeOf(int(0)), lInt8: reflect.TypeOf(int8(0)), lInt16: reflect.TypeOf(int16(0)), lInt32: reflect.TypeOf(int32(0)), lInt64: reflect.TypeOf(int64(0)),
	lUint: reflect.TypeOf(uint(0)), lUint8: reflect.TypeOf(uint8(0)), lUint16: reflect.TypeOf(uint16(0)), lUint32: reflect.TypeOf(uint32(0)), lUint64: reflect.TypeOf(uint64(0)),
	lFloat32: reflect.TypeOf(float32(0)), lFloat64: reflect.TypeOf(float64(0)),
	lDuration: reflect.TypeOf(time.Duration(0)), lRegexp: reflect.TypeOf((*regexp.Regexp)(nil)),
	lPort: reflect.TypeOf(Port(0)), lIdent: reflect.TypeOf(Ident("")), lRatio: reflect.TypeOf(Ratio(0)),
	lLevel: reflect.TypeOf(Level("")), lSpan: reflect.TypeOf(Span{}),
}

var tIface = reflect.TypeOf((*interface{})(nil)).Elem()
var tString = reflect.TypeOf("")

func (l leafKind) signed() bool   { return l >= lInt && l <= lInt64 }
func (l leafKind) unsigned() bool { return l >= lUint && l <= lUint64 }
func (l leafKind) float() bool    { return l == lFloat32 || l == lFloat64 }
func (l leafKind) number() bool   { return l.signed() || l.unsigned() || l.float() }

type spec struct {
	// sep (top spec only): the path separator of all reads of the case; the
	// dotted tags of the type are written with it
	sep string
	// dottedNS: not part of the Go type - the namespace a dotted tag
	// (`config:"a.b"`) reaches through, described as a struct with the one
	// member the tag addresses
	dottedNS bool
	kind     skind
	leaf     leafKind
	ptr      bool // the slot holds a pointer to the type (struct fields only)
	fields   []*field
	elem     *spec
	n        int // array length
	typ      reflect.Type
}

type field struct {
	key    string
	path   []string // dotted tag: the two keys the tag text (key) is made of
	ns     *spec    // dotted tag: the namespace in between (see spec.dottedNS)
	inline bool
	tag    string // validate tag
	sp     *spec
}

// shape is the target shape name used in signatures and monitors.
func (s *spec) shape() string {
	if s == nil {
		return "in-interface"
	}
	if s.dottedNS {
		return "dotted-tag-namespace"
	}
	n := ""
	switch s.kind {
	case kLeaf:
		n = leafNames[s.leaf]
	case kStruct:
		n = "struct"
	case kMap:
		n = "map"
	case kSlice:
		n = "slice"
	case kArray:
		n = "array"
	case kIface:
		n = "interface"
	}
	if s.ptr {
		n = "ptr-" + n
	}
	return n
}

// Keys are distinctive tokens: the oracle looks for dotted paths as delimited
// tokens of a message, so a key must not be a word of the messages' prose, a
// type name ("string", "object", "int") or part of the hand-written
// Validate/Unpack texts.
var fieldKeys = []string{"ka", "kb", "kc", "kd", "ke", "kf", "kg", "kh", "nam", "hst", "prt", "itms", "cfg_1", "Key7", "x9", "enbl", "with-dash", "ünï", "q r"}
var mapKeys = []string{"ma", "mb", "k1", "k2", "alfa", "beto", "m-n", "日本", "z z"}

type specGen struct {
	r   *rand.Rand
	sep string
}

var plainLeaves = []leafKind{lString, lString, lBool, lInt, lInt, lInt8, lInt16, lInt32, lInt64, lInt64, lUint, lUint8, lUint16, lUint32, lUint64, lFloat32, lFloat64, lFloat64,
	lDuration, lPort, lIdent, lRatio, lLevel, lSpan}

func (g *specGen) leafSpec(inField bool) *spec {
	r := g.r
	lk := plainLeaves[r.Intn(len(plainLeaves))]
	if inField && r.Intn(14) == 0 {
		lk = lRegexp
	}
	s := &spec{kind: kLeaf, leaf: lk}
	if inField && lk != lRegexp && r.Intn(6) == 0 {
		s.ptr = true
	}
	return s
}

// tagFor draws a validator tag a slot of this spec can carry ("" for none).
func (g *specGen) tagFor(s *spec) string {
	r := g.r
	if r.Intn(5) < 2 {
		return ""
	}
	pick := func(l ...string) string { return l[r.Intn(len(l))] }
	switch s.kind {
	case kLeaf:
		if s.ptr {
			if s.leaf == lLevel || s.leaf == lSpan {
				return ""
			}
			return "required"
		}
		switch {
		case s.leaf.signed() || s.leaf.float():
			return pick("min=10", "max=50", "positive", "nonzero", "required", "min=10,max=50")
		case s.leaf.unsigned():
			return pick("min=10", "max=50", "nonzero", "required", "min=10,max=50")
		case s.leaf == lDuration:
			return pick("min=10", "max=50", "positive", "nonzero")
		case s.leaf == lString:
			return pick("nonzero", "required")
		}
	case kSlice:
		return pick("nonzero", "required")
	case kMap:
		return pick("nonzero", "")
	}
	return ""
}

// fieldSpec draws the spec of a struct field.
func (g *specGen) fieldSpec(depth int) *spec {
	r := g.r
	if depth <= 0 {
		if r.Intn(8) == 0 {
			return &spec{kind: kIface}
		}
		return g.leafSpec(true)
	}
	switch x := r.Intn(100); {
	case x < 42:
		return g.leafSpec(true)
	case x < 60:
		s := g.structSpec(depth-1, 1+r.Intn(3))
		if r.Intn(4) == 0 {
			s.ptr = true
		}
		return s
	case x < 68:
		return &spec{kind: kMap, elem: g.elemSpec(depth - 1)}
	case x < 82:
		return &spec{kind: kSlice, elem: g.elemSpec(depth - 1)}
	case x < 88:
		e := g.leafSpec(false)
		if r.Intn(4) == 0 {
			e = g.structSpec(depth-1, 1+r.Intn(2))
		}
		return &spec{kind: kArray, elem: e, n: 1 + r.Intn(3)}
	default:
		return &spec{kind: kIface}
	}
}

// elemSpec draws the spec of a slice or map element (no pointers there).
func (g *specGen) elemSpec(depth int) *spec {
	r := g.r
	if depth <= 0 {
		if r.Intn(6) == 0 {
			return &spec{kind: kIface}
		}
		return g.leafSpec(false)
	}
	switch x := r.Intn(100); {
	case x < 45:
		return g.leafSpec(false)
	case x < 68:
		return g.structSpec(depth-1, 1+r.Intn(3))
	case x < 76:
		return &spec{kind: kMap, elem: g.elemSpec(depth - 1)}
	case x < 86:
		return &spec{kind: kSlice, elem: g.elemSpec(depth - 1)}
	default:
		return &spec{kind: kIface}
	}
}

func (g *specGen) structSpec(depth, nf int) *spec {
	s := &spec{kind: kStruct}
	used := map[string]bool{}
	g.addFields(s, depth, nf, used, true)
	return s
}

func (g *specGen) addFields(s *spec, depth, nf int, used map[string]bool, mayInline bool) {
	r := g.r
	for i := 0; i < nf; i++ {
		if mayInline && depth > 0 && r.Intn(9) == 0 {
			in := &spec{kind: kStruct}
			g.addFields(in, depth-1, 1+r.Intn(2), used, false)
			if len(in.fields) > 0 {
				s.fields = append(s.fields, &field{inline: true, sp: in})
			}
			continue
		}
		var key string
		for try := 0; try < 30; try++ {
			k := fieldKeys[r.Intn(len(fieldKeys))]
			if !used[k] {
				key = k
				break
			}
		}
		if key == "" {
			continue
		}
		used[key] = true
		fs := g.fieldSpec(depth)
		f := &field{key: key, sp: fs, tag: g.tagFor(fs)}
		if r.Intn(7) == 0 {
			// the field is addressed by a dotted tag: it lives one namespace down
			k2 := fieldKeys[r.Intn(len(fieldKeys))]
			f.path = []string{key, k2}
			f.key = key + g.sep + k2
			f.ns = &spec{kind: kStruct, dottedNS: true, fields: []*field{{key: k2, sp: fs, tag: f.tag}}}
		}
		s.fields = append(s.fields, f)
	}
}

// top draws the spec of an Unpack target: depth <= 4 below the root.
func (g *specGen) top() *spec {
	r := g.r
	g.sep = []string{".", ".", "/", "::"}[r.Intn(4)]
	depth := 1 + r.Intn(3)
	var s *spec
	switch x := r.Intn(20); {
	case x < 13:
		s = g.structSpec(depth, 2+r.Intn(4))
		if len(s.fields) == 0 {
			s.fields = []*field{{key: "ka", sp: g.leafSpec(true)}}
		}
	case x < 16:
		s = &spec{kind: kMap, elem: g.elemSpec(depth)}
	default:
		s = &spec{kind: kSlice, elem: g.elemSpec(depth)}
	}
	s.sep = g.sep
	s.build()
	return s
}

// hasDotted: a struct of the type program addresses a field by a dotted tag
// (reading it needs the PathSep option).
func (s *spec) hasDotted() bool {
	if s == nil {
		return false
	}
	for _, f := range s.fields {
		if f.path != nil || f.sp.hasDotted() {
			return true
		}
	}
	return s.elem.hasDotted()
}

// dottedKey is the key of the field as the message has to spell it.
func (f *field) dottedKey() string {
	if f.path != nil {
		return strings.Join(f.path, ".")
	}
	return f.key
}

// build computes the Go types bottom-up.
func (s *spec) build() reflect.Type {
	if s.typ != nil {
		return s.typ
	}
	var t reflect.Type
	switch s.kind {
	case kLeaf:
		t = leafTypes[s.leaf]
	case kIface:
		t = tIface
	case kMap:
		t = reflect.MapOf(tString, s.elem.build())
	case kSlice:
		t = reflect.SliceOf(s.elem.build())
	case kArray:
		t = reflect.ArrayOf(s.n, s.elem.build())
	case kStruct:
		sf := make([]reflect.StructField, 0, len(s.fields))
		for i, f := range s.fields {
			tag := `config:"` + f.key + `"`
			if f.inline {
				tag = `config:",inline"`
			}
			if f.tag != "" {
				tag += ` validate:"` + f.tag + `"`
			}
			sf = append(sf, reflect.StructField{Name: "F" + strconv.Itoa(i), Type: f.sp.build(), Tag: reflect.StructTag(tag)})
		}
		t = reflect.StructOf(sf)
	}
	if s.ptr {
		t = reflect.PtrTo(t)
	}
	s.typ = t
	return t
}

// baseType is the type without the slot's pointer.
func (s *spec) baseType() reflect.Type {
	t := s.build()
	if s.ptr {
		return t.Elem()
	}
	return t
}

// ---------------------------------------------------------------------------
// valid values

var words = []string{"s", "text", "alpha beta", "x1", "é-ü", "/usr/local", "a:b", "10.0.0.1:9200", "q#r", "日本", "v 1 2", "UPPER", "a,b", "[x]", "{y}", "tr\"q"}

type valGen struct {
	r *rand.Rand
}

func (g *valGen) intRep(v int64) *model.Node {
	switch x := g.r.Intn(10); {
	case x == 0 && v >= 0:
		return model.P(uint64(v))
	case x == 1:
		return model.P(strconv.FormatInt(v, 10))
	case x == 2:
		return model.P(float64(v))
	}
	return model.P(v)
}

// leaf returns a value the leaf type (with any of the tags tagFor can draw)
// accepts.
func (g *valGen) leaf(lk leafKind, tagged bool) *model.Node {
	r := g.r
	switch {
	case lk.signed() || lk.unsigned():
		v := int64(10 + r.Intn(41))
		if !tagged {
			switch r.Intn(4) {
			case 0:
				v = int64(r.Intn(100))
			case 1:
				if lk.signed() {
					v = -int64(r.Intn(100))
				}
			case 2:
				v = 0
			}
		}
		return g.intRep(v)
	case lk.float():
		v := 10.5 + float64(r.Intn(39))
		if !tagged {
			switch r.Intn(4) {
			case 0:
				v = -v
			case 1:
				v = 0.125
			case 2:
				return g.intRep(int64(r.Intn(50)))
			}
		}
		if r.Intn(8) == 0 {
			return model.P(strconv.FormatFloat(v, 'g', -1, 64))
		}
		return model.P(v)
	}
	switch lk {
	case lString:
		switch r.Intn(10) {
		case 0:
			return model.P(int64(r.Intn(50) + 1))
		case 1:
			return model.P(true)
		}
		return model.P(words[r.Intn(len(words))])
	case lBool:
		switch r.Intn(6) {
		case 0:
			return model.P("true")
		case 1:
			return model.P("false")
		}
		return model.P(r.Intn(2) == 0)
	case lDuration:
		switch r.Intn(4) {
		case 0:
			return model.P(int64(10 + r.Intn(41)))
		case 1:
			return model.P(10.5 + float64(r.Intn(30)))
		}
		return model.P([]string{"15s", "20s", "0.5m", "12000ms", "30s"}[r.Intn(5)])
	case lRegexp:
		return model.P([]string{"a+b", "^x.*$", "[0-9]+", "(a|b)c"}[r.Intn(4)])
	case lPort:
		return g.intRep(int64(1 + r.Intn(65535)))
	case lIdent:
		return model.P([]string{"alpha", "x1", "é-ü", "UPPER"}[r.Intn(4)])
	case lRatio:
		if tagged {
			return model.P([]float64{0.25, 0.5, 1}[r.Intn(3)])
		}
		return model.P([]float64{0, 0.25, 0.5, 1}[r.Intn(4)])
	case lLevel:
		return model.P([]string{"low", "mid", "high"}[r.Intn(3)])
	case lSpan:
		lo := int64(r.Intn(10))
		return model.Dict().Set("lo", model.P(lo)).Set("hi", model.P(lo+int64(r.Intn(10))))
	}
	return model.P("s")
}

// generic draws free-form data for an interface{} slot.
func (g *valGen) generic(depth int) *model.Node {
	r := g.r
	prim := func() *model.Node {
		switch r.Intn(5) {
		case 0:
			return model.P(int64(r.Intn(200) - 100))
		case 1:
			return model.P(r.Intn(2) == 0)
		case 2:
			return model.P(float64(r.Intn(100)) / 4)
		}
		return model.P(words[r.Intn(len(words))])
	}
	if depth <= 0 || r.Intn(3) == 0 {
		return prim()
	}
	if r.Intn(2) == 0 {
		n := model.Dict()
		for i, c := 0, 1+r.Intn(3); i < c; i++ {
			n.D[mapKeys[r.Intn(len(mapKeys))]] = g.generic(depth - 1)
		}
		return n
	}
	n := model.List()
	for i, c := 0, 1+r.Intn(3); i < c; i++ {
		n.A = append(n.A, g.generic(depth-1))
	}
	return n
}

func (g *valGen) value(s *spec, tagged bool) *model.Node {
	r := g.r
	switch s.kind {
	case kLeaf:
		return g.leaf(s.leaf, tagged)
	case kIface:
		for {
			n := g.generic(2)
			if tagged && n.Kind == model.KPrim {
				// an element of a validated []interface{} / [N]interface{} field:
				// nonzero/required are run on the value held, like for typed elements
				if n.Prim == int64(0) || n.Prim == float64(0) || n.Prim == "" {
					continue
				}
			}
			return n
		}
	case kMap:
		n := model.Dict()
		for i, c := 0, 1+r.Intn(3); i < c; i++ {
			n.D[mapKeys[r.Intn(len(mapKeys))]] = g.value(s.elem, false)
		}
		return n
	case kSlice:
		// the validators of a field are also run on every element of its list
		n := model.List()
		for i, c := 0, 1+r.Intn(4); i < c; i++ {
			n.A = append(n.A, g.value(s.elem, tagged))
		}
		return n
	case kArray:
		n := model.List()
		for i := 0; i < s.n; i++ {
			n.A = append(n.A, g.value(s.elem, tagged))
		}
		return n
	}
	n := model.Dict()
	g.fill(n, s)
	return n
}

func (g *valGen) fill(n *model.Node, s *spec) {
	for _, f := range s.fields {
		if f.inline {
			g.fill(n, f.sp)
			continue
		}
		if f.path != nil {
			n.D[f.path[0]] = model.Dict().Set(f.path[1], g.value(f.sp, f.tag != ""))
			continue
		}
		n.D[f.key] = g.value(f.sp, f.tag != "")
	}
}

// ---------------------------------------------------------------------------
// paths and positions

type seg struct {
	key   string
	idx   int
	isIdx bool
}

func (s seg) String() string {
	if s.isIdx {
		return strconv.Itoa(s.idx)
	}
	return s.key
}

func pathStr(p []seg) string {
	l := make([]string, len(p))
	for i, s := range p {
		l[i] = s.String()
	}
	return strings.Join(l, ".")
}

func appendSeg(p []seg, s seg) []seg {
	q := make([]seg, len(p)+1)
	copy(q, p)
	q[len(p)] = s
	return q
}

func getNode(t *model.Node, p []seg) *model.Node {
	for _, s := range p {
		if t == nil || t.Kind != model.KSub {
			return nil
		}
		if s.isIdx {
			if s.idx >= len(t.A) {
				return nil
			}
			t = t.A[s.idx]
		} else {
			t = t.D[s.key]
		}
	}
	return t
}

// withNode returns a copy of t with the node at p replaced by v (or removed
// when v is nil; removing a list element truncates nothing: callers only
// delete dictionary keys).
func withNode(t *model.Node, p []seg, v *model.Node) *model.Node {
	c := t.Copy()
	if len(p) == 0 {
		return v
	}
	par := getNode(c, p[:len(p)-1])
	last := p[len(p)-1]
	if last.isIdx {
		par.A[last.idx] = v
	} else if v == nil {
		delete(par.D, last.key)
	} else {
		par.D[last.key] = v
	}
	return c
}

// position is one setting of the valid tree together with what the fitted
// type expects there.
type position struct {
	path      []seg
	sp        *spec  // nil inside an interface{} subtree
	fld       *field // the struct field, if the parent is a struct
	parent    skind  // kind of the holder
	inline    bool   // the field belongs to an inlined struct
	ifaceRoot []seg  // path of the enclosing interface{} slot (nil if none)
	node      *model.Node
	tag       string // validators in force: the field's, or inherited by the elements of a tagged list
	elemTag   bool   // tag is inherited
	tagHolder int    // length of the path of the struct whose field carries the tag
}

func (p *position) depthClass() string {
	switch {
	case len(p.path) == 1:
		return "top"
	case p.path[len(p.path)-1].isIdx:
		return "in-list"
	case p.parent == kMap:
		return "in-map"
	}
	return "nested"
}

func (p *position) shape() string {
	s := p.sp.shape()
	if p.inline {
		s += "+inline"
	}
	return s
}

func positions(out *[]*position, n *model.Node, s *spec, path []seg, tag string, holder int) {
	switch s.kind {
	case kStruct:
		structPositions(out, n, s, path, false)
	case kMap:
		for _, k := range n.SortedKeys() {
			p := appendSeg(path, seg{key: k})
			*out = append(*out, &position{path: p, sp: s.elem, parent: kMap, node: n.D[k]})
			positions(out, n.D[k], s.elem, p, "", 0)
		}
	case kSlice, kArray:
		for i, c := range n.A {
			p := appendSeg(path, seg{idx: i, isIdx: true})
			*out = append(*out, &position{path: p, sp: s.elem, parent: s.kind, node: c, tag: tag, elemTag: true, tagHolder: holder})
			positions(out, c, s.elem, p, tag, holder)
		}
	case kIface:
		genericPositions(out, n, path, path)
	}
}

func structPositions(out *[]*position, n *model.Node, s *spec, path []seg, inline bool) {
	for _, f := range s.fields {
		if f.inline {
			structPositions(out, n, f.sp, path, true)
			continue
		}
		if f.path != nil {
			// the namespace the dotted tag reaches through, then the field itself
			p1 := appendSeg(path, seg{key: f.path[0]})
			*out = append(*out, &position{path: p1, sp: f.ns, fld: &field{key: f.path[0], sp: f.ns}, parent: kStruct, inline: inline, node: n.D[f.path[0]], tagHolder: len(path)})
			structPositions(out, n.D[f.path[0]], f.ns, p1, false)
			continue
		}
		p := appendSeg(path, seg{key: f.key})
		*out = append(*out, &position{path: p, sp: f.sp, fld: f, parent: kStruct, inline: inline, node: n.D[f.key], tag: f.tag, tagHolder: len(path)})
		positions(out, n.D[f.key], f.sp, p, f.tag, len(path))
	}
}

// failsOnZero: the ONE setting (relative dotted path) whose validation fails
// when the whole struct setting is absent or null, i.e. on zero values; "" if
// there is none, if there are several (the variant would carry more than one
// fault and the library may report any of them), or if a nested struct, an
// array or a validating element type makes the outcome a matter of its own.
func (s *spec) failsOnZero() string {
	keys, uncertain := s.zeroFailures()
	if uncertain || len(keys) != 1 {
		return ""
	}
	return keys[0]
}

// zeroFailures lists every setting of the struct that is invalid on its zero
// value; uncertain: something in the struct is not decided here.
func (s *spec) zeroFailures() (keys []string, uncertain bool) {
	for _, f := range s.fields {
		if f.inline {
			k, u := f.sp.zeroFailures()
			keys, uncertain = append(keys, k...), uncertain || u
			continue
		}
		fs := f.sp
		if fs.ptr {
			if hasTag(f.tag, "required") {
				keys = append(keys, f.dottedKey())
			}
			continue
		}
		switch fs.kind {
		case kStruct:
			if k, u := fs.zeroFailures(); u || len(k) > 0 {
				uncertain = true
			}
		case kLeaf:
			if fs.leaf == lSpan {
				uncertain = true
				continue
			}
			num := fs.leaf.number()
			if hasTag(f.tag, "required") || (hasTag(f.tag, "nonzero") && (num || fs.leaf == lString || fs.leaf == lDuration)) || (hasTag(f.tag, "min") && (num || fs.leaf == lDuration)) ||
				fs.leaf == lPort || fs.leaf == lIdent {
				keys = append(keys, f.dottedKey())
			}
		case kSlice:
			if hasTag(f.tag, "required") {
				keys = append(keys, f.dottedKey())
			} else if f.tag != "" {
				uncertain = true
			}
		case kMap:
			if f.tag != "" {
				uncertain = true
			}
		case kArray:
			// an array without a setting is a zero array: its elements are
			// validated (their own Validate, the validators of the field)
			if e := fs.elem; e.kind != kLeaf || e.leaf == lPort || e.leaf == lIdent || e.leaf == lSpan || f.tag != "" {
				uncertain = true
			}
		}
	}
	return keys, uncertain
}

func genericPositions(out *[]*position, n *model.Node, path, root []seg) {
	if n == nil || n.Kind != model.KSub {
		return
	}
	for _, k := range n.SortedKeys() {
		p := appendSeg(path, seg{key: k})
		*out = append(*out, &position{path: p, parent: kIface, ifaceRoot: root, node: n.D[k]})
		genericPositions(out, n.D[k], p, root)
	}
	for i, c := range n.A {
		p := appendSeg(path, seg{idx: i, isIdx: true})
		*out = append(*out, &position{path: p, parent: kIface, ifaceRoot: root, node: c})
		genericPositions(out, c, p, root)
	}
}
