// Package c14: every failure is a typed error that names the offending
// setting.
//
// One case = one valid (configuration, target type) pair generated from a
// type program, a handful of single faults injected into it (each observed
// through Unpack, the getters and an intermediate Child, on a configuration
// built directly and on one built by a merge chain or a Set*/Remove history),
// and a drive of the error paths of every entry point of the configuration
// API whose errors are inspected for type, Reason and Class.
package c14

import (
	"fmt"
	"hash/fnv"
	"math/rand"
	"reflect"
	"sort"
	"strings"

	ucfg "github.com/elastic/go-ucfg"

	"verif/internal/harness"
	"verif/internal/model"
)

type check struct{}

func init() { harness.Register(check{}) }

func (check) ID() string { return "C14" }

const faultsPerCase = 12

func (check) Cases(tier string) int {
	if tier == "thorough" {
		return 26000
	}
	return 420
}

// specPool bounds the number of distinct reflect.StructOf type trees a worker
// process can create (the reflect package never frees them): the type program
// of a case is drawn from a seed-determined pool, everything else (values,
// fault positions, kinds, routes) from the case's own generator.
func specPool(tier string) int {
	if tier == "thorough" {
		return 3000
	}
	return 1 << 20
}

func (check) Rule() string {
	return "per case: a type program (struct with config tags / *struct / inline struct / map[string]T / []T / [N]T / interface{} over leaves string bool int int8-64 uint uint8-64 float32/64 time.Duration *regexp.Regexp, pointers to them, four hand-written leaf types with Validate or Unpack and a struct with Validate; validate tags min max positive nonzero required; one struct field in seven addressed by a dotted tag `config:\"a<sep>b\"`, which makes the namespace a in between a setting of its own to put faults at; depth <= 4; the path separator <sep> of the case - \".\" (half), \"/\", \"::\" - is part of the program: the dotted tags are written with it and every read of the case (Unpack, getters, Child, Has, Remove, setters) uses it, while messages always have to spell paths with dots) drawn from a seed-determined pool (thorough: 3000 programs, bounds the reflect.StructOf types per worker), a data tree generated FROM the program (numbers as int64/uint64/float64/decimal string, durations as text or seconds, free data below interface{}) loaded with NewFrom(PathSep(\".\"), VarExp, MetaData{src-<case>}) which must Unpack into the type (else valid-pair-rejected). Then up to 12 single faults, stratified over the fault kinds applicable in the tree (object/list for primitive, primitive for object/list, bool<->number, unparsable int/uint/float/bool/duration/regexp, out of range for every sized integer/float32/float64/duration incl. 2^63 and 2^64 floats, negative into unsigned, tag validators min/max/positive/nonzero/required with empty/null/missing, failing Validate()/Unpack() of the hand-written types, a struct setting left out or present as null where exactly ONE member is invalid on its zero value (several invalid members, zero arrays of validating elements, nested structs: not generated - the variant would carry more than one fault), references that do not resolve: a path missing at its first segment (${nope}, ${nope.missing}, ${nope.x.y}), at an intermediate or at the last segment below a namespace of the tree (${a.b.zz_nope.x}, ${a.b.zz_nope}), at an index behind a list of the tree (${l.5}, ${l.5.x}), through a primitive of the tree (${k.x}, ${k.x.y}, ${l.0.x.y}), a reference that resolves but to an object elsewhere in the tree where a primitive is expected (the setting holding the reference is the wrong typed one, not the object), self-referencing ${<path>}, a reference into a cycle of two helper settings (x:${y}, y:${x}; struct targets only, which do not read the helpers) - each either as the whole value (2 of 5) or inside a splice evaluating to a text (\"pre-${r}\", \"${r}/cache\"), a list (\"${r},extra\", \"[1, ${r}, 3]\") or an object (\"{zk: ${r}}\", \"{zk: {zm: [${r}]}}\") -, a conversion fault whose bad VALUE lives behind a reference (struct targets only: the setting holds ${zz_r<a>}, a chain of 1-3 top-level helper settings leads to a value that is fine where it is stored - seconds that overflow time.Duration as positive Go ints and uints, negative ints and floats, integers out of range of the sized kinds, negatives for unsigned, bool<->number, unparsable texts - and fails only in the conversion for the target of the setting holding the reference: that setting and ITS source must be named, not a helper; strata behind-ref:duration (always in the first round), behind-ref:range, behind-ref:type; besides the other routes the helpers are kept in a configuration of their own with its own source handed to every read as Env, route behind-ref-env, which takes the share of the expansion routes), array too short/long; half of the reference faults are placed below an interface{} slot when the tree has one), each at one setting of the tree (struct fields, inline fields, map entries, list and array elements, below pointers, inside interface{} data). Every fault is observed on the configuration built directly and on one built by a randomly chosen other route: merge chains under the default policy (fault delivered by the later operand over an absent or placeholder setting / fault present first and the surroundings merged over it), AppendValues / PrependValues chains that cut the outermost list on the fault path into up to three operands (renumbering), NewFrom plus Remove of 1-3 extra elements in front of the fault in a list on the path (shifting), the input spelled in dotted keys (every edge into a non-empty dictionary or list folded into the key, \"a.b.c\":1 / \"a.l.0\":1 / \"a.l.1.k\":2 with lists spelled completely, or kept nested, decided per path; alone or as operands of the two default-policy chains; a quarter of the routed runs) so that namespaces and lists exist only implicitly, merges under ReplaceValues / ReplaceArrValues over an earlier operand holding the valid tree with every list on the fault path one element longer, a merge with FieldReplaceValues(<a dictionary on the fault path>) over an earlier operand holding the same tree with one more key in that dictionary (the dictionary then comes from the later operand as a whole, also for a member missing from it), a later operand giving the holder of the faulty setting both parts (a named setting added to the list the faulty element sits in, a first element added to the dictionary the faulty member sits in); the dotted spellings, the expansion routes, the mixed holders and the per-field replace get a fixed sixth of the routed runs each, the value written by Set*/SetChild, a faulty list or object written leaf by leaf with setters using full paths (the containers in between exist only as a by-product), an enclosing subtree attached by SetChild (fresh or taken from another tree), the key removed by Remove; and values produced by expansion (a fixed quarter of the routed runs): the subtree at the faulty setting, at its holder or further up the path is written as text in the flag/environment value syntax (bare, single and double quoted strings and keys, lists with and without brackets, nested lists and objects, null members) and the setting holds \"${ENV_n}\" served by a Resolve callback given to every read, or a splice whose middle piece is served by the callback or by a top-level helper setting, stored directly or delivered by a later merge operand - the list or object exists only while it is read, the fault sits at it (length, validator, type), at a member missing from it, or below it at any depth. The valid twin of every routed history must still unpack (for expanded values a twin that does not unpack is only counted: a number written as text is no duration). Observations: Unpack (with and without PathSep), the getters that must fail for the fault (dotted name, name+idx, or relative to an intermediate Child), Unpack of an intermediate Child into the matching sub-type; half of the runs (not on expanded values) also read the fault from a namespace on the fault path CAPTURED as *ucfg.Config by a sequence of Unpack calls into a struct { C *ucfg.Config `config:\"<key>\"` } (taken at the holder of the namespace): the other configuration (the same settings without the faulty one, own source) first and the faulty one second, a Child handle of the other configuration pre-filled and the faulty one unpacked over it, the faulty one first and the other second, or the faulty one alone - then Unpack of the captured configuration into the matching sub-type and a failing getter with the relative name: full dotted path and source as everywhere (a capture step that fails, or a captured read without error, is only counted); for reference faults also the calls that pass through the failing reference or measure it (Has, Remove, Set* of a name below it, CountField of it; judged when they fail). Explicit nulls go half of the time through the routes where the null arrives from a later operand than its holder. Plus, per case, 3 faults that make the load fail (NewFrom or Merge of the valid tree with one setting replaced by a text with broken ${ syntax or by a chan/func value, or with a primitive setting spelled a second time as a namespace \"k.zz_dup\": the error must name the full dotted path of that setting - either spelling for the duplicate - and the source), 2 setter calls with an index beyond MaxIdx(10) (on a name absent from a dictionary of the tree and on a list of the tree: the error must name the list setting; the source where the list exists), 6 reads of settings that do not exist (a key not in a dictionary of the tree, an index behind a list of the tree, names below those; dotted, name+idx, through a Child handle; any getter) whose error must name the first missing setting or a longer prefix of the request, and carry the source; and ~600 calls driving the error paths of Bool/Int/Uint/Float/String/Child, Has, CountField, Remove, Set*, SetChild, NewFrom, Merge and Unpack (missing, through primitives, through failing references, wrong types, unsupported values and targets, non-string keys, duplicate keys, broken ${ syntax, failing resolvers). Distinct = distinct (type program and tree shape, fault kind, depth class, route)."
}

func (check) Assumptions() []string {
	return []string{
		"wording independent judgement of the message (Message() of the typed error): the setting is named iff its full dotted path (keys and list indices, at which the generator put the fault) occurs as a delimited token (the characters before and behind are not letters, digits, '_', '.', '-'; a sentence's full stop delimits); if it does not occur but the path of another setting or container of the tree does (longest first; a proper prefix of the path counts) the error names a different setting, else it names none; the source must occur as a delimited token anywhere. A key quoted in a cyclic reference clause counts only if it is the faulty setting's own full path (falls out of the token rule)",
		"generated keys are distinctive tokens (ka, hst, cfg_1, with-dash, q r, k1, ...) that do not occur in the prose of messages, in type names or in the texts of the hand-written Validate/Unpack methods",
		"merge chains give every operand its own source src-<case>-op<k>: the exact operand is demanded whenever a value exists at the faulty setting (a primitive, the text of a reference or splice, a list, an object, or an explicit null - it was written in one operand, and a validator failing because of it must point there: every route delivers it by one operation); when nothing exists there (absent: the error is raised on behalf of the holder; the holder's source is demanded where the route knows that the holder comes from one operand, i.e. a dictionary replaced as a whole), for the lenient list-for-object kind, and for a dictionary merged key by key from two operands (ReplaceArrValues over an existing dictionary) any source of the chain is accepted",
		"a value produced by expansion belongs to the setting holding the expression: errors at and below it must show that setting's source and continue its dotted path. Texts are generated so that the value parser reads them back as the tree they were written from (checked with parse.Value as a filter on the generator, not as an oracle; a non-negative integer comes back unsigned); empty lists and objects, a text that is just null, and strings containing '$' are not written as text",
		"a read of a setting that does not exist: the error may name the first missing setting on the requested path or any longer prefix of the request (which of them is not pinned down); calls passing through a failing reference (Has, Remove, Set*, CountField) need not fail (Has reports a missing reference as absent), only their errors are judged",
		"a namespace captured as *ucfg.Config keeps its place: whatever sequence of Unpack calls filled the field (view, private merged copy), errors read from it name the full dotted path from the root of the configuration the setting was loaded with; where nothing exists at the faulty setting any source of the two configurations is accepted (the captured namespace is merged from both)",
		"single fault only: all other settings conform to the type, so which of several guilty settings is named cannot arise; keys never contain '.', '/', ':', quotes or '$', and are never numeric (the tag of a dotted field is two such keys joined by the case's separator)",
		"load-time failures (broken expression syntax, unsupported Go value, a key spelled twice) are failures caused by one setting of the input and are judged like the others although the statement's list of fault kinds does not name them: a partial path ('1' for 'a.1', 'a.b' for 'x.a.b') looks like a full one and names a different place; for the duplicate either spelling is accepted",
		"load-time faults are also driven with the LOAD call's separator drawn from a pool (/ :: : | -> ~ and .) and the way to the fault spelled with keys joined by it (runs of 2-3 dictionary keys, the tree below 0-2 extra dictionaries, the rest of the dictionaries in between nested next to the joined key; fault kinds broken expression, unsupported value, non-string map key, duplicate key): the setting has one dotted path however the input spelled the way to it, so the message must spell it with dots and completely; here the load separator does not delimit a path token ('k/zz' does not name 'k'). Signatures error-lacks-path:load-time:<kind>:<joined|nested>-keys:<path-spelled-with-load-separator|front-of-path-dropped|names-no-setting>, error-lacks-source:load-time:<kind>:<joined|nested>-keys, panic:<entry>:input-with-joined-keys",
		"outside / not generated: panics of unsupported inputs (C07), uintptr targets (not a supported target kind: a string into uintptr is refused as unsupported), invalid defaults pre-filled in the TARGET (pointers, untouched slice elements: not settings of the configuration), the filler elements of a list gap (never loaded, so no source to report; C18 tracks it), errors of RegisterValidator, of the YAML/JSON/HJSON decoders, the OS and the flag value syntax (not calls on a configuration / front-end syntax), a reference to a LIST where an array of another length or a validated list is expected (length and validator belong to both settings), the wording of messages (\"required 'object', but found 'object'\"), list-for-object and object-for-slice (documented as no failures)",
		"target types never put pointers inside slices or maps, never point to maps, slices or arrays, use arrays only as struct fields and *regexp.Regexp only as a struct field (other shapes are C06/C07 findings)",
		"a list where an object is expected is not clearly an error by the documentation (a list is a Config object): if Unpack accepts it this is only counted; if it fails the error must name the setting or one below it",
		"the source is not demanded where no value exists that could carry it (a member of an absent struct) nor for the lenient list-for-object kind; for an absent or null setting with a required tag it is demanded from the holder (the library attaches the holder's source there); a struct setting present as null is a value loaded with a source, so errors about its members must show one",
		"signatures: <problem>:<fault kind>:<target shape>[+inline][+from-child]:<depth class>[:only-via-<route>] (the suffix when the directly built configuration does not show the problem under the same views); fault-not-detected carries no depth class (no message exists that could misname anything); error-names-wrong-source (the source of another operand of the chain) extends the problem list; predicates that hold across kinds, shapes and depths get their own signature: ...:interface-target (the enclosing interface{} slot is named instead of the leaf inside), ...:drops-struct-key (the key of an absent struct is left out of the path of its member), <problem>:<kind>:through-<call> (a call passing through a failing reference), error-lacks-source:value-inside-expanded-container:via-<route> and error-lacks-source:expanded-list-or-object-itself:via-<route> (expansion routes expand-resolver|expand-splice @self|@holder|@ancestor: where the expanded value sits relative to the setting to be named), error-lacks-source:<kind>:container-implied-by-setters, error-names-wrong-source:failing-reference:list-target, error-names-wrong-source:<kind>:list-replaced-as-a-whole:only-via-merge-replace-arr, error-lacks-source:required-in-null-struct, error-names-wrong-path:missing-read:<what is missing>:<top-level|nested>-holder:<form>:<front|middle>-of-path-dropped|path-spelled-with-read-separator, <problem>:<kind>:path-spelled-with-read-separator, <fault-not-detected|error-names-wrong-path|error-names-wrong-source>:<unresolvable-reference|cyclic-reference|primitive-for-object|...>:dotted-tag-namespace (the fault at the namespace a dotted tag reaches through is swallowed or turned into an absent member), error-names-wrong-path:reference-to-object-for-primitive:names-referenced-setting (+ error-names-wrong-source:...:source-of-referenced-setting), error-names-wrong-source:<kind>:explicit-null, error-names-wrong-source:<kind>:dictionary-replaced-as-a-whole:only-via-merge-field-replace, error-names-wrong-path:<kind>:mixed-holder-named-instead-of-its-setting, error-lacks-path:load-time:<broken-expression|unsupported-value|duplicate-key>:<in-dict|in-list>[-top]:<names-no-setting|front-of-path-dropped>, error-lacks-source:load-time:<kind>, error-lacks-path|error-lacks-source:setter-index-out-of-range:<absent-setting|existing-list>, <error-names-wrong-path|error-lacks-path>:captured-config:path-relative-to-the-captured-namespace and <problem>:<kind>:read-from-captured-config (views Captured.Unpack / Captured.<getter>); reference kinds carry the form of the splice (+splice-text, +splice-list, +splice-object); value-behind-reference faults carry +behind-ref in the kind and have error-names-wrong-path:<kind>:value-behind-reference:names-referenced-setting (a setting of the reference chain is named) and error-names-wrong-source:<kind>:value-behind-reference:source-of-referenced-setting",
		"not demanded: Error.Path(), the wording, which Reason is used, errors of the YAML/JSON/HJSON syntax decoders and of the OS; whether the typed-error drive calls fail at all (only counted: drive_no_error)",
		"panics are reported (panic:<entry point>) but inputs known to panic (C07: Unpack(&interface{}), negative idx, nil and unaddressable targets, complex values) are not generated",
	}
}

type caseState struct {
	res     *harness.R
	r       *rand.Rand
	top     *spec
	V       *model.Node
	base    string
	verbose bool
	byPath  map[string]*position
	shapeID string
	sep     string // the path separator of all reads of the case
	dotted  bool   // the type has dotted tags: every Unpack needs the PathSep option
}

// rd spells a dotted name for a read with the separator of the case (keys
// never contain a '.').
func (cs *caseState) rd(name string) string { return strings.ReplaceAll(name, ".", cs.sep) }
func (cs *caseState) ps() ucfg.Option       { return ucfg.PathSep(cs.sep) }

func (check) Run(seed int64, tier string, idx int, verbose bool) harness.Result {
	res := harness.NewR(idx)
	r := rand.New(rand.NewSource(harness.Mix(seed, "C14", idx)))
	sr := rand.New(rand.NewSource(harness.Mix(seed, "C14spec", r.Intn(specPool(tier)))))
	top := (&specGen{r: sr}).top()
	V := (&valGen{r}).value(top, false)
	cs := &caseState{res: res, r: r, top: top, V: V, base: fmt.Sprintf("src-%d", idx), verbose: verbose, byPath: map[string]*position{}, sep: top.sep, dotted: top.hasDotted()}
	res.SetAdd("read_separator", cs.sep)
	if cs.dotted {
		res.Ev("cases_with_dotted_tags", 1)
	}
	if cs.sep != "." {
		res.Ev("cases_reading_with_another_separator", 1)
	}
	h := fnv.New64a()
	h.Write([]byte(top.typ.String()))
	h.Write([]byte(shapeOf(V)))
	cs.shapeID = fmt.Sprintf("%x", h.Sum64())
	if verbose {
		fmt.Printf("type: %v\ntree: %s\n", top.typ, V)
	}
	var sample []string
	if cs.validPair() {
		var ps []*position
		positions(&ps, V, top, nil, "", 0)
		for _, p := range ps {
			cs.byPath[pathStr(p.path)] = p
		}
		for _, c := range cs.selectFaults(ps) {
			cs.runFault(c.pos, c.f)
			if idx < 2 {
				sample = append(sample, fmt.Sprintf("%s at %s (%s, %s)", c.f.sigKind(), pathStr(c.pos.path), c.pos.shape(), c.pos.depthClass()))
			}
		}
		if panicked, pv, where := harness.Safe(cs.missingReads); panicked {
			res.Violate("panic:missing-reads", "panic %q at %s", clip(pv, 300), where)
		}
		if panicked, pv, where := harness.Safe(cs.loadTimeFaults); panicked {
			res.Violate("panic:load-time-faults", "panic %q at %s", clip(pv, 300), where)
		}
		// own random stream: the draws of the other probes stay what they were
		jr := rand.New(rand.NewSource(harness.Mix(seed, "C14joined", idx)))
		if panicked, pv, where := harness.Safe(func() { cs.joinedLoadFaults(jr) }); panicked {
			res.Violate("panic:joined-load-faults", "panic %q at %s", clip(pv, 300), where)
		}
		if panicked, pv, where := harness.Safe(cs.setterIndexFaults); panicked {
			res.Violate("panic:setter-index-faults", "panic %q at %s", clip(pv, 300), where)
		}
	}
	panicked, pv, where := harness.Safe(func() { drive(res, r, V, cs.base) })
	if panicked {
		res.Violate("panic:drive", "panic %q at %s", clip(pv, 300), where)
	}
	if idx < 2 {
		res.Sample = map[string]interface{}{"type": top.typ.String(), "tree": V.String(), "faults": sample}
	}
	return res.Done()
}

// shapeOf renders the structure of a tree without its values.
func shapeOf(n *model.Node) string {
	if n == nil || n.Kind != model.KSub {
		return "p"
	}
	var b strings.Builder
	if n.HasA {
		b.WriteByte('[')
		for _, c := range n.A {
			b.WriteString(shapeOf(c))
		}
		b.WriteByte(']')
		return b.String()
	}
	b.WriteByte('{')
	for _, k := range n.SortedKeys() {
		b.WriteString(k + ":" + shapeOf(n.D[k]) + ",")
	}
	b.WriteByte('}')
	return b.String()
}

func (cs *caseState) newTarget() interface{} { return reflect.New(cs.top.typ).Interface() }

// validPair checks that the generated pair is valid: the configuration loads
// and unpacks into the fitted type.
func (cs *caseState) validPair() bool {
	res := cs.res
	ctx := fmt.Sprintf("type %v; tree %s", cs.top.typ, cs.V)
	var c *ucfg.Config
	var err error
	panicked, pv, where := harness.Safe(func() { c, err = ucfg.NewFrom(cs.V.ToGo(), baseOpts(cs.base)...) })
	res.Eval(1)
	if panicked {
		res.Violate("panic:NewFrom", "panic %q at %s; %s", clip(pv, 300), where, ctx)
		return false
	}
	if err != nil {
		typed(res, "NewFrom", err, ctx)
		res.Violate("valid-pair-rejected:NewFrom:"+reasonClass(err), "NewFrom of the valid tree failed: %s; %s", clip(errText(err), 400), ctx)
		return false
	}
	panicked, pv, where = harness.Safe(func() { err = c.Unpack(cs.newTarget(), cs.ps()) })
	res.Eval(1)
	if panicked {
		res.Violate("panic:Unpack", "valid pair: panic %q at %s; %s", clip(pv, 300), where, ctx)
		return false
	}
	if err != nil {
		typed(res, "Unpack", err, ctx)
		res.Violate("valid-pair-rejected:Unpack:"+reasonClass(err), "Unpack of the valid pair failed: %s; %s", clip(errText(err), 400), ctx)
		return false
	}
	res.Ev("valid_pairs", 1)
	return true
}

type cand struct {
	pos *position
	f   fault
}

// selectFaults picks up to faultsPerCase (position, fault) pairs, round robin
// over the fault kinds available in this tree.
func (cs *caseState) selectFaults(ps []*position) []cand {
	r := cs.r
	byKind := map[string][]cand{}
	var prims, dicts, lists [][]seg
	for _, p := range ps {
		switch {
		case p.node != nil && p.node.Kind == model.KPrim:
			prims = append(prims, p.path)
		case p.node != nil && p.node.Kind == model.KSub && len(p.node.A) > 0:
			lists = append(lists, p.path)
		case p.node != nil && p.node.Kind == model.KSub && len(p.node.D) > 0:
			dicts = append(dicts, p.path)
		}
	}
	// a setting elsewhere in the tree: not the faulty one and not below it
	// (what is there is replaced by the fault)
	elsewhere := func(l [][]seg, at []seg) []seg {
		for try := 0; try < 4 && len(l) > 0; try++ {
			if q := l[r.Intn(len(l))]; pathStr(q) != pathStr(at) && !strings.HasPrefix(pathStr(q), pathStr(at)+".") {
				return q
			}
		}
		return nil
	}
	env := faultEnv{pick: r.Intn, topStruct: cs.top.kind == kStruct,
		primFor: func(at []seg) string { return pathStr(elsewhere(prims, at)) },
		dictFor: func(at []seg) string { return pathStr(elsewhere(dicts, at)) },
		listFor: func(at []seg) (string, int) {
			q := elsewhere(lists, at)
			if q == nil {
				return "", 0
			}
			return pathStr(q), len(getNode(cs.V, q).A)
		}}
	for _, p := range ps {
		for _, f := range faultsAt(p, env) {
			byKind[f.stratum()] = append(byKind[f.stratum()], cand{p, f})
		}
	}
	// reference faults matter most below an interface{} slot (the error has
	// to be located inside free-form data): half of them are placed there
	for k, l := range byKind {
		if !strings.Contains(k, "reference") || r.Intn(2) == 0 {
			continue
		}
		var deep []cand
		for _, c := range l {
			if c.pos.ifaceRoot != nil && len(c.pos.path) > len(c.pos.ifaceRoot) {
				deep = append(deep, c)
			}
		}
		if len(deep) > 0 {
			byKind[k] = deep
		}
	}
	kinds := make([]string, 0, len(byKind))
	for k := range byKind {
		kinds = append(kinds, k)
	}
	sort.Strings(kinds)
	r.Shuffle(len(kinds), func(i, j int) { kinds[i], kinds[j] = kinds[j], kinds[i] })
	// the strata whose bad value lives behind a reference are rare (they need
	// a struct target and a leaf of the family): the duration family always
	// gets its turn in the first round, the others half of the time
	{
		var front, back []string
		for _, k := range kinds {
			if k == "behind-ref:duration" || (strings.HasPrefix(k, "behind-ref:") && r.Intn(2) == 0) {
				front = append(front, k)
			} else {
				back = append(back, k)
			}
		}
		kinds = append(front, back...)
	}
	cs.res.Ev("fault_candidates", int64(func() int {
		n := 0
		for _, l := range byKind {
			n += len(l)
		}
		return n
	}()))
	var out []cand
	for len(out) < faultsPerCase && len(kinds) > 0 {
		var rest []string
		for _, k := range kinds {
			if len(out) >= faultsPerCase {
				break
			}
			l := byKind[k]
			i := r.Intn(len(l))
			out = append(out, l[i])
			l = append(l[:i:i], l[i+1:]...)
			byKind[k] = l
			if len(l) > 0 {
				rest = append(rest, k)
			}
		}
		kinds = rest
	}
	return out
}

func (cs *caseState) runFault(pos *position, f fault) {
	res := cs.res
	var T *model.Node
	if f.del {
		T = withNode(cs.V, pos.path, nil)
	} else {
		T = withNode(cs.V, pos.path, f.val.Copy())
	}
	for k, v := range f.extras {
		T.D[k] = v.Copy()
	}
	res.Ev("faults_injected", 1)
	res.SetAdd("fault_kind", f.kind)
	if strings.Contains(f.kind, "reference") {
		res.SetAdd("reference_kind_x_form", f.sigKind())
		res.SetAdd("reference_form_x_shape", f.form+"|"+pos.sp.shape())
		if f.form != "" {
			res.Ev("reference_faults_inside_splices", 1)
		}
	}
	if f.behind > 0 {
		res.Ev("faults_with_value_behind_reference", 1)
		res.SetAdd("behind_ref_kind_x_chain", fmt.Sprintf("%s|%d", f.kind, f.behind))
		res.SetAdd("behind_ref_kind_x_stored_type", fmt.Sprintf("%s|%T", f.kind, f.extras[f.refChain[f.behind-1]].Prim))
		if u, ok := f.extras[f.refChain[f.behind-1]].Prim.(uint64); f.kind == "out-of-range-duration" && (ok || func() bool { i, ok := f.extras[f.refChain[f.behind-1]].Prim.(int64); u = uint64(i); return ok && i > 0 }()) && u > 0 {
			res.Ev("behind_ref_duration_overflow_of_positive_integers", 1)
		}
	}
	if pos.sp != nil && pos.sp.dottedNS {
		res.Ev("faults_at_dotted_tag_namespace", 1)
	}
	if f.val != nil && f.val.IsNil() {
		res.Ev("explicit_null_faults", 1)
	}
	res.SetAdd("target_shape", pos.shape())
	res.SetAdd("depth_class", pos.depthClass())
	res.SetAdd("kind_x_shape", f.kind+"|"+pos.shape())
	res.SetAdd("path_length", fmt.Sprint(len(pos.path)))
	if pos.ifaceRoot != nil && len(pos.path) > len(pos.ifaceRoot) {
		res.Ev("faults_below_interface_slot", 1)
	}
	routes := planRoutes(cs.r, cs.V, pos.path, f, cs.base, cs.top.kind == kStruct)
	obsSeed := cs.r.Int63()
	baseline := cs.observe(directRoute(cs.base), T, pos, f, nil, obsSeed)
	if len(routes) == 0 {
		return
	}
	rt := routes[cs.r.Intn(len(routes))]
	// the dotted spellings and the values produced by expansion get a fixed
	// share of the runs each
	if share := map[int]string{0: "dotted-", 1: "expand-", 2: "mixed-", 3: "merge-field-"}[cs.r.Intn(6)]; share != "" {
		if f.behind > 0 && share == "expand-" {
			share = "behind-ref-" // no expansion routes for reference texts: the share goes to the helpers kept in an Env configuration
		}
		var sel []route
		for _, x := range routes {
			if strings.HasPrefix(x.name, share) {
				sel = append(sel, x)
			}
		}
		if len(sel) > 0 {
			rt = sel[cs.r.Intn(len(sel))]
		}
	}
	if f.val != nil && f.val.IsNil() && cs.r.Intn(2) == 0 {
		// an explicit null matters most where it arrives from another
		// operand than its holder
		var sel []route
		for _, x := range routes {
			if strings.HasSuffix(x.name, "merge-overlay") {
				sel = append(sel, x)
			}
		}
		if len(sel) > 0 {
			rt = sel[cs.r.Intn(len(sel))]
		}
	}
	if !f.del && !cs.twin(rt, pos, f) {
		return
	}
	cs.observe(rt, T, pos, f, baseline, obsSeed)
}

// twin replays the history with the valid tree: the result must unpack.
func (cs *caseState) twin(rt route, pos *position, f fault) bool {
	res := cs.res
	var b built
	var err error
	panicked, pv, where := harness.Safe(func() { b, err = rt.build(cs.V) })
	res.Eval(2)
	if panicked {
		res.Violate("panic:history:"+rt.name, "valid twin: panic %q at %s; type %v tree %s fault path %s", clip(pv, 300), where, cs.top.typ, cs.V, pathStr(pos.path))
		return false
	}
	if err == errNotApplicable {
		return false
	}
	if err != nil {
		cs.historyFailed(rt, err, "valid twin")
		return false
	}
	panicked, pv, where = harness.Safe(func() { err = b.cfg.Unpack(cs.newTarget(), append([]ucfg.Option{cs.ps()}, b.uopts...)...) })
	res.Eval(1)
	if panicked {
		res.Violate("panic:Unpack", "valid twin via %s: panic %q at %s; type %v; history %s", rt.name, clip(pv, 300), where, cs.top.typ, clip(b.desc, 1500))
		return false
	}
	if err != nil && strings.HasPrefix(rt.name, "mixed-") {
		// what a target makes of a setting with both parts is not this property's claim
		typed(res, "Unpack", err, b.desc)
		res.Ev("mixed_twin_not_valid", 1)
		res.SetAdd("mixed_twin_not_valid", pos.shape()+"|"+reasonClass(err))
		return false
	}
	if err != nil && strings.HasPrefix(rt.name, "expand-") {
		// whether a value written as text is as good as the stored value is
		// not this property's claim (a number for a duration is not): the
		// error must be typed, the pair is not used
		typed(res, "Unpack", err, b.desc)
		res.Ev("expanded_twin_not_valid", 1)
		res.SetAdd("expanded_twin_not_valid", pos.shape()+"|"+reasonClass(err))
		return false
	}
	if err != nil {
		typed(res, "Unpack", err, b.desc)
		res.Violate("valid-pair-rejected:via-"+rt.name+":"+reasonClass(err), "the valid tree built via %s does not unpack: %s; type %v; history %s", rt.name, clip(errText(err), 400), cs.top.typ, clip(b.desc, 2000))
		return false
	}
	res.Ev("valid_twins_checked", 1)
	return true
}

func (cs *caseState) historyFailed(rt route, err error, what string) {
	res := cs.res
	if ce, ok := err.(*callErr); ok {
		typed(res, ce.entry, ce.err, ce.desc)
		res.Violate("history-step-failed:"+rt.name+":"+ce.entry+":"+reasonClass(ce.err), "%s: %s returned %s; type %v; history %s", what, ce.entry, clip(errText(ce.err), 400), cs.top.typ, clip(ce.desc, 2000))
		return
	}
	res.Violate("history-step-failed:"+rt.name, "%s: %v; type %v", what, clip(err.Error(), 2500), cs.top.typ)
}

// observe builds the configuration holding T via the route and looks at the
// fault through Unpack, the getters and an intermediate Child. It returns the
// set of problems seen (for telling route-specific deviations apart).
func (cs *caseState) observe(rt route, T *model.Node, pos *position, f fault, baseline map[string]bool, obsSeed int64) map[string]bool {
	// the same views (options, getter, form, child) are taken on the directly
	// built configuration and on the routed one
	res, r := cs.res, rand.New(rand.NewSource(obsSeed))
	seen := map[string]bool{}
	want := pathStr(pos.path)
	if f.wantRel != "" {
		want += "." + f.wantRel
	}
	var b built
	var err error
	panicked, pv, where := harness.Safe(func() { b, err = rt.build(T) })
	res.Eval(2)
	if panicked {
		res.Violate("panic:history:"+rt.name, "panic %q at %s; type %v tree %s fault %s at %s", clip(pv, 300), where, cs.top.typ, T, f.kind, want)
		return seen
	}
	if err == errNotApplicable {
		return seen
	}
	if err != nil {
		cs.historyFailed(rt, err, fmt.Sprintf("fault %s at %s", f.kind, want))
		return seen
	}
	res.Ev("fault_runs", 1)
	res.SetAdd("route", rt.name)
	res.SetAdd("kind_x_route", f.kind+"|"+rt.name)
	if rt.name == "mixed-holder" || rt.name == "merge-field-replace" {
		res.Ev("fault_runs_via_"+rt.name, 1)
	}
	if strings.HasPrefix(rt.name, "expand-") {
		res.Ev("fault_runs_on_expanded_values", 1)
		res.SetAdd("expanded_kind_x_anchor", f.kind+rt.name[strings.Index(rt.name, "@"):])
		res.SetAdd("expanded_shape_x_route", pos.shape()+"|"+rt.name)
	}
	if f.behind > 0 {
		res.Ev("behind_ref_runs", 1)
		res.SetAdd("behind_ref_kind_x_route", f.kind+"|"+rt.name)
		if behindRefOtherSource[rt.name] {
			res.Ev("behind_ref_runs_referenced_value_from_another_source", 1)
		}
	}
	res.Key(cs.shapeID + "|" + f.sigKind() + "|" + pos.depthClass() + "|" + rt.name)
	exact := ""
	if !f.parentRaised {
		exact = b.exactSrc
	} else if !f.lenient {
		exact = b.holderSrc
	}
	ctx := func() string {
		return fmt.Sprintf("fault %s at '%s' (target %s, %s); type %v; history %s", f.sigKind(), want, pos.shape(), pos.depthClass(), cs.top.typ, clip(b.desc, 2500))
	}
	if cs.verbose {
		fmt.Printf("fault %s at %s via %s\n  %s\n", f.kind, want, rt.name, b.desc)
	}

	// report classifies one deviation
	// every path of the tree (settings and containers), for telling "names a
	// different setting" from "names no setting"
	var others []string
	seenPath := map[string]bool{}
	var walk func(n *model.Node, p []seg)
	walk = func(n *model.Node, p []seg) {
		if len(p) > 0 && !seenPath[pathStr(p)] {
			seenPath[pathStr(p)] = true
			others = append(others, pathStr(p))
		}
		if n == nil || n.Kind != model.KSub {
			return
		}
		for _, k := range n.SortedKeys() {
			walk(n.D[k], appendSeg(p, seg{key: k}))
		}
		for i, c := range n.A {
			walk(c, appendSeg(p, seg{idx: i, isIdx: true}))
		}
	}
	walk(T, nil)
	walk(cs.V, nil)
	dropped := ""
	if f.wantRel != "" {
		// the path with the key of the absent struct left out
		dropped = strings.TrimPrefix(pathStr(pos.path[:len(pos.path)-1])+"."+f.wantRel, ".")
		others = append(others, dropped)
	}
	sources := []string{cs.base}
	for k := 0; k < 4; k++ {
		sources = append(sources, fmt.Sprintf("%s-op%d", cs.base, k))
	}
	capRel := "" // while a captured configuration is read: the path of the fault relative to it
	report := func(problem, shape, entry, msg string, named []string) {
		key := entry + "|" + problem
		seen[key] = true
		sig := problem + ":" + f.sigKind() + ":" + shape + ":" + pos.depthClass()
		if problem == "fault-not-detected" {
			// no message that could misname anything: where the setting sits
			// does not matter, only what was put in place of what
			sig = problem + ":" + f.sigKind() + ":" + strings.TrimSuffix(strings.TrimSuffix(shape, "+from-child"), "+inline")
		}
		if problem == "error-names-wrong-path" && pos.ifaceRoot != nil && len(pos.path) > len(pos.ifaceRoot) && (entry == "Unpack" || entry == "Child.Unpack") &&
			hasToken(msg, pathStr(pos.ifaceRoot), false) {
			// the enclosing interface{} slot is named instead of the leaf inside
			sig = problem + ":" + f.sigKind() + ":interface-target"
		}
		if problem == "error-names-wrong-path" && dropped != "" && hasToken(msg, dropped, false) {
			// the key of the absent struct itself is left out of the path
			sig = problem + ":" + f.sigKind() + ":drops-struct-key"
		}
		if baseline != nil && !baseline[key] {
			sig += ":only-via-" + rt.name
		}
		// deviations that are one predicate over many kinds, shapes and depths
		isList := pos.sp != nil && (pos.sp.kind == kSlice || pos.sp.kind == kArray)
		valSub := f.val != nil && f.val.Kind == model.KSub
		switch {
		case rt.name == "mixed-holder" && problem == "error-names-wrong-path" && baseline != nil && !baseline[key] && len(pos.path) > 1 &&
			hasToken(msg, pathStr(pos.path[:len(pos.path)-1]), false):
			// the holder with both a list and a dictionary part is named
			// instead of its element or member
			sig = problem + ":" + f.kind + ":mixed-holder-named-instead-of-its-setting"
		case strings.HasPrefix(entry, "Captured.") && (problem == "error-names-wrong-path" || problem == "error-lacks-path") && hasToken(msg, capRel, true):
			// the path starts at the captured namespace instead of the root
			sig = problem + ":captured-config:path-relative-to-the-captured-namespace"
		case strings.HasPrefix(entry, "Captured."):
			sig = problem + ":" + f.kind + ":read-from-captured-config"
		case strings.HasPrefix(shape, "through-"):
			// a call that passes through the failing reference or measures it:
			// what matters is the call and how the reference fails
			sig = problem + ":" + f.kind + ":" + shape
		case pos.sp != nil && pos.sp.dottedNS && strings.HasSuffix(entry, "Unpack") &&
			(problem == "fault-not-detected" || problem == "error-names-wrong-source" || problem == "error-names-wrong-path" && hasToken(msg, want, true)):
			// a fault at the namespace a dotted tag reaches through goes
			// unreported, or the member behind it is reported as absent
			// (with the source of the holder)
			class := f.kind
			switch {
			case strings.Contains(f.kind, "cyclic"):
				class = "cyclic-reference"
			case strings.Contains(f.kind, "reference"):
				class = "unresolvable-reference"
			}
			sig = problem + ":" + class + ":dotted-tag-namespace"
		case (problem == "error-names-wrong-path" || problem == "error-lacks-path") && spelledWith(msg, want, cs.sep):
			// the path is there, but (partly) joined with the separator of the call
			sig = problem + ":" + f.kind + ":path-spelled-with-read-separator"
		case f.behind > 0 && problem == "error-names-wrong-path" && namesAny(msg, f.refChain):
			// a setting of the reference chain (where the value is fine) is
			// named instead of the setting whose conversion failed
			sig = problem + ":" + f.kind + ":value-behind-reference:names-referenced-setting"
		case f.behind > 0 && problem == "error-names-wrong-source":
			sig = problem + ":" + f.kind + ":value-behind-reference:source-of-referenced-setting"
		case f.refTo != "" && problem == "error-names-wrong-path" && hasToken(msg, f.refTo, false):
			// the referenced object is named instead of the setting holding the reference
			sig = problem + ":" + f.kind + ":names-referenced-setting"
		case f.refTo != "" && problem == "error-names-wrong-source":
			sig = problem + ":" + f.kind + ":source-of-referenced-setting"
		case problem == "error-names-wrong-source" && f.val != nil && f.val.IsNil():
			// an explicit null reports another operand's source (its holder's)
			sig = problem + ":" + f.kind + ":explicit-null"
		case problem == "error-names-wrong-source" && rt.name == "merge-field-replace":
			// a dictionary replaced as a whole by a later operand
			sig = problem + ":" + f.kind + ":dictionary-replaced-as-a-whole:only-via-" + rt.name
		case problem == "error-lacks-source" && f.kind == "required-in-null-struct":
			// however the null got there
			sig = problem + ":" + f.kind
		case problem == "error-lacks-source" && b.insideExpanded:
			// the failing value lies inside a list or object built from expanded text
			sig = problem + ":value-inside-expanded-container:via-" + rt.name
		case problem == "error-lacks-source" && b.expandedItself:
			// the list or object built from expanded text is what fails
			// (length, validator, type) or what misses the required member
			sig = problem + ":expanded-list-or-object-itself:via-" + rt.name
		case problem == "error-lacks-source" && rt.name == "set-leaves" && valSub:
			// the list or object exists only as a by-product of setter calls
			sig = problem + ":" + f.sigKind() + ":container-implied-by-setters"
		case problem == "error-names-wrong-source" && strings.Contains(f.kind, "reference") && isList && strings.HasSuffix(entry, "Unpack"):
			// a failing reference where a list is expected
			sig = problem + ":failing-reference:list-target"
		case problem == "error-names-wrong-source" && rt.name == "merge-replace-arr" && valSub && f.val.HasA:
			// the list was replaced as a whole by a later operand
			sig = problem + ":" + f.sigKind() + ":list-replaced-as-a-whole:only-via-" + rt.name
		}
		res.Violate(sig, "%s: %s: message %q names other settings %q, expected '%s' and source %s; %s", entry, problem, clip(msg, 500), named, want, cs.base, ctx())
	}
	judge := func(entry, shape string, err error) {
		if err == nil {
			if f.lenient {
				res.Ev("lenient_fault_accepted", 1)
				res.SetAdd("lenient_fault_accepted", f.kind+"|"+shape)
				return
			}
			report("fault-not-detected", shape, entry, "<no error>", nil)
			return
		}
		if p := typed(res, strings.TrimPrefix(strings.TrimPrefix(entry, "Child."), "Captured."), err, ctx()); p != "" {
			seen[entry+"|"+p] = true
		}
		msg := errText(err)
		v := judgeMessage(msg, want, f.lenient, others, sources, exact)
		for _, p := range v.problems {
			if (f.lenient || f.noSource) && p == "error-lacks-source" {
				res.Ev("source_not_demanded_and_absent", 1)
				continue
			}
			report(p, shape, entry, msg, v.named)
		}
		if len(v.problems) == 0 {
			res.Ev("errors_naming_path_and_source", 1)
		}
	}

	// Unpack of the whole configuration
	uo := append([]ucfg.Option{}, b.uopts...)
	if r.Intn(2) == 0 || cs.dotted {
		uo = append(uo, cs.ps())
	}
	panicked, pv, where = harness.Safe(func() { err = b.cfg.Unpack(cs.newTarget(), uo...) })
	res.Eval(1)
	if panicked {
		res.Violate("panic:Unpack", "panic %q at %s; %s", clip(pv, 300), where, ctx())
	} else {
		res.SetAdd("entry_point", "Unpack")
		judge("Unpack", pos.shape(), err)
	}

	// the getters that must fail for this fault
	ps := cs.ps()
	gopts := append([]ucfg.Option{ps}, b.uopts...)
	if len(f.getters) > 0 {
		gn := f.getters[r.Intn(len(f.getters))]
		g := getterByName(gn)
		c, name, idx, form := b.cfg, want, -1, "dotted"
		last := pos.path[len(pos.path)-1]
		switch x := r.Intn(3); {
		case x == 1 && last.isIdx:
			name, idx = nameIdx(pos.path[:len(pos.path)-1], last.idx, 0)
			form = "name+idx"
		case x == 2 && len(pos.path) >= 2:
			j := 1 + r.Intn(len(pos.path)-1)
			var cerr error
			var ch *ucfg.Config
			panicked, _, _ := harness.Safe(func() { ch, cerr = b.cfg.Child(cs.rd(pathStr(pos.path[:j])), -1, gopts...) })
			res.Eval(1)
			if !panicked && cerr == nil && ch != nil {
				c, name, form = ch, pathStr(pos.path[j:]), "via-child"
			} else if cerr != nil {
				typed(res, "Child", cerr, ctx())
			}
		}
		var gerr error
		panicked, pv, where := harness.Safe(func() { gerr = g.f(c, cs.rd(name), idx, gopts...) })
		res.Eval(1)
		res.SetAdd("entry_point", gn)
		res.SetAdd("getter_form", form)
		res.SetAdd("kind_x_getter", f.kind+"|"+gn)
		if f.form != "" {
			res.SetAdd("reference_form_x_getter", f.form+"|"+gn)
		}
		if panicked {
			res.Violate("panic:"+gn, "%s(%q,%d) [%s]: panic %q at %s; %s", gn, name, idx, form, clip(pv, 300), where, ctx())
		} else {
			judge(gn, "getter-"+gn, gerr)
		}
	}

	// Unpack of an intermediate Child into the matching part of the type
	if len(pos.path) >= 2 && r.Intn(3) == 0 {
		var js []int
		for j := 1; j < len(pos.path); j++ {
			if strings.HasPrefix(f.kind, "validator-") && j > pos.tagHolder {
				continue // the tag sits on a field of a struct the child does not contain
			}
			if pp := cs.byPath[pathStr(pos.path[:j])]; pp != nil && pp.sp != nil && (pp.sp.kind == kStruct || pp.sp.kind == kMap || pp.sp.kind == kSlice) {
				js = append(js, j)
			}
		}
		if len(js) > 0 {
			j := js[r.Intn(len(js))]
			pp := cs.byPath[pathStr(pos.path[:j])]
			var ch *ucfg.Config
			var cerr error
			childFailed := false
			panicked, pv, where := harness.Safe(func() {
				if ch, cerr = b.cfg.Child(cs.rd(pathStr(pos.path[:j])), -1, gopts...); cerr != nil {
					childFailed = true
					return
				}
				cerr = ch.Unpack(reflect.New(pp.sp.baseType()).Interface(), uo...)
			})
			res.Eval(2)
			res.SetAdd("entry_point", "Child+Unpack")
			switch {
			case panicked:
				res.Violate("panic:Unpack", "Child(%q).Unpack: panic %q at %s; %s", pathStr(pos.path[:j]), clip(pv, 300), where, ctx())
			case childFailed:
				typed(res, "Child", cerr, ctx())
				res.Violate("history-step-failed:child:Child:"+reasonClass(cerr), "Child(%q) of an existing container failed: %s; %s", pathStr(pos.path[:j]), clip(errText(cerr), 300), ctx())
			default:
				judge("Child.Unpack", pos.shape()+"+from-child", cerr)
			}
		}
	}
	// the fault read from a namespace captured as *ucfg.Config by a sequence
	// of Unpack calls (see capture.go)
	if len(pos.path) >= 2 && !strings.HasPrefix(rt.name, "expand-") && r.Intn(2) == 0 {
		var js []int
		for j := 1; j < len(pos.path); j++ {
			if n := getNode(T, pos.path[:j]); !pos.path[j-1].isIdx && n != nil && n.Kind == model.KSub {
				js = append(js, j)
			}
		}
		if len(js) > 0 {
			j := js[r.Intn(len(js))]
			a := pos.path[:j]
			seq := captureSequences[r.Intn(len(captureSequences))]
			var subType reflect.Type
			if pp := cs.byPath[pathStr(a)]; pp != nil && pp.sp != nil && (pp.sp.kind == kStruct || pp.sp.kind == kMap) &&
				!(strings.HasPrefix(f.kind, "validator-") && j > pos.tagHolder) {
				subType = pp.sp.baseType()
			}
			var C *ucfg.Config
			stepFailed := ""
			var serr error
			panicked, pv, where := harness.Safe(func() {
				// the other configuration: the same settings without the faulty one
				A, err := ucfg.NewFrom(without(T, pos.path, nil).ToGo(), baseOpts(cs.base+"-op3")...)
				if err != nil {
					stepFailed, serr = "NewFrom", err
					return
				}
				holder := func(c *ucfg.Config) (*ucfg.Config, error) {
					if len(a) == 1 {
						return c, nil
					}
					return c.Child(cs.rd(pathStr(a[:len(a)-1])), -1, gopts...)
				}
				t := reflect.New(captureType(a[len(a)-1].key))
				unpack := func(c *ucfg.Config) bool {
					h, err := holder(c)
					if err == nil {
						err = h.Unpack(t.Interface(), gopts...)
					}
					if err != nil {
						stepFailed, serr = "Unpack", err
					}
					return err == nil
				}
				ok := true
				switch seq {
				case "defaults-then-faulty":
					ok = unpack(A) && unpack(b.cfg)
				case "child-handle-then-faulty":
					ch, err := A.Child(cs.rd(pathStr(a)), -1, gopts...)
					if err != nil {
						stepFailed, serr = "Child", err
						return
					}
					t.Elem().Field(0).Set(reflect.ValueOf(ch))
					ok = unpack(b.cfg)
				case "faulty-then-defaults":
					ok = unpack(b.cfg) && unpack(A)
				default:
					ok = unpack(b.cfg)
				}
				if ok {
					C, _ = t.Elem().Field(0).Interface().(*ucfg.Config)
				}
			})
			res.Eval(4)
			switch {
			case panicked:
				res.Violate("panic:Unpack", "capturing '%s' as *Config (%s): panic %q at %s; %s", pathStr(a), seq, clip(pv, 300), where, ctx())
			case stepFailed != "":
				// capturing does not read the values: whether it can fail is
				// not this property's claim, the error must be typed
				typed(res, stepFailed, serr, ctx())
				res.Ev("capture_step_failed", 1)
				res.SetAdd("capture_step_failed", seq+"|"+stepFailed+"|"+f.kind)
			case C != nil:
				res.Ev("faults_read_from_captured_config", 1)
				res.SetAdd("capture_sequence", seq)
				res.SetAdd("capture_sequence_x_kind", seq+"|"+f.kind)
				capRel = pathStr(pos.path[j:])
				// the captured namespace may be merged from both configurations:
				// where nothing exists at the setting any of their sources will do
				savedExact := exact
				if f.parentRaised {
					exact = ""
				}
				if subType != nil {
					var uerr error
					panicked, pv, where := harness.Safe(func() { uerr = C.Unpack(reflect.New(subType).Interface(), uo...) })
					res.Eval(1)
					res.SetAdd("entry_point", "Captured+Unpack")
					switch {
					case panicked:
						res.Violate("panic:Unpack", "Unpack of the captured '%s' (%s): panic %q at %s; %s", pathStr(a), seq, clip(pv, 300), where, ctx())
					case uerr == nil:
						res.Ev("captured_fault_without_error", 1)
					default:
						judge("Captured.Unpack", pos.shape()+"+from-captured", uerr)
					}
				}
				if len(f.getters) > 0 {
					gn := f.getters[r.Intn(len(f.getters))]
					var gerr error
					panicked, pv, where := harness.Safe(func() { gerr = getterByName(gn).f(C, cs.rd(capRel), -1, gopts...) })
					res.Eval(1)
					res.SetAdd("entry_point", "Captured+"+gn)
					switch {
					case panicked:
						res.Violate("panic:"+gn, "%s(%q) on the captured '%s' (%s): panic %q at %s; %s", gn, capRel, pathStr(a), seq, clip(pv, 300), where, ctx())
					case gerr == nil:
						res.Ev("captured_fault_without_error", 1)
					default:
						judge("Captured."+gn, "getter-"+gn+"+from-captured", gerr)
					}
				}
				capRel, exact = "", savedExact
			}
		}
	}

	// a failing reference seen by the calls that have to pass through it or
	// measure it: the failure is the reference's, whatever the call
	if strings.Contains(f.kind, "reference") {
		below := cs.rd(pathStr(pos.path) + ".zz_below")
		type bcall struct {
			entry string
			f     func() error
		}
		calls := []bcall{
			{"Has", func() error { _, err := b.cfg.Has(below, -1, gopts...); return err }},
			{"Remove", func() error { _, err := b.cfg.Remove(below, -1, gopts...); return err }},
		}
		if last := pos.path[len(pos.path)-1]; !last.isIdx {
			calls = append(calls, bcall{"CountField", func() error {
				holder := b.cfg
				if len(pos.path) > 1 {
					var err error
					if holder, err = b.cfg.Child(cs.rd(pathStr(pos.path[:len(pos.path)-1])), -1, gopts...); err != nil {
						return nil
					}
				}
				_, err := holder.CountField(last.key, b.uopts...)
				return err
			}})
		}
		// the setter comes last: where it does not fail it changes the tree
		calls = append(calls, bcall{[]string{"SetInt", "SetString", "SetChild"}[r.Intn(3)], nil})
		for _, bc := range calls {
			bc := bc
			if bc.f == nil {
				bc.f = func() error {
					switch bc.entry {
					case "SetInt":
						return b.cfg.SetInt(below, -1, 1, ps)
					case "SetString":
						return b.cfg.SetString(below, -1, "s", ps)
					}
					return b.cfg.SetChild(below, -1, ucfg.New(), ps)
				}
			}
			var berr error
			panicked, pv, where := harness.Safe(func() { berr = bc.f() })
			res.Eval(1)
			res.SetAdd("entry_point", bc.entry)
			switch {
			case panicked:
				res.Violate("panic:"+bc.entry, "%s below the failing reference: panic %q at %s; %s", bc.entry, clip(pv, 300), where, ctx())
			case berr == nil:
				// whether the call has to fail is not this property's claim
				res.Ev("through_reference_call_without_error", 1)
				res.SetAdd("through_reference_call_without_error", bc.entry+"|"+f.kind)
			default:
				res.Ev("through_reference_call_errors", 1)
				res.SetAdd("through_reference_call_x_kind", bc.entry+"|"+f.sigKind())
				judge(bc.entry, "through-"+bc.entry, berr)
			}
		}
	}
	return seen
}

// behindRefOtherSource: the routes that deliver the helper settings of a
// value-behind-reference fault with another source than the setting holding
// the reference.
var behindRefOtherSource = map[string]bool{"merge-overlay": true, "dotted-merge-overlay": true, "merge-under": true, "dotted-merge-under": true,
	"setchild-fresh": true, "setchild-reattach": true, "behind-ref-env": true}

func namesAny(msg string, toks []string) bool {
	for _, t := range toks {
		if hasToken(msg, t, false) {
			return true
		}
	}
	return false
}

// spelledWith: msg contains the dotted path with some of its dots replaced by
// another separator.
func spelledWith(msg, path, sep string) bool {
	if sep == "." || !strings.Contains(path, ".") || strings.Contains(msg, path) {
		return false
	}
	return strings.Contains(strings.ReplaceAll(msg, sep, "."), path)
}
