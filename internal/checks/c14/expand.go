package c14

import (
	"errors"
	"fmt"
	"math/rand"
	"strconv"
	"strings"
	"unicode"
	"unicode/utf8"

	ucfg "github.com/elastic/go-ucfg"
	"github.com/elastic/go-ucfg/parse"

	"verif/internal/model"
)

// Values produced by expansion: the subtree at an anchor on the fault path
// (the faulty setting itself, its holder, or an ancestor further up) is not
// stored as data but written as TEXT in the syntax of values given on a
// command line or in an environment variable ("a,b", "[1, x]", "{k: v}"),
// and reaches the configuration only when it is read:
//   expand-resolver  the setting is "${ENV_n}" and a Resolve callback given to
//                    the reading call serves the text
//   expand-splice    the setting is a splice: a piece in the middle of the text
//                    is "${ENV_n}" (served by the callback) or "${zz_h}" (a
//                    helper setting at the top level), the rest is literal
// The list or object the library builds from the text exists only during the
// read. A fault at or below the anchor must be reported like a fault in stored
// data: with the full dotted path and the source of the setting holding the
// expression.

// textRenderer writes a model tree in the flag/environment value syntax.
type textRenderer struct {
	r *rand.Rand
}

var errNotRenderable = errors.New("not renderable as text")

// bareSafe: the string reads back as the same string when written without
// quotes anywhere in a value text (conservative).
func bareSafe(s string) bool {
	if s == "" || s != strings.TrimSpace(s) {
		return false
	}
	first, _ := utf8.DecodeRuneInString(s)
	if !unicode.IsLetter(first) && first != '/' {
		return false
	}
	for _, c := range s {
		if !(unicode.IsLetter(c) || unicode.IsDigit(c) || c == ' ' || c == '-' || c == '_' || c == '/' || c == '.') {
			return false
		}
	}
	switch strings.ToLower(s) {
	case "t", "f", "true", "false", "on", "off", "null", "nan", "inf", "infinity":
		return false
	}
	if _, err := strconv.ParseFloat(s, 64); err == nil {
		return false
	}
	if _, err := strconv.ParseInt(s, 0, 64); err == nil {
		return false
	}
	return true
}

func (t textRenderer) str(s string) (string, error) {
	if strings.Contains(s, "$") {
		return "", errNotRenderable // would be expanded (again) inside a splice
	}
	x := t.r.Intn(3)
	if x == 0 && bareSafe(s) {
		return s, nil
	}
	if x == 1 && !strings.ContainsAny(s, "'") {
		return "'" + s + "'", nil
	}
	for _, c := range s {
		if !unicode.IsPrint(c) {
			return "", errNotRenderable
		}
	}
	return `"` + strings.NewReplacer(`\`, `\\`, `"`, `\"`).Replace(s) + `"`, nil
}

func (t textRenderer) prim(v interface{}) (string, error) {
	switch x := v.(type) {
	case string:
		return t.str(x)
	case bool:
		return strconv.FormatBool(x), nil
	case int64:
		return strconv.FormatInt(x, 10), nil
	case uint64:
		return strconv.FormatUint(x, 10), nil
	case float64:
		s := strconv.FormatFloat(x, 'g', -1, 64)
		if !strings.ContainsAny(s, ".e") {
			s += ".0" // stays a floating point number
		}
		if strings.ContainsAny(s, "IN") {
			return "", errNotRenderable
		}
		return s, nil
	}
	return "", errNotRenderable
}

// render writes n; top: n is the whole text (a list of two or more elements
// may then be written without brackets).
func (t textRenderer) render(n *model.Node, top bool) (string, error) {
	sp := func() string { return []string{"", " "}[t.r.Intn(2)] }
	switch {
	case n == nil:
		return "", errNotRenderable
	case n.Kind == model.KNil:
		return "null", nil
	case n.Kind == model.KPrim:
		return t.prim(n.Prim)
	case n.HasA || len(n.A) > 0:
		if len(n.A) == 0 || len(n.D) > 0 {
			return "", errNotRenderable // [] reads back as null
		}
		var parts []string
		for _, e := range n.A {
			s, err := t.render(e, false)
			if err != nil {
				return "", err
			}
			parts = append(parts, s)
		}
		if top && len(parts) >= 2 && t.r.Intn(2) == 0 {
			return strings.Join(parts, ","+sp()), nil
		}
		return "[" + strings.Join(parts, ","+sp()) + "]", nil
	}
	if len(n.D) == 0 {
		return "", errNotRenderable // {} reads back as null
	}
	keys := n.SortedKeys()
	t.r.Shuffle(len(keys), func(i, j int) { keys[i], keys[j] = keys[j], keys[i] })
	var parts []string
	for _, k := range keys {
		ks, err := t.str(k)
		if err != nil {
			return "", err
		}
		if !strings.HasPrefix(ks, "'") && !strings.HasPrefix(ks, `"`) && strings.ContainsAny(ks, ":") {
			return "", errNotRenderable
		}
		vs, err := t.render(n.D[k], false)
		if err != nil {
			return "", err
		}
		parts = append(parts, ks+":"+sp()+vs)
	}
	return "{" + strings.Join(parts, ","+sp()) + "}", nil
}

// readsBack: the text, read by the value parser, gives the tree it was written
// from (a non-negative integer comes back unsigned; that is the same number).
// This is a filter on the generator's own rendering, not part of the oracle.
func readsBack(text string, n *model.Node) bool {
	v, err := parse.Value(text)
	if err != nil {
		return false
	}
	return sameData(model.FromIfc(v), n)
}

func sameData(a, b *model.Node) bool {
	if a.IsNil() || b.IsNil() {
		return a.IsNil() && b.IsNil()
	}
	if a.Kind != b.Kind {
		return false
	}
	if a.Kind == model.KPrim {
		return model.PrimCanon(a.Prim) == model.PrimCanon(b.Prim) && fmt.Sprintf("%T", normNum(a.Prim)) == fmt.Sprintf("%T", normNum(b.Prim))
	}
	if len(a.A) != len(b.A) || len(a.D) != len(b.D) {
		return false
	}
	for i := range a.A {
		if !sameData(a.A[i], b.A[i]) {
			return false
		}
	}
	for k, x := range a.D {
		y, ok := b.D[k]
		if !ok || !sameData(x, y) {
			return false
		}
	}
	return true
}

func normNum(v interface{}) interface{} {
	if i, ok := v.(int64); ok && i >= 0 {
		return uint64(i)
	}
	return v
}

func escSplice(s string) string { return strings.ReplaceAll(s, "$", "$$") }

// envResolver serves the names of env; everything else is missing.
func envResolver(env map[string]string) ucfg.Option {
	return ucfg.Resolve(func(name string) (string, parse.Config, error) {
		if v, ok := env[name]; ok {
			return v, parse.DefaultConfig, nil
		}
		return "", parse.DefaultConfig, ucfg.ErrMissing
	})
}

// anchorClass names where the expanded value sits relative to the setting the
// error has to name.
func anchorClass(anchorLen, wantLen int) string {
	switch d := wantLen - anchorLen; {
	case d <= 0:
		return "@self"
	case d == 1:
		return "@holder"
	}
	return "@ancestor"
}

// expandRoutes plans the expansion routes for a fault at p (wantLen: number of
// segments of the path the error has to name).
func expandRoutes(r *rand.Rand, V *model.Node, p []seg, wantLen int, f fault, base string, topStruct bool) []route {
	if V.Kind != model.KSub {
		return nil
	}
	if f.val != nil && f.val.Kind == model.KPrim {
		if s, ok := f.val.Prim.(string); ok && strings.Contains(s, "$") {
			return nil // reference faults have splice forms of their own
		}
	}
	src := func(k int) string { return base + "-op" + strconv.Itoa(k) }
	var out []route
	// the anchor: the faulty setting itself, its holder, or further up
	j := len(p)
	if f.del {
		j = len(p) - 1 // the setting is missing inside the expanded object
	}
	if x := r.Intn(4); x >= 1 && j > 1 {
		j--
		if x == 3 && j > 1 {
			j = 1 + r.Intn(j)
		}
	}
	if j < 1 {
		return nil
	}
	a := p[:j]
	cls := anchorClass(len(a), wantLen)
	// the value whose source the error has to show (the faulty value, or the
	// holder when nothing exists at the setting) lies strictly inside the
	// list or object built from the text
	carrier := len(p)
	if f.del && f.wantRel == "" {
		carrier--
	}
	inside := len(a) < carrier
	for _, mode := range []string{"resolver", "splice"} {
		mode := mode
		seed := r.Int63()
		viaMerge := r.Intn(3) == 0
		helper := topStruct && r.Intn(3) == 0
		out = append(out, route{"expand-" + mode + cls, func(T *model.Node) (built, error) {
			rr := rand.New(rand.NewSource(seed))
			helper := helper
			S := getNode(T, a)
			if S.IsNil() {
				// a text "null" is not clearly the same as a stored null
				return built{}, errNotApplicable
			}
			text, err := textRenderer{rr}.render(S, true)
			if err != nil || !readsBack(text, S) {
				return built{}, errNotApplicable
			}
			// the value that has to carry the source is the list or object built from the text
			itself := len(a) == carrier && S.Kind == model.KSub
			env := map[string]string{}
			name := fmt.Sprintf("ENV_%d", rr.Intn(90)+10)
			expr := "${" + name + "}"
			X := T.Copy()
			how := ""
			if mode == "resolver" {
				env[name] = text
				how = fmt.Sprintf("resolver{%s: %q}", name, text)
			} else {
				// a piece in the middle of the text comes from a reference
				rs := []rune(text)
				c1 := rr.Intn(len(rs))
				c2 := c1 + 1 + rr.Intn(len(rs)-c1)
				if c1 == 0 && c2 == len(rs) {
					// some literal text stays: a plain reference to a helper
					// setting would hand over that setting, not its text
					if c2--; c2 == 0 {
						return built{}, errNotApplicable
					}
				}
				piece := string(rs[c1:c2])
				if helper {
					name = "zz_h" + strconv.Itoa(rr.Intn(9))
					expr = "${" + name + "}"
					X.D[name] = model.P(piece)
					how = fmt.Sprintf("helper setting %s: %q", name, piece)
				} else {
					env[name] = piece
					how = fmt.Sprintf("resolver{%s: %q}", name, piece)
				}
				expr = escSplice(string(rs[:c1])) + expr + escSplice(string(rs[c2:]))
			}
			X = withNode(X, a, model.P(expr))
			var uopts []ucfg.Option
			if len(env) > 0 {
				uopts = append(uopts, envResolver(env))
			}
			rname := "expand-" + mode + cls
			if !viaMerge {
				desc := fmt.Sprintf("%s: NewFrom[%s](%s) read with %s", rname, src(0), X, how)
				c, err := ucfg.NewFrom(X.ToGo(), baseOpts(src(0))...)
				if err != nil {
					return built{desc: desc}, &callErr{"NewFrom", err, desc}
				}
				return built{cfg: c, desc: desc, exactSrc: src(0), uopts: uopts, insideExpanded: inside, expandedItself: itself}, nil
			}
			// the expression arrives with a later operand
			op1 := without(X, a, nil)
			if a[len(a)-1].isIdx {
				op1 = without(X, a, model.P("placeholder"))
			}
			op2 := spine(X, a, func(n *model.Node) *model.Node { return n.Copy() })
			if last := a[len(a)-1]; last.isIdx {
				par := getNode(op2, a[:len(a)-1])
				for _, e := range getNode(X, a[:len(a)-1]).A[last.idx+1:] {
					par.A = append(par.A, e.Copy())
				}
			}
			c, desc, err := mergeChain([]*model.Node{op1, op2}, []string{src(0), src(1)}, nil, rname)
			desc += " read with " + how
			return built{cfg: c, desc: desc, exactSrc: src(1), uopts: uopts, insideExpanded: inside, expandedItself: itself}, err
		}})
	}
	return out
}
