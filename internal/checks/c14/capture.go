package c14

import (
	"reflect"
	"sync"

	ucfg "github.com/elastic/go-ucfg"
)

// A namespace captured as *ucfg.Config: the target of an Unpack has a field
// of type *ucfg.Config, which receives a view of the setting instead of its
// values ("unpack this part later"). Unpacking a second configuration into
// the same target merges its setting into what the field holds. Whatever the
// sequence that filled the field, a fault read later from the captured
// configuration is a fault of the setting at its place in the configuration
// it was loaded with: full dotted path, its source.

var tConfigPtr = reflect.TypeOf((*ucfg.Config)(nil))

var captureTypes sync.Map // key of the setting -> struct { C *ucfg.Config `config:"<key>"` }

// captureType is a struct with one *ucfg.Config field tagged with key. The
// keys come from the small pools of the generator, so the number of types a
// worker creates stays small.
func captureType(key string) reflect.Type {
	if t, ok := captureTypes.Load(key); ok {
		return t.(reflect.Type)
	}
	t := reflect.StructOf([]reflect.StructField{{Name: "C", Type: tConfigPtr, Tag: reflect.StructTag(`config:"` + key + `"`)}})
	captureTypes.Store(key, t)
	return t
}

var captureSequences = []string{"defaults-then-faulty", "child-handle-then-faulty", "faulty-then-defaults", "faulty-only"}
