package c14

import (
	"strings"
	"unicode"

	ucfg "github.com/elastic/go-ucfg"

	"verif/internal/harness"
	"verif/internal/obs"
)

var sentinels = map[string]error{
	"missing": ucfg.ErrMissing, "no-parse": ucfg.ErrNoParse, "cyclic-reference": ucfg.ErrCyclicReference,
	"type-no-array": ucfg.ErrTypeNoArray, "type-mismatch": ucfg.ErrTypeMismatch, "key-type-not-string": ucfg.ErrKeyTypeNotString,
	"index-out-of-range": ucfg.ErrIndexOutOfRange, "pointer-required": ucfg.ErrPointerRequired,
	"array-size-mismatch": ucfg.ErrArraySizeMismatch, "expected-object": ucfg.ErrExpectedObject,
	"nil-config": ucfg.ErrNilConfig, "nil-value": ucfg.ErrNilValue, "duplicate-key": ucfg.ErrDuplicateKey,
	"overflow": ucfg.ErrOverflow, "negative": ucfg.ErrNegative, "zero-value": ucfg.ErrZeroValue,
	"required": ucfg.ErrRequired, "empty": ucfg.ErrEmpty, "array-empty": ucfg.ErrArrayEmpty,
	"map-empty": ucfg.ErrMapEmpty, "regex-empty": ucfg.ErrRegexEmpty, "string-empty": ucfg.ErrStringEmpty,
}

// reasonClass is the short class of an error's reason used in signatures: the
// name of the sentinel, or the first words of the text up to the first colon.
func reasonClass(err error) string {
	base := err
	if e, ok := err.(ucfg.Error); ok && e.Reason() != nil {
		base = e.Reason()
	}
	for name, s := range sentinels {
		if base == s {
			return name
		}
	}
	text := base.Error()
	if strings.HasPrefix(text, "custom message") || strings.HasPrefix(text, "resolver boom") {
		return "user-supplied-error" // text of a ${x:?message} operator or of a Resolve callback
	}
	if i := strings.IndexAny(text, ":'\"\n"); i >= 0 {
		text = text[:i]
	}
	var words []string
	for _, w := range strings.FieldsFunc(strings.ToLower(text), func(c rune) bool { return !unicode.IsLetter(c) }) {
		words = append(words, w)
		if len(words) == 5 {
			break
		}
	}
	if len(words) == 0 {
		return "other"
	}
	return strings.Join(words, "-")
}

func clip(s string, n int) string {
	if len(s) > n {
		return s[:n] + "...(clipped)"
	}
	return s
}

// errText is the message without the stack trace critical errors append.
func errText(err error) string {
	s := err.Error()
	if i := strings.Index(s, "\nTrace:"); i >= 0 {
		s = s[:i]
	}
	return s
}

// typed applies oracle A to one error returned by the API entry point.
// It returns the problem name ("" if fine).
func typed(res *harness.R, entry string, err error, ctx string) string {
	if err == nil {
		return ""
	}
	res.Ev("errors_inspected", 1)
	res.SetAdd("entry_point_with_error", entry)
	res.SetAdd("reason", obs.ReasonName(err))
	p := obs.TypedErrorProblem(err)
	if p == "" {
		if e, ok := err.(ucfg.Error); ok {
			switch e.Class() {
			case ucfg.ErrConfig:
				res.SetAdd("error_class", "ErrConfig")
			case ucfg.ErrImplementation:
				res.SetAdd("error_class", "ErrImplementation")
			case ucfg.ErrUnknown:
				res.SetAdd("error_class", "ErrUnknown")
			default:
				res.SetAdd("error_class", "other")
			}
		}
		return ""
	}
	problem := "untyped-error"
	switch {
	case strings.Contains(p, "nil Reason"):
		problem = "nil-reason"
	case strings.Contains(p, "nil Class"):
		problem = "nil-class"
	}
	res.Violate(problem+":"+entry+":"+reasonClass(err), "%s returned %s; %s", entry, p, ctx)
	return problem
}

// "for key: '<name>'" (cyclic reference) is not taken: it names the reference
// that closed the cycle, which is the faulty setting only by coincidence.
var pathMarkers = []string{"accessing '", "in field '"}

// namedPaths extracts the quoted setting paths an error message names.
func namedPaths(msg string) []string {
	var out []string
	for _, m := range pathMarkers {
		rest := msg
		for {
			i := strings.Index(rest, m)
			if i < 0 {
				break
			}
			rest = rest[i+len(m):]
			j := strings.IndexByte(rest, '\'')
			if j < 0 {
				break
			}
			out = append(out, rest[:j])
			rest = rest[j:]
		}
	}
	return out
}

// verdict of oracle B on one error message.
type verdict struct {
	problems []string // error-lacks-path, error-names-wrong-path, error-lacks-source
	named    []string
}

// judgeMessage checks that msg names want (or, with below, a setting inside
// want) and carries the source.
func judgeMessage(msg, want string, below bool, srcFamily, srcExact string) verdict {
	var v verdict
	v.named = namedPaths(msg)
	ok := false
	for _, n := range v.named {
		if n == want || below && strings.HasPrefix(n, want+".") {
			ok = true
		}
	}
	switch {
	case ok:
	case len(v.named) > 0:
		v.problems = append(v.problems, "error-names-wrong-path")
	default:
		v.problems = append(v.problems, "error-lacks-path")
	}
	switch {
	case srcExact != "" && !strings.Contains(msg, "(source:'"+srcExact+"')"):
		if strings.Contains(msg, "(source:'"+srcFamily) {
			v.problems = append(v.problems, "error-names-wrong-source")
		} else {
			v.problems = append(v.problems, "error-lacks-source")
		}
	case srcExact == "" && !strings.Contains(msg, "(source:'"+srcFamily):
		v.problems = append(v.problems, "error-lacks-source")
	}
	return v
}
