package c14

import (
	"sort"
	"strings"
	"unicode"
	"unicode/utf8"

	ucfg "github.com/elastic/go-ucfg"

	"verif/internal/harness"
	"verif/internal/obs"
)

var sentinels = map[string]error{
	"missing": ucfg.ErrMissing, "no-parse": ucfg.ErrNoParse, "cyclic-reference": ucfg.ErrCyclicReference,
	"type-no-array": ucfg.ErrTypeNoArray, "type-mismatch": ucfg.ErrTypeMismatch, "key-type-not-string": ucfg.ErrKeyTypeNotString,
	"index-out-of-range": ucfg.ErrIndexOutOfRange, "pointer-required": ucfg.ErrPointerRequired,
	"array-size-mismatch": ucfg.ErrArraySizeMismatch, "expected-object": ucfg.ErrExpectedObject,
	"nil-config": ucfg.ErrNilConfig, "nil-value": ucfg.ErrNilValue, "duplicate-key": ucfg.ErrDuplicateKey,
	"overflow": ucfg.ErrOverflow, "negative": ucfg.ErrNegative, "zero-value": ucfg.ErrZeroValue,
	"required": ucfg.ErrRequired, "empty": ucfg.ErrEmpty, "array-empty": ucfg.ErrArrayEmpty,
	"map-empty": ucfg.ErrMapEmpty, "regex-empty": ucfg.ErrRegexEmpty, "string-empty": ucfg.ErrStringEmpty,
}

// reasonClass is the short class of an error's reason used in signatures: the
// name of the sentinel, or the first words of the text up to the first colon.
func reasonClass(err error) string {
	base := err
	if e, ok := err.(ucfg.Error); ok && e.Reason() != nil {
		base = e.Reason()
	}
	for name, s := range sentinels {
		if base == s {
			return name
		}
	}
	text := base.Error()
	if strings.HasPrefix(text, "custom message") || strings.HasPrefix(text, "resolver boom") {
		return "user-supplied-error" // text of a ${x:?message} operator or of a Resolve callback
	}
	if i := strings.IndexAny(text, ":'\"\n"); i >= 0 {
		text = text[:i]
	}
	var words []string
	for _, w := range strings.FieldsFunc(strings.ToLower(text), func(c rune) bool { return !unicode.IsLetter(c) }) {
		words = append(words, w)
		if len(words) == 5 {
			break
		}
	}
	if len(words) == 0 {
		return "other"
	}
	return strings.Join(words, "-")
}

func clip(s string, n int) string {
	if len(s) > n {
		return s[:n] + "...(clipped)"
	}
	return s
}

// errText is the message of the error: Message() for typed errors (critical
// errors append a stack trace to Error()), the text otherwise.
func errText(err error) string {
	if e, ok := err.(ucfg.Error); ok {
		if m := e.Message(); m != "" {
			return m
		}
	}
	return err.Error()
}

// typed applies oracle A to one error returned by the API entry point.
// It returns the problem name ("" if fine).
func typed(res *harness.R, entry string, err error, ctx string) string {
	if err == nil {
		return ""
	}
	res.Ev("errors_inspected", 1)
	res.SetAdd("entry_point_with_error", entry)
	res.SetAdd("reason", obs.ReasonName(err))
	p := obs.TypedErrorProblem(err)
	if p == "" {
		if e, ok := err.(ucfg.Error); ok {
			switch e.Class() {
			case ucfg.ErrConfig:
				res.SetAdd("error_class", "ErrConfig")
			case ucfg.ErrImplementation:
				res.SetAdd("error_class", "ErrImplementation")
			case ucfg.ErrUnknown:
				res.SetAdd("error_class", "ErrUnknown")
			default:
				res.SetAdd("error_class", "other")
			}
		}
		return ""
	}
	problem := "untyped-error"
	switch {
	case strings.Contains(p, "nil Reason"):
		problem = "nil-reason"
	case strings.Contains(p, "nil Class"):
		problem = "nil-class"
	}
	res.Violate(problem+":"+entry+":"+reasonClass(err), "%s returned %s; %s", entry, p, ctx)
	return problem
}

// The judgement of a message does not depend on its wording: a setting is
// named if its full dotted path occurs as a delimited token, i.e. the
// characters directly before and after the occurrence are not path characters
// (letters, digits, '_', '.', '-'); quotes, blanks, colons, brackets and the
// ends of the text delimit, and so does a full stop that ends a sentence.

func isPathChar(r rune) bool {
	return unicode.IsLetter(r) || unicode.IsDigit(r) || r == '_' || r == '.' || r == '-'
}

// hasToken reports whether msg contains tok as a delimited token; with deeper
// a continuation ".<more>" behind tok is accepted too (a setting below tok).
func hasToken(msg, tok string, deeper bool) bool {
	if tok == "" {
		return false
	}
	for from := 0; from < len(msg); {
		j := strings.Index(msg[from:], tok)
		if j < 0 {
			return false
		}
		s := from + j
		e := s + len(tok)
		okBefore := true
		if s > 0 {
			r, _ := utf8.DecodeLastRuneInString(msg[:s])
			okBefore = !isPathChar(r)
		}
		okAfter := true
		if e < len(msg) {
			r, n := utf8.DecodeRuneInString(msg[e:])
			switch {
			case r == '.' && deeper:
			case r == '.':
				// only the full stop of a sentence delimits
				okAfter = e+n == len(msg) || unicode.IsSpace(rune(msg[e+n]))
			default:
				okAfter = !isPathChar(r)
			}
		}
		if okBefore && okAfter {
			return true
		}
		_, n := utf8.DecodeRuneInString(msg[s:])
		from = s + n
	}
	return false
}

// verdict of oracle B on one error message.
type verdict struct {
	problems []string // error-lacks-path, error-names-wrong-path, error-lacks-source, error-names-wrong-source
	named    []string // the other settings of the tree the message names instead (longest first)
}

// judgeMessage checks that msg names want (or, with below, a setting inside
// want) and carries the source. others are the full dotted paths of all other
// settings and containers of the tree (and any further candidate): if want is
// not named but one of them is, the message names a different setting.
// sources are all source strings of the history; exact (if not empty) is the
// one that delivered the faulty value.
func judgeMessage(msg, want string, below bool, others []string, sources []string, exact string) verdict {
	var v verdict
	if !hasToken(msg, want, below) {
		for _, o := range others {
			if o != want && hasToken(msg, o, false) {
				v.named = append(v.named, o)
			}
		}
		sort.Slice(v.named, func(i, j int) bool {
			if len(v.named[i]) != len(v.named[j]) {
				return len(v.named[i]) > len(v.named[j])
			}
			return v.named[i] < v.named[j]
		})
		if len(v.named) > 0 {
			v.problems = append(v.problems, "error-names-wrong-path")
		} else {
			v.problems = append(v.problems, "error-lacks-path")
		}
	}
	any := false
	for _, s := range sources {
		any = any || hasToken(msg, s, false)
	}
	switch {
	case exact != "" && !hasToken(msg, exact, false):
		if any {
			v.problems = append(v.problems, "error-names-wrong-source")
		} else {
			v.problems = append(v.problems, "error-lacks-source")
		}
	case exact == "" && !any:
		v.problems = append(v.problems, "error-lacks-source")
	}
	return v
}
