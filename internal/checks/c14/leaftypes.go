package c14

import (
	"errors"
	"strings"
)

// Hand-written leaf types with their own checks. They are used at arbitrary
// positions of the fitted target types; a single setting that fails the check
// must be named by the Unpack error.

// Port validates with a value receiver.
type Port int

func (p Port) Validate() error {
	if p < 1 || p > 65535 {
		return errors.New("port number out of range")
	}
	return nil
}

// Ident is a string with a value receiver Validate.
type Ident string

func (s Ident) Validate() error {
	if s == "" || strings.ContainsAny(string(s), " \t") {
		return errors.New("identifier must be a non-empty word")
	}
	return nil
}

// Ratio validates with a pointer receiver.
type Ratio float64

func (r *Ratio) Validate() error {
	if *r < 0 || *r > 1 {
		return errors.New("ratio out of range")
	}
	return nil
}

// Level is a StringUnpacker (pointer receiver) that rejects unknown words.
type Level string

func (l *Level) Unpack(s string) error {
	switch s {
	case "low", "mid", "high":
		*l = Level(s)
		return nil
	}
	return errors.New("unknown level")
}

// Span is a struct whose Validate relates two of its fields.
type Span struct {
	Lo int `config:"lo"`
	Hi int `config:"hi"`
}

func (s Span) Validate() error {
	if s.Lo > s.Hi {
		return errors.New("span: lo exceeds hi")
	}
	return nil
}
