package c14

import (
	"fmt"
	"strings"

	ucfg "github.com/elastic/go-ucfg"

	"verif/internal/harness"
	"verif/internal/model"
)

// Faults that make the LOAD of the configuration fail (NewFrom / Merge): one
// setting of the valid tree gets a value that cannot be taken in - a text
// with broken ${...} syntax, a Go value of an unsupported kind (chan, func) -
// or is spelled a second time as a namespace next to its primitive value
// ("k": 1, "k.zz_dup": 2). The failure is caused by that one setting of the
// input: the error has to name its full dotted path (for the duplicate either
// spelling) and the source the operand is loaded with.

const loadTimeFaultsPerCase = 3

var brokenExpressions = []string{"${x", "pre ${a.b", "${a:${b}", "${a:?", "x${y} ${"}

func (cs *caseState) loadTimeFaults() {
	res, r := cs.res, cs.r
	V := cs.V
	type at struct {
		p    []seg
		node *model.Node
	}
	var all []at
	var walk func(n *model.Node, p []seg)
	walk = func(n *model.Node, p []seg) {
		if len(p) > 0 {
			all = append(all, at{p, n})
		}
		if n == nil || n.Kind != model.KSub {
			return
		}
		for _, k := range n.SortedKeys() {
			walk(n.D[k], appendSeg(p, seg{key: k}))
		}
		for i, c := range n.A {
			walk(c, appendSeg(p, seg{idx: i, isIdx: true}))
		}
	}
	walk(V, nil)
	if len(all) == 0 {
		return
	}
	for n := 0; n < loadTimeFaultsPerCase; n++ {
		a := all[r.Intn(len(all))]
		last := a.p[len(a.p)-1]
		kind := []string{"broken-expression", "unsupported-value", "duplicate-key"}[r.Intn(3)]
		want := pathStr(a.p)
		accept := []string{want}
		var T *model.Node
		what := ""
		switch kind {
		case "broken-expression":
			e := brokenExpressions[r.Intn(len(brokenExpressions))]
			T = withNode(V, a.p, model.P(e))
			what = fmt.Sprintf("%q", e)
		case "unsupported-value":
			if r.Intn(2) == 0 {
				T = withNode(V, a.p, model.P(make(chan int)))
				what = "a chan int"
			} else {
				T = withNode(V, a.p, model.P(func() {}))
				what = "a func()"
			}
		case "duplicate-key":
			if last.isIdx || a.node == nil || a.node.Kind != model.KPrim {
				continue
			}
			T = V.Copy()
			getNode(T, a.p[:len(a.p)-1]).D[last.key+".zz_dup"] = model.P(int64(2))
			accept = append(accept, want+".zz_dup")
			what = fmt.Sprintf("the extra key %q next to it", last.key+".zz_dup")
		}
		where := "in-dict"
		if last.isIdx {
			where = "in-list"
		}
		if len(a.p) == 1 {
			where += "-top"
		}
		entry := []string{"NewFrom", "Merge"}[r.Intn(2)]
		var err error
		panicked, pv, loc := harness.Safe(func() {
			if entry == "NewFrom" {
				_, err = ucfg.NewFrom(T.ToGo(), baseOpts(cs.base)...)
			} else {
				c := ucfg.New()
				err = c.Merge(T.ToGo(), baseOpts(cs.base)...)
			}
		})
		res.Eval(1)
		res.Ev("load_time_faults", 1)
		res.SetAdd("load_time_fault_kind_x_where", kind+"|"+where+"|"+entry)
		ctx := func() string {
			return fmt.Sprintf("%s[%s] of the tree %s with %s at '%s' (%s, %s)", entry, cs.base, clip(V.String(), 1500), what, want, kind, where)
		}
		switch {
		case panicked:
			res.Violate("panic:"+entry, "panic %q at %s; %s", clip(pv, 300), loc, ctx())
			continue
		case err == nil:
			res.Ev("load_time_fault_without_error", 1)
			res.SetAdd("load_time_fault_without_error", kind+"|"+where)
			continue
		}
		typed(res, entry, err, ctx())
		msg := errText(err)
		named := false
		for _, x := range accept {
			named = named || hasToken(msg, x, false)
		}
		if !named {
			dev := "names-no-setting"
			for k := 1; k < len(a.p) && dev == "names-no-setting"; k++ {
				for _, x := range accept {
					if hasToken(msg, strings.Join(strings.Split(x, ".")[k:], "."), false) {
						dev = "front-of-path-dropped"
					}
				}
			}
			res.Violate("error-lacks-path:load-time:"+kind+":"+where+":"+dev, "message %q names none of %q; %s", clip(msg, 400), accept, ctx())
		} else {
			res.Ev("load_time_faults_naming_the_setting", 1)
		}
		if !hasToken(msg, cs.base, false) {
			res.Violate("error-lacks-source:load-time:"+kind, "message %q lacks the source %s; %s", clip(msg, 400), cs.base, ctx())
		}
	}
}

// A setter called with an index beyond what MaxIdx allows: the failure
// concerns one setting (the list to be indexed, existing or not). The error
// has to name it (the path with the index appended is accepted too), and the
// source when that list exists and was loaded with one.
func (cs *caseState) setterIndexFaults() {
	res, r := cs.res, cs.r
	V := cs.V
	var dicts, lists [][]seg
	var walk func(n *model.Node, p []seg)
	walk = func(n *model.Node, p []seg) {
		if n == nil || n.Kind != model.KSub {
			return
		}
		if len(n.A) > 0 {
			if len(p) > 0 {
				lists = append(lists, p)
			}
		} else {
			dicts = append(dicts, p)
		}
		for _, k := range n.SortedKeys() {
			walk(n.D[k], appendSeg(p, seg{key: k}))
		}
		for i, c := range n.A {
			walk(c, appendSeg(p, seg{idx: i, isIdx: true}))
		}
	}
	walk(V, nil)
	for n := 0; n < 2; n++ {
		var target []seg
		class := ""
		if n == 0 && len(dicts) > 0 {
			target = appendSeg(dicts[r.Intn(len(dicts))], seg{key: "zz_newlist"})
			class = "absent-setting"
		} else if n == 1 && len(lists) > 0 {
			target = lists[r.Intn(len(lists))]
			class = "existing-list"
		} else {
			continue
		}
		c, err := ucfg.NewFrom(V.ToGo(), baseOpts(cs.base)...)
		if err != nil {
			return
		}
		idx := 40 + r.Intn(20) // far behind every list, small should the bound fail
		s := setters[r.Intn(len(setters))]
		want := pathStr(target)
		var serr error
		panicked, pv, loc := harness.Safe(func() {
			serr = s.f(c, cs.rd(want), idx, cs.ps(), ucfg.MaxIdx(10), ucfg.MetaData(ucfg.Meta{Source: cs.base + "-set"}))
		})
		res.Eval(1)
		res.Ev("setter_index_faults", 1)
		ctx := func() string {
			return fmt.Sprintf("%s(%q,%d,MaxIdx(10)) (%s); config NewFrom[%s](%s)", s.name, want, idx, class, cs.base, clip(V.String(), 1500))
		}
		switch {
		case panicked:
			res.Violate("panic:"+s.name, "panic %q at %s; %s", clip(pv, 300), loc, ctx())
			continue
		case serr == nil:
			res.Ev("setter_index_fault_without_error", 1)
			continue
		}
		typed(res, s.name, serr, ctx())
		msg := errText(serr)
		if !hasToken(msg, want, false) && !hasToken(msg, fmt.Sprintf("%s.%d", want, idx), false) {
			res.Violate("error-lacks-path:setter-index-out-of-range:"+class, "message %q does not name '%s'; %s", clip(msg, 400), want, ctx())
		} else {
			res.Ev("setter_index_faults_naming_the_setting", 1)
		}
		if class == "existing-list" && !hasToken(msg, cs.base, false) {
			res.Violate("error-lacks-source:setter-index-out-of-range:"+class, "message %q lacks the source %s; %s", clip(msg, 400), cs.base, ctx())
		}
	}
}
