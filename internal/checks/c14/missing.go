package c14

import (
	"fmt"
	"strings"

	ucfg "github.com/elastic/go-ucfg"

	"verif/internal/harness"
	"verif/internal/model"
)

// Reads of settings that do not exist. The fault is the absence of one
// particular setting: a key that is not in an existing dictionary, an index
// behind the end of an existing list, or something below such a place. The
// error of the getter has to name the full dotted path of a missing setting on
// the requested path (the first one that is missing, or any longer prefix of
// the request) - never a path that is not a prefix of the request, like the
// bare last segment - and the source of the configuration, all of which was
// loaded with one source.

type missingRead struct {
	class  string // what is missing
	holder []seg  // the existing dictionary or list
	rest   []seg  // the requested path below the holder; rest[0] is the first missing setting
}

const missingReadsPerCase = 6

func (cs *caseState) missingReads() {
	res, r := cs.res, cs.r
	V := cs.V
	var dicts, lists [][]seg
	var walk func(n *model.Node, p []seg)
	walk = func(n *model.Node, p []seg) {
		if n == nil || n.Kind != model.KSub {
			return
		}
		if len(n.A) > 0 {
			lists = append(lists, p)
		} else if len(n.D) > 0 {
			dicts = append(dicts, p)
		}
		for _, k := range n.SortedKeys() {
			walk(n.D[k], appendSeg(p, seg{key: k}))
		}
		for i, c := range n.A {
			walk(c, appendSeg(p, seg{idx: i, isIdx: true}))
		}
	}
	walk(V, nil)
	var c *ucfg.Config
	var err error
	if panicked, _, _ := harness.Safe(func() { c, err = ucfg.NewFrom(V.ToGo(), baseOpts(cs.base)...) }); panicked || err != nil {
		return
	}
	ps := cs.ps()
	deeper := [][]seg{{{key: "zz_x"}}, {{key: "zz_x"}, {key: "zz_y"}}, {{idx: 0, isIdx: true}}, {{idx: 1, isIdx: true}, {key: "zz_x"}}}
	for n := 0; n < missingReadsPerCase; n++ {
		var m missingRead
		useList := len(lists) > 0 && (len(dicts) == 0 || r.Intn(2) == 0)
		switch {
		case useList:
			m.holder = lists[r.Intn(len(lists))]
			m.class = "index-behind-list"
			m.rest = []seg{{idx: len(getNode(V, m.holder).A) + r.Intn(3), isIdx: true}}
		case len(dicts) > 0:
			m.holder = dicts[r.Intn(len(dicts))]
			m.class = "key-not-in-dictionary"
			m.rest = []seg{{key: "zz_none"}}
		default:
			return
		}
		if r.Intn(3) == 0 {
			m.class = "below-" + m.class
			m.rest = append(m.rest, deeper[r.Intn(len(deeper))]...)
		}
		full := append(append([]seg{}, m.holder...), m.rest...)
		// the accepted names: the first missing setting and every longer prefix of the request
		var accept []string
		for k := len(m.holder) + 1; k <= len(full); k++ {
			accept = append(accept, pathStr(full[:k]))
		}
		// the form of the call
		cfg, rel, form := c, full, "dotted"
		if len(m.holder) > 0 && r.Intn(3) == 0 {
			// through a Child handle of an existing container on the way
			j := 1 + r.Intn(len(m.holder))
			var ch *ucfg.Config
			var cerr error
			if panicked, _, _ := harness.Safe(func() { ch, cerr = c.Child(cs.rd(pathStr(full[:j])), -1, ps) }); !panicked && cerr == nil && ch != nil {
				cfg, rel, form = ch, full[j:], "via-child"
			}
		}
		name, idx := pathStr(rel), -1
		if last := rel[len(rel)-1]; last.isIdx && r.Intn(2) == 0 {
			name, idx = nameIdx(rel[:len(rel)-1], last.idx, 0)
			form += "+idx"
		}
		g := getters[r.Intn(len(getters))]
		var gerr error
		panicked, pv, where := harness.Safe(func() { gerr = g.f(cfg, cs.rd(name), idx, ps) })
		res.Eval(1)
		res.Ev("missing_reads", 1)
		res.SetAdd("missing_read_class_x_form", m.class+"|"+form)
		depth := "top-level-holder"
		if len(m.holder) > 0 {
			depth = "nested-holder"
		}
		ctx := func() string {
			return fmt.Sprintf("%s(%q,%d) [%s] for the missing setting '%s' (%s, %s); config NewFrom[%s](%s)", g.name, name, idx, form, accept[0], m.class, depth, cs.base, clip(V.String(), 1500))
		}
		switch {
		case panicked:
			res.Violate("panic:"+g.name, "panic %q at %s; %s", clip(pv, 300), where, ctx())
			continue
		case gerr == nil:
			res.Ev("missing_read_without_error", 1)
			res.SetAdd("missing_read_without_error", g.name+"|"+m.class)
			continue
		}
		typed(res, g.name, gerr, ctx())
		msg := errText(gerr)
		named := false
		for _, a := range accept {
			named = named || hasToken(msg, a, false)
		}
		if !named {
			// what the message quotes instead: a tail of the path (the front
			// was dropped), the path with segments in the middle left out, or
			// nothing that belongs to the request
			dev := "names-no-part-of-the-request"
			for end := len(full); end > len(m.holder) && dev == "names-no-part-of-the-request"; end-- {
				A := full[:end]
				for k := 1; k < len(A); k++ {
					if hasToken(msg, pathStr(A[k:]), false) {
						dev = "front-of-path-dropped"
					}
				}
				for k := 1; k < len(A)-1 && dev == "names-no-part-of-the-request"; k++ {
					for e := k + 1; e < len(A); e++ {
						if hasToken(msg, pathStr(append(append([]seg{}, A[:k]...), A[e:]...)), false) {
							dev = "middle-of-path-dropped"
						}
					}
				}
			}
			for _, a := range accept {
				if spelledWith(msg, a, cs.sep) {
					dev = "path-spelled-with-read-separator"
				}
			}
			res.Violate("error-names-wrong-path:missing-read:"+m.class+":"+depth+":"+strings.TrimSuffix(form, "+idx")+":"+dev,
				"message %q names none of %q; %s", clip(msg, 400), accept, ctx())
		} else {
			res.Ev("missing_reads_naming_the_setting", 1)
		}
		if !hasToken(msg, cs.base, false) {
			res.Violate("error-lacks-source:missing-read:"+m.class+":"+depth, "message %q lacks the source %s; %s", clip(msg, 400), cs.base, ctx())
		}
	}
}
