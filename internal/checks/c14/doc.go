// Package c14: see DESIGN.md section 3 C14.
package c14
