//go:build !only || only_c02

package checks

import _ "verif/internal/checks/c02"
