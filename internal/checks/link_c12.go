//go:build !only || only_c12

package checks

import _ "verif/internal/checks/c12"
