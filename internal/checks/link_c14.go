//go:build !only || only_c14

package checks

import _ "verif/internal/checks/c14"
