//go:build !only || only_c13

package checks

import _ "verif/internal/checks/c13"
