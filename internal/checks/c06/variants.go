package c06

// Variants of the round trip: the statement demands identity for a single
// merge into an empty config whatever merge policy the caller has chosen and
// whatever struct tag key names the fields. A variant trip runs the same
// (type, value) pair as the plain trip; what it reports is compared with the
// plain trip of the pair, so that a deviation seen under the variant only is
// filed under the variant.

import (
	"reflect"
	"strconv"
	"strings"

	ucfg "github.com/elastic/go-ucfg"

	"verif/internal/harness"
)

type variant struct {
	policy   int  // index into policies, 0: none
	onUnpack bool // the policy is given to Unpack as well
	alt      bool // under StructTag(altKey)
	history  string
	// the type has been unpacked under the other tag key before (in this case)
	otherBefore bool
}

var policies = []struct {
	name string
	opt  ucfg.Option
}{
	{"default", nil},
	{"AppendValues", ucfg.AppendValues},
	{"PrependValues", ucfg.PrependValues},
	{"ReplaceValues", ucfg.ReplaceValues},
	{"ReplaceArrValues", ucfg.ReplaceArrValues},
}

func (x variant) plain() bool { return x.policy == 0 && !x.alt }

// class names the variant for the signature.
func (x variant) class() string {
	var parts []string
	if x.alt {
		parts = append(parts, "only-under-StructTag:"+x.history)
	}
	if x.policy != 0 {
		p := "only-with-merge-policy:" + policies[x.policy].name
		if x.onUnpack {
			p += "+on-unpack"
		}
		parts = append(parts, p)
	}
	return strings.Join(parts, ":")
}

// variantTrip runs one round trip under x. Deviations the plain trip of the
// same pair does not show get the variant's class in front of their signature;
// deviations that a structurally identical type built afresh (never handed to
// the library before) does not show are filed as depending on the earlier use
// of the type under the other tag key.
func variantTrip(res *harness.R, T reflect.Type, v reflect.Value, sep bool, entry int, what, ts, vs string, verbose bool, x variant) bool {
	if x.plain() && !x.otherBefore {
		return trip(res, T, v, sep, entry, what, ts, vs, verbose, x)
	}
	tmp := harness.NewR(res.Index)
	ok := trip(tmp, T, v, sep, entry, what, ts, vs, verbose, x)
	out := tmp.Done()
	res.Eval(out.Evals)
	for k, n := range out.Events {
		res.Ev(k, n)
	}
	for k, l := range out.Sets {
		for _, e := range l {
			res.SetAdd(k, e)
		}
	}
	if x.alt {
		res.Ev("round_trips_under_another_struct_tag", 1)
		res.SetAdd("struct_tag_history", x.history)
	}
	if x.otherBefore {
		res.Ev("round_trips_of_a_type_unpacked_under_another_struct_tag_before", 1)
	}
	if x.policy != 0 {
		res.Ev("round_trips_with_merge_policy", 1)
		p := policies[x.policy].name
		if x.onUnpack {
			p += "+on-unpack"
		}
		res.SetAdd("merge_policy", p)
		if listAndNames(v) {
			res.Ev("round_trips_with_merge_policy_and_top_level_list_next_to_names", 1)
			res.SetAdd("merge_policy_with_top_level_list_next_to_names", p)
		}
	}
	if len(out.Violations) == 0 {
		return ok
	}
	sigs := func(T reflect.Type, v reflect.Value, x variant) map[string]bool {
		ref := harness.NewR(res.Index)
		trip(ref, T, v, sep, entry, what, ts, vs, false, x)
		m := map[string]bool{}
		for _, d := range ref.Violations {
			m[d.Sig] = true
		}
		return m
	}
	var plain, fresh map[string]bool
	if x.otherBefore {
		// the same trip with a type the library has not seen
		Tf := freshen(T)
		vf := reflect.New(Tf).Elem()
		transfer(vf, v)
		fresh = sigs(Tf, vf, x)
	}
	if !x.plain() {
		// the same pair without the variant
		plain = sigs(T, v, variant{})
	}
	for _, d := range out.Violations {
		sig := d.Sig
		switch {
		case predicateSig[sig]:
			// identified by a predicate over source and result alone (the
			// open findings about nils): the same deviation whatever variant
			// the trip ran under, also when the plain trip of the pair stops
			// at another deviation first (thorough tier, seed 5)
		case x.otherBefore && !fresh[sig]:
			sig = "depends-on-earlier-unpack-of-the-type-under-another-struct-tag:" + sig
		case !x.plain() && !plain[sig]:
			sig = x.class() + ":" + sig
		}
		res.Violate(sig, "%s", d.Detail)
	}
	return ok
}

// freshen rebuilds the reflect.StructOf types of t with one more (ignored)
// field each: the same type as far as Merge and Unpack are concerned, and one
// the library has never been handed.
func freshen(t reflect.Type) reflect.Type {
	if t.Name() != "" || t == tRegexpP {
		return t
	}
	switch t.Kind() {
	case reflect.Ptr:
		return reflect.PtrTo(freshen(t.Elem()))
	case reflect.Slice:
		return reflect.SliceOf(freshen(t.Elem()))
	case reflect.Array:
		return reflect.ArrayOf(t.Len(), freshen(t.Elem()))
	case reflect.Map:
		return reflect.MapOf(t.Key(), freshen(t.Elem()))
	case reflect.Struct:
		var fs []reflect.StructField
		for i := 0; i < t.NumField(); i++ {
			f := t.Field(i)
			f.Type = freshen(f.Type)
			f.Offset, f.Index = 0, nil
			fs = append(fs, f)
		}
		fs = append(fs, reflect.StructField{Name: "XFresh", Type: reflect.TypeOf(false), Tag: `config:",ignore" alt:",ignore"`})
		return reflect.StructOf(fs)
	}
	return t
}

// transfer copies src into dst, a zero value of the freshened type of src.
func transfer(dst, src reflect.Value) {
	if dst.Type() == src.Type() {
		dst.Set(src)
		return
	}
	switch src.Kind() {
	case reflect.Ptr:
		if !src.IsNil() {
			dst.Set(reflect.New(dst.Type().Elem()))
			transfer(dst.Elem(), src.Elem())
		}
	case reflect.Slice:
		if !src.IsNil() {
			dst.Set(reflect.MakeSlice(dst.Type(), src.Len(), src.Len()))
			for i := 0; i < src.Len(); i++ {
				transfer(dst.Index(i), src.Index(i))
			}
		}
	case reflect.Array:
		for i := 0; i < src.Len(); i++ {
			transfer(dst.Index(i), src.Index(i))
		}
	case reflect.Map:
		if !src.IsNil() {
			dst.Set(reflect.MakeMap(dst.Type()))
			for _, k := range src.MapKeys() {
				e := reflect.New(dst.Type().Elem()).Elem()
				transfer(e, src.MapIndex(k))
				dst.SetMapIndex(k, e)
			}
		}
	case reflect.Struct:
		for i := 0; i < src.NumField(); i++ {
			transfer(dst.Field(i), src.Field(i))
		}
	}
}

// listAndNames: the struct value yields list elements and named settings on
// its top level (an inlined non-empty list next to transported fields).
func listAndNames(v reflect.Value) bool {
	if v.Kind() != reflect.Struct {
		return false
	}
	list, names := false, false
	var walk func(v reflect.Value, depth int)
	walk = func(v reflect.Value, depth int) {
		t := v.Type()
		for i := 0; i < t.NumField() && depth < 8; i++ {
			f := t.Field(i)
			ti := parseTag(f.Tag)
			if f.PkgPath != "" || ti.ignore {
				continue
			}
			fv := v.Field(i)
			switch {
			case ti.inline && chaseT(f.Type).Kind() == reflect.Struct:
				if !nilChain(fv) {
					walk(inlined(fv), depth+1)
				}
			case ti.inline && (f.Type.Kind() == reflect.Slice || f.Type.Kind() == reflect.Array):
				list = list || fv.Len() > 0
			case ti.inline:
				names = names || inlined(fv).Len() > 0
			default:
				names = true
			}
		}
	}
	walk(v, 0)
	return list && names
}

// ---------------------------------------------------------------------------
// a second set of names

// altName renames a config name segment by segment (list positions stay):
// injective, so that names unique under one key are unique under the other and
// fields spelling one namespace still do.
func altName(name string) string {
	segs := strings.Split(name, ".")
	for j, s := range segs {
		if _, isIdx := segIndex(s); isIdx && j > 0 {
			continue
		}
		segs[j] = "z" + s
	}
	return strings.Join(segs, ".")
}

// addAlt rebuilds the reflect.StructOf types of t with a second tag key on
// every exported field: the same options (inline, ignore, merge options) and
// another name for every named field. Hand-written named types carry their
// alt tags in the source (or none: the recursive types are not round-tripped
// under the other key).
func addAlt(t reflect.Type) reflect.Type {
	if t.Name() != "" || t == tRegexpP {
		return t
	}
	switch t.Kind() {
	case reflect.Ptr:
		return reflect.PtrTo(addAlt(t.Elem()))
	case reflect.Slice:
		return reflect.SliceOf(addAlt(t.Elem()))
	case reflect.Array:
		return reflect.ArrayOf(t.Len(), addAlt(t.Elem()))
	case reflect.Map:
		return reflect.MapOf(t.Key(), addAlt(t.Elem()))
	case reflect.Struct:
		fs := make([]reflect.StructField, t.NumField())
		for i := range fs {
			f := t.Field(i)
			f.Type = addAlt(f.Type)
			f.Offset, f.Index = 0, nil
			ti := parseTag(f.Tag)
			val := f.Tag.Get("config")
			opts := ""
			if j := strings.Index(val, ","); j >= 0 {
				opts = val[j:]
			}
			name := ""
			if !ti.inline {
				name = altName(cfgName(f, ti))
			}
			sep := " "
			if f.Tag == "" {
				sep = ""
			}
			f.Tag = f.Tag + reflect.StructTag(sep+altKey+":"+strconv.Quote(name+opts))
			fs[i] = f
		}
		return reflect.StructOf(fs)
	}
	return t
}

// predicateSig: signatures the comparer gives on the shape of source and
// result alone; the variant attribution never renames them.
var predicateSig = map[string]bool{
	"pointer-to-nil-pointer-comes-back-nil":              true,
	"nil-pointer-spelling-comes-back-allocated":          true,
	"same-name-fields:nil-one-receives-the-others-value": true,
	"inline-map-receives-sibling-keys":                   true,
}
