// Package c06: Struct -> Config -> struct is the identity.
//
// A case is one struct type assembled with reflect.StructOf from the supported
// kinds and config tags, and a few values of it. Each value is merged into an
// empty Config and the Config is unpacked into a zero value of the same type;
// the result must equal the value under exactly the equivalences the property
// grants.
package c06

import (
	"fmt"
	"hash/fnv"
	"math"
	"math/rand"
	"reflect"
	"regexp"
	"sort"
	"strconv"
	"strings"
	"time"
	"unicode"

	ucfg "github.com/elastic/go-ucfg"

	"verif/internal/harness"
	"verif/internal/model"
	"verif/internal/obs"
)

type check struct{}

func init() { harness.Register(check{}) }

func (check) ID() string { return "C06" }

func (check) Cases(tier string) int {
	if tier == "thorough" {
		return 200000
	}
	return 3000
}

// reuse: how many consecutive cases share one generated type. The runtime
// keeps every reflect.StructOf type forever, so the thorough tier draws four
// values per type; a worker batch then creates a few thousand types at most.
func reuse(tier string) int {
	if tier == "thorough" {
		return 4
	}
	return 1
}

// every defectEvery-th type carries, on purpose, one of the three type shapes
// that are legal under the property but known to fail (see Rule).
const defectEvery = 80

// values drawn per case for the case's type
const valuesPerCase = 3

func (check) Rule() string {
	return "per case one struct type and 3 values of it (thorough: 4 consecutive cases share the type, so the runtime's permanent reflect.StructOf cache stays small): a reflect.StructOf struct of 1-6 fields, depth <= 3, over bool, all int/uint/float kinds and uintptr, string, time.Duration, *regexp.Regexp and regexp.Regexp by value, pointers and chains of 2-4 pointers (to structs too; as fields, elements and map values; the extra levels do not use up depth), slices, arrays [1..3]T, map[string]T, interface{}, nested structs by value/pointer/in collections, hand-written named types (Level string, Count int32, Ratio float64, Flag bool, Octets []uint8, Labels map[string]string, structs Endpoint/Hidden/Mixed/Opaque/Wrapped with tags, embedded and unexported fields); tags: none, rename (one in four to an unusual name, unique at its level: \"-\", \"--\", \"_\", \"*\", punctuation, blanks, \"${a}\", upper case, Cyrillic, the option words inline/ignore/squash/merge/replace/append as names), dotted (shared parents, prefix-free, unusual leaf names too), ignore (also on chan/func/map[int]/complex fields), inline/squash on struct fields (own names disjoint from the siblings'; one in five through a pointer or two, nil or not), inline map - or pointer to map - as the only transported field, one slice or array tagged inline per namespace, two pointer fields renamed to the same name (one of them always nil), merge-option tags, foreign tag keys; one namespace spelled by 2-3 fields of one struct at any nesting level (about every 11th field starts such a group: struct fields by value or pointer with the same renamed or lower-cased name, the same wrapped in an inline struct, dotted names leading into the namespace - also one that is itself a struct -, [L]struct fields of one length plus dotted names through an index; the spellings come in random order, define disjoint settings and share 0-2 sub-namespaces that are spelled the same way again, up to 3 levels); values: zero, extreme and random numbers, NaN/Inf/-0, durations incl. Min/MaxInt64, regexps, strings with $ . , braces, nil/empty/filled collections, nil pointers and chains ending in nil outside collections. Each value enters as NewFrom(v), NewFrom(&v) or New().Merge(v) and is round-tripped with PathSep(\".\") and, if the type has no dotted tag name, without it; the zero value of every type is round-tripped too. Every 80th type deliberately contains one legal shape with a known or former defect (in turn: inline map next to named fields; non-nil *[N]T; *map as list/map element; map keyed by a named string type; a hand-written named pointer type NPInt *int, NPEndpoint *Endpoint, NPHidden *Hidden, NPList *[]string, NPMap *map[string]int, NPBytes **uint8 as field, behind a pointer, as element or map value - Unpack into those runs under an allocation bound). The same named pointer types are ordinary leaf types too (about every 50th type drawn, half of them pointing to a struct), and every fifth pointer type drawn points - through one to three levels - to one of them; those are unpacked without the bound. One in five pointer spellings of a shared namespace is nil. Map keys contain the separator one time in eight if the type has no dotted name (the value is then round-tripped without PathSep only). Each case also hands one small struct holding a kind without configuration form (complex64/128, chan, func; as field, behind a pointer, in a slice, array, map, nested struct or interface) to NewFrom and, if accepted, to Unpack: no panic, nothing else claimed. Sixth wave: every field of a generated type carries a second tag key (alt) with the same options and another name (injective, segment by segment), the hand-written struct types too; per value one trip in two runs under StructTag(\"alt\") - one type in three is first unpacked under alt, then under config, then under alt again -, and half of the plain trips give Merge one of AppendValues / PrependValues / ReplaceValues / ReplaceArrValues (Unpack gets it too one time in two). Each case also round-trips one value (2-4 named steps deep) of one of 8 hand-written recursive types (a struct inlined through a pointer that reaches, through a named pointer / slice / map value / dotted name / array, a type inlining it again; by value; two inline pointers in a row; plain recursion; a type inlining a pointer to itself). Non-trivial = the type transports >= 3 fields (nested ones counted) or >= 1 container; distinct = distinct (type, value) text."
}

func (check) Assumptions() []string {
	return []string{
		"equality is the property's: nil == empty for slices and maps, NaN == NaN (other floats bit-exact), regular expressions by source text (compile modes - POSIX, Longest - are not part of the expression the Config holds: not pinned, not generated), pointers level by level (a pointer to a nil pointer is not nil: the statement exempts nil pointers as elements only), interface{} fields by model.CanonIfc (numbers by value, nil == {} == [])",
		"a pointer tagged inline has no setting of its own that could say it was nil: nil and pointer-to-zero-value (empty map) are equal there, like the statement grants for nil elements; for the same reason an inlined pointer's struct holds no inlined array",
		"kinds without a configuration form (complex, chan, func) make a struct type unsupported: Merge may refuse or transport them, only a panic is reported; uintptr is an unsigned integer kind and Unpack accepts it, so it is transported like uint",
		"two fields of one name: Merge may refuse the type as a duplicate key whatever the values are (nothing claimed then, C09 owns that rule); if it accepts a value, the round trip must be the identity",
		"fields tagged ignore and unexported fields are not transported: they are not compared with the source but must be zero in the result",
		"not generated (outside the quantifier): nil pointers / nil interfaces (and pointer chains ending in nil) as list or map elements, arrays directly as map values, pointers to interface{}; map keys never parse as integers - in any base strconv.ParseInt(s, 0, 64) reads, with sign or underscores - because those are list positions (C20), and contain the separator only where no PathSep is given (with PathSep keys are paths: C05); types with InitDefaults, Validate or Unpack methods (C04/C13), Config fields by value, values nested deeper than 10000 levels (Merge's documented bound, C07)",
		"the untagged field name is the lower-cased Go field name; the names of the intermediate Config are checked against the names derived from type and value, level by level through structs and lists of structs, not below maps and interfaces (this is what makes a merge-side-only and an unpack-side-only naming rule distinguishable); a name whose only definition is a nil pointer or nil interface may be present or absent",
		"several fields spelling one namespace: only with disjoint settings (a setting defined twice is a duplicate key, C09), as a nil pointer only if the struct holds no fixed-size array (Unpack allocates the pointer for the other spellings' settings - reported as nil-pointer-spelling-comes-back-allocated - and would fail on the array), never as a map or an inline map (it would receive the other spellings' settings: the open inline-map question), lists only as arrays of one length (a slice would come back with the longest length); signatures of deviations below such a namespace carry shared-ns / shared-namespace",
		"VarExp off: '$' in strings is data",
		"one merge into an empty config is the identity under every global merge policy (there is nothing to append to, prepend to or replace), so the comparison is the same; a deviation the same pair does not show without the policy is signed only-with-merge-policy:<policy>[+on-unpack]:<sig>",
		"the tag key is the caller's choice (StructTag): the oracle reads the key the library is told to read; a deviation that a structurally identical type built afresh does not show is signed depends-on-earlier-unpack-of-the-type-under-another-struct-tag:<sig>, one the plain trip does not show only-under-StructTag:<history>:<sig>; the recursive hand-written types have one tag key only",
		"a struct type that inlines a pointer to itself: only values with that pointer nil (anything else names one setting twice); an inlined pointer that was set, held settings and comes back nil is one finding (inline-pointer-comes-back-nil, with :type-inlined-again-below-a-named-field if its struct type is already inlined through a pointer on the path from the root)",
		"an empty map or list held by an interface{} map entry comes back as an absent entry: equal, by nil == empty and CanonIfc's absent == nil",
		"a failure is attributed to a known shape only by a differential re-run: the same Config unpacks into the type with *[N]T replaced by *[]T (resp. element *map by map, map[Level]T by map[string]T), or the smallest struct showing a shape of the type (uintptr field, regexp.Regexp by value passed by value, inlined list, nil / non-nil inlined pointer, []**struct) fails in the same step in the same way (panic or error)",
		"an Unpack that allocates more than 192 MB without returning can not be stopped; the worker is given up with a 'fatal error:' line, which the supervisor files under the case as fatal:unpack-into-named-pointer-type-allocates-without-bound",
	}
}

// ---------------------------------------------------------------------------
// hand-written named types used as field types of the generated structs

type Level string
type Count int32
type Ratio float64
type Flag bool
type Octets []uint8
type Labels map[string]string

// (the alt key carries a second set of names for the same fields, see addAlt)
type Endpoint struct {
	Host string   `alt:"zhost"`
	Port uint16   `config:"port" alt:"zport"`
	TLS  *bool    `config:"tls" alt:"ztls"`
	Tags []string `alt:"ztags"`
}

type Hidden struct {
	Pub  int64 `alt:"zpub"`
	priv string
	Name string `config:"nm" alt:"znm"`
	note *int
	Skip string `config:",ignore" alt:",ignore"`
}

type Mixed struct {
	count  int
	Inner  Endpoint         `config:"ep" alt:"zep"`
	Vals   map[string]Count `alt:"zvals"`
	secret []byte
}

type Opaque struct {
	a, b int
}

// Wrapped has embedded fields: one inlined, one under its type name, one pointer.
type Wrapped struct {
	Endpoint `config:",inline" alt:",inline"`
	Hidden   `alt:"zhidden"`
	*Level   `alt:"zlevel"`
	Extra    int `config:"extra" alt:"zextra"`
}

var (
	tRegexpV  = reflect.TypeOf(regexp.Regexp{})
	tUintptr  = reflect.TypeOf(uintptr(0))
	tIfc      = reflect.TypeOf((*interface{})(nil)).Elem()
	tString   = reflect.TypeOf("")
	tDuration = reflect.TypeOf(time.Duration(0))
	tRegexpP  = reflect.TypeOf((*regexp.Regexp)(nil))
	tEndpoint = reflect.TypeOf(Endpoint{})
	tHidden   = reflect.TypeOf(Hidden{})
	tMixed    = reflect.TypeOf(Mixed{})
	tOpaque   = reflect.TypeOf(Opaque{})
)

var prims = []reflect.Type{
	reflect.TypeOf(false), reflect.TypeOf(int(0)), reflect.TypeOf(int8(0)), reflect.TypeOf(int16(0)), reflect.TypeOf(int32(0)), reflect.TypeOf(int64(0)),
	reflect.TypeOf(uint(0)), reflect.TypeOf(uint8(0)), reflect.TypeOf(uint16(0)), reflect.TypeOf(uint32(0)), reflect.TypeOf(uint64(0)),
	reflect.TypeOf(float32(0)), reflect.TypeOf(float64(0)), tString, tDuration, tRegexpP,
}

var namedLeaf = []reflect.Type{
	reflect.TypeOf(Level("")), reflect.TypeOf(Count(0)), reflect.TypeOf(Ratio(0)), reflect.TypeOf(Flag(false)),
	reflect.TypeOf(Octets(nil)), reflect.TypeOf(Labels(nil)),
}

var libStructs = []reflect.Type{tEndpoint, tHidden, tMixed, tOpaque, reflect.TypeOf(Wrapped{})}

// types that may only sit behind an ignore tag
var exotic = []reflect.Type{
	reflect.TypeOf((chan int)(nil)), reflect.TypeOf((func())(nil)), reflect.TypeOf(map[int]string(nil)),
	reflect.TypeOf((*interface{})(nil)), reflect.TypeOf(complex128(0)),
}

// field names: the untagged config name is the lower-cased Go name.
var fieldPool = []string{"A", "B", "C", "D", "E", "F", "G", "H", "Mx", "PaTh", "QQ", "Übr", "Zed"}

// ---------------------------------------------------------------------------
// tags (parsed here independently of the library)

type tagInfo struct {
	name           string
	inline, ignore bool
}

// tagKey is the struct tag key the oracle reads: "config", and altKey for the
// duration of a round trip under StructTag(altKey) (cases run one after the
// other in a worker process; the key is put back when the trip returns).
var tagKey = "config"

const altKey = "alt"

func parseTag(tag reflect.StructTag) tagInfo {
	parts := strings.Split(tag.Get(tagKey), ",")
	ti := tagInfo{name: parts[0]}
	for _, o := range parts[1:] {
		switch o {
		case "inline", "squash":
			ti.inline = true
		case "ignore":
			ti.ignore = true
		}
	}
	return ti
}

func cfgName(f reflect.StructField, ti tagInfo) string {
	if ti.name != "" {
		return ti.name
	}
	return strings.ToLower(f.Name)
}

func topSeg(name string, sep bool) string {
	if sep {
		if i := strings.Index(name, "."); i >= 0 {
			return name[:i]
		}
	}
	return name
}

// ---------------------------------------------------------------------------
// type generator

const (
	posField = iota
	posElem
	posMapVal
	posPtr
)

const (
	defNone = iota
	defInlineMap
	defPtrArray
	defPtrMapElem
	defNamedKey
	defNamedPtr
)

var defectNames = []string{"none", "inline-map-with-siblings", "pointer-to-array", "pointer-to-map-element", "named-string-map-key", "named-pointer-type"}

type namespace struct {
	pool    []string
	lib     map[reflect.Type]bool
	odd     []string // unusual names not used yet at this level
	hasList bool     // a slice or array is inlined at this level already
}

// oddNames: renames that are names like any other for the library, but look
// like something else: punctuation only, the option words, what encoding/json
// reads as "skip", wildcards, variable syntax, blanks, upper case.
var oddNames = []string{"-", "--", "__", "*", "**", "$x", "${a}", " ", "with space", "UPPER", "ключ", "a\tb", "#", "@", "~", "!", "%", "&", "|", "=", "<>", "?", "/", "'", ":", ";", "(", "{}", "[", "]", "inline", "ignore", "squash", "merge", "replace", "append", "-x", "+", "^"}

// One namespace never gets a name twice by accident (only the same-name twins
// do that, on purpose): the keys of maps - an inline map shares the namespace
// of its siblings - are disjoint from everything a field can be called.
func init() {
	keys := map[string]bool{}
	for _, k := range append(append([]string{}, mapKeys...), dotKeys...) {
		keys[k] = true
	}
	names := append([]string{}, oddNames...)
	for _, n := range fieldPool {
		names = append(names, strings.ToLower(n), "n"+n, "t"+n, "l"+n, "w"+strings.ToLower(n))
	}
	for _, p := range dottedParents {
		names = append(names, segments(p, true)...)
	}
	for _, t := range libStructs {
		for i := 0; i < t.NumField(); i++ {
			if f := t.Field(i); f.PkgPath == "" {
				names = append(names, cfgName(f, parseTag(f.Tag)))
			}
		}
	}
	seen := map[string]bool{}
	for _, n := range oddNames {
		if seen[n] {
			panic("c06: unusual name listed twice: " + n)
		}
		seen[n] = true
	}
	for _, n := range names {
		if keys[n] {
			panic("c06: " + strconv.Quote(n) + " is both a map key and a field name of the generator")
		}
	}
}

// cfgTag spells the config key of a struct tag.
func cfgTag(value string) string { return "config:" + strconv.Quote(value) }

type tgen struct {
	r      *rand.Rand
	dotted bool
	defect int
	forms  map[string]struct{}
	shapes map[string]struct{}
	odd    map[string]struct{}
}

func (g *tgen) form(s string)  { g.forms[s] = struct{}{} }
func (g *tgen) shape(s string) { g.shapes[s] = struct{}{} }

func (g *tgen) newNS() *namespace {
	p := make([]string, len(fieldPool))
	for i, j := range g.r.Perm(len(fieldPool)) {
		p[i] = fieldPool[j]
	}
	odd := make([]string, len(oddNames))
	for i, j := range g.r.Perm(len(oddNames)) {
		odd[i] = oddNames[j]
	}
	if g.r.Intn(5) == 0 {
		// "-" (what encoding/json and yaml read as "skip this field") comes first more often
		for i, n := range odd {
			if n == "-" {
				odd[0], odd[i] = odd[i], odd[0]
			}
		}
	}
	return &namespace{pool: p, lib: map[reflect.Type]bool{}, odd: odd}
}

// oddName takes an unusual name, unique at its level (one time in four).
func (g *tgen) oddName(ns *namespace) (string, bool) {
	if len(ns.odd) == 0 || g.r.Intn(4) != 0 {
		return "", false
	}
	n := ns.odd[0]
	ns.odd = ns.odd[1:]
	g.form("rename-odd")
	g.odd[n] = struct{}{}
	return n, true
}

func chaseT(t reflect.Type) reflect.Type {
	for t.Kind() == reflect.Ptr {
		t = t.Elem()
	}
	return t
}

func (g *tgen) prim() reflect.Type { return prims[g.r.Intn(len(prims))] }

func (g *tgen) genType(depth, pos int) reflect.Type {
	r := g.r
	k := r.Intn(15)
	if depth <= 0 {
		k = r.Intn(6)
	}
	switch {
	case k < 5:
		return g.prim()
	case k == 5:
		switch x := r.Intn(len(namedLeaf) + 4); {
		case x == len(namedLeaf):
			return tUintptr // an unsigned integer kind like the others
		case x == len(namedLeaf)+1:
			return tRegexpV // a regular expression held by value
		case x >= len(namedLeaf)+2:
			g.shape("named-pointer-type")
			return g.namedPtr() // type P *T: kind Ptr, like *T
		default:
			return namedLeaf[x]
		}
	case k == 6:
		et := g.genType(depth-1, posPtr)
		if r.Intn(5) == 0 {
			// a pointer (or two, below) to a named pointer type
			g.shape("pointer-to-named-pointer-type")
			et = g.namedPtr()
		}
		if et.Kind() == reflect.Interface {
			return et // pointers to interfaces belong to C07
		}
		if et.Kind() == reflect.Array && pos != posField {
			// *[N]T is generated as a plain field only (and stays nil there):
			// everywhere else the known defect would hide the rest of the type
			et = reflect.SliceOf(et.Elem())
		}
		if (pos == posElem || pos == posMapVal) && chaseT(et).Kind() == reflect.Map {
			return chaseT(et) // *map as an element: known defect, injected separately
		}
		// pointers to pointers (to pointers) do not use up the nesting depth:
		// they are reached as elements of collections and behind structs too
		pt := reflect.PtrTo(et)
		odds := 3
		if (pos == posElem || pos == posMapVal) && chaseT(et).Kind() == reflect.Struct {
			odds = 2 // what a fresh struct is unpacked into and stored as an element
		}
		for n := 0; n < 2 && et.Kind() != reflect.Array && r.Intn(odds) == 0; n++ {
			pt = reflect.PtrTo(pt)
			g.shape(fmt.Sprintf("pointer-chain:%d+", n+2))
		}
		return pt
	case k == 7:
		return reflect.SliceOf(g.elemType(depth-1, posElem))
	case k == 8:
		et := g.elemType(depth-1, posElem)
		if pos == posMapVal {
			return reflect.SliceOf(et) // arrays directly as map values: excluded by the property
		}
		return reflect.ArrayOf(1+r.Intn(3), et)
	case k == 9:
		return reflect.MapOf(tString, g.elemType(depth-1, posMapVal))
	case k == 10:
		return tIfc
	case k == 11:
		return libStructs[r.Intn(len(libStructs))]
	default:
		if r.Intn(8) == 0 {
			return g.mapHolder(depth - 1)
		}
		return reflect.StructOf(g.genFields(depth-1, g.newNS(), 1+r.Intn(4)))
	}
}

// elemType: the element type of a collection; one time in eight a chain of
// 2-3 pointers to a struct, whatever depth is left.
func (g *tgen) elemType(depth, pos int) reflect.Type {
	r := g.r
	if r.Intn(8) != 0 {
		return g.genType(depth, pos)
	}
	var st reflect.Type
	if depth <= 0 || r.Intn(3) == 0 {
		st = libStructs[r.Intn(len(libStructs))]
	} else {
		st = reflect.StructOf(g.genFields(depth-1, g.newNS(), 1+r.Intn(3)))
	}
	g.shape("pointer-chain-to-struct-as-element")
	t := reflect.PtrTo(reflect.PtrTo(st))
	if r.Intn(3) == 0 {
		t = reflect.PtrTo(t)
	}
	return t
}

// namedPtr draws a hand-written named pointer type, those pointing to a
// struct half of the time (what Unpack builds for them is a pointer already).
func (g *tgen) namedPtr() reflect.Type {
	if g.r.Intn(2) == 0 {
		return namedStructPtrs[g.r.Intn(len(namedStructPtrs))]
	}
	return namedPtrs[g.r.Intn(len(namedPtrs))]
}

// mapHolder: a struct whose only transported field is an inline map.
func (g *tgen) mapHolder(depth int) reflect.Type {
	var fs []reflect.StructField
	fs = append(fs, reflect.StructField{Name: "Im", Type: reflect.MapOf(tString, g.genType(depth, posMapVal)), Tag: `config:",inline"`})
	g.form("inline-map-alone")
	if g.defect == defNone && g.r.Intn(4) == 0 {
		g.form("inline-pointer-to-map-alone")
		fs[0].Type = reflect.PtrTo(fs[0].Type)
	}
	for i, n := 0, g.r.Intn(3); i < n; i++ {
		fs = append(fs, reflect.StructField{Name: fmt.Sprintf("Ig%c", 'a'+i), Type: g.prim(), Tag: `config:",ignore"`})
	}
	g.r.Shuffle(len(fs), func(i, j int) { fs[i], fs[j] = fs[j], fs[i] })
	return reflect.StructOf(fs)
}

var dottedParents = []string{"sec", "sec.q", "opt", "opt.q.r", "sec.r"}

func (g *tgen) genFields(depth int, ns *namespace, n int) []reflect.StructField {
	r := g.r
	var fs []reflect.StructField
	var later [][]reflect.StructField
	for i := 0; i < n && len(ns.pool) > 0; i++ {
		name := ns.pool[0]
		ns.pool = ns.pool[1:]
		f := reflect.StructField{Name: name}
		c := r.Intn(25)
		if (c == 15 || c == 16 || c == 19 || c >= 21) && depth <= 0 {
			c = 0
		}
		if c >= 21 && g.defect != defNone {
			c = 1 // the types carrying a known-defect shape stay as they were
		}
		if c == 23 && ns.hasList {
			c = 2
		}
		if c == 23 {
			// a slice or array tagged inline: its elements are the elements of
			// the enclosing namespace itself (one such list per namespace)
			ns.hasList = true
			f.Tag = reflect.StructTag(cfgTag("," + []string{"inline", "squash"}[r.Intn(2)]))
			et := g.genType(depth-1, posElem)
			if r.Intn(3) == 0 {
				g.form("inline-array")
				f.Type = reflect.ArrayOf(1+r.Intn(3), et)
			} else {
				g.form("inline-slice")
				f.Type = reflect.SliceOf(et)
			}
			fs = append(fs, f)
			continue
		}
		if c == 24 {
			// two pointer fields renamed to one and the same name: they can
			// not both hold a value (duplicate key), but one of them can
			g.form("same-name-twins")
			tag := cfgTag("t" + name)
			a := reflect.StructField{Name: name, Type: reflect.PtrTo(g.prim()), Tag: reflect.StructTag(tag + ` verif:"twin-set"`)}
			b := reflect.StructField{Name: name + "2", Type: a.Type, Tag: reflect.StructTag(tag + ` verif:"twin-nil"`)}
			if r.Intn(2) == 0 {
				a, b = b, a
			}
			fs = append(fs, a)
			later = append(later, []reflect.StructField{b})
			continue
		}
		if c >= 21 {
			// 2-3 fields of this struct spell one and the same namespace; they are
			// neither adjacent nor in a fixed order
			parts := g.shared(depth, name, 2+r.Intn(2))
			r.Shuffle(len(parts), func(i, j int) { parts[i], parts[j] = parts[j], parts[i] })
			fs = append(fs, parts[0]...)
			later = append(later, parts[1:]...)
			continue
		}
		switch {
		case c <= 6:
			g.form("none")
			f.Type = g.genType(depth, posField)
		case c <= 9:
			g.form("rename")
			f.Tag = reflect.StructTag(fmt.Sprintf(`config:"n%s"`, name))
			if odd, ok := g.oddName(ns); ok {
				f.Tag = reflect.StructTag(cfgTag(odd))
			}
			f.Type = g.genType(depth, posField)
		case c <= 12:
			g.form("dotted")
			g.dotted = true
			leaf := "l" + name
			if odd, ok := g.oddName(ns); ok {
				leaf = odd
			}
			f.Tag = reflect.StructTag(cfgTag(dottedParents[r.Intn(len(dottedParents))] + "." + leaf))
			f.Type = g.genType(depth, posField)
		case c <= 14:
			f.Tag = `config:",ignore"`
			if r.Intn(3) == 0 {
				g.form("ignore-exotic")
				f.Type = exotic[r.Intn(len(exotic))]
			} else {
				g.form("ignore")
				if r.Intn(2) == 0 {
					f.Tag = reflect.StructTag(fmt.Sprintf(`config:"n%s,ignore"`, name))
				}
				f.Type = g.genType(depth, posField)
			}
		case c == 15 || c == 16 || c == 19:
			word := "inline"
			if c == 19 {
				word = "squash"
			}
			f.Tag = reflect.StructTag(fmt.Sprintf(`config:",%s"`, word))
			lt := libStructs[r.Intn(3)]
			if r.Intn(4) == 0 && !ns.lib[lt] {
				ns.lib[lt] = true
				g.form(word + "-named-struct")
				f.Type = lt
			} else if len(ns.pool) > 0 {
				g.form(word + "-struct")
				f.Type = reflect.StructOf(g.genFields(depth-1, ns, 1+r.Intn(3)))
				if g.defect == defNone && r.Intn(5) == 0 && !fieldHas(f.Type, isInlineKind(reflect.Array), 0) {
					// inlined through a pointer (or two); a nil one comes back
					// as a pointer to the zero value, which an inlined array
					// inside could not be read for (no elements)
					g.form(word + "-pointer-to-struct")
					f.Type = reflect.PtrTo(f.Type)
					if r.Intn(3) == 0 {
						f.Type = reflect.PtrTo(f.Type)
					}
				}
			} else {
				f.Tag = ""
				g.form("none")
				f.Type = g.genType(depth, posField)
			}
		case c == 17:
			opt := []string{"merge", "replace", "append", "prepend"}[r.Intn(4)]
			g.form("rename+" + opt)
			f.Tag = reflect.StructTag(fmt.Sprintf(`config:"n%s,%s"`, name, opt))
			f.Type = g.genType(depth, posField)
		case c == 18:
			g.form("foreign-keys")
			f.Tag = reflect.StructTag(fmt.Sprintf(`json:"j%s,omitempty" config:"n%s" yaml:"-"`, name, name))
			if r.Intn(2) == 0 {
				f.Tag = reflect.StructTag(fmt.Sprintf(`json:"j%s"`, name))
			}
			f.Type = g.genType(depth, posField)
		default:
			opt := []string{"merge", "replace", "append", "prepend"}[r.Intn(4)]
			g.form("unnamed+" + opt)
			f.Tag = reflect.StructTag(fmt.Sprintf(`config:",%s"`, opt))
			f.Type = g.genType(depth, posField)
		}
		fs = append(fs, f)
	}
	for _, p := range later {
		at := r.Intn(len(fs) + 1)
		fs = append(fs[:at:at], append(append([]reflect.StructField{}, p...), fs[at:]...)...)
	}
	return fs
}

// ---------------------------------------------------------------------------
// one namespace spelled by several fields

// spellMark tags a field that spells a namespace other fields spell as well.
// The library does not look at the key; the value generator does (a nil
// pointer there would hand the whole namespace to the other spellings, and
// Unpack would have to allocate it: not a round trip by construction).
const spellKey, spellVal = "verif", "spelling"

func isSpelling(f reflect.StructField) bool { return f.Tag.Get(spellKey) == spellVal }

// nilSpelling: a pointer spelling that may be nil. Unpack allocates it for the
// other spellings' settings (reported); if the struct held a fixed-size array
// that allocation would fail for want of elements and hide everything else.
func nilSpelling(f reflect.StructField) bool {
	return isSpelling(f) && f.Type.Kind() == reflect.Ptr && !typeHas(f.Type, func(t reflect.Type) bool { return t.Kind() == reflect.Array }, 0)
}

// shared builds k spellings of one namespace named after base. Spelling i is
// the list of fields result[i], to be placed into holder struct i: for a group
// started by genFields all holders are the same struct, for a sub-namespace
// the holders are (some of) the spellings of the enclosing shared namespace.
// What the spellings define below the namespace is disjoint by name (one name
// pool for all of them), except for the sub-namespaces they share on purpose.
// A spelling is a struct field (renamed, or untagged with a Go name whose
// lower-cased form is the namespace name; by value or by pointer), the same
// wrapped into an inline struct, or - dotted - its content hoisted into the
// holder under names prefixed with the namespace. A list namespace is spelled
// by [L]struct fields of one length and by dotted names through one index.
func (g *tgen) shared(depth int, base string, k int) [][]reflect.StructField {
	r := g.r
	cname := "w" + strings.ToLower(base)
	inner := g.newNS()
	list := 0
	if r.Intn(4) == 0 {
		list = 1 + r.Intn(3)
	}
	content := make([][]reflect.StructField, k)
	for i := range content {
		content[i] = g.genFields(depth-1, inner, r.Intn(3))
	}
	if depth >= 2 {
		for n := r.Intn(3); n > 0 && len(inner.pool) > 0; n-- {
			m := 2
			if k > 2 && r.Intn(2) == 0 {
				m = k
			}
			who := r.Perm(k)[:m]
			sub := inner.pool[0]
			inner.pool = inner.pool[1:]
			for j, part := range g.shared(depth-1, sub, m) {
				content[who[j]] = append(content[who[j]], part...)
			}
		}
	}
	for _, c := range content {
		r.Shuffle(len(c), func(i, j int) { c[i], c[j] = c[j], c[i] })
	}

	// Go names whose lower-cased form is the namespace name
	var variants []string
	for _, v := range []string{base, strings.ToUpper(base), strings.ToLower(base)} {
		if strings.ToLower("W"+v) != cname {
			continue
		}
		dup := false
		for _, o := range variants {
			dup = dup || o == v
		}
		if !dup {
			variants = append(variants, v)
		}
	}
	r.Shuffle(len(variants), func(i, j int) { variants[i], variants[j] = variants[j], variants[i] })

	forms := make([]int, k)
	structs := 0
	for i := range forms {
		forms[i] = r.Intn(9)
		if forms[i] < 6 {
			structs++
		}
	}
	if list > 0 && structs == 0 {
		forms[r.Intn(k)] = r.Intn(6) // somebody has to define the list as a whole
	}
	out := make([][]reflect.StructField, k)
	for i := range out {
		goName := fmt.Sprintf("W%s%d", base, i)
		if forms[i] >= 6 {
			idx := ""
			if list > 0 {
				idx = fmt.Sprintf("%d.", r.Intn(list))
			}
			if fs, ok := prefixFields(content[i], cname+"."+idx, fmt.Sprintf("V%s%d", base, i)); ok {
				g.dotted = true
				g.form("shared:dotted")
				if list > 0 {
					g.form("shared:dotted-through-index")
				}
				out[i] = fs
				continue
			}
			forms[i] = 0
		}
		t := reflect.StructOf(content[i])
		f := reflect.StructField{Name: goName, Tag: reflect.StructTag(fmt.Sprintf(`config:"%s" %s:"%s"`, cname, spellKey, spellVal))}
		form := "struct"
		switch {
		case list > 0:
			form = "array-of-struct"
			if forms[i] == 3 {
				form = "array-of-ptr-to-struct"
				t = reflect.PtrTo(t)
			}
			t = reflect.ArrayOf(list, t)
		case forms[i] == 3:
			form = "ptr-to-struct"
			t = reflect.PtrTo(t)
		}
		f.Type = t
		if forms[i] == 2 && len(variants) > 0 {
			form += "/untagged"
			f.Name = "W" + variants[0]
			variants = variants[1:]
			f.Tag = reflect.StructTag(fmt.Sprintf(`%s:"%s"`, spellKey, spellVal))
		}
		if forms[i] >= 4 {
			form += "/in-inline-struct"
			word := []string{"inline", "squash"}[r.Intn(2)]
			f = reflect.StructField{Name: goName + "i", Type: reflect.StructOf([]reflect.StructField{f}), Tag: reflect.StructTag(fmt.Sprintf(`config:",%s"`, word))}
		}
		g.form("shared:" + form)
		out[i] = []reflect.StructField{f}
	}
	return out
}

// prefixFields hoists the fields of a spelling into its holder: every config
// name gets the prefix, every Go name goPrefix. It fails for content whose
// names can not be rewritten (an inlined hand-written struct).
func prefixFields(fs []reflect.StructField, prefix, goPrefix string) ([]reflect.StructField, bool) {
	var out []reflect.StructField
	for _, f := range fs {
		ti := parseTag(f.Tag)
		name := cfgName(f, ti)
		f.Name = goPrefix + f.Name
		switch {
		case ti.ignore:
		case ti.inline:
			if f.Type.Kind() != reflect.Struct || f.Type.PkgPath() != "" {
				return nil, false
			}
			var in []reflect.StructField
			for i := 0; i < f.Type.NumField(); i++ {
				in = append(in, f.Type.Field(i))
			}
			in, ok := prefixFields(in, prefix, "")
			if !ok {
				return nil, false
			}
			for i := range in {
				in[i].Offset, in[i].Index = 0, nil
			}
			f.Type = reflect.StructOf(in)
		default:
			cfg, has := f.Tag.Lookup("config")
			parts := strings.Split(cfg, ",")
			parts[0] = prefix + name
			now := cfgTag(strings.Join(parts, ","))
			if has {
				was := cfgTag(cfg)
				if !strings.Contains(string(f.Tag), was) {
					return nil, false
				}
				f.Tag = reflect.StructTag(strings.Replace(string(f.Tag), was, now, 1))
			} else {
				f.Tag = reflect.StructTag(strings.TrimSpace(now + " " + string(f.Tag)))
			}
		}
		out = append(out, f)
	}
	return out, true
}

// simple value types an inline map and all of its siblings can share
var matchable = []reflect.Type{tString, reflect.TypeOf(int64(0)), reflect.TypeOf(uint16(0)), reflect.TypeOf(float64(0)), reflect.TypeOf(false), tDuration, reflect.TypeOf(Level(""))}

// inlineMapStruct builds the legal shape "inline map next to named fields".
func (g *tgen) inlineMapStruct(depth int, ns *namespace) []reflect.StructField {
	r := g.r
	var fs []reflect.StructField
	if r.Intn(5) < 3 {
		g.shape("defect:inline-map[interface]+siblings")
		fs = g.genFields(depth, ns, 1+r.Intn(3))
		fs = append(fs, reflect.StructField{Name: "Dm", Type: reflect.MapOf(tString, tIfc), Tag: `config:",inline"`})
	} else {
		g.shape("defect:inline-map[T]+siblings-of-T")
		t := matchable[r.Intn(len(matchable))]
		for i, n := 0, 1+r.Intn(3); i < n && len(ns.pool) > 0; i++ {
			name := ns.pool[0]
			ns.pool = ns.pool[1:]
			f := reflect.StructField{Name: name, Type: t}
			if r.Intn(2) == 0 {
				f.Tag = reflect.StructTag(fmt.Sprintf(`config:"n%s"`, name))
			}
			fs = append(fs, f)
		}
		fs = append(fs, reflect.StructField{Name: "Dm", Type: reflect.MapOf(tString, t), Tag: `config:",inline"`})
	}
	r.Shuffle(len(fs), func(i, j int) { fs[i], fs[j] = fs[j], fs[i] })
	return fs
}

func (g *tgen) topType() reflect.Type {
	r := g.r
	ns := g.newNS()
	if g.defect == defNone && r.Intn(40) == 0 {
		return g.mapHolder(2)
	}
	fs := g.genFields(3, ns, 2+r.Intn(4))
	inject := func(t reflect.Type) {
		f := reflect.StructField{Name: "Dx", Type: t}
		if r.Intn(2) == 0 {
			f.Tag = `config:"nDx"`
		}
		at := r.Intn(len(fs) + 1)
		fs = append(fs, reflect.StructField{})
		copy(fs[at+1:], fs[at:])
		fs[at] = f
	}
	switch g.defect {
	case defPtrArray:
		base := reflect.PtrTo(reflect.ArrayOf(1+r.Intn(3), []reflect.Type{prims[1], tString, prims[10], reflect.TypeOf(Endpoint{})}[r.Intn(4)]))
		switch w := r.Intn(7); w {
		case 0, 1:
			g.shape("defect:*[N]T-field")
			inject(base)
		case 2:
			g.shape("defect:**[N]T-field")
			inject(reflect.PtrTo(base))
		case 3:
			g.shape("defect:[]*[N]T")
			inject(reflect.SliceOf(base))
		case 4:
			g.shape("defect:map[string]*[N]T")
			inject(reflect.MapOf(tString, base))
		case 5:
			g.shape("defect:[2]*[N]T")
			inject(reflect.ArrayOf(2, base))
		default:
			g.shape("defect:struct{*[N]T}")
			inject(reflect.StructOf([]reflect.StructField{{Name: "X", Type: base}}))
		}
	case defPtrMapElem:
		base := reflect.PtrTo(reflect.MapOf(tString, []reflect.Type{prims[1], tString, tIfc, reflect.TypeOf([]int(nil))}[r.Intn(4)]))
		var c reflect.Type
		switch r.Intn(4) {
		case 0:
			g.shape("defect:[]*map")
			c = reflect.SliceOf(base)
		case 1:
			g.shape("defect:[N]*map")
			c = reflect.ArrayOf(1+r.Intn(2), base)
		case 2:
			g.shape("defect:map[string]*map")
			c = reflect.MapOf(tString, base)
		default:
			g.shape("defect:[]**map")
			c = reflect.SliceOf(reflect.PtrTo(base))
		}
		switch r.Intn(4) {
		case 0:
			c = reflect.PtrTo(c)
		case 1:
			c = reflect.StructOf([]reflect.StructField{{Name: "X", Type: c, Tag: `config:"x"`}})
		}
		inject(c)
	case defNamedKey:
		g.shape("defect:map[named-string]T")
		c := reflect.MapOf(reflect.TypeOf(Level("")), []reflect.Type{prims[1], tString, tIfc, tEndpoint}[r.Intn(4)])
		switch r.Intn(4) {
		case 0:
			c = reflect.PtrTo(c)
		case 1:
			c = reflect.SliceOf(c)
		case 2:
			c = reflect.StructOf([]reflect.StructField{{Name: "X", Type: c, Tag: `config:"x"`}})
		}
		inject(c)
	case defNamedPtr:
		base := namedPtrs[r.Intn(len(namedPtrs))]
		switch r.Intn(7) {
		case 0, 1:
			g.shape("named-pointer:field")
			inject(base)
		case 2:
			g.shape("named-pointer:*P-field")
			inject(reflect.PtrTo(base))
		case 3:
			g.shape("named-pointer:[]P")
			inject(reflect.SliceOf(base))
		case 4:
			g.shape("named-pointer:map[string]P")
			inject(reflect.MapOf(tString, base))
		case 5:
			g.shape("named-pointer:[2]P")
			inject(reflect.ArrayOf(2, base))
		default:
			g.shape("named-pointer:struct{P}")
			inject(reflect.StructOf([]reflect.StructField{{Name: "X", Type: base}}))
		}
	case defInlineMap:
		switch r.Intn(6) {
		case 0, 1, 2: // the top-level struct itself
			fs = g.inlineMapStruct(2, g.newNS())
		case 3: // a nested struct field
			inject(reflect.StructOf(g.inlineMapStruct(1, g.newNS())))
		case 4: // a list of such structs
			inject(reflect.SliceOf(reflect.StructOf(g.inlineMapStruct(1, g.newNS()))))
		default: // the inline map sits in an inline struct, its siblings are outside
			g.shape("defect:inline-map-inside-inline-struct")
			in := []reflect.StructField{{Name: "Dm", Type: reflect.MapOf(tString, tIfc), Tag: `config:",inline"`}}
			if r.Intn(2) == 0 && len(ns.pool) > 0 {
				in = append(in, reflect.StructField{Name: ns.pool[0], Type: g.prim()})
				ns.pool = ns.pool[1:]
			}
			fs = append(fs, reflect.StructField{Name: "Dn", Type: reflect.StructOf(in), Tag: `config:",inline"`})
		}
	}
	return reflect.StructOf(fs)
}

// typeStats counts transported fields and containers for the non-triviality rule.
func typeStats(t reflect.Type, fields, containers *int, seen int) {
	if seen > 12 {
		return
	}
	switch t.Kind() {
	case reflect.Ptr:
		if t != tRegexpP {
			typeStats(t.Elem(), fields, containers, seen+1)
		}
	case reflect.Slice, reflect.Array, reflect.Map:
		*containers++
		typeStats(t.Elem(), fields, containers, seen+1)
	case reflect.Struct:
		for i := 0; i < t.NumField(); i++ {
			f := t.Field(i)
			if f.PkgPath != "" || parseTag(f.Tag).ignore {
				continue
			}
			*fields++
			typeStats(f.Type, fields, containers, seen+1)
		}
	}
}

// ---------------------------------------------------------------------------
// value generator

type vgen struct {
	r       *rand.Rand
	res     *harness.R
	dotKeys bool // map keys may contain '.' (the value is then round-tripped without PathSep only)
	dotKey  bool // ... and one does
	defect  int
	force   bool // no nil pointers / empty collections (below an injected field)
	zero    bool // the zero value, except that list elements are never nil (outside the quantifier)
}

func (g *vgen) class(s string) { g.res.SetAdd("value_class", s) }

var strs = []string{"", "x", "${a}", "a.b", "1,2", "[x]", "{y:1}", "$$", "true", "007", " sp ", "ünï", "null", "${", "a:b", "%{x}", "line\nbreak"}
var regexps = []string{"", "a.*b", "^x$", "[0-9]+", `\$\{a\}`, "a,b|c.d"}
var mapKeys = []string{"k", "j", "kk", "Kx", "a$b", "x,y", "{z}", "ünï", " s p", "", "[w]", "k-1", "_", "${k}"}
var dotKeys = []string{"a.b", ".x", "y.", "1.5", "..", "k.0"}

// key draws a map key.
func (g *vgen) key() string {
	if g.dotKeys && g.r.Intn(8) == 0 {
		g.dotKey = true
		g.class("map-key:contains-dot")
		return dotKeys[g.r.Intn(len(dotKeys))]
	}
	return mapKeys[g.r.Intn(len(mapKeys))]
}

var durations = []int64{0, 1, -1, int64(time.Hour), int64(90 * time.Second), math.MaxInt64, math.MinInt64, 1500, int64(36*time.Hour + 7*time.Millisecond), -int64(time.Microsecond)}

func kindName(t reflect.Type) string {
	switch {
	case t == tDuration:
		return "duration"
	case t == tRegexpP:
		return "regexp"
	case t == tRegexpV:
		return "regexp-by-value"
	case t == tIfc:
		return "interface"
	}
	k := t.Kind().String()
	if t.Name() != "" && t.PkgPath() != "" {
		return "named-" + k
	}
	return k
}

func (g *vgen) ifc(depth int, inColl bool) interface{} {
	r := g.r
	x := r.Intn(12)
	if depth <= 0 && x >= 9 {
		x = 1 + r.Intn(8)
	}
	if (inColl || g.force) && x == 0 {
		x = 1
	}
	switch x {
	case 0:
		g.class("interface:nil")
		return nil
	case 1:
		g.class("interface:uint64")
		return []uint64{7, 0, math.MaxUint64, math.MaxInt64 + 1}[r.Intn(4)]
	case 2, 3:
		g.class("interface:string")
		return strs[r.Intn(len(strs))]
	case 4:
		g.class("interface:int64")
		return []int64{-5, 5, math.MinInt64, 0}[r.Intn(4)]
	case 5:
		g.class("interface:float64")
		return []float64{2.5, -0.125, 1e300, 3}[r.Intn(4)]
	case 6:
		g.class("interface:bool")
		return r.Intn(2) == 0
	case 7:
		g.class("interface:int")
		return []int{-3, 12}[r.Intn(2)]
	case 8:
		g.class("interface:float32")
		return float32(0.1)
	case 9, 10:
		g.class("interface:map")
		m := map[string]interface{}{}
		for i, n := 0, r.Intn(3); i < n; i++ {
			m[g.key()] = g.ifc(depth-1, true)
		}
		return m
	default:
		g.class("interface:list")
		l := []interface{}{}
		for i, n := 0, r.Intn(4); i < n; i++ {
			l = append(l, g.ifc(depth-1, true))
		}
		return l
	}
}

// zeroVal is the zero value of t with the one correction the quantifier
// demands: pointers and interfaces that are array elements are not nil.
func (g *vgen) zeroVal(t reflect.Type, inColl bool) reflect.Value {
	v := reflect.New(t).Elem()
	switch {
	case t == tRegexpP:
		if inColl {
			return reflect.ValueOf(regexp.MustCompile(""))
		}
	case t.Kind() == reflect.Ptr:
		if inColl {
			p := reflect.New(t.Elem())
			p.Elem().Set(g.zeroVal(t.Elem(), true))
			return p.Convert(t) // (t may be a named pointer type)
		}
	case t.Kind() == reflect.Interface:
		if inColl {
			v.Set(reflect.ValueOf(""))
		}
	case t.Kind() == reflect.Array:
		for i := 0; i < t.Len(); i++ {
			v.Index(i).Set(g.zeroVal(t.Elem(), true))
		}
	case t.Kind() == reflect.Struct:
		for i := 0; i < t.NumField(); i++ {
			if f := t.Field(i); f.PkgPath == "" {
				v.Field(i).Set(g.zeroVal(f.Type, isSpelling(f) && f.Type.Kind() == reflect.Ptr && !nilSpelling(f)))
			}
		}
	}
	return v
}

func (g *vgen) val(t reflect.Type, inColl bool) reflect.Value {
	if g.zero {
		return g.zeroVal(t, inColl)
	}
	r := g.r
	v := reflect.New(t).Elem()
	g.res.SetAdd("kind", kindName(t))
	switch t {
	case tDuration:
		d := durations[r.Intn(len(durations))]
		if r.Intn(3) == 0 {
			d = r.Int63() - r.Int63()
		}
		switch d {
		case math.MaxInt64:
			g.class("duration:max")
		case math.MinInt64:
			g.class("duration:min")
		case 0:
			g.class("duration:0")
		default:
			if d%int64(time.Second) != 0 {
				g.class("duration:sub-second")
			}
		}
		v.SetInt(d)
		return v
	case tRegexpP:
		if !inColl && !g.force && r.Intn(4) == 0 {
			g.class("regexp:nil")
			return v
		}
		s := regexps[r.Intn(len(regexps))]
		if s == "" {
			g.class("regexp:empty")
		}
		return reflect.ValueOf(regexp.MustCompile(s))
	case tRegexpV:
		if r.Intn(5) == 0 {
			g.class("regexp-by-value:zero")
			return v
		}
		g.class("regexp-by-value")
		return reflect.ValueOf(*regexp.MustCompile(regexps[r.Intn(len(regexps))]))
	}
	switch t.Kind() {
	case reflect.Bool:
		v.SetBool(r.Intn(2) == 0)
	case reflect.Int, reflect.Int8, reflect.Int16, reflect.Int32, reflect.Int64:
		bits := uint(t.Bits())
		min, max := int64(-1)<<(bits-1), int64(1)<<(bits-1)-1
		var x int64
		switch r.Intn(8) {
		case 0:
			x = 0
			g.class("int:0")
		case 1:
			x = min
			g.class("int:min")
		case 2:
			x = max
			g.class("int:max")
		case 3:
			x = -1
		case 4:
			x = 1
		case 5:
			x = min + 1
		default:
			x = r.Int63()>>(64-bits) - r.Int63()>>(64-bits)
		}
		v.SetInt(x)
	case reflect.Uint, reflect.Uint8, reflect.Uint16, reflect.Uint32, reflect.Uint64, reflect.Uintptr:
		bits := uint(t.Bits())
		max := uint64(math.MaxUint64) >> (64 - bits)
		var x uint64
		switch r.Intn(7) {
		case 0:
			x = 0
			g.class("uint:0")
		case 1:
			x = max
			g.class("uint:max")
		case 2:
			x = max/2 + 1
		case 3:
			x = max / 2
		case 4:
			x = 1
		default:
			x = r.Uint64() >> (64 - bits)
		}
		if x > math.MaxInt64 {
			g.class("uint64:>MaxInt64")
		}
		v.SetUint(x)
	case reflect.Float32:
		c := []float64{0, 1.5, -2.25, math.MaxFloat32, -math.MaxFloat32, math.SmallestNonzeroFloat32, float64(float32(0.1)), math.Inf(1), math.Inf(-1), math.NaN(), math.Copysign(0, -1), float64(float32(r.NormFloat64() * 1e10)), 16777217}
		g.floatVal(v, c[r.Intn(len(c))], "float32")
	case reflect.Float64:
		c := []float64{0, 1.5, -2.25, math.MaxFloat64, -math.MaxFloat64, math.SmallestNonzeroFloat64, 0.1, math.Inf(1), math.Inf(-1), math.NaN(), math.Copysign(0, -1), 1e19, math.Pow(2, 63), math.Pow(2, 53) + 2, r.NormFloat64() * 1e-7, float64(math.MaxInt64)}
		g.floatVal(v, c[r.Intn(len(c))], "float64")
	case reflect.String:
		s := strs[r.Intn(len(strs))]
		if strings.ContainsAny(s, "$") {
			g.class("string:dollar")
		}
		if strings.ContainsAny(s, ".,") {
			g.class("string:dot-or-comma")
		}
		if strings.ContainsAny(s, "{}[]") {
			g.class("string:brackets")
		}
		if s == "" {
			g.class("string:empty")
		}
		v.SetString(s)
	case reflect.Ptr:
		if t.Elem().Kind() == reflect.Array && g.defect != defPtrArray {
			g.class("ptr-to-array:nil")
			return v // a non-nil *[N]T is the known defect, generated only on purpose
		}
		if !inColl && !g.force && r.Intn(4) == 0 {
			g.class("ptr:nil")
			return v
		}
		p := reflect.New(t.Elem())
		e := g.val(t.Elem(), inColl)
		if e.Kind() == reflect.Ptr && e.IsNil() {
			g.class("ptr:chain-ending-in-nil")
		}
		p.Elem().Set(e)
		return p.Convert(t) // (t may be a named pointer type)
	case reflect.Slice:
		x := r.Intn(6)
		if g.force && x < 2 {
			x = 2
		}
		if x == 0 {
			g.class("slice:nil")
			return v
		}
		n := 0
		if x > 1 {
			n = 1 + r.Intn(3)
		} else {
			g.class("slice:empty")
		}
		s := reflect.MakeSlice(t, n, n)
		for i := 0; i < n; i++ {
			s.Index(i).Set(g.val(t.Elem(), true))
		}
		return s
	case reflect.Array:
		for i := 0; i < t.Len(); i++ {
			v.Index(i).Set(g.val(t.Elem(), true))
		}
	case reflect.Map:
		if t.Key().Kind() != reflect.String {
			// only behind an ignore tag
			if r.Intn(2) == 0 {
				m := reflect.MakeMap(t)
				m.SetMapIndex(reflect.New(t.Key()).Elem(), g.val(t.Elem(), true))
				return m
			}
			return v
		}
		x := r.Intn(6)
		if g.force && x < 2 {
			x = 2
		}
		if x == 0 {
			g.class("map:nil")
			return v
		}
		m := reflect.MakeMap(t)
		if x == 1 {
			g.class("map:empty")
			return m
		}
		for i, n := 0, 1+r.Intn(3); i < n; i++ {
			k := g.key()
			m.SetMapIndex(reflect.ValueOf(k).Convert(t.Key()), g.val(t.Elem(), true))
		}
		return m
	case reflect.Interface:
		if x := g.ifc(2, inColl); x != nil {
			v.Set(reflect.ValueOf(x))
		}
	case reflect.Struct:
		for i := 0; i < t.NumField(); i++ {
			f := t.Field(i)
			if f.PkgPath != "" {
				continue
			}
			saved := g.force
			if f.Name == "Dx" && g.defect != defNone {
				g.force = true
			}
			switch {
			case f.Tag.Get(spellKey) == "twin-nil":
				// the twin of a field of the same name: stays nil
			case nilSpelling(f) && !g.force && r.Intn(5) == 0:
				// one of several spellings of a namespace, and nil: it defines nothing
				g.class("ptr:nil-spelling-of-shared-namespace")
			case isSpelling(f) && f.Type.Kind() == reflect.Ptr:
				p := reflect.New(f.Type.Elem())
				p.Elem().Set(g.val(f.Type.Elem(), false))
				v.Field(i).Set(p)
				g.class("ptr:spelling-of-shared-namespace")
			default:
				v.Field(i).Set(g.val(f.Type, false))
			}
			g.force = saved
		}
		g.private(v)
	case reflect.Chan:
		if r.Intn(2) == 0 {
			return reflect.MakeChan(t, 1)
		}
	case reflect.Func:
		if r.Intn(2) == 0 {
			return reflect.MakeFunc(t, func([]reflect.Value) []reflect.Value { return nil })
		}
	case reflect.Complex128:
		v.SetComplex(complex(1, -2))
	}
	return v
}

func (g *vgen) floatVal(v reflect.Value, f float64, kind string) {
	switch {
	case math.IsNaN(f):
		g.class(kind + ":NaN")
	case math.IsInf(f, 0):
		g.class(kind + ":Inf")
	case f == 0 && math.Signbit(f):
		g.class(kind + ":-0")
	case math.Abs(f) == math.MaxFloat64 || math.Abs(f) == math.MaxFloat32:
		g.class(kind + ":max")
	case math.Abs(f) == math.SmallestNonzeroFloat64 || math.Abs(f) == math.SmallestNonzeroFloat32:
		g.class(kind + ":smallest")
	}
	v.SetFloat(f)
}

// private fills the unexported fields of the hand-written structs: they are
// not transported and must not disturb the exported ones.
func (g *vgen) private(v reflect.Value) {
	if !v.CanAddr() || g.r.Intn(3) == 0 {
		return
	}
	switch p := v.Addr().Interface().(type) {
	case *Hidden:
		n := 42
		p.priv, p.note = "private", &n
		g.class("unexported:set")
	case *Mixed:
		p.count, p.secret = 3, []byte("s")
		g.class("unexported:set")
	case *Opaque:
		p.a, p.b = 1, 2
		g.class("unexported:set")
	}
}

// ---------------------------------------------------------------------------
// rendering

func show(v reflect.Value) string {
	var b strings.Builder
	showTo(&b, v, 0)
	return b.String()
}

func showTo(b *strings.Builder, v reflect.Value, depth int) {
	if depth > 24 {
		b.WriteString("...")
		return
	}
	t := v.Type()
	if t == tRegexpP {
		if v.IsNil() {
			b.WriteString("nil")
		} else {
			fmt.Fprintf(b, "re(%q)", regexpText(v))
		}
		return
	}
	if t == tDuration {
		fmt.Fprintf(b, "%dns", v.Int())
		return
	}
	if t == tRegexpV {
		fmt.Fprintf(b, "re-by-value(%q)", regexpVText(v))
		return
	}
	switch v.Kind() {
	case reflect.Bool:
		fmt.Fprintf(b, "%v", v.Bool())
	case reflect.Int, reflect.Int8, reflect.Int16, reflect.Int32, reflect.Int64:
		fmt.Fprintf(b, "%d", v.Int())
	case reflect.Uint, reflect.Uint8, reflect.Uint16, reflect.Uint32, reflect.Uint64, reflect.Uintptr:
		fmt.Fprintf(b, "%d", v.Uint())
	case reflect.Float32, reflect.Float64:
		f := v.Float()
		if f == 0 && math.Signbit(f) {
			b.WriteString("-0")
		} else {
			fmt.Fprintf(b, "%v", f)
		}
	case reflect.String:
		fmt.Fprintf(b, "%q", v.String())
	case reflect.Ptr:
		if v.IsNil() {
			b.WriteString("nil")
			return
		}
		b.WriteByte('&')
		showTo(b, v.Elem(), depth+1)
	case reflect.Interface:
		if v.IsNil() {
			b.WriteString("nil")
			return
		}
		e := v.Elem()
		switch e.Kind() {
		case reflect.Map, reflect.Slice, reflect.String:
		default:
			b.WriteString(e.Type().String())
		}
		b.WriteByte('(')
		showTo(b, e, depth+1)
		b.WriteByte(')')
	case reflect.Slice, reflect.Array:
		if v.Kind() == reflect.Slice && v.IsNil() {
			b.WriteString("nil[]")
			return
		}
		b.WriteByte('[')
		for i := 0; i < v.Len(); i++ {
			if i > 0 {
				b.WriteByte(' ')
			}
			showTo(b, v.Index(i), depth+1)
		}
		b.WriteByte(']')
	case reflect.Map:
		if v.IsNil() {
			b.WriteString("nil{}")
			return
		}
		keys := v.MapKeys()
		sort.Slice(keys, func(i, j int) bool { return fmt.Sprint(keys[i]) < fmt.Sprint(keys[j]) })
		b.WriteByte('{')
		for i, k := range keys {
			if i > 0 {
				b.WriteByte(' ')
			}
			if k.Kind() == reflect.String {
				fmt.Fprintf(b, "%q:", k.String())
			} else {
				fmt.Fprintf(b, "%v:", k)
			}
			showTo(b, v.MapIndex(k), depth+1)
		}
		b.WriteByte('}')
	case reflect.Struct:
		b.WriteByte('{')
		for i := 0; i < v.NumField(); i++ {
			if i > 0 {
				b.WriteByte(' ')
			}
			b.WriteString(t.Field(i).Name)
			b.WriteByte(':')
			showTo(b, v.Field(i), depth+1)
		}
		b.WriteByte('}')
	case reflect.Chan, reflect.Func:
		if v.IsNil() {
			b.WriteString("nil")
		} else {
			b.WriteString("<" + v.Kind().String() + ">")
		}
	case reflect.Complex64, reflect.Complex128:
		fmt.Fprintf(b, "%v", v.Complex())
	default:
		b.WriteString("?")
	}
}

func regexpText(v reflect.Value) string {
	return v.Interface().(*regexp.Regexp).String()
}

// regexpVText: the source text of a regexp.Regexp held by value.
func regexpVText(v reflect.Value) string {
	r := v.Interface().(regexp.Regexp)
	return r.String()
}

func clip(s string, n int) string {
	if len(s) > n {
		return s[:n] + "...(clipped)"
	}
	return s
}

// ---------------------------------------------------------------------------
// comparison: exactly the equivalences of the property

type deviation struct{ sig, detail string }

type comparer struct {
	sep        bool
	devs       []deviation
	inShared   int // > 0 while comparing below a namespace spelled by several fields
	sameName   int // > 0 while comparing a field whose name another field of the struct has too
	oddName    int // > 0 while comparing a field renamed to punctuation or to an option word
	holders    int
	settings   int            // leaf comparisons below such a namespace
	inlining   []reflect.Type // struct types inlined through a pointer, outermost first
	namesDepth int
}

// at names the place of a value for the signature.
func (c *comparer) at(t reflect.Type, parent string) string {
	if c.oddName > 0 {
		return kindName(t) + "@odd-name/" + parent
	}
	if c.sameName > 0 {
		return kindName(t) + "@same-name/" + parent
	}
	if c.inShared > 0 {
		return kindName(t) + "@shared-ns/" + parent
	}
	return kindName(t) + "@" + parent
}

func (c *comparer) add(sig, format string, a ...interface{}) {
	if len(c.devs) < 6 {
		c.devs = append(c.devs, deviation{sig, fmt.Sprintf(format, a...)})
	}
}

// chainLen counts the non-nil pointers v starts with.
func chainLen(v reflect.Value) int {
	n := 0
	for v.Kind() == reflect.Ptr && !v.IsNil() {
		n++
		v = v.Elem()
	}
	return n
}

// inlined: what a field tagged inline stands for. A nil pointer there stands
// for the zero value (empty map): nothing in the Config could say otherwise.
func inlined(v reflect.Value) reflect.Value {
	for v.Kind() == reflect.Ptr {
		if v.IsNil() {
			return reflect.Zero(chaseT(v.Type()))
		}
		v = v.Elem()
	}
	return v
}

func nilChain(v reflect.Value) bool {
	for v.Kind() == reflect.Ptr {
		if v.IsNil() {
			return true
		}
		v = v.Elem()
	}
	return false
}

func sameFloat(a, b float64) bool {
	if math.IsNaN(a) || math.IsNaN(b) {
		return math.IsNaN(a) && math.IsNaN(b)
	}
	return math.Float64bits(a) == math.Float64bits(b)
}

func ifcOf(v reflect.Value) interface{} {
	if v.IsNil() {
		return nil
	}
	return v.Interface()
}

// eq compares the source a with the result b. parent names the container the
// value sits in (for the signature).
func (c *comparer) eq(a, b reflect.Value, path, parent string, node *nameNode) {
	t := a.Type()
	where := c.at(t, parent)
	if c.inShared > 0 {
		switch t.Kind() {
		case reflect.Ptr, reflect.Struct, reflect.Slice, reflect.Array, reflect.Map:
		default:
			c.settings++
		}
	}
	if t == tRegexpP {
		switch {
		case a.IsNil() && b.IsNil():
		case a.IsNil() != b.IsNil():
			c.add("nil-ness-differs:"+where, "%s: source nil=%v, result nil=%v", path, a.IsNil(), b.IsNil())
		case regexpText(a) != regexpText(b):
			c.add("value-differs:"+where, "%s: regexp %q came back as %q", path, regexpText(a), regexpText(b))
		}
		return
	}
	if t == tRegexpV {
		if regexpVText(a) != regexpVText(b) {
			c.add("value-differs:"+where, "%s: regexp %q came back as %q", path, regexpVText(a), regexpVText(b))
		}
		return
	}
	switch t.Kind() {
	case reflect.Bool:
		if a.Bool() != b.Bool() {
			c.add("value-differs:"+where, "%s: %v came back as %v", path, a.Bool(), b.Bool())
		}
	case reflect.Int, reflect.Int8, reflect.Int16, reflect.Int32, reflect.Int64:
		if a.Int() != b.Int() {
			c.add("value-differs:"+where, "%s: %d came back as %d", path, a.Int(), b.Int())
		}
	case reflect.Uint, reflect.Uint8, reflect.Uint16, reflect.Uint32, reflect.Uint64, reflect.Uintptr:
		if a.Uint() != b.Uint() {
			c.add("value-differs:"+where, "%s: %d came back as %d", path, a.Uint(), b.Uint())
		}
	case reflect.Float32, reflect.Float64:
		if !sameFloat(a.Float(), b.Float()) {
			c.add("value-differs:"+where, "%s: %v came back as %v (bits %x vs %x)", path, a.Float(), b.Float(), math.Float64bits(a.Float()), math.Float64bits(b.Float()))
		}
	case reflect.String:
		if a.String() != b.String() {
			c.add("value-differs:"+where, "%s: %q came back as %q", path, a.String(), b.String())
		}
	case reflect.Ptr:
		an, bn := nilChain(a), nilChain(b)
		if an || bn {
			switch da, db := chainLen(a), chainLen(b); {
			case an != bn:
				c.add("nil-ness-differs:"+where, "%s: source %s, result %s", path, show(a), show(b))
			case da > 0 && db == 0:
				// the statement exempts nil pointers as elements of lists and
				// maps only: a pointer to a nil pointer is not nil
				c.add("pointer-to-nil-pointer-comes-back-nil", "%s: source %s (%d non-nil levels, then nil), result %s", path, show(a), da, show(b))
			case da != db:
				c.add("nil-ness-differs:"+where, "%s: source %s, result %s", path, show(a), show(b))
			}
			return
		}
		c.eq(a.Elem(), b.Elem(), path+"*", "ptr", node)
	case reflect.Interface:
		ca, cb := model.CanonIfc(ifcOf(a)), model.CanonIfc(ifcOf(b))
		if ca != cb {
			c.add("value-differs:"+where, "%s: interface value %s came back as %s", path, ca, cb)
		}
	case reflect.Slice, reflect.Array:
		if a.Len() != b.Len() {
			c.add("length-differs:"+where, "%s: length %d came back as %d (%s vs %s)", path, a.Len(), b.Len(), clip(show(a), 300), clip(show(b), 300))
			return
		}
		for i := 0; i < a.Len(); i++ {
			var el *nameNode
			if node != nil && i < len(node.elems) {
				el = node.elems[i]
			}
			c.eq(a.Index(i), b.Index(i), fmt.Sprintf("%s[%d]", path, i), t.Kind().String(), el)
		}
	case reflect.Map:
		c.mapEq(a, b, path, parent, nil)
	case reflect.Struct:
		c.structEq(a, b, path, nil, node)
	default:
		c.add("uncomparable-kind", "%s: kind %v", path, t.Kind())
	}
}

// mapEq compares two string-keyed maps. siblings != nil marks an inline map:
// the names its neighbours contribute to the same namespace.
func (c *comparer) mapEq(a, b reflect.Value, path, parent string, siblings map[string]bool) {
	where := c.at(a.Type(), parent)
	var surplus, missing []string
	// an interface{} entry holding nil or an empty collection is canonically
	// the same as no entry (model.CanonIfc): nil == {} == [] == absent key
	absent := func(m, k reflect.Value) bool {
		e := m.MapIndex(k)
		return !e.IsValid() || (e.Kind() == reflect.Interface && model.CanonIfc(ifcOf(e)) == "nil")
	}
	for _, k := range b.MapKeys() {
		if absent(a, k) && !absent(b, k) {
			surplus = append(surplus, k.String())
		}
	}
	for _, k := range a.MapKeys() {
		if absent(a, k) {
			continue
		}
		bv := b.MapIndex(k)
		if !bv.IsValid() {
			missing = append(missing, k.String())
			continue
		}
		c.eq(a.MapIndex(k), bv, fmt.Sprintf("%s[%q]", path, k.String()), "map", nil)
	}
	sort.Strings(surplus)
	sort.Strings(missing)
	if len(missing) > 0 {
		c.add("map-keys-missing:"+where, "%s: keys %q of the source are not in the result %s", path, missing, clip(show(b), 300))
	}
	if len(surplus) > 0 {
		all := siblings != nil
		for _, k := range surplus {
			if !siblings[k] {
				all = false
			}
		}
		if all {
			c.add("inline-map-receives-sibling-keys", "%s: the inline map came back with the keys %q, which are the names of its sibling fields (source map %s, result map %s)", path, surplus, clip(show(a), 300), clip(show(b), 300))
		} else {
			c.add("map-keys-surplus:"+where, "%s: result has keys %q the source did not have (source %s, result %s)", path, surplus, clip(show(a), 300), clip(show(b), 300))
		}
	}
}

// names lists the top-level config names the fields of struct value v
// contribute, except field skip (-1: none). must: names that carry a value.
func (c *comparer) names(v reflect.Value, skip int, may, must map[string]bool) {
	t := v.Type()
	for i := 0; i < t.NumField(); i++ {
		f := t.Field(i)
		if i == skip || f.PkgPath != "" {
			continue
		}
		ti := parseTag(f.Tag)
		switch {
		case ti.ignore:
		case ti.inline && chaseT(f.Type).Kind() == reflect.Struct:
			// (a nil pointer stands for the zero value, whose own inlined
			// pointers are nil again: a type inlining itself ends here)
			if c.namesDepth < 8 {
				c.namesDepth++
				c.names(inlined(v.Field(i)), -1, may, must)
				c.namesDepth--
			}
		case ti.inline && chaseT(f.Type).Kind() == reflect.Map:
			for _, k := range inlined(v.Field(i)).MapKeys() {
				may[k.String()] = true
				must[k.String()] = true
			}
		case ti.inline:
			// an inlined list: no names
		default:
			n := topSeg(cfgName(f, ti), c.sep)
			may[n] = true
			fv := v.Field(i)
			isNil := (fv.Kind() == reflect.Ptr && nilChain(fv)) || (fv.Kind() == reflect.Interface && fv.IsNil())
			if !isNil {
				must[n] = true
			}
		}
	}
}

// node is the namespace the fields of a are settings of (nil: not tracked).
func (c *comparer) structEq(a, b reflect.Value, path string, outer map[string]bool, node *nameNode) {
	t := a.Type()
	if node == nil {
		// below a map or a list of lists: a name tree of its own
		c.holders++
		node = &nameNode{ns: true}
		c.tree(a, node, c.holders)
	}
	for i := 0; i < t.NumField(); i++ {
		f := t.Field(i)
		fp := path + "." + f.Name
		if f.PkgPath != "" {
			if !b.Field(i).IsZero() {
				c.add("unexported-field-written", "%s: unexported field is %s in the result", fp, show(b.Field(i)))
			}
			continue
		}
		ti := parseTag(f.Tag)
		sib := func() map[string]bool {
			m := map[string]bool{}
			for k := range outer {
				m[k] = true
			}
			c.names(a, i, m, map[string]bool{})
			return m
		}
		switch {
		case ti.ignore:
			if !b.Field(i).IsZero() {
				c.add("ignored-field-written", "%s: field tagged ignore is %s in the result (source %s)", fp, clip(show(b.Field(i)), 200), clip(show(a.Field(i)), 200))
			}
		case ti.inline && chaseT(f.Type).Kind() == reflect.Struct:
			// the struct types inlined through a pointer on the way here (named
			// fields crossed or not)
			if f.Type.Kind() == reflect.Ptr && nilChain(a.Field(i)) && nilChain(b.Field(i)) {
				continue // nil on both sides (a type that inlines itself ends so)
			}
			base, depth, before := chaseT(f.Type), len(c.inlining), len(c.devs)
			again := false
			for _, have := range c.inlining {
				again = again || have == base
			}
			if f.Type.Kind() == reflect.Ptr {
				c.inlining = append(c.inlining, base)
			}
			c.structEq(inlined(a.Field(i)), inlined(b.Field(i)), fp, sib(), node)
			c.inlining = c.inlining[:depth]
			lost := false // something other than the nil-ness of a pointer to a nil pointer (a null in the Config)
			for _, d := range c.devs[before:] {
				lost = lost || d.sig != "pointer-to-nil-pointer-comes-back-nil"
			}
			if f.Type.Kind() == reflect.Ptr && lost && !nilChain(a.Field(i)) && nilChain(b.Field(i)) {
				// the inlined pointer was set and held something, and came back
				// nil: one finding, not one per setting below it
				n := len(c.devs) - before
				c.devs = c.devs[:before]
				sig := "inline-pointer-comes-back-nil"
				if again {
					sig = "inline-pointer-comes-back-nil:type-inlined-again-below-a-named-field"
				}
				c.add(sig, "%s: the inlined pointer %s came back nil (%d settings below it lost); struct types inlined through pointers on the way: %v", fp, clip(show(a.Field(i)), 300), n, c.inlining)
			}
		case ti.inline && chaseT(f.Type).Kind() == reflect.Map:
			c.mapEq(inlined(a.Field(i)), inlined(b.Field(i)), fp, "inline", sib())
		case ti.inline:
			c.eq(a.Field(i), b.Field(i), fp, "inline", nil)
		default:
			// the namespaces the name of the field leads through, and the one it names
			n, sh := node, false
			for _, seg := range segments(cfgName(f, ti), c.sep) {
				if n = n.step(seg); n == nil {
					break
				}
				sh = sh || n.shared()
			}
			if sh {
				c.inShared++
			}
			twin := n != nil && n.leafDefs >= 2
			if twin {
				c.sameName++
			}
			segs := segments(cfgName(f, ti), c.sep)
			odd := isOddName(segs[len(segs)-1])
			if odd {
				c.oddName++
			}
			switch fa, fb := a.Field(i), b.Field(i); {
			case n.shared() && fa.Kind() == reflect.Ptr && chaseT(f.Type).Kind() == reflect.Struct && nilChain(fa) && !nilChain(fb):
				// a nil pointer among the spellings of a namespace defines
				// nothing - and comes back pointing to a struct
				c.add("nil-pointer-spelling-comes-back-allocated", "%s: source nil, result %s; the other fields spelling the namespace have filled it", fp, clip(show(fb), 300))
			case twin && fa.Kind() == reflect.Ptr && nilChain(fa) && !nilChain(fb):
				// Merge has accepted the two fields of one name because this
				// one is nil - and Unpack reads the other one's value into it
				c.add("same-name-fields:nil-one-receives-the-others-value", "%s: source nil, result %s; another field of the struct has the same config name and holds that value", fp, clip(show(fb), 300))
			default:
				c.eq(fa, fb, fp, "field", n)
			}
			if odd {
				c.oddName--
			}
			if twin {
				c.sameName--
			}
			if sh {
				c.inShared--
			}
		}
	}
}

// ---------------------------------------------------------------------------
// the names a value contributes to the Config, derived from type and value
// alone: which namespaces exist, which settings they hold, and which of them
// are spelled by more than one field

type definer struct {
	form   string // struct, ptr-to-struct, array, slice, dotted
	holder int    // the struct value the field belongs to (inline structs: their holder)
}

type nameNode struct {
	kids     map[string]*nameNode
	elems    []*nameNode // a list namespace: its elements
	must     bool        // some field puts a value there (otherwise the name may exist)
	ns       bool        // a namespace whose names are all known
	definers []definer   // the fields spelling this namespace, in declaration order
	subDefs  int         // how many of them hold a whole sub-namespace (struct or list of structs)
	leafDefs int         // how many fields name this very setting (not a namespace)
}

func (n *nameNode) kid(name string) *nameNode {
	if n.kids == nil {
		n.kids = map[string]*nameNode{}
	}
	k := n.kids[name]
	if k == nil {
		k = &nameNode{}
		n.kids[name] = k
	}
	return k
}

func (n *nameNode) elem(i int) *nameNode {
	for len(n.elems) <= i {
		n.elems = append(n.elems, nil)
	}
	if n.elems[i] == nil {
		n.elems[i] = &nameNode{}
	}
	return n.elems[i]
}

// isOddName: a config name without a letter or digit, or one of the words
// that are options when they follow a comma.
func isOddName(name string) bool {
	switch name {
	case "inline", "squash", "ignore", "merge", "replace", "append", "prepend":
		return true
	}
	for _, ch := range name {
		if unicode.IsLetter(ch) || unicode.IsDigit(ch) {
			return false
		}
	}
	return name != ""
}

func allOdd(names []string) bool {
	for _, n := range names {
		if !isOddName(n) {
			return false
		}
	}
	return len(names) > 0
}

func segIndex(seg string) (int, bool) {
	if seg == "" || len(seg) > 3 {
		return 0, false
	}
	x := 0
	for _, ch := range seg {
		if ch < '0' || ch > '9' {
			return 0, false
		}
		x = x*10 + int(ch-'0')
	}
	return x, true
}

func segments(name string, sep bool) []string {
	if sep {
		return strings.Split(name, ".")
	}
	return []string{name}
}

// step follows one path segment without creating anything.
func (n *nameNode) step(seg string) *nameNode {
	if n == nil {
		return nil
	}
	if i, ok := segIndex(seg); ok && len(n.elems) > 0 {
		if i < len(n.elems) {
			return n.elems[i]
		}
		return nil
	}
	return n.kids[seg]
}

// shared: the namespace is put together from several fields and at least one
// of them brings a sub-namespace of its own, or they sit in different structs
// (so that whole sub-namespaces have to be united, not single settings added).
func (n *nameNode) shared() bool {
	if n == nil || len(n.definers) < 2 {
		return false
	}
	if n.subDefs > 0 {
		return true
	}
	for _, d := range n.definers[1:] {
		if d.holder != n.definers[0].holder {
			return true
		}
	}
	return false
}

func chaseV(v reflect.Value) reflect.Value {
	for v.Kind() == reflect.Ptr && v.Type() != tRegexpP && !v.IsNil() {
		v = v.Elem()
	}
	return v
}

// tree adds the names struct value v contributes to namespace node.
func (c *comparer) tree(v reflect.Value, node *nameNode, holder int) {
	t := v.Type()
	for i := 0; i < t.NumField(); i++ {
		f := t.Field(i)
		if f.PkgPath != "" {
			continue
		}
		ti := parseTag(f.Tag)
		fv := v.Field(i)
		switch {
		case ti.ignore:
			continue
		case ti.inline && chaseT(f.Type).Kind() == reflect.Struct:
			if !nilChain(fv) {
				c.tree(inlined(fv), node, holder)
			}
			continue
		case ti.inline && chaseT(f.Type).Kind() == reflect.Map:
			for _, k := range inlined(fv).MapKeys() {
				node.kid(k.String()).must = true
			}
			continue
		case ti.inline:
			continue // an inlined list: elements of the namespace itself, no names
		}
		isNil := (fv.Kind() == reflect.Ptr && nilChain(fv)) || (fv.Kind() == reflect.Interface && fv.IsNil())
		segs := segments(cfgName(f, ti), c.sep)
		n := node
		for j, seg := range segs {
			if x, ok := segIndex(seg); ok && j > 0 {
				n = n.elem(x)
			} else {
				n = n.kid(seg)
			}
			if !isNil {
				n.must = true
			}
			if j < len(segs)-1 {
				n.ns = true
				n.definers = append(n.definers, definer{"dotted", holder})
			}
		}
		if k := chaseT(f.Type).Kind(); (k != reflect.Struct && k != reflect.Map && k != reflect.Interface) || chaseT(f.Type) == tRegexpV {
			n.leafDefs++
		}
		if isNil {
			if fv.Kind() == reflect.Ptr && chaseT(f.Type).Kind() == reflect.Struct && chaseT(f.Type) != tRegexpV {
				// spells the namespace by its type, defines nothing by its value
				n.definers = append(n.definers, definer{"nil-ptr-to-struct", holder})
				n.subDefs++
			}
			continue
		}
		cv := chaseV(fv)
		form := ""
		if fv.Kind() == reflect.Ptr {
			form = "ptr-to-"
		}
		switch {
		case cv.Type() == tRegexpV:
			// a setting, not a namespace
		case cv.Kind() == reflect.Struct:
			c.holders++
			n.ns = true
			n.definers = append(n.definers, definer{form + "struct", holder})
			n.subDefs++
			c.tree(cv, n, c.holders)
		case (cv.Kind() == reflect.Array || cv.Kind() == reflect.Slice) && chaseT(cv.Type().Elem()).Kind() == reflect.Struct && cv.Type().Elem() != tRegexpP && chaseT(cv.Type().Elem()) != tRegexpV:
			d := definer{form + cv.Kind().String(), holder}
			n.definers = append(n.definers, d)
			n.subDefs++
			for j := 0; j < cv.Len(); j++ {
				e := chaseV(cv.Index(j))
				if e.Kind() != reflect.Struct {
					continue // a nil element: outside the quantifier, not generated
				}
				c.holders++
				el := n.elem(j)
				el.must, el.ns = true, true
				el.definers = append(el.definers, d)
				el.subDefs++
				c.tree(e, el, c.holders)
			}
		}
	}
}

type nameDiff struct {
	path               string
	depth              int
	shared             bool
	unexpected, absent []string
	unreadable         string
}

// checkNames compares the names found in cfg with the namespace node, level
// by level, as far as the names are known (structs and lists of structs).
func checkNames(cfg *ucfg.Config, node *nameNode, path string, depth int, shared bool, out *[]nameDiff) {
	if depth > 24 {
		return
	}
	shared = shared || node.shared()
	d := nameDiff{path: path, depth: depth, shared: shared}
	got := map[string]bool{}
	for _, n := range cfg.GetFields() {
		got[n] = true
		if node.kids[n] == nil {
			d.unexpected = append(d.unexpected, n)
		}
	}
	var names []string
	for n, k := range node.kids {
		names = append(names, n)
		if k.must && !got[n] {
			d.absent = append(d.absent, n)
		}
	}
	if len(d.unexpected)+len(d.absent) > 0 {
		sort.Strings(d.unexpected)
		sort.Strings(d.absent)
		*out = append(*out, d)
	}
	sort.Strings(names)
	sub := func(name string, idx int, k *nameNode, p string, shared bool) {
		var s *ucfg.Config
		var err error
		if panicked, pv, _ := harness.Safe(func() { s, err = cfg.Child(name, idx) }); panicked {
			err = fmt.Errorf("Child panicked: %v", pv)
		}
		if err != nil || s == nil {
			if k.must {
				*out = append(*out, nameDiff{path: p, depth: depth + 1, shared: shared || k.shared(), unreadable: fmt.Sprint(err)})
			}
			return
		}
		checkNames(s, k, p, depth+1, shared, out)
	}
	for _, n := range names {
		k := node.kids[n]
		if !got[n] {
			continue
		}
		switch {
		case len(k.elems) > 0:
			for i, el := range k.elems {
				if el != nil && el.ns {
					sub(n, i, el, fmt.Sprintf("%s.%s.%d", path, n, i), shared || k.shared())
				}
			}
		case k.ns:
			sub(n, -1, k, path+"."+n, shared)
		}
	}
}

// sharedStats describes the namespaces of the tree that several fields spell:
// how many there are, how deep they nest into each other, who spells them.
func sharedStats(n *nameNode, nest int, isElem bool, count, maxNest *int, forms map[string]bool) {
	if n == nil {
		return
	}
	// (the elements of a shared list are not counted as one more level)
	if n.shared() && !isElem {
		nest++
		*count++
		if nest > *maxNest {
			*maxNest = nest
		}
		var fs []string
		for i, d := range n.definers {
			if i == 4 {
				fs = append(fs, "...")
				break
			}
			fs = append(fs, d.form)
		}
		forms[strings.Join(fs, ",")] = true
	}
	for _, k := range n.kids {
		sharedStats(k, nest, false, count, maxNest, forms)
	}
	for _, e := range n.elems {
		sharedStats(e, nest, n.shared(), count, maxNest, forms)
	}
}

// ---------------------------------------------------------------------------
// differential attribution of the two known "whole Unpack fails" shapes

// rewrite returns t with the suspect shape replaced by its closest accepted
// relative: mode defPtrArray: *[N]T -> *[]T; mode defPtrMapElem: *..*map as a
// list/map element -> map; mode defNamedKey: map[Level]T -> map[string]T.
// Named types are left alone.
func rewrite(t reflect.Type, mode int, elem bool) (reflect.Type, bool) {
	if t.PkgPath() != "" {
		return t, false
	}
	switch t.Kind() {
	case reflect.Ptr:
		if mode == defPtrArray && t.Elem().Kind() == reflect.Array {
			et, _ := rewrite(t.Elem().Elem(), mode, true)
			return reflect.PtrTo(reflect.SliceOf(et)), true
		}
		if mode == defPtrMapElem && elem && chaseT(t).Kind() == reflect.Map && chaseT(t).PkgPath() == "" {
			mt, _ := rewrite(chaseT(t), mode, false)
			return mt, true
		}
		if et, ch := rewrite(t.Elem(), mode, false); ch {
			return reflect.PtrTo(et), true
		}
	case reflect.Slice:
		if et, ch := rewrite(t.Elem(), mode, true); ch {
			return reflect.SliceOf(et), true
		}
	case reflect.Array:
		if et, ch := rewrite(t.Elem(), mode, true); ch {
			return reflect.ArrayOf(t.Len(), et), true
		}
	case reflect.Map:
		et, ch := rewrite(t.Elem(), mode, true)
		if mode == defNamedKey && t.Key().Kind() == reflect.String && t.Key() != tString {
			return reflect.MapOf(tString, et), true
		}
		if ch {
			return reflect.MapOf(t.Key(), et), true
		}
	case reflect.Struct:
		fs := make([]reflect.StructField, t.NumField())
		changed := false
		for i := range fs {
			f := t.Field(i)
			ft, ch := rewrite(f.Type, mode, false)
			changed = changed || ch
			fs[i] = reflect.StructField{Name: f.Name, Type: ft, Tag: f.Tag}
		}
		if changed {
			return reflect.StructOf(fs), true
		}
	}
	return t, false
}

// unpacksInto reports whether c unpacks without error or panic into a zero
// value of t.
func unpacksInto(c *ucfg.Config, t reflect.Type, opts []ucfg.Option) bool {
	var err error
	panicked, _, _ := harness.Safe(func() {
		err = c.Unpack(reflect.New(t).Interface(), opts...)
	})
	return !panicked && err == nil
}

func reason(err error) string {
	n := obs.ReasonName(err)
	for _, p := range []string{"other:", "raw:"} {
		if strings.HasPrefix(n, p) {
			return strings.TrimSuffix(p, ":")
		}
	}
	return n
}

func innermost(where string) string {
	f := where
	if i := strings.Index(f, "<"); i >= 0 {
		f = f[:i]
	}
	f = strings.TrimPrefix(f, "go-ucfg.")
	if f == "" {
		return "outside-ucfg"
	}
	return f
}

// ---------------------------------------------------------------------------
// the round trip

func (check) Run(seed int64, tier string, idx int, verbose bool) harness.Result {
	res := harness.NewR(idx)
	ti := idx / reuse(tier)
	tg := &tgen{r: rand.New(rand.NewSource(harness.Mix(seed, "C06type", ti))), forms: map[string]struct{}{}, shapes: map[string]struct{}{}, odd: map[string]struct{}{}}
	if ti%defectEvery == defectEvery-1 {
		tg.defect = 1 + (ti/defectEvery)%5
	}
	// every field gets a second set of names under another tag key
	T := addAlt(tg.topType())
	r := rand.New(rand.NewSource(harness.Mix(seed, "C06", idx)))
	ts := T.String()
	for f := range tg.forms {
		res.SetAdd("tag_form", f)
	}
	for s := range tg.shapes {
		res.SetAdd("shape", s)
	}
	for n := range tg.odd {
		res.SetAdd("odd_name", n)
	}
	shapes(res, T, "top", 0)
	res.SetAdd("defect_shape", defectNames[tg.defect])
	for _, d := range []struct {
		name string
		has  bool
	}{
		{"pointer_chain_to_struct_as_element", shapeProbes[len(shapeProbes)-1].present(T, reflect.Value{})},
		{"unusual_name", len(tg.odd) > 0},
		{"punctuation_or_option_word_name", func() bool {
			for n := range tg.odd {
				if isOddName(n) {
					return true
				}
			}
			return false
		}()},
		{"uintptr", typeHas(T, func(t reflect.Type) bool { return t.Kind() == reflect.Uintptr }, 0)},
		{"regexp_by_value", typeHas(T, func(t reflect.Type) bool { return t == tRegexpV }, 0)},
		{"inline_pointer", fieldHas(T, isInlineKind(reflect.Ptr), 0)},
		{"inline_list", fieldHas(T, isInlineKind(reflect.Slice, reflect.Array), 0)},
		{"same_name_fields", fieldHas(T, func(f reflect.StructField, _ tagInfo) bool { return f.Tag.Get(spellKey) == "twin-nil" }, 0)},
		{"named_pointer_type", typeHas(T, isNamedPtr, 0)},
		{"pointer_to_named_pointer_type", typeHas(T, func(t reflect.Type) bool { return t.Kind() == reflect.Ptr && isNamedPtr(t.Elem()) }, 0)},
		{"pointer_to_named_pointer_to_struct", typeHas(T, func(t reflect.Type) bool {
			return t.Kind() == reflect.Ptr && isNamedPtr(t.Elem()) && t.Elem().Elem().Kind() == reflect.Struct
		}, 0)},
	} {
		if d.has {
			res.Ev("cases_with_"+d.name, 1)
		}
	}
	var nf, nc int
	typeStats(T, &nf, &nc, 0)

	defaultTrips, altTrips := 0, 0
	for k := 0; k < valuesPerCase; k++ {
		vg := &vgen{r: r, res: res, defect: tg.defect, dotKeys: !tg.dotted}
		v := vg.val(T, false)
		vs := show(v)
		if verbose {
			fmt.Printf("type  %s\nvalue %s\ndotted=%v defect=%s\n", ts, vs, tg.dotted, defectNames[tg.defect])
		}
		if idx < 2 && k == 0 {
			res.Sample = map[string]interface{}{"type": clip(ts, 1500), "value": clip(vs, 1500)}
		}
		ok := true
		// the variants of the trip: a merge policy (the statement is about one
		// merge into an empty config: identity under every policy), and the
		// field names of another tag key - before or after the type has been
		// unpacked under the default key
		draw := func() (x variant) {
			if r.Intn(2) == 0 {
				x.policy = 1 + r.Intn(len(policies)-1)
				x.onUnpack = r.Intn(2) == 0
			}
			x.otherBefore = altTrips > 0
			return x
		}
		altTrip := func() {
			x := variant{alt: true, history: "type-not-unpacked-before"}
			if defaultTrips > 0 {
				x.history = "after-unpack-under-the-default-tag"
			}
			if altTrips > 0 && defaultTrips > 0 {
				x.history = "after-unpacks-under-both-tags"
			}
			x.otherBefore = defaultTrips > 0
			altTrips++
			// (with PathSep a map key containing the separator is a path: C05)
			variantTrip(res, T, v, !vg.dotKey, r.Intn(4), "value", ts, vs, verbose, x)
		}
		if k == 0 && idx%reuse(tier) == 0 && r.Intn(3) == 0 {
			altTrip()
		}
		if e := r.Intn(4); !vg.dotKey {
			ok = variantTrip(res, T, v, true, e, "value", ts, vs, verbose, draw())
			defaultTrips++
		}
		if !tg.dotted {
			ok = variantTrip(res, T, v, false, r.Intn(4), "value", ts, vs, verbose, draw()) && ok
			defaultTrips++
		}
		if r.Intn(2) == 0 {
			altTrip()
		}
		if ok && (nf >= 3 || nc >= 1) {
			h := fnv.New64a()
			h.Write([]byte(ts))
			h.Write([]byte{0})
			h.Write([]byte(vs))
			res.Key(fmt.Sprintf("%016x", h.Sum64()))
		}
	}
	if idx%reuse(tier) == 0 {
		z := (&vgen{zero: true}).val(T, false)
		roundTrip(res, T, z, true, 0, "zero-value", ts, show(z), verbose)
	}
	noFormProbe(res, r)
	recursiveTrip(res, r, verbose)
	return res.Done()
}

// shapes records the nesting pairs (container>element kind) of the type.
func shapes(res *harness.R, t reflect.Type, parent string, depth int) {
	if depth > 12 {
		return
	}
	k := kindName(t)
	if parent != "top" {
		res.SetAdd("shape", parent+">"+k)
	}
	switch t.Kind() {
	case reflect.Ptr:
		if t != tRegexpP {
			shapes(res, t.Elem(), "ptr", depth+1)
		}
	case reflect.Slice, reflect.Array, reflect.Map:
		shapes(res, t.Elem(), t.Kind().String(), depth+1)
	case reflect.Struct:
		for i := 0; i < t.NumField(); i++ {
			f := t.Field(i)
			ti := parseTag(f.Tag)
			if f.PkgPath != "" || ti.ignore {
				continue
			}
			p := "struct"
			if ti.inline {
				p = "inline"
			}
			shapes(res, f.Type, p, depth+1)
		}
	}
}

// roundTrip runs value -> Config -> zero value of T and reports deviations.
// It returns false if the pair did not make it through both library calls.
func roundTrip(res *harness.R, T reflect.Type, v reflect.Value, sep bool, entry int, what, ts, vs string, verbose bool) bool {
	return trip(res, T, v, sep, entry, what, ts, vs, verbose, variant{})
}

func trip(res *harness.R, T reflect.Type, v reflect.Value, sep bool, entry int, what, ts, vs string, verbose bool, x variant) bool {
	var opts []ucfg.Option
	mode := "no PathSep"
	if sep {
		opts = []ucfg.Option{ucfg.PathSep(".")}
		mode = `PathSep(".")`
	}
	if x.alt {
		// the oracle reads the same key as the library for this trip
		opts = append(opts, ucfg.StructTag(altKey))
		mode += ` StructTag("` + altKey + `")`
		defer func(k string) { tagKey = k }(tagKey)
		tagKey = altKey
	}
	// the options of the Merge step; Unpack gets the policy too one time in two
	mopts := opts
	if x.policy != 0 {
		mopts = append(opts[:len(opts):len(opts)], policies[x.policy].opt)
		mode += " Merge:" + policies[x.policy].name
		if x.onUnpack {
			opts = mopts
			mode += "+Unpack"
		}
	}
	res.SetAdd("mode", what+"/"+mode)
	witness := func() string {
		return fmt.Sprintf("%s; %s; type %s; value %s", what, mode, clip(ts, 2500), clip(vs, 2500))
	}

	var c *ucfg.Config
	var err error
	res.Eval(1)
	// the value is handed over by value, by pointer, or merged into New()
	how := "NewFrom(value)"
	panicked, pv, where := harness.Safe(func() {
		switch entry {
		case 1:
			how = "NewFrom(&value)"
			p := reflect.New(T)
			p.Elem().Set(v)
			c, err = ucfg.NewFrom(p.Interface(), mopts...)
		case 2:
			how = "New().Merge(value)"
			c = ucfg.New()
			err = c.Merge(v.Interface(), mopts...)
		default:
			c, err = ucfg.NewFrom(v.Interface(), mopts...)
		}
	})
	res.SetAdd("entry", how)
	if panicked {
		sig := "panic:" + innermost(where)
		if a := attribute(T, v, "merge", true, opts); a != "" {
			sig = a
		}
		res.Violate(sig, "%s panicked: %q at %s; %s", how, pv, where, witness())
		return false
	}
	if err != nil {
		if reason(err) == "ErrDuplicateKey" && fieldHas(T, func(f reflect.StructField, _ tagInfo) bool { return f.Tag.Get(spellKey) == "twin-nil" }, 0) {
			// two fields of one name: a type Merge may refuse (C09 says when)
			res.Ev("same_name_fields_refused_as_duplicate_key", 1)
			return false
		}
		sig := "merge-error:" + reason(err)
		if a := attribute(T, v, "merge", false, opts); a != "" {
			sig = a
		}
		res.Violate(sig, "%s failed (%s): %s; %s", how, reason(err), clip(message(err), 300), witness())
		return false
	}

	// the names the struct contributes are the names found in the Config
	// (Child and GetFields read the stored tree, nothing is evaluated)
	cmp := &comparer{sep: sep}
	root := &nameNode{ns: true}
	cmp.tree(v, root, 0)
	var diffs []nameDiff
	checkNames(c, root, "", 0, false, &diffs)
	for i, d := range diffs {
		if i >= 6 {
			break
		}
		where := "nested-namespace"
		if d.shared {
			where = "shared-namespace"
		}
		switch {
		case d.unreadable != "":
			res.Violate("config-"+where+"-unreadable", "the Config built from the value has no readable namespace at %q, which the value defines: %s; %s", d.path, clip(d.unreadable, 200), witness())
		case allOdd(append(append([]string{}, d.absent...), d.unexpected...)):
			res.Violate("config-names-differ:odd-names-only", "at %q the Config built from the value has the unexpected names %q and lacks %q - all of them punctuation or option words; %s", d.path, d.unexpected, d.absent, witness())
		case d.depth == 0:
			res.Violate("config-top-level-names-differ", "the Config built from the value has unexpected top-level names %q and lacks %q; %s", d.unexpected, d.absent, witness())
		default:
			if len(d.absent) > 0 {
				res.Violate("config-"+where+"-lacks-settings", "below %q the Config built from the value lacks the names %q (unexpected ones: %q); %s", d.path, d.absent, d.unexpected, witness())
			}
			if len(d.unexpected) > 0 {
				res.Violate("config-"+where+"-has-surplus-settings", "below %q the Config built from the value has the unexpected names %q (lacking: %q); %s", d.path, d.unexpected, d.absent, witness())
			}
		}
	}
	var nShared, nest int
	forms := map[string]bool{}
	sharedStats(root, 0, false, &nShared, &nest, forms)
	if nShared > 0 {
		res.Ev("shared_namespaces", int64(nShared))
		res.Ev("round_trips_with_shared_namespace", 1)
		if nest >= 2 {
			res.Ev("round_trips_with_shared_namespace_nested_in_another", 1)
		}
		res.SetAdd("shared_namespace_nesting", fmt.Sprint(nest))
		for f := range forms {
			res.SetAdd("shared_namespace_spellings", f)
		}
	}

	out := reflect.New(T)
	res.Eval(1)
	unpack := func() {
		panicked, pv, where = harness.Safe(func() { err = c.Unpack(out.Interface(), opts...) })
	}
	if typeHas(T, isNamedPtr, 0) {
		res.Ev("unpacks_into_named_pointer_types", 1)
	}
	if dx, ok := T.FieldByName("Dx"); ok && typeHas(dx.Type, isNamedPtr, 0) {
		// the every-80th rotation keeps the allocation bound; everywhere else
		// a runaway Unpack is left to the worker's address space limit
		res.Ev("unpacks_under_allocation_bound", 1)
		guardAlloc("unpack-into-named-pointer-type-allocates-without-bound", witness(), unpack)
	} else {
		unpack()
	}
	if panicked {
		sig := "panic:" + innermost(where)
		if alt, ch := rewrite(T, defPtrMapElem, false); ch && unpacksInto(c, alt, opts) {
			sig = "pointer-to-map-element-panics"
		} else if alt, ch := rewrite(T, defNamedKey, false); ch && unpacksInto(c, alt, opts) {
			sig = "named-string-map-key-panics"
		} else if a := attribute(T, v, "unpack", true, opts); a != "" {
			sig = a
		}
		res.Violate(sig, "Unpack panicked: %q at %s; %s", pv, where, witness())
		return false
	}
	if err != nil {
		sig := "unpack-error:" + reason(err)
		if alt, ch := rewrite(T, defPtrArray, false); ch && unpacksInto(c, alt, opts) {
			sig = "nil-pointer-to-array-rejected"
		} else if a := attribute(T, v, "unpack", false, opts); a != "" {
			sig = a
		} else if len(diffs) > 0 {
			// the Config did not hold what the value defines in the first place
			sig += "/config-names-differed"
		}
		res.Violate(sig, "Unpack into a zero value of the same type failed (%s): %s; %s", reason(err), clip(message(err), 300), witness())
		return false
	}
	if verbose {
		// after the Unpack under test: observing must not come before it
		d, derr := obs.Dict(c, opts...)
		fmt.Printf("%s %s: config %s (%v)\n", what, mode, d, derr)
	}
	cmp.structEq(v, out.Elem(), "", nil, root)
	for _, d := range cmp.devs {
		res.Violate(d.sig, "%s; result %s; %s", d.detail, clip(show(out.Elem()), 2500), witness())
	}
	res.Ev("settings_compared_below_shared_namespaces", int64(cmp.settings))
	res.Ev("round_trips", 1)
	return true
}

func message(err error) string {
	if e, ok := err.(ucfg.Error); ok {
		return e.Message()
	}
	return err.Error()
}
