package c06

// Recursive struct types. reflect.StructOf can not build a type that refers to
// itself, so the types whose values nest to any depth are written by hand: a
// struct reaches itself - or a type that inlines it once more - through a
// named pointer field, a named slice, a map value, by value or by pointer,
// with the recursion passing through inlined structs or not. The values are
// drawn at random down to a depth budget of 2-4 named steps and go through the
// very same round trip and reflection comparison as the generated types.

import (
	"math/rand"
	"reflect"
	"time"

	"verif/internal/harness"
)

// a tag of the generator (not of the library): the field stays nil in every
// value. A struct that inlines a pointer to its own type has one setting name
// for the field of the holder and the field of the inlined copy: only the nil
// pointer is a value of that type without a duplicate key.
const nilKey, nilVal = "verif", "self"

// shape "inline-pointer-through-named-pointer": Outer inlines *Mid, Mid
// reaches Wrap through a named pointer, Wrap inlines *Mid again.
type RpOuter struct {
	*RpMid `config:",inline"`
	Tag    string `config:"tag"`
}
type RpMid struct {
	W    int     `config:"w"`
	Next *RpWrap `config:"next"`
}
type RpWrap struct {
	*RpMid `config:",inline"`
}

// shape "inline-pointer-through-named-slice": the wrappers are elements of a
// named slice (by value and by pointer).
type RsOuter struct {
	*RsMid `config:",inline"`
}
type RsMid struct {
	W    uint16    `config:"w"`
	Kids []RsWrap  `config:"kids"`
	More []*RsWrap `config:"more"`
}
type RsWrap struct {
	*RsMid `config:",squash"`
	Label  string
}

// shape "inline-pointer-through-map-value"
type RmOuter struct {
	Name   string
	*RmMid `config:",inline"`
}
type RmMid struct {
	D   time.Duration      `config:"d"`
	By  map[string]RmWrap  `config:"by"`
	Ptr map[string]*RmWrap `config:"ptr"`
}
type RmWrap struct {
	*RmMid `config:",inline"`
}

// shape "inline-value-through-named-pointer": the same by value (the
// recursion passes through the named pointer only).
type RvOuter struct {
	RvMid `config:",inline"`
}
type RvMid struct {
	W    int64   `config:"w"`
	S    string  `config:"s"`
	Next *RvWrap `config:"next"`
}
type RvWrap struct {
	RvMid `config:",inline"`
	Extra bool
}

// shape "two-inline-pointers-then-named-pointer": Outer inlines *A, A inlines
// *B, B names Outer.
type RcOuter struct {
	*RcA `config:",inline"`
}
type RcA struct {
	X    int8 `config:"x"`
	*RcB `config:",inline"`
}
type RcB struct {
	Y    float64  `config:"y"`
	Back *RcOuter `config:"back"`
	List []RcA    `config:"list"`
}

// shape "plain-recursion": no inlining at all.
type RnNode struct {
	V    int32
	Next *RnNode
	Kids []RnNode           `config:"kids"`
	By   map[string]*RnNode `config:"by"`
	PP   **RnNode           `config:"pp"`
}

// shape "self-inline-with-named-recursion": the type inlines a pointer to
// itself (always nil, see nilKey) and names itself.
type RiSelf struct {
	*RiSelf `config:",inline" verif:"self"`
	W       int       `config:"w"`
	Sub     *RiSelf   `config:"sub"`
	Subs    []*RiSelf `config:"subs"`
}

// shape "inline-pointer-through-dotted-name-and-array": the named step has a
// dotted name resp. is a fixed-size array of pointers.
type RdOuter struct {
	*RdMid `config:",inline"`
}
type RdMid struct {
	W    uint8      `config:"w"`
	Next *RdWrap    `config:"deep.next"`
	Two  [2]*RdWrap `config:"two"`
}
type RdWrap struct {
	*RdMid `config:",inline"`
}

type recShape struct {
	name   string
	t      reflect.Type
	dotted bool
}

var recShapes = []recShape{
	{"inline-pointer-through-named-pointer", reflect.TypeOf(RpOuter{}), false},
	{"inline-pointer-through-named-slice", reflect.TypeOf(RsOuter{}), false},
	{"inline-pointer-through-map-value", reflect.TypeOf(RmOuter{}), false},
	{"inline-value-through-named-pointer", reflect.TypeOf(RvOuter{}), false},
	{"two-inline-pointers-then-named-pointer", reflect.TypeOf(RcOuter{}), false},
	{"plain-recursion", reflect.TypeOf(RnNode{}), false},
	{"self-inline-with-named-recursion", reflect.TypeOf(RiSelf{}), false},
	{"inline-pointer-through-dotted-name-and-array", reflect.TypeOf(RdOuter{}), true},
}

// recGen draws a value of a recursive type. budget is the number of named
// steps (pointer, element, map value leading to a struct) still allowed; at 0
// named pointers are nil and collections empty. Elements of lists and maps are
// never nil (outside the quantifier).
type recGen struct {
	r      *rand.Rand
	leaf   *vgen
	deep   int // the deepest nesting reached, in named steps
	inline int // inlined pointers set
	again  int // inlined pointers set below a named step below an inlined pointer to the same type
}

func (g *recGen) val(t reflect.Type, budget, level int, inColl bool, inl []reflect.Type) reflect.Value {
	r := g.r
	v := reflect.New(t).Elem()
	if level > g.deep {
		g.deep = level
	}
	switch t.Kind() {
	case reflect.Ptr:
		base := chaseT(t)
		if base.Kind() != reflect.Struct {
			return g.leaf.val(t, inColl)
		}
		if !inColl && (budget <= 0 || r.Intn(5) == 0) {
			return v // nil (a chain ending in nil is not drawn here)
		}
		p := reflect.New(t.Elem())
		p.Elem().Set(g.val(t.Elem(), budget, level, inColl, inl))
		return p
	case reflect.Struct:
		for i := 0; i < t.NumField(); i++ {
			f := t.Field(i)
			if f.PkgPath != "" || f.Tag.Get(nilKey) == nilVal {
				continue
			}
			ti := parseTag(f.Tag)
			switch {
			case ti.inline && f.Type.Kind() == reflect.Ptr:
				if budget < 0 || r.Intn(6) == 0 {
					// nil: the same as a pointer to the zero value (and what ends
					// the elements of a fixed-size array below the last level)
					continue
				}
				g.inline++
				base := chaseT(f.Type)
				for _, have := range inl {
					if have == base {
						g.again++
						break
					}
				}
				p := reflect.New(base)
				p.Elem().Set(g.val(base, budget, level, false, append(inl[:len(inl):len(inl)], base)))
				v.Field(i).Set(p)
			case ti.inline:
				v.Field(i).Set(g.val(f.Type, budget, level, false, inl))
			default:
				v.Field(i).Set(g.named(f.Type, budget, level, inl))
			}
		}
		return v
	}
	return g.leaf.val(t, inColl)
}

// named draws the value of a named field: one step down if it leads to a struct.
func (g *recGen) named(t reflect.Type, budget, level int, inl []reflect.Type) reflect.Value {
	r := g.r
	switch t.Kind() {
	case reflect.Slice:
		if chaseT(t.Elem()).Kind() != reflect.Struct {
			break
		}
		n := 0
		if budget > 0 {
			n = r.Intn(3)
		}
		s := reflect.MakeSlice(t, n, n)
		for i := 0; i < n; i++ {
			s.Index(i).Set(g.val(t.Elem(), budget-1, level+1, true, inl))
		}
		if n == 0 && r.Intn(2) == 0 {
			return reflect.Zero(t)
		}
		return s
	case reflect.Array:
		if chaseT(t.Elem()).Kind() != reflect.Struct {
			break
		}
		a := reflect.New(t).Elem()
		for i := 0; i < t.Len(); i++ {
			a.Index(i).Set(g.val(t.Elem(), budget-1, level+1, true, inl))
		}
		return a
	case reflect.Map:
		if chaseT(t.Elem()).Kind() != reflect.Struct {
			break
		}
		if budget <= 0 {
			if r.Intn(2) == 0 {
				return reflect.Zero(t)
			}
			return reflect.MakeMap(t)
		}
		m := reflect.MakeMap(t)
		for i, n := 0, r.Intn(3); i < n; i++ {
			m.SetMapIndex(reflect.ValueOf([]string{"k", "j", "kk", "Kx"}[r.Intn(4)]), g.val(t.Elem(), budget-1, level+1, true, inl))
		}
		return m
	case reflect.Ptr:
		if chaseT(t).Kind() == reflect.Struct {
			return g.val(t, budget-1, level+1, false, inl)
		}
	case reflect.Struct:
		return g.val(t, budget-1, level+1, false, inl)
	}
	return g.leaf.val(t, false)
}

// recursiveTrip round-trips one value of one hand-written recursive type.
func recursiveTrip(res *harness.R, r *rand.Rand, verbose bool) {
	sh := recShapes[r.Intn(len(recShapes))]
	budget := 2 + r.Intn(3)
	g := &recGen{r: r, leaf: &vgen{r: r, res: res}}
	v := g.val(sh.t, budget, 0, false, nil)
	res.SetAdd("recursive_type_shape", sh.name)
	res.SetAdd("recursive_value_depth", itoa(g.deep))
	res.Ev("recursive_type_round_trips", 1)
	if g.again > 0 {
		res.Ev("recursive_values_inlining_a_type_again_below_a_named_field", 1)
		res.Ev("inlined_pointers_set_below_a_named_field_below_the_same_inlined_type", int64(g.again))
	}
	sep := sh.dotted || r.Intn(2) == 0
	roundTrip(res, sh.t, v, sep, r.Intn(4), "recursive-type:"+sh.name, sh.t.String(), show(v), verbose)
}

func itoa(n int) string {
	if n > 9 {
		return "10+"
	}
	return string(rune('0' + n))
}
