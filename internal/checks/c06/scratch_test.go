package c06

import (
	"fmt"
	"testing"
)

func TestScratch(t *testing.T) {
	for _, idx := range []int{50088, 37608, 33382, 52168, 56656} {
		bad := 0
		var first string
		for i := 0; i < 3000; i++ {
			r := check{}.Run(1, "thorough", idx, false)
			if len(r.Violations) > 0 {
				bad++
				if first == "" {
					first = r.Violations[0].Sig
				}
			}
		}
		fmt.Println(idx, "bad", bad, first)
	}
}
