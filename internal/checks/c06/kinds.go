package c06

// Kinds and tag shapes at the edge of what Merge and Unpack support: named
// pointer types, kinds without a configuration form, and the attribution of a
// failing round trip to one of those shapes by a minimal probe.

import (
	"fmt"
	"math/rand"
	"os"
	"reflect"
	"regexp"
	"runtime"

	ucfg "github.com/elastic/go-ucfg"

	"verif/internal/harness"
)

// hand-written named pointer types (kind Ptr, like *T)
type NPInt *int
type NPEndpoint *Endpoint
type NPList *[]string
type NPMap *map[string]int
type NPBytes **uint8
type NPHidden *Hidden

// those pointing to a struct
var namedStructPtrs = []reflect.Type{reflect.TypeOf(NPEndpoint(nil)), reflect.TypeOf(NPHidden(nil))}

var namedPtrs = []reflect.Type{
	reflect.TypeOf(NPInt(nil)), reflect.TypeOf(NPEndpoint(nil)), reflect.TypeOf(NPList(nil)), reflect.TypeOf(NPMap(nil)), reflect.TypeOf(NPBytes(nil)), reflect.TypeOf(NPHidden(nil)),
}

// typeHas reports whether pred holds for t or a type t is composed of
// (fields tagged ignore and unexported fields do not count).
func typeHas(t reflect.Type, pred func(reflect.Type) bool, depth int) bool {
	if depth > 16 {
		return false
	}
	if pred(t) {
		return true
	}
	switch t.Kind() {
	case reflect.Ptr, reflect.Slice, reflect.Array, reflect.Map:
		if t == tRegexpP {
			return false
		}
		return typeHas(t.Elem(), pred, depth+1)
	case reflect.Struct:
		if t == tRegexpV {
			return false
		}
		for i := 0; i < t.NumField(); i++ {
			f := t.Field(i)
			if f.PkgPath != "" || parseTag(f.Tag).ignore {
				continue
			}
			if typeHas(f.Type, pred, depth+1) {
				return true
			}
		}
	}
	return false
}

// fieldHas: like typeHas, for a predicate on struct fields.
func fieldHas(t reflect.Type, pred func(reflect.StructField, tagInfo) bool, depth int) bool {
	return typeHas(t, func(t reflect.Type) bool {
		if t.Kind() != reflect.Struct || t == tRegexpV {
			return false
		}
		for i := 0; i < t.NumField(); i++ {
			f := t.Field(i)
			ti := parseTag(f.Tag)
			if f.PkgPath == "" && !ti.ignore && pred(f, ti) {
				return true
			}
		}
		return false
	}, depth)
}

func isNamedPtr(t reflect.Type) bool {
	return t.Kind() == reflect.Ptr && t.Name() != ""
}

// guardAlloc bounds what one library call may allocate. A call that does not
// end and allocates all the way can not be stopped from outside, and it takes
// the worker with it a second later anyhow: the worker is given up at once,
// with a line the supervisor files under this very case (fatal:<class>).
// Nothing here depends on time: the call either returns or crosses the bound.
const guardBytes = 192 << 20

func guardAlloc(class, witness string, call func()) {
	var ms runtime.MemStats
	runtime.ReadMemStats(&ms)
	start := ms.TotalAlloc
	done := make(chan struct{})
	go func() {
		defer close(done)
		call()
	}()
	for spin := 1; ; spin++ {
		select {
		case <-done:
			return
		default:
		}
		runtime.Gosched()
		if spin%256 != 0 {
			continue
		}
		runtime.ReadMemStats(&ms)
		if ms.TotalAlloc-start > guardBytes {
			fmt.Fprintf(os.Stderr, "fatal error: %s\nthe call had allocated %d MB and not returned; %s\n", class, (ms.TotalAlloc-start)>>20, witness)
			os.Exit(2)
		}
	}
}

// ---------------------------------------------------------------------------
// minimal probes: does the library fail on the smallest struct showing one
// shape, in the same step and the same way? A failing round trip of a type
// containing the shape is then filed under the shape's signature.

type inP struct{ X int }

type probeOutcome struct {
	mergePanic, mergeErr, unpackPanic, unpackErr bool
}

func probe(v interface{}, byValue bool, opts []ucfg.Option) probeOutcome {
	var o probeOutcome
	var c *ucfg.Config
	var err error
	rv := reflect.ValueOf(v)
	panicked, _, _ := harness.Safe(func() {
		if byValue {
			c, err = ucfg.NewFrom(v, opts...)
		} else {
			p := reflect.New(rv.Type())
			p.Elem().Set(rv)
			c, err = ucfg.NewFrom(p.Interface(), opts...)
		}
	})
	o.mergePanic, o.mergeErr = panicked, !panicked && err != nil
	if panicked || err != nil {
		return o
	}
	out := reflect.New(rv.Type())
	panicked, _, _ = harness.Safe(func() { err = c.Unpack(out.Interface(), opts...) })
	o.unpackPanic, o.unpackErr = panicked, !panicked && err != nil
	return o
}

type shapeProbe struct {
	name    string
	present func(T reflect.Type, v reflect.Value) bool
	run     func(opts []ucfg.Option) probeOutcome
}

func isInlineKind(kinds ...reflect.Kind) func(reflect.StructField, tagInfo) bool {
	return func(f reflect.StructField, ti tagInfo) bool {
		if !ti.inline {
			return false
		}
		for _, k := range kinds {
			if f.Type.Kind() == k {
				return true
			}
		}
		return false
	}
}

var shapeProbes = []shapeProbe{
	{"uintptr-kind",
		func(T reflect.Type, _ reflect.Value) bool {
			return typeHas(T, func(t reflect.Type) bool { return t.Kind() == reflect.Uintptr }, 0)
		},
		func(opts []ucfg.Option) probeOutcome { return probe(struct{ X uintptr }{1}, false, opts) }},
	{"regexp-by-value-not-addressable",
		func(T reflect.Type, _ reflect.Value) bool {
			return typeHas(T, func(t reflect.Type) bool { return t == tRegexpV }, 0)
		},
		func(opts []ucfg.Option) probeOutcome {
			return probe(struct{ X regexp.Regexp }{*regexp.MustCompile("x")}, true, opts)
		}},
	{"inline-list",
		func(T reflect.Type, _ reflect.Value) bool {
			return fieldHas(T, isInlineKind(reflect.Slice, reflect.Array), 0)
		},
		func(opts []ucfg.Option) probeOutcome {
			return probe(struct {
				L []int `config:",inline"`
			}{[]int{1}}, false, opts)
		}},
	{"nil-inline-pointer",
		func(T reflect.Type, v reflect.Value) bool {
			return fieldHas(T, isInlineKind(reflect.Ptr), 0) && hasNilInlinePtr(v, 0)
		},
		func(opts []ucfg.Option) probeOutcome {
			return probe(struct {
				P *inP `config:",inline"`
			}{}, false, opts)
		}},
	{"inline-pointer",
		func(T reflect.Type, _ reflect.Value) bool { return fieldHas(T, isInlineKind(reflect.Ptr), 0) },
		func(opts []ucfg.Option) probeOutcome {
			return probe(struct {
				P *inP `config:",inline"`
			}{&inP{1}}, false, opts)
		}},
	{"pointer-to-pointer-to-struct-element",
		func(T reflect.Type, _ reflect.Value) bool {
			return typeHas(T, func(t reflect.Type) bool {
				switch t.Kind() {
				case reflect.Slice, reflect.Array, reflect.Map:
					e := t.Elem()
					return e.Kind() == reflect.Ptr && e.Elem().Kind() == reflect.Ptr && chaseT(e).Kind() == reflect.Struct && e != tRegexpP && e.Elem() != tRegexpP
				}
				return false
			}, 0)
		},
		func(opts []ucfg.Option) probeOutcome {
			p := &inP{1}
			return probe(struct{ L []**inP }{[]**inP{&p}}, false, opts)
		}},
}

// hasNilInlinePtr: some field tagged inline in v is a nil pointer.
func hasNilInlinePtr(v reflect.Value, depth int) bool {
	if depth > 24 {
		return false
	}
	switch v.Kind() {
	case reflect.Ptr, reflect.Interface:
		return !v.IsNil() && v.Type() != tRegexpP && hasNilInlinePtr(v.Elem(), depth+1)
	case reflect.Slice, reflect.Array:
		for i := 0; i < v.Len(); i++ {
			if hasNilInlinePtr(v.Index(i), depth+1) {
				return true
			}
		}
	case reflect.Map:
		for _, k := range v.MapKeys() {
			if hasNilInlinePtr(v.MapIndex(k), depth+1) {
				return true
			}
		}
	case reflect.Struct:
		t := v.Type()
		if t == tRegexpV {
			return false
		}
		for i := 0; i < t.NumField(); i++ {
			f := t.Field(i)
			ti := parseTag(f.Tag)
			if f.PkgPath != "" || ti.ignore {
				continue
			}
			if ti.inline && f.Type.Kind() == reflect.Ptr && nilChain(v.Field(i)) {
				return true
			}
			if hasNilInlinePtr(v.Field(i), depth+1) {
				return true
			}
		}
	}
	return false
}

// attribute names the shape of T the failure in step ("merge", "unpack";
// panicked or returned error) is filed under, or "".
func attribute(T reflect.Type, v reflect.Value, step string, panicked bool, opts []ucfg.Option) string {
	for _, sp := range shapeProbes {
		if !sp.present(T, v) {
			continue
		}
		o := sp.run(opts)
		var same bool
		switch {
		case step == "merge" && panicked:
			same = o.mergePanic
		case step == "merge":
			same = o.mergeErr
		case panicked:
			same = o.unpackPanic
		default:
			same = o.unpackErr
		}
		if same {
			how := "refused-by-"
			if panicked {
				how = "panics-in-"
			}
			return sp.name + ":" + how + step
		}
	}
	return ""
}

// ---------------------------------------------------------------------------
// kinds without a configuration form: complex numbers, channels, functions.
// A struct holding one is not a supported struct type: Merge may refuse it
// (then nothing is claimed) or transport it (a nil channel), but it must not
// panic, and neither may Unpack into the same type afterwards.

var noFormKinds = []reflect.Type{
	reflect.TypeOf(complex64(0)), reflect.TypeOf(complex128(0)), reflect.TypeOf((chan int)(nil)), reflect.TypeOf((func())(nil)),
}

func noFormProbe(res *harness.R, r *rand.Rand) {
	k := noFormKinds[r.Intn(len(noFormKinds))]
	val := reflect.New(k).Elem()
	switch k.Kind() {
	case reflect.Complex64, reflect.Complex128:
		val.SetComplex(complex(float64(r.Intn(3)), float64(r.Intn(2))))
	case reflect.Chan:
		if r.Intn(2) == 0 {
			val = reflect.MakeChan(k, 1)
		}
	case reflect.Func:
		if r.Intn(2) == 0 {
			val = reflect.MakeFunc(k, func([]reflect.Value) []reflect.Value { return nil })
		}
	}
	pos := []string{"field", "ptr", "slice", "array", "map", "nested-struct", "interface"}[r.Intn(7)]
	t := k
	switch pos {
	case "ptr":
		t = reflect.PtrTo(k)
		p := reflect.New(k)
		p.Elem().Set(val)
		val = p
	case "slice":
		t = reflect.SliceOf(k)
		s := reflect.MakeSlice(t, 1, 1)
		s.Index(0).Set(val)
		val = s
	case "array":
		t = reflect.ArrayOf(1, k)
		a := reflect.New(t).Elem()
		a.Index(0).Set(val)
		val = a
	case "map":
		t = reflect.MapOf(tString, k)
		m := reflect.MakeMap(t)
		m.SetMapIndex(reflect.ValueOf("k"), val)
		val = m
	case "nested-struct":
		t = reflect.StructOf([]reflect.StructField{{Name: "Y", Type: k}})
		s := reflect.New(t).Elem()
		s.Field(0).Set(val)
		val = s
	case "interface":
		t = tIfc
	}
	T := reflect.StructOf([]reflect.StructField{{Name: "A", Type: reflect.TypeOf(0)}, {Name: "X", Type: t}})
	v := reflect.New(T).Elem()
	v.Field(0).SetInt(int64(r.Intn(5)))
	if val.IsValid() && !(pos == "interface" && (val.Kind() == reflect.Chan || val.Kind() == reflect.Func) && val.IsNil()) {
		v.Field(1).Set(val)
	}
	byValue := r.Intn(2) == 0
	var c *ucfg.Config
	var err error
	res.Eval(1)
	what := k.Kind().String() + "@" + pos
	res.SetAdd("kind_without_form", what)
	panicked, pv, where := harness.Safe(func() {
		if byValue {
			c, err = ucfg.NewFrom(v.Interface())
		} else {
			c, err = ucfg.NewFrom(v.Addr().Interface())
		}
	})
	if panicked {
		res.Violate("kind-without-configuration-form-panics-in-merge:"+k.Kind().String(), "NewFrom panicked on a %s (%s, by value %v): %q at %s; value %s", k, what, byValue, pv, where, show(v))
		return
	}
	if err != nil {
		res.Ev("kind_without_form_refused_by_merge", 1)
		return
	}
	res.Ev("kind_without_form_accepted_by_merge", 1)
	out := reflect.New(T)
	panicked, pv, where = harness.Safe(func() { err = c.Unpack(out.Interface()) })
	if panicked {
		res.Violate("kind-without-configuration-form-panics-in-unpack:"+k.Kind().String(), "Unpack panicked on a %s (%s): %q at %s; value %s", k, what, pv, where, show(v))
	}
}
