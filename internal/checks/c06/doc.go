// Package c06: see DESIGN.md section 3 C06.
package c06
