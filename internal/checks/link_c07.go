//go:build !only || only_c07

package checks

import _ "verif/internal/checks/c07"
