// Package c08: reference resolution terminates; cycles are errors, everything else resolves.
package c08

import (
	"fmt"
	"math/rand"
	"reflect"
	"sort"
	"strings"

	ucfg "github.com/elastic/go-ucfg"
	"github.com/elastic/go-ucfg/diff"

	"verif/internal/harness"
	"verif/internal/model"
	"verif/internal/vx"
)

type check struct{}

func init() { harness.Register(check{}) }

func (check) ID() string { return "C08" }

func (check) HangIsViolation() bool { return true }

func (check) StallSeconds() int { return 20 }

var enumNames = []string{"a", "b", "c"}

// enumExprs: every expression with at most 2 references over the 3 names.
func enumExprs() []*model.Ex {
	out := []*model.Ex{model.Lit("v")}
	for _, x := range enumNames {
		out = append(out, model.Ref(x))
	}
	for _, x := range enumNames {
		for _, y := range enumNames {
			out = append(out, &model.Ex{Kind: model.XCat, Kids: []*model.Ex{model.Ref(x), model.Lit("-"), model.Ref(y)}})
		}
	}
	return out
}

var exprs = enumExprs()

const enumChunk = 1 // 13*13*13 graphs, one per case

func enumCases() int { return len(exprs) * len(exprs) * len(exprs) / enumChunk }

func (check) Cases(tier string) int {
	if tier == "thorough" {
		return enumCases() + 200000
	}
	return enumCases() + 3000
}

func (check) Exhaustive(string) bool { return false }

func (check) Rule() string {
	return "(1) exhaustively all reference graphs over 3 string settings with at most 2 references each (13^3 graphs); (2) random graphs over up to 8 settings (strings a..f, object o with members o.x, o.y) with references nested in defaults, alternatives, error operators and reference names, repeated uses, diamonds, self references, references from object members to ancestors and to the object itself, exact single references to the object; with 0 or 1 resolver. Every setting is read through String, Unpack (interface{} and string), Has, CountField, Child (object-valued), and the whole config through Unpack, FlattenedKeys and diff.CompareConfigs. A hook counts reference resolutions per read (budget 2*10^4, the read is aborted by the monitor beyond it); stack overflows kill the worker and are attributed to the journalled case. Outcomes are compared with the stack-based model evaluator by class: no re-entry -> exact value/failure; unabsorbed re-entry -> cyclic reference error; absorbed re-entry (by a default, an alternative or a resolver) -> the model's value. Non-trivial = the graph has at least one edge; distinct = distinct graph. (3) with every random graph a second, independently drawn configuration of nested objects, maps and lists (depth <= 3) whose object-valued positions are literal objects or exact single references - to each other, to enclosing objects, to themselves, to top-level settings that are references again (chains of 1..4+ references ending in an object), rarely to text or to nothing - and whose text members are splices/operators over other texts and over the object-valued positions (tests like ${obj:+yes} that differ inside and outside the evaluation of obj); 40% of them acyclic by construction, 1/3 with a resolver. It is unpacked into TYPED targets: two recursive struct types (members *T, map[string]*T, map[string]T, []*T, []T, *Config, string, interface{}; opposite declaration orders) - every top-level setting on its own, the whole config, literal objects through Child - each time into a fresh target, once more into the target just filled, and into a target pre-filled with empty objects (merge paths); *Config members are unpacked in a second call. Oracle: an evaluator that follows reference chains at object positions with an explicit stack (all references on the way stay under evaluation while the object they lead to is unpacked) and evaluates texts with the shared string model under that stack: some position fails -> the read fails (as cyclic reference error if every failing position is an unabsorbed re-entry); nothing fails -> the target holds exactly the model's values. Same step budget. (4) with every random graph a third configuration (path world): literal objects/lists, aliases = exact single references to objects, lists, primitives, texts, other aliases (one third of the worlds: one chain of up to 5 aliases), themselves, nothing, also written as paths THROUGH aliases (${x.sub}), texts whose references are such paths (${x.k}, ${o.back.back.k}, ${l.1}); read through String, Has, Child (+ generic Unpack and CountField of the result), Unpack into a member tagged with a multi-segment path, into []interface{}, []string, [N]string, []int, [N]uint8 members (a primitive reads as a list of one) and one struct of slices per call, whole-config Unpack, FlattenedKeys, CompareConfigs. Oracle: a stack evaluator over trees with path walks (pev.go): a walk evaluates the reference-valued settings it passes, each in a scope of its own; a cyclic setting on the path is a cyclic reference error for getters, Has, Child and Unpack alike. (5) histories on the path world and on a fourth flat graph: all reads, then 1-2 mutations (Merge of another reference/splice/literal, SetString, Remove, other resolvers), all reads again, judged against the configuration as it is now; a deviation that a freshly built configuration of the same content does not show is reported as after-mutation:<sig>. (6) every tenth random case a ladder (7 templates: the same variable twice/three times per level, two-rail diamonds, diamonds through object members, alias chains read through paths, failing chains of paths ending in a cycle or in nothing) climbed in steps of 4 levels up to 40: resolutions per read <= 64 per reference written + 64, memory allocated per read (runtime TotalAlloc delta, no clock) must not grow more than 8-fold for 4 more levels once above 4 MB, dependency lists reported by the hook kind deps never longer than the number of references. Round 4: (7) a third recursive target type whose members are partly tagged with PATHS (r.p, q.r, q.p.r, x.p, y.q.r, l.0, v.k1, r.s, x.t; r and q have no member of their own), used for a quarter of the typed worlds and for all worlds (a third) into which a back reference below such a path is grafted (a literal object A gets r: ${A or the object holding A} and p: {r: ${A}}); in the path worlds a member tagged with a multi-element path keeps the references its path leads through under evaluation while the setting found is unpacked (a tag with several elements stands for nested members); (8) a third of the path worlds is read with an Env option: empty, or defining names only the environment has (the configuration's aliases and texts use them) and names the configuration has as well, by literals and by references written in the environment (looked up in the environment only; another reference than one of the same name written in the configuration); (9) six more ladder templates: the same variable twice / two-rail diamonds above ONE cycle absorbed by an operator, chains of ${a(i+1).0} ending in a value, a list, nothing, a cycle."
}

func (check) Assumptions() []string {
	return []string{
		"re-entry means: the referenced name is on the evaluation stack of the current read (reading setting a is not yet a reference to a)",
		"not demanded: which member of a cycle is named; which keys FlattenedKeys lists for settings holding references (C15 excludes references) - for FlattenedKeys/CompareConfigs only termination and, for reference-free parts, nothing else",
		"step budget 2*10^4 resolutions per read for graphs of <= 8 settings with <= 3 references per string",
		"typed reads: a read that fails for several reasons (cyclic and other) only has to fail; which failing position is reported is not compared; the Path of *Config members is not compared; configurations whose model evaluation needs more than 1500 steps are skipped (library reads stay below 2 resolutions per model step, far from the budget)",
		"path worlds: the reference-valued settings a path walk passes are evaluated one after the other and are not under evaluation any more when the setting found is evaluated (String(\"x.c\") = Child(\"x\") then String(\"c\")); while a container reached through references is UNPACKED these references stay under evaluation (so ${x.k} met while y is unpacked via x: ${y} is a re-entry of y). Not judged: reads where a resolver knows a name whose path fails on the way (whether the resolver is asked depends on where), Has on a path with a primitive in the middle, history steps after which the configuration does not store what replacing the setting would store (how Merge combines a reference to an enclosing object with an existing reference is Merge semantics, checked by sameStored through VerifWalk)",
		"a struct tag with several elements (config:\"r.x\") is judged like the nested members it stands for: the references evaluated for the elements of its path stay under evaluation while the setting found is unpacked (getters with the same path do not keep them: String(\"x.c\") = Child(\"x\") then String(\"c\")). Consequence shared with unpacking through an alias in general (audit item 7): a setting whose leaves all read fine through getters can fail as cyclic when unpacked through the alias - by the stack semantics the reference is still being evaluated while its value is unpacked, which is what makes anc: {b: ${anc}} a cycle at all",
		"path worlds: a read during which the substituted text of a setting only BECOMES a number, boolean or null by the text->value step and is not written the way the library prints that value (9e9, 1e3, 5.0, 0x10, on - arising from concatenations of digits and the letter e) is not judged (monitor path_reads_not_judged_text_becomes_a_noncanonical_numeral): how such a value reads when spliced into another text is number rendering, not reference resolution",
		"environments: a name of the configuration whose path fails as cyclic there but which the environment knows is not judged (who wins is not pinned down); references written in an environment are looked up in that environment only",
		"not generated: configurations whose keys contain the path separator of the read (built under another PathSep, audit item 6): the property quantifies over the reference graphs of ONE configuration read under one spelling of its names; two settings spelled alike is a path-spelling question",
		"a user type's ConfigUnpacker calling Unpack again starts a new read operation (own active set): outside one read operation",
		"ladders: the allocation bound needs one case at a time per process (the worker runs cases sequentially); purely computational blow-ups that neither resolve nor allocate are left to the stall watchdog (HangIsViolation)",
		"typed reads never generate a reference whose path leads THROUGH a reference-valued setting (${x.s} with x: ${a}), nor references to whole maps/lists at struct positions",
	}
}

var rndNames = []string{"a", "b", "c", "d", "e", "f", "o.x", "o.y"}
var refNames = []string{"a", "b", "c", "d", "e", "f", "o.x", "o.y", "o", "zz"}

func genWorld(r *rand.Rand) *model.World {
	w := &model.World{Root: map[string]*model.Setting{}}
	g := model.ExGen{Names: refNames, Lits: []string{"va", "vb", "w", ""}, NameExprs: true}
	n := 1 + r.Intn(8)
	for j := 0; j < n; j++ {
		k := rndNames[r.Intn(len(rndNames))]
		var e *model.Ex
		switch r.Intn(8) {
		case 0: // repeated use
			x := refNames[r.Intn(len(refNames)-2)]
			e = &model.Ex{Kind: model.XCat, Kids: []*model.Ex{model.Ref(x), model.Lit(" "), model.Ref(x)}}
		case 1: // exact single reference (also to the object)
			e = model.Ref(refNames[r.Intn(len(refNames))])
		default:
			e = g.Gen(r, 1+r.Intn(3))
		}
		w.Root[k] = &model.Setting{Ex: e}
	}
	if r.Intn(5) == 0 {
		// a value that tests the object it is used in, the object, and a
		// reference to the object: the value differs inside and outside the
		// object's evaluation
		p := r.Perm(4)
		n := func(i int) string { return []string{"a", "b", "c", "d"}[p[i]] }
		w.Root[n(0)] = &model.Setting{Ex: &model.Ex{Kind: model.XAlt, Name: model.Lit("o"), Rhs: model.Lit("yes")}}
		w.Root["o.x"] = &model.Setting{Ex: (&model.Ex{Kind: model.XCat, Kids: []*model.Ex{model.Lit("x"), model.Ref(n(0))}}).Normalize()}
		w.Root[n(1)] = &model.Setting{Ex: model.Ref("o")}
		if r.Intn(2) == 0 {
			w.Root[n(2)] = &model.Setting{Ex: model.Ref(n(1))}
		}
	}
	if r.Intn(3) == 0 {
		// a plain list, used by exact single references (possibly several)
		w.Root["l"] = &model.Setting{Val: model.List(model.P("x"), model.P("y"))}
		for i, c := 0, 1+r.Intn(3); i < c; i++ {
			w.Root[rndNames[r.Intn(6)]] = &model.Setting{Ex: model.Ref("l")}
		}
	}
	if r.Intn(2) == 0 {
		res := map[string]string{}
		for _, nm := range refNames {
			if r.Intn(3) == 0 {
				res[nm] = "res:" + nm
			}
		}
		w.Ress = append(w.Ress, res)
	}
	return w
}

func describe(w *model.World) string {
	var ks []string
	for k := range w.Root {
		ks = append(ks, k)
	}
	sort.Strings(ks)
	var parts []string
	for _, k := range ks {
		if w.Root[k].Ex == nil {
			parts = append(parts, fmt.Sprintf("%s=%v", k, w.Root[k].Val))
			continue
		}
		parts = append(parts, fmt.Sprintf("%s=%q", k, w.Root[k].Ex.Render(false)))
	}
	return fmt.Sprintf("{%s} resolvers=%v", strings.Join(parts, ", "), w.Ress)
}

func hasEdges(w *model.World) bool {
	for _, s := range w.Root {
		if s.Ex != nil && s.Ex.HasVar() {
			return true
		}
	}
	return false
}

// rec is a recursive target type: every member of the object o fits again.
type rec struct {
	X *rec `config:"x"`
	Y *rec `config:"y"`
}

type budgetExceeded struct{}

const budget = 20000

func (check) Run(seed int64, tier string, idx int, verbose bool) harness.Result {
	res := harness.NewR(idx)
	if idx < enumCases() {
		for k := 0; k < enumChunk; k++ {
			g := idx*enumChunk + k
			w := &model.World{Root: map[string]*model.Setting{
				"a": {Ex: exprs[g/(len(exprs)*len(exprs))]},
				"b": {Ex: exprs[(g/len(exprs))%len(exprs)]},
				"c": {Ex: exprs[g%len(exprs)]},
			}}
			runWorld(res, w, nil, verbose, false)
			res.Ev("enumerated_graphs", 1)
		}
		return res.Done()
	}
	r := rand.New(rand.NewSource(harness.Mix(seed, "C08", idx)))
	w := genWorld(r)
	runWorld(res, w, r, verbose, idx < enumCases()+2)
	// typed deep reads of a second, independently drawn configuration (own
	// random stream: the graphs above stay what they were)
	runTyped(res, rand.New(rand.NewSource(harness.Mix(seed, "C08/typed", idx))), verbose, idx < enumCases()+2)
	// paths through reference-valued settings, slice targets, histories
	runPaths(res, rand.New(rand.NewSource(harness.Mix(seed, "C08/paths", idx))), verbose)
	runHistory(res, rand.New(rand.NewSource(harness.Mix(seed, "C08/hist", idx))), verbose)
	if idx%10 == 0 {
		runLadder(res, rand.New(rand.NewSource(harness.Mix(seed, "C08/ladder", idx))), verbose)
	}
	return res.Done()
}

func runWorld(res *harness.R, w *model.World, r *rand.Rand, verbose, sample bool) {
	desc := describe(w)
	if sample {
		res.Sample = desc
	}
	var b *vx.Built
	var err error
	if p, pv, where := harness.Safe(func() { b, err = vx.Build(w, nil) }); p {
		res.Violate("panic", "panic %q at %s building %s", pv, where, desc)
		return
	}
	res.Eval(1)
	if err != nil {
		res.Violate("build-error", "building the config failed: %v; %s", err, desc)
		return
	}
	if hasEdges(w) {
		res.Key(desc)
	}
	readWorld(res, w, b, r, verbose, desc)
}

// readWorld reads the configuration b (which realises w, possibly after a
// history of reads and mutations) through every entry point and judges each
// read against the model of w.
func readWorld(res *harness.R, w *model.World, b *vx.Built, r *rand.Rand, verbose bool, desc string) {
	steps := 0
	maxSteps := 0
	ucfg.VerifSetHook(func(kind, site, s string, a, b int) {
		if kind == "resolve" {
			steps++
			if steps > budget {
				panic(budgetExceeded{})
			}
		}
	})
	defer ucfg.VerifSetHook(nil)

	// guarded runs one read under the step budget
	aborted := false
	guarded := func(what string, f func()) bool {
		if aborted {
			return false // a read of this graph already blew the budget
		}
		steps = 0
		ok := true
		func() {
			defer func() {
				if rec := recover(); rec != nil {
					ok = false
					if _, isBudget := rec.(budgetExceeded); isBudget {
						aborted = true
						res.Violate("step-budget-exceeded", "%s performed more than %d reference resolutions; %s", what, budget, desc)
						return
					}
					res.Violate("panic", "%s panicked: %v; %s", what, rec, desc)
				}
			}()
			f()
		}()
		res.Ev("resolve_events", int64(steps))
		if steps > maxSteps {
			maxSteps = steps
		}
		res.Eval(1)
		return ok
	}

	keys := make([]string, 0, len(w.Root))
	for k := range w.Root {
		keys = append(keys, k)
	}
	sort.Strings(keys)
	for _, k := range keys {
		if res.Events["violations_raw"] > 0 {
			return // one witness per graph is enough (and keeps a non-terminating tree cheap)
		}
		s := w.Root[k]
		if s.Ex == nil {
			continue
		}
		// deep: the read unpacks what it finds (objects member by member);
		// shallow: the read only looks at the setting itself (String, Has,
		// CountField, Child)
		evalMode := func(deep bool) (model.Res, string, *model.Trace) {
			ev := model.NewEvaluator(w)
			ev.T.Enter[k] = 1
			mres := ev.EvalSetting(k, nil, deep)
			tr := ev.T
			class := "A-no-reentry"
			switch {
			case tr.Budget:
				class = "budget"
			case tr.ReEntry && mres.Cyclic:
				class = "B-unabsorbed-cycle"
			case tr.ReEntry:
				class = "C-absorbed-cycle"
			}
			return mres, class, tr
		}
		deepRes, deepClass, tr := evalMode(true)
		shRes, shClass, _ := evalMode(false)
		if deepClass == "budget" || shClass == "budget" {
			continue
		}
		res.SetAdd("class", deepClass)
		if !tr.ReEntry && repeats(tr) {
			res.Ev("reads_with_repeated_use_or_diamond", 1)
		}
		canCompare := func(class string) bool { return class == "A-no-reentry" || class == "C-absorbed-cycle" }

		type reading struct {
			how string
			val interface{}
			err error
		}
		var reads []reading
		add := func(how string, f func() (interface{}, error)) {
			var v interface{}
			var e error
			if guarded(how+" of "+k, func() { v, e = f() }) {
				reads = append(reads, reading{how, v, e})
			}
		}
		add("String", func() (interface{}, error) { return b.C.String(k, -1, b.Opts...) })
		add("Unpack(interface{})", func() (interface{}, error) { return vx.ReadField(b.C, topKey(k), nil, b.Opts) })
		if !strings.Contains(k, ".") {
			add("Unpack(string)", func() (interface{}, error) { return vx.ReadField(b.C, k, reflect.TypeOf(""), b.Opts) })
			add("CountField", func() (interface{}, error) { return b.C.CountField(k, b.Opts...) })
		}
		add("Has", func() (interface{}, error) { return b.C.Has(k, -1, b.Opts...) })
		add("Has(member)", func() (interface{}, error) { return b.C.Has(k+".x", -1, b.Opts...) })
		add("Child", func() (interface{}, error) {
			c, e := b.C.Child(k, -1, b.Opts...)
			if e != nil {
				return nil, e
			}
			var m map[string]interface{}
			return nil, c.Unpack(&m, b.Opts...)
		})
		// object-valued settings into a struct target of a RECURSIVE Go type:
		// a reference back to an ancestor must be reported, not followed forever
		if !strings.Contains(k, ".") && (deepRes.Container || deepRes.IsErr) && s.Ex.IsSingleRef() {
			add("Unpack(recursive struct)", func() (interface{}, error) { return vx.ReadField(b.C, k, reflect.TypeOf(&rec{}), b.Opts) })
		}
		for _, rd := range reads {
			res.SetAdd("entry_point", rd.how)
			if verbose {
				fmt.Printf("%s %s -> %#v err=%v (model deep %s %+v / shallow %s %+v)\n", k, rd.how, rd.val, rd.err, deepClass, deepRes, shClass, shRes)
			}
			switch rd.how {
			case "String", "Unpack(string)":
				judgeString(res, rd.how, k, rd.val, rd.err, shRes, shClass, canCompare(shClass), desc)
			case "Unpack(interface{})":
				if strings.Contains(k, ".") {
					continue // reads the whole object o: class of the member alone does not decide it
				}
				judgeGeneric(res, rd.how, k, rd.val, rd.err, deepRes, deepClass, canCompare(deepClass), desc, s)
			case "Unpack(recursive struct)":
				if deepClass == "B-unabsorbed-cycle" && rd.err == nil {
					res.Violate("cycle-not-reported", "Unpack(%q) into a recursive struct type succeeded, model: unabsorbed cyclic reference; %s", k, desc)
				}
			case "CountField":
				if shClass == "A-no-reentry" && !shRes.IsErr && rd.err != nil {
					res.Violate("acyclic-read-fails", "CountField(%q) failed with %v, model: resolves (class %s); %s", k, rd.err, shClass, desc)
				}
				if shClass == "B-unabsorbed-cycle" && rd.err == nil {
					res.Violate("cycle-not-reported", "CountField(%q) = %v without error, model: unabsorbed cyclic reference; %s", k, rd.val, desc)
				}
			}
		}
	}
	// whole-config reads: termination (and success for cycle-free graphs)
	anyReentry := false
	anyErr := false
	for _, k := range keys {
		ev := model.NewEvaluator(w)
		ev.T.Enter[k] = 1
		r := ev.EvalSetting(k, nil, true)
		if ev.T.ReEntry {
			anyReentry = true
		}
		if r.IsErr {
			anyErr = true
		}
	}
	var m map[string]interface{}
	var uerr error
	if guarded("Unpack(whole config)", func() { uerr = b.C.Unpack(&m, b.Opts...) }) {
		res.SetAdd("entry_point", "Unpack(whole)")
		if !anyReentry && !anyErr && uerr != nil {
			res.Violate("acyclic-read-fails", "Unpack of the whole config failed with %v although no read re-enters a reference and every setting resolves; %s", uerr, desc)
		}
	}
	// Reads are independent of each other: what a whole-config read yields for
	// a setting equals what reading that setting alone (a fresh call, nothing
	// evaluated before) yields. Checked for the map target and for structs of
	// interface{} fields in several declaration orders (= evaluation orders).
	if !anyErr && !aborted {
		var tops []string
		alone := map[string]string{}
		for k := range w.Root {
			tk := topKey(k)
			if _, ok := alone[tk]; ok {
				continue
			}
			var v interface{}
			var e error
			if !guarded("single read of "+tk, func() { v, e = vx.ReadField(b.C, tk, nil, b.Opts) }) || e != nil {
				alone = nil
				break
			}
			alone[tk] = model.CanonIfc(v)
			tops = append(tops, tk)
		}
		sort.Strings(tops)
		if alone != nil && uerr == nil {
			for _, k := range tops {
				if got := model.CanonIfc(m[k]); got != alone[k] {
					res.Violate("whole-config-read-differs-from-single-read", "Unpack into a map gives %s for %q, reading that setting alone gives %s; %s", got, k, alone[k], desc)
					break
				}
			}
			res.Ev("whole_vs_single_reads_compared", int64(len(tops)))
		}
		if alone != nil && len(tops) >= 2 && r != nil {
			for round := 0; round < 3 && !aborted; round++ {
				order := append([]string{}, tops...)
				r.Shuffle(len(order), func(i, j int) { order[i], order[j] = order[j], order[i] })
				var fields []reflect.StructField
				for i, k := range order {
					fields = append(fields, reflect.StructField{Name: fmt.Sprintf("F%d", i), Type: reflect.TypeOf((*interface{})(nil)).Elem(), Tag: reflect.StructTag(fmt.Sprintf(`config:"%s"`, k))})
				}
				p := reflect.New(reflect.StructOf(fields))
				var serr error
				if !guarded("Unpack(struct of interface{} fields)", func() { serr = b.C.Unpack(p.Interface(), b.Opts...) }) {
					break
				}
				res.SetAdd("entry_point", "Unpack(struct of interface{})")
				if serr != nil {
					res.Violate("whole-config-read-differs-from-single-read", "Unpack into a struct with interface{} fields in order %v failed with %q although every setting reads fine alone; %s", order, serr, desc)
					break
				}
				for i, k := range order {
					if got := model.CanonIfc(p.Elem().Field(i).Interface()); got != alone[k] {
						res.Violate("whole-config-read-differs-from-single-read", "Unpack into a struct with interface{} fields in order %v gives %s for %q, reading that setting alone gives %s; %s", order, got, k, alone[k], desc)
						break
					}
				}
			}
		}
	}
	// the whole config into one struct with a string field per top-level
	// setting: several fields may use the same variable
	if !anyReentry && !anyErr {
		var fields []reflect.StructField
		var want []string
		for _, k := range keys {
			if strings.Contains(k, ".") {
				continue
			}
			ev := model.NewEvaluator(w)
			r := ev.EvalSetting(k, nil, true)
			if r.IsErr {
				continue
			}
			ft := reflect.TypeOf("")
			wv := r.S
			if r.Container {
				if n, ok := r.Val.(*model.Node); ok && len(n.A) > 0 {
					ft = reflect.TypeOf([]string(nil)) // a list, possibly reached by several fields
					wv = fmt.Sprint(n.ToGo())
				} else {
					ft = reflect.TypeOf(map[string]interface{}(nil))
					wv = "<object>"
				}
			}
			fields = append(fields, reflect.StructField{Name: "F" + strings.ToUpper(k), Type: ft, Tag: reflect.StructTag(fmt.Sprintf(`config:"%s"`, k))})
			want = append(want, wv)
		}
		if len(fields) >= 2 {
			p := reflect.New(reflect.StructOf(fields))
			var serr error
			if guarded("Unpack(typed struct)", func() { serr = b.C.Unpack(p.Interface(), b.Opts...) }) {
				res.SetAdd("entry_point", "Unpack(typed struct)")
				if serr != nil {
					sig := "acyclic-read-fails"
					if vx.IsCyclicErr(serr) {
						sig = "repeated-use-reported-as-cycle"
					}
					res.Violate(sig, "Unpack into a struct with one typed field (string, []string, map) per setting failed with %q although every setting resolves without re-entry; %s", serr, desc)
				} else {
					for i := range fields {
						fv := p.Elem().Field(i)
						switch fv.Kind() {
						case reflect.String:
							got := fv.String()
							if got != want[i] && model.CanonIfc(vx.ExpectText(got)) != model.CanonIfc(vx.ExpectText(want[i])) {
								res.Violate("wrong-substitution", "struct field %s = %q, model %q; %s", fields[i].Tag, got, want[i], desc)
							}
						case reflect.Slice:
							if got := fmt.Sprint(fv.Interface()); got != want[i] {
								res.Violate("wrong-substitution", "struct field %s = %s, model %s; %s", fields[i].Tag, got, want[i], desc)
							}
						}
					}
				}
			}
		}
	}
	var fk []string
	if guarded("FlattenedKeys", func() { fk = b.C.FlattenedKeys(b.Opts...) }) && !anyReentry {
		// without any re-entry every setting contributes its own path, or - if
		// it resolves to an object or list - the paths of the settings found there
		var want []string
		for _, k := range keys {
			want = append(want, contrib(w, k, 0)...)
		}
		sort.Strings(want)
		if strings.Join(fk, ",") != strings.Join(want, ",") {
			res.Violate("flattenedkeys-wrong-for-acyclic-references", "FlattenedKeys = %v, expected %v (no read re-enters a reference); %s", fk, want, desc)
		}
		res.Ev("flattenedkeys_compared", 1)
	}
	res.SetAdd("entry_point", "FlattenedKeys")
	guarded("diff.CompareConfigs", func() { diff.CompareConfigs(b.C, b.C, b.Opts...) })
	res.SetAdd("entry_point", "diff.CompareConfigs")
	res.SetAdd("max_resolve_events_per_read_log2", fmt.Sprint(log2(maxSteps)))
}

// contrib lists the keys FlattenedKeys reports for the root setting key in a
// world without re-entry: its own path for text (also when it fails to
// resolve), the paths below its final target for objects and lists.
func contrib(w *model.World, key string, depth int) []string {
	s := w.Root[key]
	if depth > 20 {
		return []string{key}
	}
	if s.Ex == nil {
		if n, ok := s.Val.(*model.Node); ok {
			var out []string
			for i := range n.A {
				out = append(out, fmt.Sprintf("%s.%d", key, i))
			}
			for _, k := range n.SortedKeys() {
				out = append(out, key+"."+k)
			}
			return out
		}
		return []string{key}
	}
	if !s.Ex.IsSingleRef() {
		return []string{key}
	}
	// follow the chain of exact single references
	name := s.Ex.Name.Text
	if _, ok := w.Root[name]; ok {
		ev := model.NewEvaluator(w)
		if r := ev.EvalSetting(name, nil, false); r.IsErr || !r.Container {
			return []string{key} // text (or a failure): the referencing setting is the key
		}
		return contrib(w, name, depth+1)
	}
	if members := w.Members(name); len(members) > 0 {
		var out []string
		for _, m := range members {
			out = append(out, contrib(w, m, depth+1)...)
		}
		return out
	}
	return []string{key}
}

func log2(n int) int {
	l := 0
	for n > 1 {
		n >>= 1
		l++
	}
	return l
}

func topKey(k string) string {
	if i := strings.Index(k, "."); i >= 0 {
		return k[:i]
	}
	return k
}

func repeats(tr *model.Trace) bool {
	for _, n := range tr.Enter {
		if n > 1 {
			return true
		}
	}
	return false
}

func judgeString(res *harness.R, how, k string, val interface{}, err error, mres model.Res, class string, compareValue bool, desc string) {
	switch {
	case class == "B-unabsorbed-cycle":
		if err == nil {
			res.Violate("cycle-not-reported", "%s(%q) = %#v without error, model: unabsorbed cyclic reference; %s", how, k, val, desc)
		} else if !vx.IsCyclicErr(err) {
			res.Violate("cycle-error-not-identifiable", "%s(%q) failed with %q, expected a cyclic reference error; %s", how, k, err, desc)
		}
	case !compareValue:
	case mres.IsErr || mres.Container:
		if err == nil {
			res.Violate("failing-read-succeeds", "%s(%q) = %#v without error, model: %+v; %s", how, k, val, mres, desc)
		}
	default:
		if err != nil {
			sig := "acyclic-read-fails"
			if vx.IsCyclicErr(err) {
				sig = "repeated-use-reported-as-cycle"
			}
			res.Violate(sig, "%s(%q) failed with %q, model: %q (class %s); %s", how, k, err, mres.S, class, desc)
			return
		}
		got := val.(string)
		if got != mres.S && model.CanonIfc(vx.ExpectText(got)) != model.CanonIfc(vx.ExpectText(mres.S)) {
			res.Violate("wrong-substitution", "%s(%q) = %q, model %q (class %s); %s", how, k, got, mres.S, class, desc)
		}
	}
}

func judgeGeneric(res *harness.R, how, k string, val interface{}, err error, mres model.Res, class string, compareValue bool, desc string, s *model.Setting) {
	switch {
	case class == "B-unabsorbed-cycle":
		if err == nil {
			res.Violate("cycle-not-reported", "%s(%q) = %#v without error, model: unabsorbed cyclic reference; %s", how, k, val, desc)
		} else if !vx.IsCyclicErr(err) {
			res.Violate("cycle-error-not-identifiable", "%s(%q) failed with %q, expected a cyclic reference error; %s", how, k, err, desc)
		}
	case !compareValue:
	case mres.IsErr:
		if err == nil {
			res.Violate("failing-read-succeeds", "%s(%q) = %#v without error, model: %+v; %s", how, k, val, mres, desc)
		}
	case mres.Container:
		if err != nil {
			sig := "acyclic-read-fails"
			if vx.IsCyclicErr(err) {
				sig = "repeated-use-reported-as-cycle"
			}
			res.Violate(sig, "%s(%q) failed with %q, model: resolves to the object (class %s); %s", how, k, err, class, desc)
		}
	default:
		if err != nil {
			sig := "acyclic-read-fails"
			if vx.IsCyclicErr(err) {
				sig = "repeated-use-reported-as-cycle"
			}
			res.Violate(sig, "%s(%q) failed with %q, model: %q (class %s); %s", how, k, err, mres.S, class, desc)
			return
		}
		want := interface{}(mres.S)
		if s.Ex.HasVar() {
			want = vx.ExpectText(mres.S)
		}
		if model.CanonIfc(val) != model.CanonIfc(want) && model.CanonIfc(val) != model.CanonIfc(mres.S) {
			res.Violate("wrong-substitution", "%s(%q) = %s, model %s (class %s); %s", how, k, model.CanonIfc(val), model.CanonIfc(want), class, desc)
		}
	}
}
