package c08

// Ladders: templates whose number of evaluation PATHS doubles per level while
// the number of settings and references grows linearly. "Reading any setting
// finishes" is judged by bounded progress:
//   - reference resolutions per read (resolve hook) stay within a linear bound
//     in the number of references written in the configuration;
//   - the memory allocated by one read (runtime.MemStats.TotalAlloc, a
//     monotonic counter of the process, no clock) does not grow exponentially
//     with the height of the ladder;
//   - if the library reports the dependency lists it keeps (hook kind "deps",
//     a = length), none is longer than the number of distinct references.
// The height is raised step by step and the escalation stops at the first
// bound that is broken, so a tree with exponential behaviour costs
// milliseconds here, not minutes.

import (
	"fmt"
	"math/rand"
	"runtime"
	"strings"

	ucfg "github.com/elastic/go-ucfg"

	"verif/internal/harness"
	"verif/internal/vx"
)

type ladder struct {
	kind string
	cfg  map[string]interface{}
	refs int    // references written in the configuration
	read string // setting to read
	// expectation
	fails  bool // the read fails (unabsorbed cyclic reference at the end of the chain)
	cyclic bool
	want   string
}

func mkLadder(kind string, n int) ladder {
	l := ladder{kind: kind, cfg: map[string]interface{}{}}
	name := func(p string, i int) string { return fmt.Sprintf("%s%d", p, i) }
	ref := func(s string) string { l.refs++; return "${" + s + "}" }
	switch kind {
	case "same-variable-twice":
		for i := 0; i < n; i++ {
			l.cfg[name("s", i)] = ref(name("s", i+1)) + ref(name("s", i+1))
		}
		l.cfg[name("s", n)] = ""
		l.read = "s0"
	case "same-variable-three-times-with-operators":
		for i := 0; i < n; i++ {
			nx := name("s", i+1)
			l.refs += 2
			l.cfg[name("s", i)] = ref(nx) + "${" + nx + ":}" + "${" + nx + ":+}"
		}
		l.cfg[name("s", n)] = ""
		l.read = "s0"
	case "two-rail-diamonds":
		for i := 0; i < n; i++ {
			l.cfg[name("s", i)] = ref(name("s", i+1)) + ref(name("t", i+1))
			l.cfg[name("t", i)] = ref(name("t", i+1)) + ref(name("s", i+1))
		}
		l.cfg[name("s", n)] = ""
		l.cfg[name("t", n)] = ""
		l.read = "s0"
	case "diamonds-through-object-members":
		// every level reads two members of the object the next level refers to
		for i := 0; i < n; i++ {
			l.cfg[name("o", i)] = map[string]interface{}{
				"a": ref(name("o", i+1)+".a") + ref(name("o", i+1)+".b"),
				"b": ref(name("o", i+1)+".b") + ref(name("o", i+1)+".a"),
			}
		}
		l.cfg[name("o", n)] = map[string]interface{}{"a": "", "b": ""}
		l.read = "o0.a"
	case "chain-of-aliases-read-through-a-path":
		for i := 0; i < n; i++ {
			l.cfg[name("a", i)] = ref(name("a", i+1))
		}
		l.cfg[name("a", n)] = map[string]interface{}{"x": "va"}
		l.cfg["r"] = ref("a0.x") + ref("a0.x")
		l.read, l.want = "r", "vava"
	case "failing-chain-of-paths-ending-in-a-cycle":
		for i := 0; i < n; i++ {
			l.cfg[name("a", i)] = ref(name("a", i+1) + ".x")
		}
		l.cfg[name("a", n)] = ref(name("a", n))
		l.read, l.fails, l.cyclic = "a0", true, true
	case "same-variable-twice-above-one-absorbed-cycle":
		// the bottom refers to itself, its default operator absorbs that
		for i := 0; i < n; i++ {
			l.cfg[name("s", i)] = ref(name("s", i+1)) + ref(name("s", i+1))
		}
		l.refs++
		l.cfg[name("s", n)] = "${" + name("s", n) + ":}"
		l.read = "s0"
	case "two-rail-diamonds-above-one-absorbed-cycle":
		for i := 0; i < n; i++ {
			l.cfg[name("s", i)] = ref(name("s", i+1)) + ref(name("t", i+1))
			l.cfg[name("t", i)] = ref(name("t", i+1)) + ref(name("s", i+1))
		}
		l.refs += 2
		l.cfg[name("s", n)] = "${" + name("t", n) + ":}"
		l.cfg[name("t", n)] = "${" + name("s", n) + ":+}"
		l.read = "s0"
	case "chain-of-element-0-paths-ending-in-a-value":
		// element 0 of a value that is no list is the value
		for i := 0; i < n; i++ {
			l.cfg[name("a", i)] = ref(name("a", i+1) + ".0")
		}
		l.cfg[name("a", n)] = "va"
		l.read, l.want = "a0", "va"
	case "chain-of-element-0-paths-ending-in-a-list":
		for i := 0; i < n; i++ {
			l.cfg[name("a", i)] = ref(name("a", i+1) + ".0")
		}
		l.cfg[name("a", n)] = []interface{}{"va", "vb"}
		l.read, l.want = "a0", "va"
	case "chain-of-element-0-paths-ending-in-nothing":
		for i := 0; i < n; i++ {
			l.cfg[name("a", i)] = ref(name("a", i+1) + ".0")
		}
		l.cfg[name("a", n)] = ref("zz")
		l.read, l.fails = "a0", true
	case "chain-of-element-0-paths-ending-in-a-cycle":
		for i := 0; i < n; i++ {
			l.cfg[name("a", i)] = ref(name("a", i+1) + ".0")
		}
		l.cfg[name("a", n)] = ref(name("a", n))
		l.read, l.fails, l.cyclic = "a0", true, true
	case "failing-chain-of-paths-ending-in-nothing":
		for i := 0; i < n; i++ {
			l.cfg[name("a", i)] = ref(name("a", i+1) + ".x")
		}
		l.cfg[name("a", n)] = ref("zz")
		l.read, l.fails = "a0", true
	}
	return l
}

var ladderKinds = []string{
	"same-variable-twice", "same-variable-three-times-with-operators", "two-rail-diamonds",
	"diamonds-through-object-members", "chain-of-aliases-read-through-a-path",
	"failing-chain-of-paths-ending-in-a-cycle", "failing-chain-of-paths-ending-in-nothing",
	"same-variable-twice-above-one-absorbed-cycle", "two-rail-diamonds-above-one-absorbed-cycle",
	"chain-of-element-0-paths-ending-in-a-value", "chain-of-element-0-paths-ending-in-a-list",
	"chain-of-element-0-paths-ending-in-nothing", "chain-of-element-0-paths-ending-in-a-cycle",
}

// ladderFamily: the input class a ladder kind belongs to (part of the
// signatures of broken bounds).
func ladderFamily(kind string) string {
	switch {
	case strings.HasPrefix(kind, "chain-of-element-0-paths"):
		return "chain-of-element-0-paths"
	case strings.HasSuffix(kind, "above-one-absorbed-cycle"):
		return "diamonds-above-an-absorbed-cycle"
	case strings.HasPrefix(kind, "failing-chain"):
		return "failing-chain-of-paths"
	case kind == "chain-of-aliases-read-through-a-path":
		return "chain-of-aliases"
	}
	return "repeated-uses-and-diamonds"
}

func runLadder(res *harness.R, r *rand.Rand, verbose bool) {
	if res.Events["violations_raw"] > 0 {
		return
	}
	kind := ladderKinds[r.Intn(len(ladderKinds))]
	top := 8 + r.Intn(33) // up to 40 levels
	start := 2 + r.Intn(4)
	res.SetAdd("ladder_kind", kind)
	defer ucfg.VerifSetHook(nil)
	var prevBytes uint64
	for n := start; ; n += 4 {
		if n > top {
			n = top
		}
		l := mkLadder(kind, n)
		desc := fmt.Sprintf("ladder %q with %d levels (%d settings, %d references)", kind, n, len(l.cfg), l.refs)
		var c *ucfg.Config
		var err error
		if p, pv, where := harness.Safe(func() { c, err = ucfg.NewFrom(l.cfg, vx.BaseOpts...) }); p || err != nil {
			res.Violate("build-error", "building failed: %v %v %v; %s", err, pv, where, desc)
			return
		}
		bound := 64*l.refs + 64
		steps, maxDeps := 0, 0
		ucfg.VerifSetHook(func(kind, site, s string, a, b int) {
			switch kind {
			case "resolve":
				steps++
				if steps > bound {
					panic(budgetExceeded{})
				}
			case "deps":
				if a > maxDeps {
					maxDeps = a
				}
			}
		})
		type reading struct {
			what string
			f    func() (string, error)
		}
		reads := []reading{
			{"String", func() (string, error) { return c.String(l.read, -1, vx.BaseOpts...) }},
			{"Unpack(whole config)", func() (string, error) {
				var m map[string]interface{}
				return l.want, c.Unpack(&m, vx.BaseOpts...)
			}},
		}
		if !l.fails {
			reads = append(reads, reading{"FlattenedKeys", func() (string, error) { c.FlattenedKeys(vx.BaseOpts...); return l.want, nil }})
		}
		var worst uint64
		for _, rd := range reads {
			steps, maxDeps = 0, 0
			var got string
			var rerr error
			var ms0, ms1 runtime.MemStats
			over := false
			runtime.ReadMemStats(&ms0)
			func() {
				defer func() {
					if rec := recover(); rec != nil {
						if _, isBudget := rec.(budgetExceeded); isBudget {
							over = true
							return
						}
						res.Violate("panic", "%s panicked: %v; %s", rd.what, rec, desc)
					}
				}()
				got, rerr = rd.f()
			}()
			runtime.ReadMemStats(&ms1)
			res.Eval(1)
			res.Ev("ladder_reads", 1)
			bytes := ms1.TotalAlloc - ms0.TotalAlloc
			if bytes > worst {
				worst = bytes
			}
			if verbose {
				fmt.Printf("%s %s: steps=%d bytes=%d maxDeps=%d err=%v\n", desc, rd.what, steps, bytes, maxDeps, rerr)
			}
			what := fmt.Sprintf("%s of %q", rd.what, l.read)
			switch {
			case over:
				res.Violate("ladder:resolutions-exceed-linear-bound:"+ladderFamily(kind), "%s performed more than %d reference resolutions (bound: 64 per reference written + 64); %s", what, bound, desc)
				return
			case maxDeps > l.refs:
				res.Violate("ladder:dependency-list-longer-than-references:"+ladderFamily(kind), "%s: a dependency list of %d entries, the configuration has %d references; %s", what, maxDeps, l.refs, desc)
				return
			case l.fails && rerr == nil:
				res.Violate("ladder:failing-read-succeeds", "%s succeeded, the chain ends in a failing reference; %s", what, desc)
				return
			case l.fails && l.cyclic && !vx.IsCyclicErr(rerr):
				// the failure of the chain's end is passed on as something else:
				// same signature as in the path worlds
				sig := "path:getter:cycle-error-not-identifiable"
				if hasReason(rerr, ucfg.ErrMissing) {
					sig = "path:getter:cycle-reported-as-missing"
				}
				if res.Events["ladder_ident"] == 0 {
					res.Ev("ladder_ident", 1)
					res.Violate(sig, "%s failed with %q, expected a cyclic reference error; %s", what, firstLine(rerr), desc)
				}
			case !l.fails && rerr != nil:
				sig := "ladder:acyclic-read-fails"
				if vx.IsCyclicErr(rerr) {
					sig = "ladder:repeated-use-reported-as-cycle"
				}
				res.Violate(sig, "%s failed with %q; %s", what, firstLine(rerr), desc)
				return
			case !l.fails && got != l.want:
				res.Violate("ladder:wrong-substitution", "%s = %q, expected %q; %s", what, got, l.want, desc)
				return
			}
		}
		res.SetAdd("ladder_levels_log2", fmt.Sprint(log2(n)))
		res.SetAdd("ladder_bytes_per_read_log2", fmt.Sprint(log2(int(worst))))
		// exponential growth of the work: x8 for 4 more levels (a polynomial of
		// degree 4 grows by less than x4 from 8 to 12 levels) and a volume that
		// no linear number of evaluations explains
		if prevBytes > 0 && n >= 10 && worst > 8*prevBytes && worst > 4<<20 {
			res.Violate("ladder:work-grows-exponentially:"+ladderFamily(kind), "the most expensive read allocated %d bytes with %d levels, more than 8 times the %d bytes of the ladder 4 levels lower; %s", worst, n, prevBytes, desc)
			return
		}
		prevBytes = worst
		if n >= top {
			break
		}
	}
	res.Ev("ladders_climbed_to_the_top", 1)
	res.SetAdd("ladder_kinds_climbed_to_the_top", kind)
}

func firstLine(err error) string {
	if err == nil {
		return ""
	}
	s := err.Error()
	if i := strings.Index(s, "\n"); i >= 0 {
		s = s[:i]
	}
	return s
}
