package c08

// Histories over the flat reference graphs: read everything, change the
// configuration (Merge / SetString / Remove of a setting, other resolvers),
// read everything again. Every read is judged by readWorld against the model
// of the configuration as it is NOW: nothing evaluated by an earlier call may
// survive it.

import (
	"fmt"
	"math/rand"
	"strings"

	ucfg "github.com/elastic/go-ucfg"
	"github.com/elastic/go-ucfg/parse"

	"verif/internal/harness"
	"verif/internal/model"
	"verif/internal/vx"
)

func optsForWorld(w *model.World) []ucfg.Option {
	opts := append([]ucfg.Option{}, vx.BaseOpts...)
	for _, res := range w.Ress {
		res := res
		opts = append(opts, ucfg.Resolve(func(n string) (string, parse.Config, error) {
			if v, ok := res[n]; ok {
				return v, parse.NoopConfig, nil
			}
			return "", parse.NoopConfig, ucfg.ErrMissing
		}))
	}
	return opts
}

// storedShape renders what the configuration STORES (no evaluation): path,
// kind and text of every node.
func storedShape(c *ucfg.Config) string {
	var b strings.Builder
	for _, n := range ucfg.VerifWalk(c) {
		if n.Kind == "sub" {
			fmt.Fprintf(&b, "%s{%d,%d};", n.Walk, n.NDict, n.NArr)
			continue
		}
		fmt.Fprintf(&b, "%s=%s:%q;", n.Walk, n.Kind, n.Text)
	}
	return b.String()
}

// sameStored: the configuration with the history stores exactly what a
// configuration built from the model's content stores. If not, the mutation
// did something else than replacing the setting (how Merge combines values is
// not this property's business): the reads that follow are not judged.
func sameStored(c *ucfg.Config, fresh func() (*ucfg.Config, error)) bool {
	var f *ucfg.Config
	var err error
	if p, _, _ := harness.Safe(func() { f, err = fresh() }); p || err != nil || f == nil {
		return false
	}
	return storedShape(c) == storedShape(f)
}

func copyWorld(w *model.World) *model.World {
	out := &model.World{Root: map[string]*model.Setting{}, Ress: w.Ress}
	for k, s := range w.Root {
		out.Root[k] = s
	}
	return out
}

func nestedValue(path string, v interface{}) map[string]interface{} {
	segs := strings.Split(path, ".")
	out := map[string]interface{}{}
	cur := out
	for _, s := range segs[:len(segs)-1] {
		nm := map[string]interface{}{}
		cur[s] = nm
		cur = nm
	}
	cur[segs[len(segs)-1]] = v
	return out
}

// mutateWorld applies one change to c and returns the world after it.
func mutateWorld(r *rand.Rand, w *model.World, c *ucfg.Config) (*model.World, string, error) {
	w2 := copyWorld(w)
	var exist []string
	for _, k := range rndNames {
		if s, ok := w.Root[k]; ok && s.Ex != nil {
			exist = append(exist, k)
		}
	}
	k := rndNames[r.Intn(len(rndNames))]
	if len(exist) > 0 && r.Intn(4) != 0 {
		k = exist[r.Intn(len(exist))]
	}
	if s, ok := w.Root[k]; ok && s.Ex == nil {
		k = "f" // never replace a list by text
		if s, ok := w.Root[k]; ok && s.Ex == nil {
			return w2, "", nil
		}
	}
	g := model.ExGen{Names: refNames, Lits: []string{"va", "vb", "w", ""}, NameExprs: true}
	var err error
	var what string
	switch op := r.Intn(10); {
	case op < 5: // a reference: closes or opens cycles, redirects chains
		target := refNames[r.Intn(len(refNames))]
		if len(exist) > 0 && r.Intn(2) == 0 {
			target = exist[r.Intn(len(exist))]
		}
		e := model.Ref(target)
		if r.Intn(3) == 0 {
			e = (&model.Ex{Kind: model.XCat, Kids: []*model.Ex{model.Lit("pre-"), model.Ref(target)}}).Normalize()
		}
		what = fmt.Sprintf("Merge %s: %q", k, e.Render(false))
		harness.Safe(func() { err = c.Merge(nestedValue(k, e.Render(false)), vx.BaseOpts...) })
		w2.Root[k] = &model.Setting{Ex: e}
	case op < 7:
		e := g.Gen(r, 1+r.Intn(3))
		what = fmt.Sprintf("Merge %s: %q", k, e.Render(false))
		harness.Safe(func() { err = c.Merge(nestedValue(k, e.Render(false)), vx.BaseOpts...) })
		w2.Root[k] = &model.Setting{Ex: e}
	case op < 9:
		lit := []string{"va", "vb", "w"}[r.Intn(3)]
		what = fmt.Sprintf("SetString %s: %q", k, lit)
		harness.Safe(func() { err = c.SetString(k, -1, lit, ucfg.PathSep(".")) })
		w2.Root[k] = &model.Setting{Ex: model.Lit(lit)}
	default:
		if _, ok := w.Root[k]; !ok {
			return w2, "", nil
		}
		if strings.HasPrefix(k, "o.") && len(w.Members("o")) < 2 {
			return w2, "", nil // an object without members is not expressible in the model
		}
		what = fmt.Sprintf("Remove %s", k)
		harness.Safe(func() { _, err = c.Remove(k, -1, ucfg.PathSep(".")) })
		delete(w2.Root, k)
	}
	return w2, what, err
}

func runHistory(res *harness.R, r *rand.Rand, verbose bool) {
	if res.Events["violations_raw"] > 0 {
		return
	}
	w := genWorld(r)
	var b *vx.Built
	var err error
	if p, pv, where := harness.Safe(func() { b, err = vx.Build(w, nil) }); p || err != nil {
		res.Violate("build-error", "building the config failed: %v %v %v; %s", err, pv, where, describe(w))
		return
	}
	res.Ev("history_worlds", 1)
	history := describe(w)
	// the reads before the first change (judged as well)
	readWorld(res, w, b, r, verbose, history)
	for step, steps := 0, 1+r.Intn(2); step < steps && res.Events["violations_raw"] == 0; step++ {
		w2, what, merr := mutateWorld(r, w, b.C)
		if what == "" {
			continue
		}
		if merr != nil {
			res.Violate("after-mutation:mutation-fails", "%s failed with %q; history: %s", what, merr, history)
			return
		}
		if r.Intn(4) == 0 {
			w2.Ress = nil
			if r.Intn(2) == 0 {
				known := map[string]string{}
				for _, nm := range refNames {
					if r.Intn(3) == 0 {
						known[nm] = "res2:" + nm
					}
				}
				w2.Ress = []map[string]string{known}
			}
			what += ", other resolvers"
		}
		w = w2
		history += " -> [reads] -> " + what
		if !sameStored(b.C, func() (*ucfg.Config, error) {
			fb, err := vx.Build(w, nil)
			if err != nil {
				return nil, err
			}
			return fb.C, nil
		}) {
			res.Ev("history_steps_not_judged_mutation_stored_other_content", 1)
			return
		}
		res.Ev("history_steps", 1)
		res.SetAdd("history_mutation", strings.SplitN(what, " ", 2)[0])
		if hasEdges(w) {
			res.Key("history " + history)
		}
		seed := r.Int63()
		readInto := func(bb *vx.Built, desc string) harness.Result {
			hr := harness.NewR(res.Index)
			readWorld(hr, w, bb, rand.New(rand.NewSource(seed)), verbose, desc)
			return hr.Done()
		}
		out := readInto(&vx.Built{C: b.C, Opts: optsForWorld(w)}, fmt.Sprintf("now %s; history: %s", describe(w), history))
		for k, n := range out.Events {
			if k != "violations_raw" {
				res.Ev(k, n)
			}
		}
		for k, vs := range out.Sets {
			for _, v := range vs {
				res.SetAdd(k, v)
			}
		}
		res.Eval(out.Evals)
		if len(out.Violations) > 0 {
			// a deviation which a freshly built configuration of the same
			// content shows as well keeps its plain signature
			fresh := map[string]bool{}
			var fb *vx.Built
			var ferr error
			harness.Safe(func() { fb, ferr = vx.Build(w, nil) })
			if fb != nil && ferr == nil {
				for _, v := range readInto(fb, "fresh "+describe(w)).Violations {
					fresh[v.Sig] = true
				}
			}
			for _, v := range out.Violations {
				sig := v.Sig
				if !fresh[sig] {
					sig = "after-mutation:" + sig
				}
				res.Violate(sig, "%s", v.Detail)
			}
		}
	}
}
