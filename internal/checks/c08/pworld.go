package c08

// Path worlds: small configurations of literal objects/lists, aliases (exact
// single references to objects, lists, primitives, other aliases, themselves,
// nothing - also written as paths THROUGH other aliases: ${x.sub}) and texts
// whose references are such paths too. Read through getters, Has, Child,
// CountField and Unpack with multi-segment paths, into slice/array targets
// (a primitive reads as a list of one), and - histories - read again after
// Merge/Set/Remove changed the configuration. Oracle: pev (pev.go).

import (
	"fmt"
	"math/rand"
	"reflect"
	"sort"
	"strconv"
	"strings"

	ucfg "github.com/elastic/go-ucfg"
	"github.com/elastic/go-ucfg/diff"
	"github.com/elastic/go-ucfg/parse"

	"verif/internal/harness"
	"verif/internal/model"
	"verif/internal/vx"
)

type pworld struct {
	// references written in nested positions of the environment evaluated by
	// the models of the current read (reset per read by the reader)
	nestedHits int
	// substituted texts that became a non-canonically written number in the
	// models of the current read (such reads are not judged)
	nonCanonHits int
	root         *tn
	env          *tn          // environment (Env option), nil: none
	envCfg       *ucfg.Config // the environment as library object
	res          map[string]string
	aliases      []string // paths of alias settings
	texts        []string // paths of text settings
	names        []string // pool of names used in references and API calls
	chain        bool
}

var aliasNames = []string{"x", "y", "z", "v", "w"}

func (t *pworld) lookup(path string) *tn {
	n := t.root
	for _, seg := range strings.Split(path, ".") {
		if n = childOf(n, seg); n == nil {
			return nil
		}
	}
	return n
}

func (t *pworld) describe() string {
	var b strings.Builder
	t.root.render(&b)
	if t.env != nil {
		b.WriteString(" Env=")
		t.env.render(&b)
	}
	if t.res == nil {
		return b.String() + " resolvers=[]"
	}
	return fmt.Sprintf("%s resolvers=[%v]", b.String(), t.res)
}

// shapeHash: a number derived from the names and nesting of the tree.
func shapeHash(n *tn) int {
	h := 17
	switch n.kind {
	case 'o':
		for _, k := range sortedKids(n) {
			for _, c := range []byte(k) {
				h = (h*31 + int(c)) & 0xffffff
			}
			h = (h*131 + shapeHash(n.kids[k])) & 0xffffff
		}
	case 'l':
		for _, c := range n.elems {
			h = (h*137 + shapeHash(c)) & 0xffffff
		}
	default:
		h = (h*7 + int(n.kind)) & 0xffffff
	}
	return h
}

func prim(r *rand.Rand) *tn { return &tn{kind: 'v', val: int64(1 + r.Intn(9))} }

func genPaths(r *rand.Rand) *pworld {
	t := &pworld{root: &tn{kind: 'o', kids: map[string]*tn{}}}
	t.chain = r.Intn(3) == 0
	alias := func(path string) *tn { t.aliases = append(t.aliases, path); return &tn{kind: 'e'} }
	text := func(path string) *tn { t.texts = append(t.texts, path); return &tn{kind: 'e'} }
	leaf := func(path string) *tn {
		if r.Intn(2) == 0 {
			return prim(r)
		}
		return text(path)
	}
	object := func(path string, depth int) *tn {
		o := &tn{kind: 'o', kids: map[string]*tn{}}
		o.kids["k"] = leaf(path + ".k")
		if r.Intn(2) == 0 {
			o.kids["j"] = text(path + ".j")
		}
		if r.Intn(5) < 2 {
			o.kids["back"] = alias(path + ".back")
		}
		return o
	}
	var objs []string
	for _, nm := range []string{"o", "n"} {
		if nm == "n" && r.Intn(2) == 0 {
			continue
		}
		o := object(nm, 1)
		if r.Intn(5) < 2 {
			o.kids["sub"] = object(nm+".sub", 0)
			objs = append(objs, nm+".sub")
		}
		t.root.kids[nm] = o
		objs = append(objs, nm)
	}
	hasList := r.Intn(2) == 0
	if hasList {
		l := &tn{kind: 'l'}
		for i, c := 0, 1+r.Intn(3); i < c; i++ {
			p := "l." + strconv.Itoa(i)
			switch r.Intn(5) {
			case 0:
				l.elems = append(l.elems, alias(p))
			case 1, 2:
				l.elems = append(l.elems, text(p))
			default:
				l.elems = append(l.elems, prim(r))
			}
		}
		t.root.kids["l"] = l
	}
	var tops []string // top-level aliases
	for _, nm := range aliasNames[:1+r.Intn(len(aliasNames))] {
		t.root.kids[nm] = alias(nm)
		tops = append(tops, nm)
	}
	for _, nm := range []string{"a", "b", "c"}[:1+r.Intn(3)] {
		t.root.kids[nm] = text(nm)
	}
	if r.Intn(3) == 0 {
		t.root.kids["i"] = prim(r)
	}

	// a third of the worlds (chosen by their shape, no draw from r: the other
	// worlds stay what they were) are read with an environment: an empty one,
	// or one defining names the configuration has as well, or does not have,
	// by literals and by references of its own
	var envNames, envOnly []string
	if h := shapeHash(t.root); h%3 == 0 {
		er := rand.New(rand.NewSource(int64(h)))
		t.env = &tn{kind: 'o', kids: map[string]*tn{}}
		if er.Intn(8) != 0 { // else: an empty environment
			// names only the environment has, and names the configuration has too
			envOnly = []string{"ea", "eb", "ec"}[:1+er.Intn(3)]
			var both []string
			for _, k := range sortedKids(t.root) {
				if n := t.root.kids[k]; n.kind == 'e' && er.Intn(3) == 0 {
					both = append(both, k)
				}
			}
			keys := append(append([]string{}, envOnly...), both...)
			cfgNames := sortedKids(t.root)
			// a value of the environment: literal, or a reference of its own
			value := func(k string) *tn {
				n := &tn{kind: 'e'}
				other := keys[er.Intn(len(keys))]
				if er.Intn(3) == 0 {
					other = cfgNames[er.Intn(len(cfgNames))]
				}
				switch v := er.Intn(10); {
				case v < 3:
					n.ex = model.Lit("e" + k)
				case v < 4:
					n.kind, n.val = 'v', int64(1+er.Intn(9))
				case v < 8:
					n.ex = model.Ref(other)
				default:
					n.ex = (&model.Ex{Kind: model.XCat, Kids: []*model.Ex{model.Lit("e"), model.Ref(other)}}).Normalize()
				}
				return n
			}
			for _, k := range keys {
				t.env.kids[k] = value(k)
				envNames = append(envNames, k)
			}
			// settings NESTED in objects and lists of the environment (only the
			// environment has them): their references are written in the
			// environment just like the ones on its top level
			if er.Intn(3) != 0 {
				eo := &tn{kind: 'o', kids: map[string]*tn{"k": value("k")}}
				nested := []string{"eo", "eo.k"}
				if er.Intn(2) == 0 {
					eo.kids["j"] = value("j")
					nested = append(nested, "eo.j")
				}
				if er.Intn(3) == 0 {
					eo.kids["sub"] = &tn{kind: 'o', kids: map[string]*tn{"k": value("k")}}
					nested = append(nested, "eo.sub", "eo.sub.k")
				}
				t.env.kids["eo"] = eo
				envNames = append(envNames, nested...)
				envOnly = append(envOnly, nested...)
			}
			if er.Intn(3) == 0 {
				el := &tn{kind: 'l'}
				nested := []string{"el"}
				for i, c := 0, 1+er.Intn(2); i < c; i++ {
					el.elems = append(el.elems, value("l"))
					nested = append(nested, "el."+strconv.Itoa(i))
				}
				t.env.kids["el"] = el
				envNames = append(envNames, nested...)
				envOnly = append(envOnly, nested...)
			}
		}
	}
	// the pool of names: literal paths, and paths through aliases
	pool := map[string]bool{"zz": true, "zz.k": true}
	var lit func(n *tn, path string)
	lit = func(n *tn, path string) {
		if path != "" {
			pool[path] = true
		}
		switch n.kind {
		case 'o':
			for k, c := range n.kids {
				lit(c, join(path, k))
			}
		case 'l':
			for i, c := range n.elems {
				lit(c, join(path, strconv.Itoa(i)))
			}
		}
	}
	lit(t.root, "")
	for _, a := range t.aliases {
		for _, m := range []string{"k", "j", "sub", "sub.k", "back", "back.k", "back.back.k", "1", "1.k", "2"} {
			if r.Intn(3) == 0 {
				pool[a+"."+m] = true
			}
		}
	}
	for _, tx := range t.texts {
		if r.Intn(6) == 0 {
			pool[tx+".k"] = true // text where an object is needed
		}
	}
	for n := range pool {
		t.names = append(t.names, n)
	}
	sort.Strings(t.names)
	for _, n := range envNames {
		if !pool[n] {
			t.names = append(t.names, n)
		}
	}

	// alias targets
	target := func(self string) string {
		switch k := r.Intn(20); {
		case k < 5:
			return pick(r, objs)
		case k < 8 && hasList:
			if r.Intn(2) == 0 {
				return "l"
			}
			return "l." + strconv.Itoa(r.Intn(len(t.root.kids["l"].elems)))
		case k < 11:
			return pick(r, t.texts) // a chain ending in text
		case k < 13:
			return pick(r, objs) + ".k" // ... in a primitive or text
		case k < 16:
			return pick(r, t.aliases) // another alias, or itself
		case k < 17:
			return self
		case k < 18:
			return "zz"
		}
		if len(envOnly) > 0 && r.Intn(2) == 0 {
			return pick(r, envOnly) // a name only the environment knows
		}
		return pick(r, t.names)
	}
	for _, a := range t.aliases {
		t.lookup(a).ex = model.Ref(target(a))
	}
	if t.chain {
		// the top-level aliases form one chain; only its end is drawn freely
		for i := 0; i+1 < len(tops); i++ {
			t.lookup(tops[i]).ex = model.Ref(tops[i+1])
		}
	}
	// texts
	for _, p := range t.texts {
		names := []string{pick(r, t.names)}
		if len(envOnly) > 0 && r.Intn(2) == 0 {
			names[0] = pick(r, envOnly)
		}
		for i, c := 0, 1+r.Intn(4); i < c; i++ {
			if r.Intn(3) == 0 {
				names = append(names, pick(r, t.texts))
			} else {
				names = append(names, pick(r, t.names))
			}
		}
		eg := model.ExGen{Names: names, Lits: []string{"va", "vb", "w", ""}, NameExprs: true}
		var e *model.Ex
		switch k := r.Intn(10); {
		case k < 3:
			e = model.Lit(pick(r, []string{"va", "vb", "w"}))
		case k < 5:
			e = model.Ref(pick(r, names)) // exactly one reference
		default:
			e = eg.Gen(r, 1+r.Intn(3))
		}
		t.lookup(p).ex = e
	}
	if r.Intn(4) == 0 {
		t.res = map[string]string{}
		for _, nm := range t.names {
			if r.Intn(5) == 0 {
				t.res[nm] = "res:" + nm
			}
		}
	}
	return t
}

func (t *pworld) opts() []ucfg.Option {
	opts := append([]ucfg.Option{}, vx.BaseOpts...)
	if t.envCfg != nil {
		opts = append(opts, ucfg.Env(t.envCfg))
	}
	if t.res != nil {
		known := t.res
		opts = append(opts, ucfg.Resolve(func(n string) (string, parse.Config, error) {
			if v, ok := known[n]; ok {
				return v, parse.NoopConfig, nil
			}
			return "", parse.NoopConfig, ucfg.ErrMissing
		}))
	}
	return opts
}

func (t *pworld) newPev() *pev {
	p := &pev{root: t.root, res: t.res}
	p.nonCanon = &t.nonCanonHits
	if t.env != nil {
		p.env, p.envNodes, p.envNested = t.env, map[*tn]bool{}, map[*tn]bool{}
		p.nestedHits = &t.nestedHits
		var mark func(n *tn, depth int)
		mark = func(n *tn, depth int) {
			p.envNodes[n] = true
			if depth > 1 {
				p.envNested[n] = true
			}
			for _, c := range n.kids {
				mark(c, depth+1)
			}
			for _, c := range n.elems {
				mark(c, depth+1)
			}
		}
		mark(t.env, 0)
	}
	return p
}

// hasReason: err (or an error it wraps) has the reason r.
func hasReason(err error, r error) bool {
	for _, x := range vx.RootReasons(err) {
		if x == r {
			return true
		}
	}
	return false
}

// preader reads one path world and judges the reads.
type preader struct {
	res      *harness.R
	t        *pworld
	c        *ucfg.Config
	opts     []ucfg.Option
	g        *stepGuard
	desc     string
	prefix   string // "path:" or "after-mutation:path:"
	verbose  bool
	once     map[string]bool // non-blocking signatures already reported for this world
	blocking int
}

func (pr *preader) blocked() bool { return pr.blocking > 0 || pr.g.aborted }

// sigFor composes the signature of a deviation. Two dimensions are classes
// of their own, whatever the entry point resp. the kind of deviation:
// members tagged with a path that leads through a reference (they have to
// behave like the nested members the tag stands for), and reads with an
// environment.
func (pr *preader) sigFor(entry, class string) string {
	switch {
	case strings.HasSuffix(entry, ":tag-through-reference"):
		return pr.prefix + entry + "-differs-from-nested-members"
	case pr.t.env != nil:
		switch class {
		case "cycle-not-reported", "cycle-reported-as-missing", "cycle-error-not-identifiable":
			class = "cycle-not-reported-as-cyclic"
		case "repeated-use-reported-as-cycle":
			class = "false-cycle"
		}
		if pr.t.nestedHits > 0 {
			// the read evaluates a reference written below the top level of the
			// environment: a class of its own
			return pr.prefix + "with-env:nested-reference:" + class
		}
		return pr.prefix + "with-env:" + class
	}
	return pr.prefix + entry + ":" + class
}

func (pr *preader) violate(entry, class, format string, a ...interface{}) {
	pr.blocking++
	pr.res.Violate(pr.sigFor(entry, class), "["+entry+":"+class+"] "+format+"; %s", append(a, pr.desc)...)
}

// judgeErr handles the failure side of a read. want: the model's failure (nil:
// the read has to succeed). Returns true if got/want agree on failing.
func (pr *preader) judgeErr(entry, what string, m *pev, want *pval, got error) bool {
	switch {
	case want == nil && got == nil:
		return true
	case want == nil:
		class := "acyclic-read-fails"
		if vx.IsCyclicErr(got) {
			class = "repeated-use-reported-as-cycle"
		}
		pr.violate(entry, class, "%s failed with %q, model: succeeds (re-entry met: %v)", what, got, m.reentry)
		return false
	case got == nil:
		class := "failing-read-succeeds"
		if want.cyclic {
			class = "cycle-not-reported"
		}
		pr.violate(entry, class, "%s succeeded, model: fails (%s)", what, want.kind)
		return false
	case want.cyclic && !vx.IsCyclicErr(got):
		// fails as it has to, but not as a cyclic reference: reported once per
		// configuration and signature, the other reads go on
		class := "cycle-error-not-identifiable"
		if hasReason(got, ucfg.ErrMissing) {
			class = "cycle-reported-as-missing"
		}
		sig := pr.sigFor(entry, class)
		if !pr.once[sig] {
			pr.once[sig] = true
			pr.res.Violate(sig, "["+entry+":"+class+"] %s failed with %q, model: unabsorbed cyclic reference, expected a cyclic reference error; %s", what, got, pr.desc)
		}
		return false
	}
	return false
}

func leafEq(got interface{}, want pval) bool {
	var w interface{} = want.s
	if want.val != nil {
		w = want.val
	}
	return canonLenient(got) == canonLenient(w)
}

func (pr *preader) run(what string, f func()) bool { return pr.g.run(what, f) }

// readPath: all reads of one path.
func (pr *preader) readPath(P string) {
	t, c, opts, res := pr.t, pr.c, pr.opts, pr.res
	t.nestedHits, t.nonCanonHits = 0, 0
	defer func() {
		if t.nestedHits > 0 {
			res.Ev("path_reads_evaluating_references_nested_in_the_environment", 1)
		}
		if t.nonCanonHits > 0 {
			res.Ev("path_reads_not_judged_text_becomes_a_noncanonical_numeral", 1)
		}
	}()
	m := t.newPev()
	n, fail, final := m.walk(P, nil)
	var v pval
	if fail == nil {
		v = m.evalNode(n, nil)
	}
	if m.tooBig {
		res.Ev("path_reads_skipped_model_too_big", 1)
		return
	}
	if m.ambiguous {
		res.Ev("path_reads_not_pinned_down", 1)
		return
	}
	segs := strings.Count(P, ".") + 1
	res.SetAdd("path_segments", strconv.Itoa(segs))
	if m.viaRef > 0 {
		res.Ev("path_reads_through_reference_valued_settings", 1)
	}
	if fail != nil && fail.cyclic {
		res.Ev("path_reads_with_cyclic_setting_on_the_path", 1)
		if final {
			res.Ev("path_reads_with_cycle_met_at_last_step", 1)
		}
	}
	res.SetAdd("path_chain_of_plain_references", hopsLabel(m.maxChain))
	if m.fromEnv > 0 {
		res.Ev("path_reads_with_names_answered_by_the_environment", 1)
	}
	if m.envRefs > 0 {
		res.Ev("path_reads_evaluating_references_written_in_the_environment", 1)
	}
	// model outcome in string context
	var strFail *pval
	switch {
	case fail != nil:
		strFail = fail
	case v.err:
		strFail = &v
	case v.isContainer():
		f := perr("type")
		strFail = &f
	}
	outcome := "value"
	switch {
	case fail != nil:
		outcome = "path-fails-" + fail.kind
	case v.err:
		outcome = "fails-" + v.kind
	case v.isContainer():
		outcome = "container"
	case m.reentry:
		outcome = "value-after-absorbed-reentry"
	}
	res.SetAdd("path_outcome", outcome)

	// String
	var s string
	var err error
	if !pr.run("String "+P, func() { s, err = c.String(P, -1, opts...) }) {
		return
	}
	res.SetAdd("path_entry", "String")
	if pr.verbose {
		fmt.Printf("path %q String -> %q err=%v (model %s %+v)\n", P, s, err, outcome, v)
	}
	if pr.judgeErr("getter", fmt.Sprintf("String(%q)", P), m, strFail, err) && err == nil && !leafEq(s, pval{s: v.s}) {
		pr.violate("getter", "wrong-substitution", "String(%q) = %q, model %q", P, s, v.s)
	}
	if pr.blocked() {
		return
	}
	// Has: the path is walked, the setting found is not evaluated
	if fail == nil || fail.kind == "missing" || fail.cyclic {
		var has bool
		if !pr.run("Has "+P, func() { has, err = c.Has(P, -1, opts...) }) {
			return
		}
		res.SetAdd("path_entry", "Has")
		var hf *pval
		if fail != nil && fail.cyclic {
			hf = fail
		}
		entry := "has"
		if hf != nil && m.finalCyc > 0 {
			// the cyclic setting on the path fails inside a reference whose own
			// path meets the cycle at its last step: a class of its own
			entry = "has:cycle-met-at-last-step-of-a-reference"
		}
		if pr.judgeErr(entry, fmt.Sprintf("Has(%q)", P), m, hf, err) && err == nil && has != (fail == nil) {
			pr.violate("has", "wrong-answer", "Has(%q) = %v, model %v", P, has, fail == nil)
		}
		if pr.blocked() {
			return
		}
	}
	// Child (+ generic Unpack and CountField of what it returns: fresh reads)
	if fail == nil || fail.kind != "type" {
		var sub *ucfg.Config
		if !pr.run("Child "+P, func() { sub, err = c.Child(P, -1, opts...) }) {
			return
		}
		res.SetAdd("path_entry", "Child")
		var cf *pval
		switch {
		case fail != nil:
			cf = fail
		case v.err:
			cf = &v
		case !v.isContainer():
			f := perr("type")
			cf = &f
		}
		if pr.judgeErr("child", fmt.Sprintf("Child(%q)", P), m, cf, err) && err == nil && v.node.kind == 'o' {
			m2 := t.newPev()
			d := &deepOut{}
			want := m2.deep(pval{node: v.node}, d)
			var gm map[string]interface{}
			if !m2.tooBig && !m2.ambiguous {
				if !pr.run("Unpack of Child "+P, func() { err = sub.Unpack(&gm, opts...) }) {
					return
				}
				pr.judgeDeep("child", fmt.Sprintf("Unpack(map) of Child(%q)", P), m2, d, want, gm, err)
			}
			if k := "k"; !pr.blocked() && v.node.kids[k] != nil {
				m3 := t.newPev()
				kv := m3.evalNode(v.node.kids[k], nil)
				var cnt int
				if !m3.tooBig && !m3.ambiguous {
					if !pr.run("CountField of Child "+P, func() { cnt, err = sub.CountField(k, opts...) }) {
						return
					}
					res.SetAdd("path_entry", "Child+CountField")
					var kf *pval
					if kv.err {
						kf = &kv
					}
					if pr.judgeErr("countfield", fmt.Sprintf("CountField(%q) of Child(%q)", k, P), m3, kf, err) && err == nil && !kv.isContainer() && cnt != 1 {
						pr.violate("countfield", "wrong-answer", "CountField(%q) of Child(%q) = %d, model: one value", k, P, cnt)
					}
				}
			}
		}
		if pr.blocked() {
			return
		}
	}
	// Unpack into a one-member struct whose tag is the path: interface{}. A
	// tag with several elements stands for nested members: the references its
	// path leads through stay under evaluation while the setting is unpacked.
	m2 := t.newPev()
	n, fail, _, tagSt := m2.walkKeep(P, nil, true)
	unpackEntry, sliceEntry := "unpack", "slice-target"
	if len(tagSt) > 0 {
		res.Ev("path_tag_walks_keeping_references_under_evaluation", 1)
		unpackEntry, sliceEntry = "unpack:tag-through-reference", "slice-target:tag-through-reference"
	}
	if fail == nil || fail.kind != "type" {
		d := &deepOut{}
		var want interface{}
		var uf *pval
		if fail != nil {
			if fail.kind != "missing" { // a missing setting leaves the member alone
				uf = fail
			}
		} else {
			want = m2.deep(m2.evalNode(n, tagSt), d)
		}
		if !m2.tooBig && !m2.ambiguous {
			var got interface{}
			if !pr.run("Unpack(interface{}) of "+P, func() { got, err = vx.ReadField(c, P, nil, opts) }) {
				return
			}
			res.SetAdd("path_entry", "Unpack(member tagged with the path)")
			what := fmt.Sprintf("Unpack into struct{V interface{} `config:%q`}", P)
			if uf != nil || fail != nil {
				if pr.judgeErr(unpackEntry, what, m, uf, err) && err == nil && got != nil {
					pr.violate(unpackEntry, "wrong-substitution", "%s gives %s, model: the setting is missing", what, canonLenient(got))
				}
			} else {
				pr.judgeDeep(unpackEntry, what, m2, d, want, got, err)
			}
		}
		if pr.blocked() {
			return
		}
	}
	// slice and array targets: a primitive reads as a list of one
	if fail == nil {
		pr.readSlices(P, n, tagSt, sliceEntry)
	}
}

// judgeDeep compares an unpacking read with the deep model.
func (pr *preader) judgeDeep(entry, what string, m *pev, d *deepOut, want, got interface{}, err error) {
	class := d.class(m.reentry)
	pr.res.SetAdd("path_deep_class", class)
	var wf *pval
	switch {
	case d.nErr > 0 && d.nCyc == d.nErr:
		f := perr("cyclic")
		wf = &f
	case d.nErr > 0:
		if err == nil {
			pr.violate(entry, "failing-read-succeeds", "%s succeeded with %s, model: fails (%d failing positions, %d cyclic)", what, canonLenient(got), d.nErr, d.nCyc)
		}
		return
	}
	if pr.verbose {
		fmt.Printf("deep %s -> %s err=%v (model %s %s)\n", what, canonLenient(got), err, class, canonLenient(want))
	}
	if pr.judgeErr(entry, what, m, wf, err) && err == nil {
		if g, w := canonLenient(got), canonLenient(want); g != w {
			pr.violate(entry, "wrong-substitution", "%s gives %s, model (class %s) %s", what, g, class, w)
		}
	}
}

var (
	sliceIfcT = reflect.TypeOf([]interface{}(nil))
	sliceStrT = reflect.TypeOf([]string(nil))
	sliceIntT = reflect.TypeOf([]int(nil))
)

// sliceModel: what the setting n gives when read as a list. ok=false: not a
// list-able value by the model (an object), not read.
func (pr *preader) sliceModel(m *pev, n *tn, st []string) (want []interface{}, d *deepOut, allInt, allLeaf, ok bool) {
	d = &deepOut{}
	v := m.evalNode(n, st)
	allInt, allLeaf = true, true
	switch {
	case v.err:
		d.fail(v)
		return nil, d, false, true, true
	case v.isContainer() && v.node.kind == 'o':
		return nil, d, false, false, false
	case v.isContainer():
		for _, c := range v.node.elems {
			ev := m.evalNode(c, v.st)
			if ev.isContainer() {
				allLeaf = false
			}
			if ev.err || ev.val == nil {
				allInt = false
			}
			want = append(want, m.deep(ev, d))
		}
	default:
		if v.val == nil {
			allInt = false
			want = []interface{}{v.s}
		} else {
			want = []interface{}{v.val}
		}
	}
	return want, d, allInt, allLeaf, true
}

func toIfcSlice(v reflect.Value) interface{} {
	if !v.IsValid() {
		return nil
	}
	for v.Kind() == reflect.Ptr || v.Kind() == reflect.Interface {
		if v.IsNil() {
			return nil
		}
		v = v.Elem()
	}
	if v.Kind() != reflect.Slice && v.Kind() != reflect.Array {
		return v.Interface()
	}
	out := make([]interface{}, v.Len())
	for i := range out {
		e := v.Index(i).Interface()
		switch x := e.(type) {
		case int:
			e = int64(x)
		case uint8:
			e = int64(x)
		}
		out[i] = e
	}
	return out
}

func (pr *preader) readSlices(P string, n *tn, st []string, entry string) {
	t, c, opts, res := pr.t, pr.c, pr.opts, pr.res
	m := t.newPev()
	want, d, allInt, allLeaf, ok := pr.sliceModel(m, n, st)
	if !ok || m.tooBig || m.ambiguous {
		return
	}
	types := []reflect.Type{sliceIfcT}
	if allLeaf && (d.nErr == 0 || d.nCyc == d.nErr) {
		types = append(types, sliceStrT)
		if len(want) > 0 {
			types = append(types, reflect.ArrayOf(len(want), reflect.TypeOf("")))
		}
	}
	if allInt && d.nErr == 0 && len(want) > 0 {
		types = append(types, sliceIntT, reflect.ArrayOf(len(want), reflect.TypeOf(uint8(0))))
	}
	for _, ty := range types {
		var got interface{}
		var err error
		if !pr.run(fmt.Sprintf("Unpack(%v) of %s", ty, P), func() { got, err = vx.ReadField(c, P, ty, opts) }) {
			return
		}
		res.SetAdd("path_slice_target", ty.String())
		res.Ev("path_slice_target_reads", 1)
		if d.nErr == 0 && m.maxChain >= 3 && len(want) == 1 {
			res.Ev("path_slice_reads_of_primitive_behind_3_or_more_references", 1)
		}
		var g interface{}
		if err == nil {
			g = toIfcSlice(reflect.ValueOf(got))
		}
		pr.judgeDeep(entry, fmt.Sprintf("Unpack into struct{V %v `config:%q`}", ty, P), m, d, interface{}(want), g, err)
		if pr.blocked() {
			return
		}
	}
}

// readWhole: reads of the whole configuration.
func (pr *preader) readWhole() {
	t, c, opts, res := pr.t, pr.c, pr.opts, pr.res
	t.nestedHits, t.nonCanonHits = 0, 0
	defer func() {
		if t.nestedHits > 0 {
			res.Ev("path_whole_reads_evaluating_references_nested_in_the_environment", 1)
		}
		if t.nonCanonHits > 0 {
			res.Ev("path_reads_not_judged_text_becomes_a_noncanonical_numeral", 1)
		}
	}()
	m := t.newPev()
	d := &deepOut{}
	want := m.deep(pval{node: t.root}, d)
	if m.tooBig || m.ambiguous {
		return
	}
	var gm map[string]interface{}
	var err error
	if !pr.run("Unpack(whole config)", func() { err = c.Unpack(&gm, opts...) }) {
		return
	}
	res.SetAdd("path_entry", "Unpack(whole config)")
	var got interface{}
	if err == nil {
		got = gm
	}
	pr.judgeDeep("whole", "Unpack of the whole config into a map", m, d, want, got, err)
	if pr.blocked() {
		return
	}
	// one call, one []interface{} member per list-able top-level setting
	var fields []reflect.StructField
	var wants [][]interface{}
	var keys []string
	ms := t.newPev()
	ds := &deepOut{}
	for _, k := range sortedKids(t.root) {
		w, dk, _, _, ok := pr.sliceModel(ms, t.root.kids[k], nil)
		if !ok {
			continue
		}
		ds.nErr += dk.nErr
		ds.nCyc += dk.nCyc
		fields = append(fields, reflect.StructField{Name: "F" + strings.ToUpper(k), Type: sliceIfcT, Tag: reflect.StructTag(fmt.Sprintf(`config:"%s"`, k))})
		wants = append(wants, w)
		keys = append(keys, k)
	}
	if len(fields) >= 2 && !ms.tooBig && !ms.ambiguous {
		p := reflect.New(reflect.StructOf(fields))
		if !pr.run("Unpack(struct of slices)", func() { err = c.Unpack(p.Interface(), opts...) }) {
			return
		}
		res.SetAdd("path_entry", "Unpack(struct of []interface{} members)")
		wm, gmm := map[string]interface{}{}, map[string]interface{}{}
		for i, k := range keys {
			wm[k] = interface{}(wants[i])
			if err == nil {
				gmm[k] = toIfcSlice(p.Elem().Field(i))
			}
		}
		pr.judgeDeep("slice-target", fmt.Sprintf("Unpack into a struct with one []interface{} member per setting %v", keys), ms, ds, wm, gmm, err)
		if pr.blocked() {
			return
		}
	}
	if m.steps <= 300 {
		pr.run("FlattenedKeys", func() { c.FlattenedKeys(opts...) })
		pr.run("diff.CompareConfigs", func() { diff.CompareConfigs(c, c, opts...) })
	}
}

func (pr *preader) readAll(r *rand.Rand) {
	t := pr.t
	paths := sortedKids(t.root)
	seen := map[string]bool{}
	for _, p := range paths {
		seen[p] = true
	}
	for i := 0; i < 8; i++ {
		if p := pick(r, t.names); !seen[p] {
			seen[p] = true
			paths = append(paths, p)
		}
	}
	for _, P := range paths {
		if pr.blocked() {
			return
		}
		pr.readPath(P)
	}
	if !pr.blocked() {
		pr.readWhole()
	}
}

// mutate changes the configuration (tree and library object alike).
// Returns a description of the step, "" if nothing could be done.
func (pr *preader) mutate(r *rand.Rand) string {
	t, c := pr.t, pr.c
	setAt := func(path string, n *tn) {
		segs := strings.Split(path, ".")
		cur := t.root
		for _, s := range segs[:len(segs)-1] {
			cur = cur.kids[s]
		}
		if n == nil {
			delete(cur.kids, segs[len(segs)-1])
		} else {
			cur.kids[segs[len(segs)-1]] = n
		}
	}
	nested := func(path string, v interface{}) map[string]interface{} {
		segs := strings.Split(path, ".")
		out := map[string]interface{}{}
		cur := out
		for _, s := range segs[:len(segs)-1] {
			nm := map[string]interface{}{}
			cur[s] = nm
			cur = nm
		}
		cur[segs[len(segs)-1]] = v
		return out
	}
	// candidates: aliases and texts that are members of objects (not list elements)
	var cands []string
	for _, p := range append(append([]string{}, t.aliases...), t.texts...) {
		if !strings.HasPrefix(p, "l.") && t.lookup(p) != nil {
			cands = append(cands, p)
		}
	}
	if len(cands) == 0 {
		return ""
	}
	p := pick(r, cands)
	old := t.lookup(p)
	var err error
	var what string
	switch k := r.Intn(10); {
	case k < 6: // another reference (may close or open a cycle)
		var target string
		if r.Intn(2) == 0 {
			target = pick(r, cands)
		} else {
			target = pick(r, t.names)
		}
		n := &tn{kind: 'e', ex: model.Ref(target)}
		what = fmt.Sprintf("Merge %s: %q", p, n.ex.Render(false))
		pr.run(what, func() { err = c.Merge(nested(p, n.ex.Render(false)), vx.BaseOpts...) })
		setAt(p, n)
	case k < 8: // a plain value
		lit := pick(r, []string{"va", "vb", "w"})
		n := &tn{kind: 'e', ex: model.Lit(lit)}
		if r.Intn(2) == 0 {
			what = fmt.Sprintf("SetString %s: %q", p, lit)
			pr.run(what, func() { err = c.SetString(p, -1, lit, ucfg.PathSep(".")) })
		} else {
			what = fmt.Sprintf("Merge %s: %q", p, lit)
			pr.run(what, func() { err = c.Merge(nested(p, lit), vx.BaseOpts...) })
		}
		setAt(p, n)
	case k < 9 && strings.Count(p, ".") == 0: // remove a top-level setting
		what = fmt.Sprintf("Remove %s", p)
		pr.run(what, func() { _, err = c.Remove(p, -1, ucfg.PathSep(".")) })
		setAt(p, nil)
	default: // a splice over what was there
		n := &tn{kind: 'e', ex: (&model.Ex{Kind: model.XCat, Kids: []*model.Ex{model.Lit("m"), model.Ref(pick(r, cands))}}).Normalize()}
		what = fmt.Sprintf("Merge %s: %q", p, n.ex.Render(false))
		pr.run(what, func() { err = c.Merge(nested(p, n.ex.Render(false)), vx.BaseOpts...) })
		setAt(p, n)
	}
	_ = old
	if err != nil {
		pr.violate("history", "mutation-fails", "%s failed with %q", what, err)
		return ""
	}
	// the roles may have changed: recompute
	t.aliases, t.texts = nil, nil
	var roles func(n *tn, path string)
	roles = func(n *tn, path string) {
		switch n.kind {
		case 'o':
			for _, k := range sortedKids(n) {
				roles(n.kids[k], join(path, k))
			}
		case 'l':
			for i, c := range n.elems {
				roles(c, join(path, strconv.Itoa(i)))
			}
		case 'e':
			if n.ex.IsSingleRef() {
				t.aliases = append(t.aliases, path)
			} else {
				t.texts = append(t.texts, path)
			}
		}
	}
	roles(t.root, "")
	return what
}

func runPaths(res *harness.R, r *rand.Rand, verbose bool) {
	if res.Events["violations_raw"] > 0 {
		return
	}
	t := genPaths(r)
	desc := t.describe()
	var c *ucfg.Config
	var err error
	if p, pv, where := harness.Safe(func() { c, err = ucfg.NewFrom(t.root.toGo(), vx.BaseOpts...) }); p {
		res.Violate("panic", "panic %q at %s building %s", pv, where, desc)
		return
	}
	res.Eval(1)
	if err != nil {
		res.Violate("build-error", "building the config failed: %v; %s", err, desc)
		return
	}
	if t.env != nil {
		var eerr error
		if p, pv, where := harness.Safe(func() { t.envCfg, eerr = ucfg.NewFrom(t.env.toGo(), vx.BaseOpts...) }); p || eerr != nil {
			res.Violate("build-error", "building the environment failed: %v %v %v; %s", eerr, pv, where, desc)
			return
		}
		res.Ev("path_worlds_with_environment", 1)
		if len(t.env.kids) == 0 {
			res.Ev("path_worlds_with_empty_environment", 1)
		}
		for k := range t.env.kids {
			if t.root.kids[k] != nil {
				res.Ev("path_environment_names_the_configuration_has_as_well", 1)
			}
		}
	}
	res.Ev("path_worlds", 1)
	if t.chain {
		res.Ev("path_worlds_with_one_chain_of_aliases", 1)
	}
	res.Key("paths " + desc)
	g := &stepGuard{res: res, desc: desc, sig: "path:"}
	g.install()
	defer ucfg.VerifSetHook(nil)
	pr := &preader{res: res, t: t, c: c, opts: t.opts(), g: g, desc: desc, prefix: "path:", verbose: verbose, once: map[string]bool{}}
	pr.readAll(r)
	// histories: change the configuration, read everything again; every read
	// is judged against the configuration as it is now. A deviation that a
	// freshly built configuration of the same content shows as well is
	// reported under its plain signature, one that only the configuration
	// with the history shows as after-mutation:<signature>.
	history := desc
	for step, steps := 0, r.Intn(3); step < steps && !pr.blocked(); step++ {
		what := pr.mutate(r)
		if what == "" {
			break
		}
		if r.Intn(4) == 0 {
			// other resolvers for the reads that follow
			t.res = nil
			if r.Intn(2) == 0 {
				t.res = map[string]string{}
				for _, nm := range t.names {
					if r.Intn(5) == 0 {
						t.res[nm] = "res2:" + nm
					}
				}
			}
			pr.opts = t.opts()
			what += ", other resolvers"
		}
		history += " -> [reads] -> " + what
		if !sameStored(c, func() (*ucfg.Config, error) { return ucfg.NewFrom(t.root.toGo(), vx.BaseOpts...) }) {
			res.Ev("path_history_steps_not_judged_mutation_stored_other_content", 1)
			break
		}
		res.Ev("path_history_steps", 1)
		res.SetAdd("path_history_mutation", strings.SplitN(what, " ", 2)[0])
		pathSeed := r.Int63()
		readInto := func(c *ucfg.Config, desc string) harness.Result {
			hr := harness.NewR(res.Index)
			hg := &stepGuard{res: hr, desc: desc, sig: "path:"}
			hg.install()
			hp := &preader{res: hr, t: t, c: c, opts: pr.opts, g: hg, desc: desc, prefix: "path:", verbose: verbose, once: map[string]bool{}}
			hp.readAll(rand.New(rand.NewSource(pathSeed)))
			if hg.max > g.max {
				g.max = hg.max
			}
			if hp.blocked() {
				pr.blocking++
			}
			return hr.Done()
		}
		out := readInto(c, fmt.Sprintf("now %s; history: %s", t.describe(), history))
		for k, n := range out.Events {
			if k != "violations_raw" {
				res.Ev(k, n)
			}
		}
		for k, vs := range out.Sets {
			for _, v := range vs {
				res.SetAdd(k, v)
			}
		}
		res.Eval(out.Evals)
		if len(out.Violations) > 0 {
			fresh := map[string]bool{}
			var c2 *ucfg.Config
			var err2 error
			harness.Safe(func() { c2, err2 = ucfg.NewFrom(t.root.toGo(), vx.BaseOpts...) })
			if c2 != nil && err2 == nil {
				for _, v := range readInto(c2, "fresh "+t.describe()).Violations {
					fresh[v.Sig] = true
				}
			}
			for _, v := range out.Violations {
				sig := v.Sig
				if !fresh[sig] {
					sig = "after-mutation:" + sig
				}
				res.Violate(sig, "%s", v.Detail)
			}
		}
		g.install()
	}
	res.SetAdd("path_max_resolve_events_per_read_log2", fmt.Sprint(log2(g.max)))
}
