// Package c08: see DESIGN.md section 3 C08.
package c08
