package c08

// pev: a stack evaluator over configuration TREES whose reference names are
// paths that may lead THROUGH reference-valued settings (${x.k} with x: ${o}).
//
// Statement modelled (independent of the library's code):
//   - evaluating ${name} puts name under evaluation until its value has been
//     delivered; meeting a name that is under evaluation is a re-entry: a
//     resolver knowing the name absorbs it, otherwise it is a cyclic reference
//     error (which the operators ':' ':+' ':?' absorb like any other failure);
//   - walking a path evaluates every reference-valued setting it has to pass
//     (to find the next member); such an evaluation is over once the walk moves
//     on (a getter for "x.c" reads c like Child("x") followed by a getter for
//     "c" does);
//   - when a container reached through references is unpacked (deep read),
//     these references stay under evaluation for everything below it.

import (
	"sort"
	"strconv"
	"strings"

	"verif/internal/model"
	"verif/internal/vx"
)

type pval struct {
	// failure
	err    bool
	cyclic bool   // unabsorbed re-entry
	kind   string // "cyclic" "missing" "type" "unresolved" "msg"
	// container
	node *tn
	st   []string // references under evaluation while the container is unpacked
	// text or typed primitive
	s   string
	val interface{} // int64 for typed primitives, nil for text
}

func (v pval) isContainer() bool { return !v.err && v.node != nil }

type pev struct {
	root *tn
	res  map[string]string
	// an environment (Env option): a second tree, looked up when the
	// configuration does not have the name. A reference written in the
	// environment is looked up in the environment (only), and is another
	// reference than one of the same name written in the configuration.
	env      *tn
	envNodes map[*tn]bool
	// settings below the top level of the environment; nestedHits counts the
	// references written there that get evaluated (shared by the models of one read)
	envNested  map[*tn]bool
	nestedHits *int
	nonCanon   *int // texts becoming a non-canonically written value (shared like nestedHits)
	org        byte // where the setting being evaluated is written: 0 configuration, 'e' environment
	fromEnv    int  // names of the configuration answered by the environment
	envRefs    int  // references written in the environment evaluated
	// trace
	steps     int
	tooBig    bool
	reentry   bool
	ambiguous bool // met a situation the statement does not pin down
	maxChain  int  // longest chain of plain references followed
	chain     int
	viaRef    int // path walks that passed a reference-valued setting
	cycInWalk int // walks failing because a setting on the path is cyclic
	finalCyc  int // references whose own path met a cyclic setting at its last step
}

const pevStepLimit = 3000

func (p *pev) step() bool {
	p.steps++
	if p.steps > pevStepLimit {
		p.tooBig = true
		return false
	}
	return true
}

func perr(kind string) pval { return pval{err: true, kind: kind, cyclic: kind == "cyclic"} }

// child finds the member seg of the container n.
func childOf(n *tn, seg string) *tn {
	switch n.kind {
	case 'o':
		return n.kids[seg]
	case 'l':
		i, err := strconv.Atoi(seg)
		if err != nil || i < 0 || i >= len(n.elems) {
			return nil
		}
		return n.elems[i]
	}
	return nil
}

// walk finds the setting at path, evaluating the reference-valued settings it
// passes (with st under evaluation). The setting found is NOT evaluated.
// final: the failure arose when the last-but-one element was evaluated.
func (p *pev) walk(path string, st []string) (n *tn, fail *pval, final bool) {
	n, fail, final, _ = p.walkKeep(path, st, false)
	return
}

// walkKeep: with keep, the references evaluated for the elements of the path
// stay under evaluation (returned stack): the walk of a struct tag with
// several elements, which stands for nested struct members - what is found is
// going to be unpacked below these references.
func (p *pev) walkKeep(path string, st []string, keep bool) (n *tn, fail *pval, final bool, out []string) {
	return p.walkFrom(p.root, path, st, keep)
}

func (p *pev) key(name string) string {
	if p.org == 'e' {
		return "env:" + name
	}
	return name
}

func (p *pev) walkFrom(root *tn, path string, st []string, keep bool) (n *tn, fail *pval, final bool, out []string) {
	segs := strings.Split(path, ".")
	cur := root
	for i, seg := range segs {
		last := i == len(segs)-1
		switch cur.kind {
		case 'o', 'l':
		case 'v':
			f := perr("type")
			return nil, &f, last, st
		default: // reference-valued (or text): evaluate to find the container
			p.viaRef++
			v := p.evalNode(cur, st)
			if v.err {
				if v.cyclic {
					p.cycInWalk++
				}
				// whatever the failure, a failing setting is no container
				if !v.cyclic {
					v = perr("type")
				}
				return nil, &v, last, st
			}
			if v.node == nil {
				f := perr("type")
				return nil, &f, last, st
			}
			cur = v.node
			if keep {
				st = v.st
			}
		}
		next := childOf(cur, seg)
		if next == nil {
			f := perr("missing")
			return nil, &f, last, st
		}
		cur = next
	}
	return cur, nil, false, st
}

func (p *pev) fromResolver(name string) (pval, bool) {
	if v, ok := p.res[name]; ok {
		if v == "" {
			return perr("unresolved"), true
		}
		return pval{s: v}, true
	}
	return pval{}, false
}

// lookup finds the setting ${name} stands for, written where p.org says: in
// that tree first, then (from the configuration) in the environment.
func (p *pev) lookup(name string, st []string) (n *tn, fail *pval, final bool) {
	root := p.root
	if p.org == 'e' {
		root = p.env
	}
	n, fail, final, _ = p.walkFrom(root, name, st, false)
	if fail != nil && p.env != nil && p.org != 'e' {
		n2, fail2, _, _ := p.walkFrom(p.env, name, st, false)
		switch {
		case fail2 == nil:
			if fail.cyclic {
				// a cyclic path in the configuration, but the environment
				// knows the name: who wins is not pinned down
				p.ambiguous = true
			}
			p.fromEnv++
			return n2, nil, false
		case fail2.cyclic && !fail.cyclic:
			return nil, fail2, false
		}
	}
	return n, fail, final
}

// evalRef: ${name} in value context.
func (p *pev) evalRef(name string, st []string) pval {
	if !p.step() {
		return perr("budget")
	}
	key := p.key(name)
	if p.org == 'e' {
		p.envRefs++
	}
	if onStackC(st, key) {
		p.reentry = true
		if v, ok := p.fromResolver(name); ok {
			return v
		}
		return perr("cyclic")
	}
	st2 := push(st, key)
	n, fail, final := p.lookup(name, st2)
	if fail != nil {
		if fail.cyclic && final {
			p.finalCyc++
		}
		if _, known := p.res[name]; known && fail.kind != "missing" {
			// a resolver knows a name whose path fails on the way: whether the
			// resolver is asked depends on where the failure is met
			p.ambiguous = true
		}
		if fail.cyclic {
			p.reentry = true
			if v, ok := p.fromResolver(name); ok {
				return v
			}
			return *fail
		}
		if v, ok := p.fromResolver(name); ok {
			return v
		}
		return perr("missing")
	}
	v := p.evalNode(n, st2)
	return v
}

// evalNode: the value of the setting n with st under evaluation.
func (p *pev) evalNode(n *tn, st []string) pval {
	saved := p.org
	p.org = 0
	if p.envNodes[n] {
		p.org = 'e'
	}
	defer func() { p.org = saved }()
	if p.nestedHits != nil && p.envNested[n] && n.kind == 'e' && n.ex.HasVar() {
		*p.nestedHits++
	}
	switch n.kind {
	case 'o', 'l':
		return pval{node: n, st: st}
	case 'v':
		return pval{s: model.PlainString(n.val), val: n.val}
	}
	if n.ex.IsSingleRef() {
		p.chain++
		if p.chain > p.maxChain {
			p.maxChain = p.chain
		}
		v := p.evalRef(n.ex.Name.Text, st)
		p.chain--
		return v
	}
	v := p.evalText(n.ex, st)
	if !v.err && n.ex.HasVar() {
		if t := strings.TrimSpace(v.s); t != "" {
			v.s = t
		}
		if !canonicalText(v.s) {
			// the substituted text only BECOMES a number (bool, null) by the
			// text->value step, written in a way the library does not print it
			// (9e9, 1e3, 5.0, 0x10, on): how such a value reads when it is
			// spliced into another text is a question of number rendering, not
			// of this property - the read is not judged
			p.ambiguous = true
			if p.nonCanon != nil {
				*p.nonCanon++
			}
		}
	}
	return v
}

// canonicalText: the text->value step leaves s a text, or makes the integer
// or boolean of it that is printed exactly as s.
func canonicalText(s string) bool {
	switch x := vx.ExpectText(s).(type) {
	case string:
		return true
	case int64:
		return strconv.FormatInt(x, 10) == s
	case uint64:
		return strconv.FormatUint(x, 10) == s
	case bool:
		return strconv.FormatBool(x) == s
	}
	return false
}

// refStr: ${name} in string context.
func (p *pev) refStr(name string, st []string) pval {
	v := p.evalRef(name, st)
	if v.isContainer() {
		return perr("type")
	}
	v.val = nil
	return v
}

// exists: ${name:+..} only asks whether name resolves to something.
func (p *pev) exists(name string, st []string) bool {
	if !p.step() {
		return false
	}
	key := p.key(name)
	if onStackC(st, key) {
		p.reentry = true
		v, ok := p.fromResolver(name)
		return ok && !v.err
	}
	_, fail, _ := p.lookup(name, push(st, key))
	if fail == nil {
		return true
	}
	if fail.cyclic {
		p.reentry = true
	}
	if _, known := p.res[name]; known && fail.kind != "missing" {
		p.ambiguous = true
	}
	v, ok := p.fromResolver(name)
	return ok && !v.err
}

func (p *pev) evalText(e *model.Ex, st []string) pval {
	switch e.Kind {
	case model.XLit:
		return pval{s: e.Text}
	case model.XCat:
		var b strings.Builder
		for _, k := range e.Kids {
			r := p.evalText(k, st)
			if r.err {
				return r
			}
			b.WriteString(r.s)
		}
		return pval{s: b.String()}
	case model.XRef:
		n := p.evalText(e.Name, st)
		if n.err {
			return n
		}
		return p.refStr(n.s, st)
	case model.XDef:
		n := p.evalText(e.Name, st)
		if n.err || n.s == "" {
			return p.evalText(e.Rhs, st)
		}
		v := p.refStr(n.s, st)
		if v.err || v.s == "" {
			return p.evalText(e.Rhs, st)
		}
		return v
	case model.XAlt:
		n := p.evalText(e.Name, st)
		if n.err || n.s == "" {
			return pval{s: ""}
		}
		if !p.exists(n.s, st) {
			return pval{s: ""}
		}
		return p.evalText(e.Rhs, st)
	default: // XErr
		n := p.evalText(e.Name, st)
		if !n.err && n.s != "" {
			v := p.refStr(n.s, st)
			if !v.err && v.s != "" {
				return v
			}
		}
		m := p.evalText(e.Rhs, st)
		if m.err {
			return m
		}
		return perr("msg")
	}
}

// ---- deep (unpacking) reads ------------------------------------------------

type deepOut struct {
	nErr, nCyc int
}

func (d *deepOut) fail(v pval) {
	d.nErr++
	if v.cyclic {
		d.nCyc++
	}
}

func (d *deepOut) class(reentry bool) string {
	switch {
	case d.nErr > 0 && d.nCyc == d.nErr:
		return "B-unabsorbed-cycle"
	case d.nErr > 0 && d.nCyc > 0:
		return "D-cycle-and-other-failure"
	case d.nErr > 0:
		return "E-other-failure"
	case reentry:
		return "C-absorbed-cycle"
	}
	return "A-no-reentry"
}

// deep turns an evaluated value into generic Go data, unpacking containers
// member by member (failures are counted in d).
func (p *pev) deep(v pval, d *deepOut) interface{} {
	if v.err {
		d.fail(v)
		return nil
	}
	if v.node == nil {
		if v.val != nil {
			return v.val
		}
		return v.s
	}
	if !p.step() {
		return nil
	}
	if v.node.kind == 'l' {
		out := make([]interface{}, 0, len(v.node.elems))
		for _, c := range v.node.elems {
			out = append(out, p.deep(p.evalNode(c, v.st), d))
		}
		return out
	}
	out := map[string]interface{}{}
	for _, k := range sortedKids(v.node) {
		out[k] = p.deep(p.evalNode(v.node.kids[k], v.st), d)
	}
	return out
}

// canonLenient renders generic data with every leaf passed through the
// text->value step (a text "5" and the number 5 are not told apart: that is
// C02's business), nil/absent members dropped.
func canonLenient(v interface{}) string {
	switch x := v.(type) {
	case nil:
		return "nil"
	case string:
		if x == "" {
			return `""`
		}
		return model.CanonIfc(vx.ExpectText(x))
	case map[string]interface{}:
		ks := make([]string, 0, len(x))
		for k := range x {
			ks = append(ks, k)
		}
		sort.Strings(ks)
		var parts []string
		for _, k := range ks {
			if c := canonLenient(x[k]); c != "nil" {
				parts = append(parts, strconv.Quote(k)+":"+c)
			}
		}
		if len(parts) == 0 {
			return "nil"
		}
		return "{" + strings.Join(parts, ",") + "}"
	case []interface{}:
		if len(x) == 0 {
			return "nil"
		}
		parts := make([]string, len(x))
		for i, e := range x {
			parts[i] = canonLenient(e)
		}
		return "[" + strings.Join(parts, ",") + "]"
	}
	return model.CanonIfc(v)
}
