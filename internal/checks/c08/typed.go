package c08

// Typed deep reads: configurations made of nested objects, maps and lists
// whose object-valued positions are literal objects or (chains of) exact
// single references to other object-valued positions, unpacked into TYPED
// targets - recursive struct types with pointer, map, slice and *Config
// members - instead of interface{}. While such a target is filled the library
// descends into every configuration a reference (chain) leads to, so every
// reference met on the way has to stay "being evaluated" for everything below.
//
// The oracle is a small stack evaluator of its own for object positions
// (followChain / typedObj below); text settings are evaluated by the shared
// string-context model (model.Evaluator) with the stack the object descent has
// built up.

import (
	"fmt"
	"math/rand"
	"reflect"
	"sort"
	"strconv"
	"strings"

	ucfg "github.com/elastic/go-ucfg"
	"github.com/elastic/go-ucfg/diff"
	"github.com/elastic/go-ucfg/parse"

	"verif/internal/harness"
	"verif/internal/model"
	"verif/internal/vx"
)

// ---- target types ----------------------------------------------------------

// tnode / unode: every name the generator uses has a member of the fitting
// kind, on every level (recursive types). The two types differ in declaration
// order (= evaluation order) and in pointer/value element types.
type tnode struct {
	P *tnode            `config:"p"`
	Q *tnode            `config:"q"`
	R *tnode            `config:"r"`
	X *tnode            `config:"x"`
	Y *tnode            `config:"y"`
	Z *tnode            `config:"z"`
	C *ucfg.Config      `config:"c"`
	V map[string]*tnode `config:"v"`
	M map[string]tnode  `config:"m"`
	L []*tnode          `config:"l"`
	W []tnode           `config:"w"`
	S string            `config:"s"`
	T string            `config:"t"`
	U interface{}       `config:"u"`
}

type unode struct {
	U interface{}       `config:"u"`
	T string            `config:"t"`
	S string            `config:"s"`
	W []*unode          `config:"w"`
	L []unode           `config:"l"`
	M map[string]*unode `config:"m"`
	V map[string]unode  `config:"v"`
	C *ucfg.Config      `config:"c"`
	Z *unode            `config:"z"`
	Y *unode            `config:"y"`
	X *unode            `config:"x"`
	R *unode            `config:"r"`
	Q *unode            `config:"q"`
	P *unode            `config:"p"`
}

// dnode: a recursive type whose members are partly named by tags with several
// elements (paths): such a tag stands for nested members, the references its
// path leads through stay under evaluation while the setting found is
// unpacked. Settings without a member are ignored.
type dnode struct {
	P   *dnode `config:"p"`
	RP  *dnode `config:"r.p"` // r and q have no member of their own: only the
	RQ  *dnode `config:"r.q"` // paths lead through them
	QR  *dnode `config:"q.r"`
	QPR *dnode `config:"q.p.r"`
	XP  *dnode `config:"x.p"` // x y z: references on the top level
	YQR *dnode `config:"y.q.r"`
	L0  *dnode `config:"l.0"`
	VK  *dnode `config:"v.k1"`
	S   string `config:"s"`
	RS  string `config:"r.s"`
	XT  string `config:"x.t"`
}

var dnodeT = reflect.TypeOf(dnode{})

var (
	tnodeT  = reflect.TypeOf(tnode{})
	unodeT  = reflect.TypeOf(unode{})
	configT = reflect.TypeOf(ucfg.Config{})
)

// kind of a position, decided by the last segment of its name
const (
	kObj   = 'o' // p q r (any level), x y z (top level, always references)
	kCfg   = 'c' // c: *Config member
	kMap   = 'm' // v m: map of object-valued entries k1 k2
	kList  = 'l' // l w: list of object-valued elements
	kText  = 't' // s t: string members
	kIface = 'u' // u: interface{} member holding text
)

func kindOfName(n string) byte {
	switch n {
	case "p", "q", "r", "x", "y", "z":
		return kObj
	case "c":
		return kCfg
	case "v", "m":
		return kMap
	case "l", "w":
		return kList
	case "s", "t":
		return kText
	case "u":
		return kIface
	}
	return 0
}

// ---- generated configuration tree -----------------------------------------

type tn struct {
	kind  byte // 'o' literal object, 'l' literal list, 'e' expression, 'v' typed primitive
	kids  map[string]*tn
	elems []*tn
	ex    *model.Ex
	val   interface{} // 'v': int64
}

type tworld struct {
	root    *tn
	w       *model.World // flattened: every expression under its dotted path
	res     map[string]string
	acyclic bool         // generated without any cycle (by construction)
	nodeT   reflect.Type // target type of the typed reads
	grafted bool         // graftBackReference has added its members
	// paths by role
	objPos  []string // object-valued positions (literal or reference)
	refPos  []string // object-valued positions holding a reference
	textPos []string
}

func join(path, name string) string {
	if path == "" {
		return name
	}
	return path + "." + name
}

func sortedKids(n *tn) []string {
	ks := make([]string, 0, len(n.kids))
	for k := range n.kids {
		ks = append(ks, k)
	}
	sort.Strings(ks)
	return ks
}

// lookup finds the node at a dotted path (list elements by index).
func (t *tworld) lookup(path string) *tn {
	n := t.root
	if path == "" {
		return n
	}
	for _, seg := range strings.Split(path, ".") {
		switch n.kind {
		case 'o':
			n = n.kids[seg]
		case 'l':
			i, err := strconv.Atoi(seg)
			if err != nil || i < 0 || i >= len(n.elems) {
				return nil
			}
			n = n.elems[i]
		default:
			return nil
		}
		if n == nil {
			return nil
		}
	}
	return n
}

var topNames = []string{"p", "q", "r", "x", "y", "z", "x", "y", "c", "v", "m", "l", "w", "s", "t", "u"}
var innerNames = []string{"p", "q", "r", "p", "q", "c", "v", "m", "l", "w", "s", "t", "u", "s"}

type tgen struct {
	r *rand.Rand
	t *tworld
}

// objValued generates an object-valued position: a literal object or a
// placeholder for a reference (filled in once all positions are known).
func (g *tgen) objValued(path string, depth int, forceRef bool) *tn {
	g.t.objPos = append(g.t.objPos, path)
	if !forceRef && depth > 0 && g.r.Intn(2) == 0 {
		return g.object(path, depth-1, false)
	}
	g.t.refPos = append(g.t.refPos, path)
	return &tn{kind: 'e'}
}

func (g *tgen) object(path string, depth int, top bool) *tn {
	n := &tn{kind: 'o', kids: map[string]*tn{}}
	pool, cnt := innerNames, 1+g.r.Intn(4)
	if top {
		pool, cnt = topNames, 3+g.r.Intn(5)
	}
	for i := 0; i < cnt; i++ {
		name := pool[g.r.Intn(len(pool))]
		if _, dup := n.kids[name]; dup {
			continue
		}
		cp := join(path, name)
		switch kindOfName(name) {
		case kObj:
			n.kids[name] = g.objValued(cp, depth, name == "x" || name == "y" || name == "z")
		case kCfg:
			n.kids[name] = g.objValued(cp, depth, false)
		case kMap:
			m := &tn{kind: 'o', kids: map[string]*tn{}}
			for _, k := range []string{"k1", "k2"}[:1+g.r.Intn(2)] {
				m.kids[k] = g.objValued(join(cp, k), depth, false)
			}
			n.kids[name] = m
		case kList:
			l := &tn{kind: 'l'}
			for j, c := 0, 1+g.r.Intn(2); j < c; j++ {
				l.elems = append(l.elems, g.objValued(join(cp, strconv.Itoa(j)), depth, false))
			}
			n.kids[name] = l
		default:
			g.t.textPos = append(g.t.textPos, cp)
			n.kids[name] = &tn{kind: 'e'}
		}
	}
	return n
}

// ancestors lists the proper prefixes of path (and path itself) that are
// object-valued positions.
func (t *tworld) ancestors(path string) []string {
	var out []string
	for _, o := range t.objPos {
		if o == path || strings.HasPrefix(path, o+".") {
			out = append(out, o)
		}
	}
	return out
}

func pick(r *rand.Rand, l []string) string { return l[r.Intn(len(l))] }

func genTyped(r *rand.Rand) *tworld {
	t := &tworld{w: &model.World{Root: map[string]*model.Setting{}}}
	g := &tgen{r: r, t: t}
	for try := 0; ; try++ {
		t.objPos, t.refPos, t.textPos = nil, nil, nil
		t.root = g.object("", 1+r.Intn(2), true)
		if len(t.objPos) > 0 || try > 20 {
			break
		}
	}
	var chain []string // top-level positions that are references: x y z (and others)
	for _, p := range t.refPos {
		if !strings.Contains(p, ".") {
			chain = append(chain, p)
		}
	}
	// two modes: free (any position may refer to any other: cycles of all
	// kinds are frequent), and acyclic by construction (a reference only leads
	// to positions generated later, texts only use later texts): chains and
	// diamonds that have to resolve
	acyclic := r.Intn(5) < 2
	t.acyclic = acyclic
	idx := map[string]int{}
	for i, p := range t.objPos {
		idx[p] = i
	}
	var leafLits []string // literal objects without any reference below them
	for _, p := range t.objPos {
		if t.lookup(p).kind != 'o' {
			continue
		}
		leaf := true
		for _, q := range t.refPos {
			if strings.HasPrefix(q, p+".") {
				leaf = false
			}
		}
		if leaf {
			leafLits = append(leafLits, p)
		}
	}
	// references of object-valued positions
	for _, p := range t.refPos {
		var target string
		anc := t.ancestors(p)
		if acyclic {
			var cands []string
			if later := t.objPos[idx[p]+1:]; len(later) > 0 {
				cands = later
			} else {
				for _, l := range leafLits {
					if l != p && !strings.HasPrefix(p, l+".") {
						cands = append(cands, l)
					}
				}
			}
			if len(cands) == 0 {
				// nothing left to refer to: a literal object after all
				n := t.lookup(p)
				n.kind, n.kids = 'o', map[string]*tn{"s": {kind: 'e'}}
				t.textPos = append(t.textPos, p+".s")
				continue
			}
			t.lookup(p).ex = model.Ref(pick(r, cands))
			continue
		}
		switch k := r.Intn(40); {
		case k < 12 && len(chain) > 0: // (towards) a chain of references
			target = pick(r, chain)
		case k < 18 && len(anc) > 0: // an enclosing object or the position itself
			target = pick(r, anc)
		case k < 19:
			target = "zz" // missing
		case k < 20 && len(t.textPos) > 0:
			target = pick(r, t.textPos) // text where an object is needed
		default:
			target = pick(r, t.objPos)
		}
		t.lookup(p).ex = model.Ref(target)
	}
	var refs []string
	for _, p := range t.refPos {
		if t.lookup(p).kind == 'e' {
			refs = append(refs, p)
		}
	}
	t.refPos = refs
	// text settings
	for ti, p := range t.textPos {
		names := []string{"zz"}
		if acyclic {
			names = nil
		}
		for i, c := 0, 2+r.Intn(4); i < c; i++ {
			switch k := r.Intn(10); {
			case acyclic:
				if later := t.textPos[ti+1:]; len(later) > 0 {
					names = append(names, pick(r, later))
				}
			case k < 6 && len(t.textPos) > 0:
				names = append(names, pick(r, t.textPos))
			case len(t.objPos) > 0:
				if anc := t.ancestors(p); len(anc) > 0 && r.Intn(2) == 0 {
					names = append(names, pick(r, anc))
				} else {
					names = append(names, pick(r, t.objPos))
				}
			}
		}
		eg := model.ExGen{Names: names, Lits: []string{"va", "vb", "w", ""}, NameExprs: true}
		var e *model.Ex
		switch k := r.Intn(10); {
		case k < 2 && len(t.objPos) > 0:
			// a value that tests an object-valued position: it differs inside and
			// outside the evaluation of that position
			o := pick(r, t.objPos)
			if anc := t.ancestors(p); len(anc) > 0 && r.Intn(2) == 0 {
				o = pick(r, anc)
			}
			op := model.XAlt
			if r.Intn(3) == 0 {
				op = model.XDef
			}
			e = (&model.Ex{Kind: model.XCat, Kids: []*model.Ex{model.Lit("h"), {Kind: op, Name: model.Lit(o), Rhs: model.Lit("yes")}}}).Normalize()
		case k < 4 || len(names) == 0:
			e = model.Lit(pick(r, eg.Lits))
		default:
			e = eg.Gen(r, 1+r.Intn(3))
		}
		last := p[strings.LastIndex(p, ".")+1:]
		if kindOfName(last) == kIface {
			// always text: never exactly one reference
			e = (&model.Ex{Kind: model.XCat, Kids: []*model.Ex{model.Lit("u"), e}}).Normalize()
		}
		t.lookup(p).ex = e
	}
	t.flatten(t.root, "")
	if r.Intn(3) == 0 {
		t.res = map[string]string{}
		cands := append(append([]string{"zz"}, t.objPos...), t.textPos...)
		for _, nm := range cands {
			if r.Intn(4) == 0 {
				t.res[nm] = "res:" + nm
			}
		}
		t.w.Ress = append(t.w.Ress, t.res)
	}
	t.graftBackReference()
	return t
}

// graftBackReference adds, to a third of the worlds (chosen by their content,
// no random draw: the stream of everything else stays what it was), a member
// r to a literal object A that refers back to A or to the object holding A,
// and a member p below A holding such a reference again. Only the target type
// dnode looks at them - through its members tagged "r.p", "r.q", "q.r": a path
// through a reference to an enclosing object, met again on every level.
func (t *tworld) graftBackReference() {
	var b strings.Builder
	t.root.render(&b)
	h := 0
	for _, c := range []byte(b.String()) {
		h = (h*31 + int(c)) & 0xffffff
	}
	if h%3 != 0 {
		return
	}
	var cands []string
	for _, p := range t.objPos {
		if n := t.lookup(p); n != nil && n.kind == 'o' && n.kids["r"] == nil && n.kids["p"] == nil && !strings.ContainsAny(p, "0123456789") {
			cands = append(cands, p)
		}
	}
	if len(cands) == 0 {
		return
	}
	sort.Strings(cands)
	pa := cands[(h/3)%len(cands)]
	a := t.lookup(pa)
	target := pa
	if i := strings.LastIndex(pa, "."); i > 0 && pa[i+1:] == "p" && (h/7)%2 == 0 {
		if par := t.lookup(pa[:i]); par != nil && par.kind == 'o' && kindOfName(pa[:i][strings.LastIndex(pa[:i], ".")+1:]) == kObj {
			target = pa[:i] // the object holding A: its member p is A
		}
	}
	member := []string{"r", "q"}[(h/11)%2] // dnode: "r.p"/"r.q" resp. "q.r"/"q.p.r"
	if a.kids[member] != nil {
		return
	}
	inner := map[string]*tn{member: {kind: 'e', ex: model.Ref(pa)}, "s": {kind: 'e', ex: model.Lit("va")}}
	via := "p"
	if member == "q" {
		via = "r" // dnode's "q.r"
		if a.kids["r"] != nil {
			return
		}
	}
	a.kids[member] = &tn{kind: 'e', ex: model.Ref(target)}
	if target == pa {
		a.kids[via] = &tn{kind: 'o', kids: inner}
		t.objPos = append(t.objPos, pa+"."+via)
	}
	t.grafted = true
	t.w.Root = map[string]*model.Setting{}
	t.flatten(t.root, "")
}

func (t *tworld) flatten(n *tn, path string) {
	switch n.kind {
	case 'o':
		for k, c := range n.kids {
			t.flatten(c, join(path, k))
		}
	case 'l':
		for i, c := range n.elems {
			t.flatten(c, join(path, strconv.Itoa(i)))
		}
	case 'v':
		t.w.Root[path] = &model.Setting{Val: n.val}
	default:
		t.w.Root[path] = &model.Setting{Ex: n.ex}
	}
}

func (n *tn) toGo() interface{} {
	switch n.kind {
	case 'o':
		m := map[string]interface{}{}
		for k, c := range n.kids {
			m[k] = c.toGo()
		}
		return m
	case 'l':
		var l []interface{}
		for _, c := range n.elems {
			l = append(l, c.toGo())
		}
		return l
	case 'v':
		return n.val
	}
	return n.ex.Render(false)
}

func (n *tn) render(b *strings.Builder) {
	switch n.kind {
	case 'o':
		b.WriteByte('{')
		for i, k := range sortedKids(n) {
			if i > 0 {
				b.WriteString(", ")
			}
			b.WriteString(k + ": ")
			n.kids[k].render(b)
		}
		b.WriteByte('}')
	case 'l':
		b.WriteByte('[')
		for i, c := range n.elems {
			if i > 0 {
				b.WriteString(", ")
			}
			c.render(b)
		}
		b.WriteByte(']')
	case 'v':
		fmt.Fprint(b, n.val)
	default:
		b.WriteString(strconv.Quote(n.ex.Render(false)))
	}
}

func (t *tworld) describe() string {
	var b strings.Builder
	t.root.render(&b)
	return fmt.Sprintf("%s resolvers=%v", b.String(), t.w.Ress)
}

// ---- the model of a typed read --------------------------------------------

// exp is the expected content of a typed target.
type exp struct {
	kind  byte // 'o' struct, 'm' map, 'l' list, 't' text, 'c' config handle
	s     string
	kids  map[string]*exp
	elems []*exp
	cfg   string // 'c': path of the object the handle stands for
}

type tmodel struct {
	t  *tworld
	ev *model.Evaluator
	// outcome
	nErr, nCyc int
	reentry    bool
	steps      int
	tooBig     bool
	ambiguous  bool // met a situation the statement does not pin down: the read is not judged
	// the target type: plain member names (nil: every name has a member) and
	// the tags with several elements
	plain    map[string]bool
	dotted   [][]string
	noDotted bool // a read of one top-level member only
	// monitors
	dottedThroughRef    int // members with a dotted tag whose path led through a reference
	maxHops             int
	objViaChain2        int // objects reached through >= 2 references
	cycleBelowChain2    int // unabsorbed re-entries met below an object reached through >= 2 references
	absorbedBelowChain2 int
	targets             map[string]bool // member kinds a reference-reached object was unpacked into
}

const modelStepLimit = 1500

func newTModel(t *tworld) *tmodel {
	m := &tmodel{t: t, ev: model.NewEvaluator(t.w), targets: map[string]bool{}}
	if t.nodeT == dnodeT {
		m.plain = map[string]bool{}
		for i := 0; i < dnodeT.NumField(); i++ {
			tag := dnodeT.Field(i).Tag.Get("config")
			if segs := strings.Split(tag, "."); len(segs) > 1 {
				m.dotted = append(m.dotted, segs)
			} else {
				m.plain[tag] = true
			}
		}
	}
	return m
}

func (m *tmodel) fail(cyclic bool, hops int) {
	m.nErr++
	if cyclic {
		m.nCyc++
		if hops >= 2 {
			m.cycleBelowChain2++
		}
	}
}

func (m *tmodel) step() bool {
	m.steps++
	if m.steps+m.ev.T.Steps > modelStepLimit || m.ev.T.Budget {
		m.tooBig = true
		return false
	}
	return true
}

func push(st []string, n string) []string {
	out := make([]string, len(st)+1)
	copy(out, st)
	out[len(st)] = n
	return out
}

// followChain follows the exact single reference ${name} met at an
// object-valued position until it ends in a literal object. Every name on the
// way is under evaluation from then on (returned stack). ok=false: the
// position fails (recorded).
func (m *tmodel) followChain(name string, st []string, hopsAbove int) (objPath string, out []string, hops int, ok bool) {
	for {
		if !m.step() {
			return "", nil, 0, false
		}
		hops++
		if onStackC(st, name) {
			m.reentry = true
			if _, known := m.t.res[name]; known {
				// the resolver absorbs the re-entry - with a text, which is no object
				if hopsAbove >= 2 {
					m.absorbedBelowChain2++
				}
				m.fail(false, 0)
			} else {
				m.fail(true, hopsAbove)
			}
			return "", nil, 0, false
		}
		n := m.t.lookup(name)
		switch {
		case n == nil: // missing, or a resolver's text: no object either way
			m.fail(false, 0)
			return "", nil, 0, false
		case n.kind == 'e':
			st = push(st, name)
			if !n.ex.IsSingleRef() {
				m.fail(false, 0) // text where an object is needed (whatever the text evaluates to)
				return "", nil, 0, false
			}
			name = n.ex.Name.Text
		case n.kind == 'o':
			return name, push(st, name), hops, true
		default:
			m.fail(false, 0)
			return "", nil, 0, false
		}
	}
}

func onStackC(st []string, n string) bool {
	for _, x := range st {
		if x == n {
			return true
		}
	}
	return false
}

// objPos evaluates an object-valued position unpacked into a struct.
// hops: number of references the enclosing object was reached through.
func (m *tmodel) objPos(n *tn, path string, st []string, hops int, target string) *exp {
	if n.kind == 'o' {
		return m.typedObj(n, path, st, hops)
	}
	if !n.ex.IsSingleRef() {
		m.fail(false, 0)
		return nil
	}
	objPath, st2, h, ok := m.followChain(n.ex.Name.Text, st, hops)
	if !ok {
		return nil
	}
	if h > m.maxHops {
		m.maxHops = h
	}
	if h >= 2 {
		m.objViaChain2++
	}
	m.targets[target] = true
	return m.typedObj(m.t.lookup(objPath), objPath, st2, h)
}

func (m *tmodel) cfgPos(n *tn, path string, st []string, hops int) *exp {
	if n.kind == 'o' {
		return &exp{kind: 'c', cfg: path}
	}
	if !n.ex.IsSingleRef() {
		m.fail(false, 0)
		return nil
	}
	objPath, _, h, ok := m.followChain(n.ex.Name.Text, st, hops)
	if !ok {
		return nil
	}
	if h > m.maxHops {
		m.maxHops = h
	}
	m.targets["*Config member"] = true
	return &exp{kind: 'c', cfg: objPath}
}

// typedObj: the literal object n (at path) is unpacked member by member with
// the references in st under evaluation.
func (m *tmodel) typedObj(n *tn, path string, st []string, hops int) *exp {
	out := &exp{kind: 'o', kids: map[string]*exp{}}
	noDotted := m.noDotted // holds for the outermost object only
	m.noDotted = false
	for _, name := range sortedKids(n) {
		if m.plain != nil && !m.plain[name] {
			continue // no member of that name: ignored
		}
		if !m.step() {
			return out
		}
		kid := n.kids[name]
		cp := join(path, name)
		switch kindOfName(name) {
		case kObj:
			out.kids[name] = m.objPos(kid, cp, st, hops, "struct member")
		case kCfg:
			out.kids[name] = m.cfgPos(kid, cp, st, hops)
		case kMap:
			e := &exp{kind: 'm', kids: map[string]*exp{}}
			for _, k := range sortedKids(kid) {
				e.kids[k] = m.objPos(kid.kids[k], join(cp, k), st, hops, "map entry")
			}
			out.kids[name] = e
		case kList:
			e := &exp{kind: 'l'}
			for i, c := range kid.elems {
				e.elems = append(e.elems, m.objPos(c, join(cp, strconv.Itoa(i)), st, hops, "list element"))
			}
			out.kids[name] = e
		default:
			out.kids[name] = m.textPos(cp, st, hops)
		}
	}
	if !noDotted {
		for _, segs := range m.dotted {
			if !m.step() {
				return out
			}
			if e := m.dottedMember(n, path, st, hops, segs); e != nil {
				out.kids[strings.Join(segs, ".")] = e
			}
		}
	}
	return out
}

// textPos evaluates a text member (nil: it fails, recorded).
func (m *tmodel) textPos(cp string, st []string, hops int) *exp {
	before := m.ev.T.ReEntry
	m.ev.T.ReEntry = false
	r := m.ev.EvalSetting(cp, st, false)
	if m.ev.T.ReEntry {
		m.reentry = true
		if hops >= 2 && !r.Cyclic {
			m.absorbedBelowChain2++
		}
	}
	m.ev.T.ReEntry = m.ev.T.ReEntry || before
	switch {
	case r.IsErr:
		m.fail(r.Cyclic, hops)
	case r.Container:
		m.fail(false, 0) // an object where text is needed
	default:
		return &exp{kind: 't', s: r.S}
	}
	return nil
}

// dottedMember: a member whose tag is a path. Every reference the path leads
// through stays under evaluation for what is found at its end.
func (m *tmodel) dottedMember(n *tn, path string, st []string, hops int, segs []string) *exp {
	cur, curPath := n, path
	through := false
	for _, seg := range segs[:len(segs)-1] {
		kid := childOf(cur, seg)
		if kid == nil {
			return nil // nothing there: the member stays as it is
		}
		switch kid.kind {
		case 'o', 'l':
			cur, curPath = kid, join(curPath, seg)
		default:
			if kid.kind != 'e' || !kid.ex.IsSingleRef() {
				m.ambiguous = true // text on the path: error or missing is not pinned down
				return nil
			}
			nErr, nCyc := m.nErr, m.nCyc
			objPath, st2, h, ok := m.followChain(kid.ex.Name.Text, st, hops)
			if !ok {
				if m.nCyc == nCyc {
					// the reference on the path fails for another reason than a
					// cycle: whether that is an error or a missing setting is not
					// this property's business
					m.nErr = nErr
					m.ambiguous = true
				}
				return nil
			}
			through = true
			cur, curPath, st, hops = m.t.lookup(objPath), objPath, st2, h
		}
	}
	last := segs[len(segs)-1]
	member := childOf(cur, last)
	if member == nil {
		return nil
	}
	if through {
		m.dottedThroughRef++
	}
	cp := join(curPath, last)
	if k := kindOfName(last); k == kText {
		if member.kind != 'e' {
			m.ambiguous = true
			return nil
		}
		return m.textPos(cp, st, hops)
	}
	if member.kind == 'l' {
		m.ambiguous = true
		return nil
	}
	return m.objPos(member, cp, st, hops, "member with a dotted tag")
}

func (m *tmodel) class() string {
	switch {
	case m.nErr > 0 && m.nCyc == m.nErr:
		return "B-unabsorbed-cycle"
	case m.nErr > 0 && m.nCyc > 0:
		return "D-cycle-and-other-failure"
	case m.nErr > 0:
		return "E-other-failure"
	case m.reentry:
		return "C-absorbed-cycle"
	}
	return "A-no-reentry"
}

// ---- canonical forms -------------------------------------------------------

func canonText(s string) string {
	if s == "" {
		return ""
	}
	return model.CanonIfc(vx.ExpectText(s))
}

// canonExp / canonVal render expectation and unpacked target in the same
// form. Absent, empty text, nil pointers and objects without any content are
// all rendered as "" (a pre-filled target holds empty objects where the
// configuration has nothing).
func canonExp(e *exp) string {
	if e == nil {
		return ""
	}
	switch e.kind {
	case 't':
		return canonText(e.s)
	case 'c':
		return "<config>"
	case 'l':
		parts := make([]string, len(e.elems))
		for i, c := range e.elems {
			parts[i] = canonExp(c)
		}
		return "[" + strings.Join(parts, ",") + "]"
	}
	var ks []string
	for k := range e.kids {
		ks = append(ks, k)
	}
	sort.Strings(ks)
	var parts []string
	for _, k := range ks {
		if c := canonExp(e.kids[k]); c != "" {
			parts = append(parts, k+"="+c)
		}
	}
	if len(parts) == 0 {
		return ""
	}
	return "{" + strings.Join(parts, ",") + "}"
}

func canonVal(v reflect.Value) string {
	switch v.Kind() {
	case reflect.Ptr:
		if v.IsNil() {
			return ""
		}
		if v.Type().Elem() == configT {
			return "<config>"
		}
		return canonVal(v.Elem())
	case reflect.Interface:
		if v.IsNil() {
			return ""
		}
		if s, ok := v.Interface().(string); ok {
			return canonText(s)
		}
		return model.CanonIfc(v.Interface())
	case reflect.String:
		return canonText(v.String())
	case reflect.Slice:
		if v.Len() == 0 {
			return ""
		}
		parts := make([]string, v.Len())
		for i := range parts {
			parts[i] = canonVal(v.Index(i))
		}
		return "[" + strings.Join(parts, ",") + "]"
	case reflect.Map:
		var ks []string
		for _, k := range v.MapKeys() {
			ks = append(ks, k.String())
		}
		sort.Strings(ks)
		var parts []string
		for _, k := range ks {
			if c := canonVal(v.MapIndex(reflect.ValueOf(k))); c != "" {
				parts = append(parts, k+"="+c)
			}
		}
		if len(parts) == 0 {
			return ""
		}
		return "{" + strings.Join(parts, ",") + "}"
	case reflect.Struct:
		type kv struct{ k, v string }
		var parts []kv
		for i := 0; i < v.NumField(); i++ {
			if c := canonVal(v.Field(i)); c != "" {
				parts = append(parts, kv{v.Type().Field(i).Tag.Get("config"), c})
			}
		}
		if len(parts) == 0 {
			return ""
		}
		sort.Slice(parts, func(i, j int) bool { return parts[i].k < parts[j].k })
		out := make([]string, len(parts))
		for i, p := range parts {
			out[i] = p.k + "=" + p.v
		}
		return "{" + strings.Join(out, ",") + "}"
	}
	return fmt.Sprint(v.Interface())
}

// collectCfgs pairs the *Config handles found in the target with the object
// paths the model expects them to stand for.
func collectCfgs(e *exp, v reflect.Value, out *[]cfgAt) {
	if e == nil {
		return
	}
	for v.Kind() == reflect.Ptr && v.Type().Elem() != configT {
		if v.IsNil() {
			return
		}
		v = v.Elem()
	}
	switch e.kind {
	case 'c':
		if v.Kind() == reflect.Ptr && !v.IsNil() {
			*out = append(*out, cfgAt{e.cfg, v.Interface().(*ucfg.Config)})
		}
	case 'l':
		if v.Kind() == reflect.Slice {
			for i, c := range e.elems {
				if i < v.Len() {
					collectCfgs(c, v.Index(i), out)
				}
			}
		}
	case 'm':
		if v.Kind() == reflect.Map {
			for k, c := range e.kids {
				if mv := v.MapIndex(reflect.ValueOf(k)); mv.IsValid() {
					collectCfgs(c, mv, out)
				}
			}
		}
	case 'o':
		if v.Kind() == reflect.Struct {
			for i := 0; i < v.NumField(); i++ {
				if c := e.kids[v.Type().Field(i).Tag.Get("config")]; c != nil {
					collectCfgs(c, v.Field(i), out)
				}
			}
		}
	}
}

type cfgAt struct {
	path string
	c    *ucfg.Config
}

// prefill allocates empty objects in the target (struct members, map entries
// k1) down to depth levels: the library then merges into existing values
// instead of creating them.
func prefill(v reflect.Value, depth int) {
	if depth <= 0 {
		return
	}
	for i := 0; i < v.NumField(); i++ {
		f := v.Field(i)
		ft := f.Type()
		switch {
		case ft.Kind() == reflect.Ptr && ft.Elem() == v.Type():
			f.Set(reflect.New(ft.Elem()))
			prefill(f.Elem(), depth-1)
		case ft.Kind() == reflect.Map:
			f.Set(reflect.MakeMap(ft))
			if ft.Elem().Kind() == reflect.Ptr {
				e := reflect.New(ft.Elem().Elem())
				prefill(e.Elem(), depth-1)
				f.SetMapIndex(reflect.ValueOf("k1"), e)
			} else {
				e := reflect.New(ft.Elem()).Elem()
				prefill(e, depth-1)
				f.SetMapIndex(reflect.ValueOf("k1"), e)
			}
		}
	}
}

// memberType: the type of the member called name.
func memberType(nodeT reflect.Type, name string) reflect.Type {
	for i := 0; i < nodeT.NumField(); i++ {
		if nodeT.Field(i).Tag.Get("config") == name {
			return nodeT.Field(i).Type
		}
	}
	return nil
}

// ---- the run ---------------------------------------------------------------

type stepGuard struct {
	sig     string // signature prefix of a budget violation ("typed-target:" if empty)
	res     *harness.R
	desc    string
	steps   int
	max     int
	aborted bool
}

func (g *stepGuard) install() {
	ucfg.VerifSetHook(func(kind, site, s string, a, b int) {
		if kind == "resolve" {
			g.steps++
			if g.steps > budget {
				panic(budgetExceeded{})
			}
		}
	})
}

// run executes one read under the step budget. ok=false: the read did not
// return normally (reported).
func (g *stepGuard) run(what string, f func()) (ok bool) {
	if g.aborted {
		return false
	}
	g.steps = 0
	ok = true
	func() {
		defer func() {
			if rec := recover(); rec != nil {
				ok = false
				if _, isBudget := rec.(budgetExceeded); isBudget {
					g.aborted = true
					sig := g.sig
					if sig == "" {
						sig = "typed-target:"
					}
					g.res.Violate(sig+"step-budget-exceeded", "%s performed more than %d reference resolutions; %s", what, budget, g.desc)
					return
				}
				g.res.Violate("panic", "%s panicked: %v; %s", what, rec, g.desc)
			}
		}()
		f()
	}()
	g.res.Ev("resolve_events", int64(g.steps))
	if g.steps > g.max {
		g.max = g.steps
	}
	g.res.Eval(1)
	return ok
}

func hopsLabel(h int) string {
	if h >= 4 {
		return "4+"
	}
	return strconv.Itoa(h)
}

func runTyped(res *harness.R, r *rand.Rand, verbose, sample bool) {
	t := genTyped(r)
	desc := t.describe()
	if sample {
		res.Sample = fmt.Sprint(res.Sample, " | typed: ", desc)
	}
	nodeT := tnodeT
	if r.Intn(2) == 0 {
		nodeT = unodeT
	}
	if len(desc)%4 == 0 || t.grafted {
		nodeT = dnodeT // derived from the content: the random stream stays what it was
	}
	if t.grafted {
		res.Ev("typed_worlds_with_grafted_back_reference_below_a_dotted_tag", 1)
	}
	t.nodeT = nodeT
	res.SetAdd("typed_target_type", nodeT.Name())
	var c *ucfg.Config
	var err error
	if p, pv, where := harness.Safe(func() { c, err = ucfg.NewFrom(t.root.toGo(), vx.BaseOpts...) }); p {
		res.Violate("panic", "panic %q at %s building %s", pv, where, desc)
		return
	}
	res.Eval(1)
	if err != nil {
		res.Violate("build-error", "building the config failed: %v; %s", err, desc)
		return
	}
	opts := append([]ucfg.Option{}, vx.BaseOpts...)
	if t.res != nil {
		known := t.res
		opts = append(opts, ucfg.Resolve(func(n string) (string, parse.Config, error) {
			if v, ok := known[n]; ok {
				return v, parse.NoopConfig, nil
			}
			return "", parse.NoopConfig, ucfg.ErrMissing
		}))
	}
	if res.Events["violations_raw"] > 0 {
		return
	}
	res.Ev("typed_worlds", 1)
	if t.acyclic {
		res.Ev("typed_worlds_acyclic_by_construction", 1)
	}
	if len(t.refPos) > 0 {
		res.Key("typed " + desc)
	}

	// members tagged with paths: a class of its own
	tp := ""
	if nodeT == dnodeT {
		tp = "dotted-tag:"
	}
	g := &stepGuard{res: res, desc: desc, sig: "typed-target:" + tp}
	g.install()
	defer ucfg.VerifSetHook(nil)

	identReported := false
	blocked := func() bool {
		n := res.Events["violations_raw"]
		if identReported {
			n--
		}
		return n > 0 || g.aborted
	}
	// judge compares one typed read with the model. unpack fills the target it
	// is given (a pointer to a struct); view selects what the model describes.
	judge := func(what string, m *tmodel, want *exp, newTarget func() reflect.Value, unpack func(p reflect.Value) error, view func(p reflect.Value) reflect.Value) {
		if m.tooBig {
			res.Ev("typed_reads_skipped_model_too_big", 1)
			return
		}
		if m.ambiguous {
			res.Ev("typed_reads_not_pinned_down", 1)
			return
		}
		res.Ev("typed_members_with_dotted_tag_through_a_reference", int64(m.dottedThroughRef))
		class := m.class()
		res.SetAdd("typed_class", class)
		res.Ev("typed_reads_"+class, 1)
		res.Ev("typed_reads", 1)
		res.Ev("typed_objects_reached_through_2_or_more_references", int64(m.objViaChain2))
		res.Ev("typed_unabsorbed_reentries_below_object_reached_through_2_or_more_references", int64(m.cycleBelowChain2))
		res.Ev("typed_absorbed_reentries_below_object_reached_through_2_or_more_references", int64(m.absorbedBelowChain2))
		res.SetAdd("typed_max_references_to_object", hopsLabel(m.maxHops))
		for k := range m.targets {
			res.SetAdd("typed_target_of_referenced_object", k)
		}
		wantCanon := canonExp(want)

		// check one outcome; returns the deviation class ("" = as expected)
		check := func(m *tmodel, wantCanon string, p reflect.Value, e error) (string, string) {
			class := m.class()
			switch {
			case m.nErr > 0 && e == nil:
				if m.nCyc == m.nErr {
					return "cycle-not-reported", fmt.Sprintf("succeeded with %s, model: unabsorbed cyclic reference", canonVal(view(p)))
				}
				return "failing-read-succeeds", fmt.Sprintf("succeeded with %s, model: fails (%d failing positions, %d of them cyclic)", canonVal(view(p)), m.nErr, m.nCyc)
			case m.nErr > 0 && m.nCyc == m.nErr && !vx.IsCyclicErr(e):
				// the read fails as it has to, but not as a cyclic reference:
				// reported once per configuration, the remaining reads go on
				if !identReported {
					identReported = true
					sig := "cycle-error-not-identifiable"
					for _, r := range vx.RootReasons(e) {
						if r == ucfg.ErrExpectedObject {
							sig = "cycle-reported-as-expected-object-error"
						}
					}
					res.Violate(typedSig("typed-target:", tp, sig), "%s into %s failed with %q, model: every failing position is an unabsorbed cyclic reference, expected a cyclic reference error; %s", what, nodeT.Name(), e, desc)
				}
				return "", ""
			case m.nErr > 0:
				return "", ""
			case e != nil:
				if vx.IsCyclicErr(e) {
					return "repeated-use-reported-as-cycle", fmt.Sprintf("failed with %q, model (class %s): %s", e, class, wantCanon)
				}
				return "acyclic-read-fails", fmt.Sprintf("failed with %q, model (class %s): %s", e, class, wantCanon)
			}
			if got := canonVal(view(p)); got != wantCanon {
				return "wrong-substitution", fmt.Sprintf("gives %s, model (class %s) %s", got, class, wantCanon)
			}
			return "", ""
		}

		// fresh target
		p := newTarget()
		var e error
		if !g.run(what, func() { e = unpack(p) }) {
			return
		}
		if verbose {
			fmt.Printf("typed %s -> %s err=%v (model %s nErr=%d nCyc=%d %s)\n", what, canonVal(view(p)), e, class, m.nErr, m.nCyc, wantCanon)
		}
		if ms := m.steps + m.ev.T.Steps; ms >= 100 {
			res.SetAdd("typed_resolve_events_per_model_step_for_big_reads", fmt.Sprint(g.steps/ms))
		}
		dev, detail := check(m, wantCanon, p, e)
		if dev != "" {
			res.Violate(typedSig("typed-target:", tp, dev), "%s into %s %s; %s", what, nodeT.Name(), detail, desc)
			return
		}
		res.SetAdd("typed_entry", strings.SplitN(what, "(", 2)[0])
		// the same read again into the target just filled: every member now
		// exists and is merged into
		if e == nil {
			var e2 error
			if !g.run(what+" repeated", func() { e2 = unpack(p) }) {
				return
			}
			if dev, detail := check(m, wantCanon, p, e2); dev != "" {
				res.Violate(typedSig("typed-target-merge:", tp, dev), "%s into the %s it has just filled %s; %s", what, nodeT.Name(), detail, desc)
				return
			}
			res.Ev("typed_reads_repeated_into_filled_target", 1)
			// *Config members: unpacked on their own (a fresh read) they give
			// what the object they stand for gives
			var cfgs []cfgAt
			collectCfgs(want, view(p), &cfgs)
			for i, ca := range cfgs {
				if i >= 2 || g.aborted {
					break
				}
				n := t.lookup(ca.path)
				if n == nil || n.kind != 'o' {
					continue
				}
				m2 := newTModel(t)
				want2 := m2.typedObj(n, ca.path, nil, 0)
				if m2.tooBig {
					continue
				}
				q := reflect.New(nodeT)
				var e3 error
				if !g.run("Unpack of the *Config member standing for "+ca.path, func() { e3 = ca.c.Unpack(q.Interface(), opts...) }) {
					return
				}
				if dev, detail := check(m2, canonExp(want2), q, e3); dev != "" {
					res.Violate(typedSig("typed-target:", tp, dev), "Unpack of the *Config member obtained by %s (standing for %q) into %s %s; %s", what, ca.path, nodeT.Name(), detail, desc)
					return
				}
				res.Ev("typed_config_members_unpacked", 1)
			}
		}
		// pre-filled target
		pf := newTarget()
		prefill(pf.Elem(), 2)
		var e4 error
		if !g.run(what+" pre-filled", func() { e4 = unpack(pf) }) {
			return
		}
		if dev, detail := check(m, wantCanon, pf, e4); dev != "" {
			res.Violate(typedSig("typed-target-merge:", tp, dev), "%s into a %s pre-filled with empty objects %s; %s", what, nodeT.Name(), detail, desc)
			return
		}
		res.Ev("typed_reads_into_prefilled_target", 1)
	}

	ident := func(p reflect.Value) reflect.Value { return p.Elem() }

	// (1) every top-level setting on its own
	for _, k := range sortedKids(t.root) {
		if blocked() {
			return
		}
		k := k
		if memberType(nodeT, k) == nil {
			continue // no member of that name
		}
		m := newTModel(t)
		m.noDotted = true
		want := m.typedObj(&tn{kind: 'o', kids: map[string]*tn{k: t.root.kids[k]}}, "", nil, 0)
		judge(fmt.Sprintf("Unpack of top-level setting(%q)", k), m, want,
			func() reflect.Value { return reflect.New(nodeT) },
			func(p reflect.Value) error {
				// a struct with only this member
				mt := memberType(nodeT, k)
				st := reflect.StructOf([]reflect.StructField{{Name: "V", Type: mt, Tag: reflect.StructTag(fmt.Sprintf(`config:"%s"`, k))}})
				one := reflect.New(st)
				one.Elem().Field(0).Set(fieldByTag(p.Elem(), k))
				if err := c.Unpack(one.Interface(), opts...); err != nil {
					return err
				}
				fieldByTag(p.Elem(), k).Set(one.Elem().Field(0))
				return nil
			}, ident)
	}
	// (2) the whole configuration
	if blocked() {
		return
	}
	{
		m := newTModel(t)
		want := m.typedObj(t.root, "", nil, 0)
		judge("Unpack of the whole config()", m, want,
			func() reflect.Value { return reflect.New(nodeT) },
			func(p reflect.Value) error { return c.Unpack(p.Interface(), opts...) }, ident)
	}
	// (3) literal objects below the top level through Child
	var lits []string
	for _, p := range t.objPos {
		if n := t.lookup(p); n != nil && n.kind == 'o' && !strings.ContainsAny(p, "0123456789") {
			lits = append(lits, p)
		}
	}
	r.Shuffle(len(lits), func(i, j int) { lits[i], lits[j] = lits[j], lits[i] })
	for i, p := range lits {
		if i >= 3 || blocked() {
			break
		}
		var sub *ucfg.Config
		var cerr error
		if !g.run("Child "+p, func() { sub, cerr = c.Child(p, -1, opts...) }) {
			return
		}
		if cerr != nil {
			res.Violate("typed-target:acyclic-read-fails", "Child(%q) of a literal object failed with %q; %s", p, cerr, desc)
			return
		}
		m := newTModel(t)
		want := m.typedObj(t.lookup(p), p, nil, 0)
		judge(fmt.Sprintf("Unpack of Child(%q)", p), m, want,
			func() reflect.Value { return reflect.New(nodeT) },
			func(q reflect.Value) error { return sub.Unpack(q.Interface(), opts...) }, ident)
	}
	if blocked() {
		return
	}
	// (4) termination of the remaining whole-config reads. They visit every
	// object once per way it can be reached without re-entry, like the model of
	// the whole-config read does: only configurations that model finds small
	// (sized by the model of a target that has a member for every name: the
	// generic reads look at all settings, whatever the typed target ignores)
	t.nodeT = tnodeT
	wm := newTModel(t)
	wm.typedObj(t.root, "", nil, 0)
	t.nodeT = nodeT
	if ws := wm.steps + wm.ev.T.Steps; !wm.tooBig && ws <= 200 {
		var gm map[string]interface{}
		g.run("Unpack(map[string]interface{})", func() { c.Unpack(&gm, opts...) })
		g.run("FlattenedKeys", func() { c.FlattenedKeys(opts...) })
		if ws > 0 {
			res.SetAdd("typed_flattenedkeys_resolve_events_per_model_step_log2", fmt.Sprint(log2(g.steps/ws)))
		}
		g.run("diff.CompareConfigs", func() { diff.CompareConfigs(c, c, opts...) })
		res.Ev("typed_worlds_with_generic_whole_reads", 1)
	}
	res.SetAdd("typed_max_resolve_events_per_read_log2", fmt.Sprint(log2(g.max)))
}

// typedSig: the deviations of members tagged with paths form one class (the
// kind of deviation is in the detail); non-termination keeps its own
// signature (composed by the step guard).
func typedSig(prefix, tp, dev string) string {
	if tp != "" {
		return "typed-target:" + tp + "differs-from-nested-members"
	}
	return prefix + dev
}

func fieldByTag(v reflect.Value, name string) reflect.Value {
	for i := 0; i < v.NumField(); i++ {
		if v.Type().Field(i).Tag.Get("config") == name {
			return v.Field(i)
		}
	}
	return reflect.Value{}
}
