//go:build !only || only_c03

package checks

import _ "verif/internal/checks/c03"
