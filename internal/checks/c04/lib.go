package c04

import (
	"errors"
	"fmt"
	"math"
	"reflect"
	"regexp"
	"strconv"
	"strings"
	"time"

	ucfg "github.com/elastic/go-ucfg"
)

// Hand-written leaf types: reflect.StructOf types cannot carry methods, so
// everything that needs Validate() or InitDefaults() lives here and is used as
// a field / element type inside the generated types.

// Port: value-receiver Validate, the zero value is INVALID.
type Port int

func (p Port) Validate() error {
	if p < 1 || p > 65535 {
		return errors.New("c04lib: port outside 1..65535")
	}
	return nil
}

// Level: pointer-receiver Validate, the zero value is valid.
type Level int

func (l *Level) Validate() error {
	if *l < 0 || *l > 9 {
		return errors.New("c04lib: level outside 0..9")
	}
	return nil
}

// DefLevel: InitDefaults sets a value that its own Validate accepts; whether
// it satisfies the field's tag depends on the tag (min=3: yes, min=7: no).
type DefLevel int

const defLevelInit = 5

func (d *DefLevel) InitDefaults() { *d = defLevelInit }

func (d DefLevel) Validate() error {
	if d < 0 || d > 9 {
		return errors.New("c04lib: deflevel outside 0..9")
	}
	return nil
}

// DefBad: InitDefaults sets a value its own Validate REJECTS.
type DefBad int

const defBadInit = 12

func (d *DefBad) InitDefaults() { *d = defBadInit }

func (d *DefBad) Validate() error {
	if *d < 0 || *d > 9 {
		return errors.New("c04lib: defbad outside 0..9")
	}
	return nil
}

// Types that take their value through one of go-ucfg's Unpacker interfaces
// (pointer receiver). Every Unpack stores exactly the value it is given, so
// the model of Unpack treats them like plain numbers / strings.

// UNum: ucfg.Unpacker (the value arrives as interface{}), no Validate.
type UNum int

func (u *UNum) Unpack(v interface{}) error {
	switch x := v.(type) {
	case int:
		*u = UNum(x)
	case int64:
		*u = UNum(x)
	case uint64:
		if x > math.MaxInt64 {
			return errors.New("c04lib: unum out of range")
		}
		*u = UNum(x)
	case float64:
		if x != math.Trunc(x) || math.Abs(x) > 1<<53 {
			return errors.New("c04lib: unum needs a whole number")
		}
		*u = UNum(x)
	case string:
		n, err := strconv.ParseInt(strings.TrimSpace(x), 10, 64)
		if err != nil {
			return err
		}
		*u = UNum(n)
	default:
		return fmt.Errorf("c04lib: unum from %T", v)
	}
	return nil
}

// ULevel: ucfg.IntUnpacker and a pointer-receiver Validate; the zero value is valid.
type ULevel int

func (l *ULevel) Unpack(v int64) error { *l = ULevel(v); return nil }

func (l *ULevel) Validate() error {
	if *l < 0 || *l > 9 {
		return errors.New("c04lib: ulevel outside 0..9")
	}
	return nil
}

// UPort: ucfg.UintUnpacker and a value-receiver Validate; the zero value is INVALID.
type UPort uint

func (p *UPort) Unpack(v uint64) error { *p = UPort(v); return nil }

func (p UPort) Validate() error {
	if p < 1 || p > 65535 {
		return errors.New("c04lib: uport outside 1..65535")
	}
	return nil
}

// UStr: ucfg.StringUnpacker, no Validate.
type UStr string

func (s *UStr) Unpack(v string) error { *s = UStr(v); return nil }

// URange: ucfg.ConfigUnpacker (merges the settings into the fields it holds)
// and a value-receiver Validate with a cross-field condition.
type URange struct {
	Lo int `config:"lo"`
	Hi int `config:"hi"`
}

func (r *URange) Unpack(c *ucfg.Config) error {
	tmp := struct {
		Lo int `config:"lo"`
		Hi int `config:"hi"`
	}{r.Lo, r.Hi}
	if err := c.Unpack(&tmp, ucfg.PathSep("."), ucfg.VarExp); err != nil {
		return err
	}
	r.Lo, r.Hi = tmp.Lo, tmp.Hi
	return nil
}

func (r URange) Validate() error {
	if r.Lo > r.Hi {
		return errors.New("c04lib: urange lo > hi")
	}
	return nil
}

// DefNaN: InitDefaults sets NaN, which no min / max / positive accepts.
type DefNaN float64

func (d *DefNaN) InitDefaults() { *d = DefNaN(math.NaN()) }

// Map types whose InitDefaults inserts the entry initKey: a value its element
// type accepts (DefPorts, DefLimits) or one it rejects (DefPortsBad: Port 0;
// DefLimitsBad: Max 0 breaks min=1 of the `validate` tag).
const initKey = "dflt"

type Limit struct {
	Max int `config:"max" validate:"min=1" check:"max=90"`
}

type DefPorts map[string]Port

func (m DefPorts) InitDefaults() { m[initKey] = 8080 }

type DefPortsBad map[string]Port

func (m DefPortsBad) InitDefaults() { m[initKey] = 0 }

type DefLimits map[string]Limit

func (m DefLimits) InitDefaults() { m[initKey] = Limit{Max: 3} }

type DefLimitsBad map[string]Limit

func (m DefLimitsBad) InitDefaults() { m[initKey] = Limit{Max: 0} }

// mapInit: what InitDefaults of the map type stores under initKey - the entry
// itself (scalar elements) or the named field of the entry.
func mapInit(lib string) (field string, v interface{}) {
	switch lib {
	case "DefPorts":
		return "", int64(8080)
	case "DefPortsBad":
		return "", int64(0)
	case "DefLimits":
		return "Max", int64(3)
	case "DefLimitsBad":
		return "Max", int64(0)
	}
	return "", nil
}

// UTagged: ucfg.ConfigUnpacker (merges the setting into the field it holds,
// validates nothing itself) whose field carries validator tags.
type UTagged struct {
	N int `config:"n" validate:"min=5" check:"max=3"`
}

func (u *UTagged) Unpack(c *ucfg.Config) error {
	tmp := struct {
		N int `config:"n"`
	}{u.N}
	if err := c.Unpack(&tmp, ucfg.PathSep("."), ucfg.VarExp); err != nil {
		return err
	}
	u.N = tmp.N
	return nil
}

// Key: a map key type with a Validate of its own.
type Key string

func (k Key) Validate() error {
	if strings.HasPrefix(string(k), "bad") {
		return errors.New("c04lib: key starts with bad")
	}
	return nil
}

// Node: a struct that can be linked into a cycle through its own pointers.
type Node struct {
	V    int   `config:"v" validate:"min=0"`
	Next *Node `config:"next"`
}

// WithDefaults: InitDefaults yields an N that is valid under the `validate`
// tag and invalid under the `check` tag (see ValidatorTag).
type WithDefaults struct {
	N int    `config:"n" validate:"min=3" check:"max=5"`
	S string `config:"s"`
}

func (w *WithDefaults) InitDefaults() { w.N = 7; w.S = "dflt" }

// WithBadDefaults: InitDefaults yields an N that violates min=3 of the
// `validate` tag and satisfies the `check` tag.
type WithBadDefaults struct {
	N int    `config:"n" validate:"min=3" check:"max=5, nonzero"`
	S string `config:"s"`
}

func (w *WithBadDefaults) InitDefaults() { w.N = 1; w.S = "dflt" }

// Range: value-receiver Validate with a cross-field condition.
type Range struct {
	Lo int `config:"lo"`
	Hi int `config:"hi"`
}

func (r Range) Validate() error {
	if r.Lo > r.Hi {
		return errors.New("c04lib: range lo > hi")
	}
	return nil
}

// Pair: pointer-receiver Validate with a cross-field condition.
type Pair struct {
	A string `config:"a"`
	B string `config:"b"`
}

func (p *Pair) Validate() error {
	if (p.A == "") != (p.B == "") {
		return errors.New("c04lib: pair needs both or none")
	}
	return nil
}

// Hidden: an unexported and an ignored field, both tagged with validators
// their values never satisfy. Neither is reachable for Unpack nor for the walk.
type Hidden struct {
	X      int `config:"x" validate:"positive"`
	hidden int `validate:"min=100"`
	Skip   int `config:"skip,ignore" validate:"min=100"`
}

// Small: a slice type with its own Validate (every element <= 50).
type Small []int

func (s Small) Validate() error {
	for _, x := range s {
		if x > 50 {
			return errors.New("c04lib: small holds a value > 50")
		}
	}
	return nil
}

var (
	tSmall    = reflect.TypeOf(Small(nil))
	tInt      = reflect.TypeOf(int(0))
	tInt64    = reflect.TypeOf(int64(0))
	tUint     = reflect.TypeOf(uint(0))
	tFloat64  = reflect.TypeOf(float64(0))
	tString   = reflect.TypeOf("")
	tDuration = reflect.TypeOf(time.Duration(0))
	tIface    = reflect.TypeOf((*interface{})(nil)).Elem()
	tPort     = reflect.TypeOf(Port(0))
	tLevel    = reflect.TypeOf(Level(0))
	tDefLevel = reflect.TypeOf(DefLevel(0))
	tDefBad   = reflect.TypeOf(DefBad(0))
	tInt8     = reflect.TypeOf(int8(0))
	tInt32    = reflect.TypeOf(int32(0))
	tUint8    = reflect.TypeOf(uint8(0))
	tUint32   = reflect.TypeOf(uint32(0))
	tUint64   = reflect.TypeOf(uint64(0))
	tFloat32  = reflect.TypeOf(float32(0))
	tUNum     = reflect.TypeOf(UNum(0))
	tULevel   = reflect.TypeOf(ULevel(0))
	tUPort    = reflect.TypeOf(UPort(0))
	tUStr     = reflect.TypeOf(UStr(""))
	tDefNaN   = reflect.TypeOf(DefNaN(0))
	tRegexp   = reflect.TypeOf(regexp.Regexp{})

	tWithDefaults    = reflect.TypeOf(WithDefaults{})
	tWithBadDefaults = reflect.TypeOf(WithBadDefaults{})
	tRange           = reflect.TypeOf(Range{})
	tPair            = reflect.TypeOf(Pair{})
	tHidden          = reflect.TypeOf(Hidden{})
	tURange          = reflect.TypeOf(URange{})
	tUTagged         = reflect.TypeOf(UTagged{})
	tNode            = reflect.TypeOf(Node{})
	tLimit           = reflect.TypeOf(Limit{})
	tKey             = reflect.TypeOf(Key(""))
	tDefPorts        = reflect.TypeOf(DefPorts(nil))
	tDefPortsBad     = reflect.TypeOf(DefPortsBad(nil))
	tDefLimits       = reflect.TypeOf(DefLimits(nil))
	tDefLimitsBad    = reflect.TypeOf(DefLimitsBad(nil))
)

type validator interface{ Validate() error }
type initializer interface{ InitDefaults() }

var (
	tValidator   = reflect.TypeOf((*validator)(nil)).Elem()
	tInitializer = reflect.TypeOf((*initializer)(nil)).Elem()
)

// hasUnpack: the type (or the pointer to it) has an Unpack method, i.e. go-ucfg
// hands the setting to the type instead of converting it itself.
func hasUnpack(t reflect.Type) bool {
	for t.Kind() == reflect.Ptr {
		t = t.Elem()
	}
	if t.PkgPath() == "" || t.Name() == "" {
		return false
	}
	_, ok := reflect.PtrTo(t).MethodByName("Unpack")
	return ok
}

func hasInit(t reflect.Type) bool {
	return t.Implements(tInitializer) || reflect.PtrTo(t).Implements(tInitializer)
}
