package c04

import (
	"errors"
	"reflect"
	"time"
)

// Hand-written leaf types: reflect.StructOf types cannot carry methods, so
// everything that needs Validate() or InitDefaults() lives here and is used as
// a field / element type inside the generated types.

// Port: value-receiver Validate, the zero value is INVALID.
type Port int

func (p Port) Validate() error {
	if p < 1 || p > 65535 {
		return errors.New("c04lib: port outside 1..65535")
	}
	return nil
}

// Level: pointer-receiver Validate, the zero value is valid.
type Level int

func (l *Level) Validate() error {
	if *l < 0 || *l > 9 {
		return errors.New("c04lib: level outside 0..9")
	}
	return nil
}

// DefLevel: InitDefaults sets a value that its own Validate accepts; whether
// it satisfies the field's tag depends on the tag (min=3: yes, min=7: no).
type DefLevel int

const defLevelInit = 5

func (d *DefLevel) InitDefaults() { *d = defLevelInit }

func (d DefLevel) Validate() error {
	if d < 0 || d > 9 {
		return errors.New("c04lib: deflevel outside 0..9")
	}
	return nil
}

// DefBad: InitDefaults sets a value its own Validate REJECTS.
type DefBad int

const defBadInit = 12

func (d *DefBad) InitDefaults() { *d = defBadInit }

func (d *DefBad) Validate() error {
	if *d < 0 || *d > 9 {
		return errors.New("c04lib: defbad outside 0..9")
	}
	return nil
}

// WithDefaults: InitDefaults yields a valid N.
type WithDefaults struct {
	N int    `config:"n" validate:"min=3"`
	S string `config:"s"`
}

func (w *WithDefaults) InitDefaults() { w.N = 7; w.S = "dflt" }

// WithBadDefaults: InitDefaults yields an N that violates min=3.
type WithBadDefaults struct {
	N int    `config:"n" validate:"min=3"`
	S string `config:"s"`
}

func (w *WithBadDefaults) InitDefaults() { w.N = 1; w.S = "dflt" }

// Range: value-receiver Validate with a cross-field condition.
type Range struct {
	Lo int `config:"lo"`
	Hi int `config:"hi"`
}

func (r Range) Validate() error {
	if r.Lo > r.Hi {
		return errors.New("c04lib: range lo > hi")
	}
	return nil
}

// Pair: pointer-receiver Validate with a cross-field condition.
type Pair struct {
	A string `config:"a"`
	B string `config:"b"`
}

func (p *Pair) Validate() error {
	if (p.A == "") != (p.B == "") {
		return errors.New("c04lib: pair needs both or none")
	}
	return nil
}

// Hidden: an unexported and an ignored field, both tagged with validators
// their values never satisfy. Neither is reachable for Unpack nor for the walk.
type Hidden struct {
	X      int `config:"x" validate:"positive"`
	hidden int `validate:"min=100"`
	Skip   int `config:"skip,ignore" validate:"min=100"`
}

// Small: a slice type with its own Validate (every element <= 50).
type Small []int

func (s Small) Validate() error {
	for _, x := range s {
		if x > 50 {
			return errors.New("c04lib: small holds a value > 50")
		}
	}
	return nil
}

var (
	tSmall    = reflect.TypeOf(Small(nil))
	tInt      = reflect.TypeOf(int(0))
	tInt64    = reflect.TypeOf(int64(0))
	tUint     = reflect.TypeOf(uint(0))
	tFloat64  = reflect.TypeOf(float64(0))
	tString   = reflect.TypeOf("")
	tDuration = reflect.TypeOf(time.Duration(0))
	tIface    = reflect.TypeOf((*interface{})(nil)).Elem()
	tPort     = reflect.TypeOf(Port(0))
	tLevel    = reflect.TypeOf(Level(0))
	tDefLevel = reflect.TypeOf(DefLevel(0))
	tDefBad   = reflect.TypeOf(DefBad(0))

	tWithDefaults    = reflect.TypeOf(WithDefaults{})
	tWithBadDefaults = reflect.TypeOf(WithBadDefaults{})
	tRange           = reflect.TypeOf(Range{})
	tPair            = reflect.TypeOf(Pair{})
	tHidden          = reflect.TypeOf(Hidden{})
)

type validator interface{ Validate() error }
type initializer interface{ InitDefaults() }

var (
	tValidator   = reflect.TypeOf((*validator)(nil)).Elem()
	tInitializer = reflect.TypeOf((*initializer)(nil)).Elem()
)

func hasInit(t reflect.Type) bool {
	return t.Implements(tInitializer) || reflect.PtrTo(t).Implements(tInitializer)
}
