package c04

import (
	"fmt"
	"math/rand"
	"reflect"
	"strconv"
	"strings"
	"sync/atomic"
)

// A generated target type is a small program: a tree of tnodes from which the
// reflect type (reflect.StructOf + the hand-written leaf types of lib.go), the
// configurations, the pre-filled defaults and the fault positions are derived.

type kind uint8

const (
	kInt kind = iota
	kInt64
	kUint
	kFloat
	kString
	kDur
	kPort
	kLevel
	kDefLevel
	kDefBad
	// plain kinds of other widths
	kInt8
	kInt32
	kUint8
	kUint32
	kUint64
	kFloat32
	// library leaves that take their value through an Unpacker interface
	kUNum
	kULevel
	kUPort
	kUStr
	// DefNaN: a float64 whose InitDefaults sets NaN
	kDefNaN
	// Regexp: regexp.Regexp, only ever held behind a pointer (*regexp.Regexp)
	kRegexp
	kStruct
	kPtr
	kSlice
	kArray
	kMap
	kIface
)

func (k kind) scalar() bool { return k < kStruct }

// base maps a scalar kind to the kind whose values, validators and intrinsic
// range it shares (widths and Unpacker variants behave like their base kind).
func (k kind) base() kind {
	switch k {
	case kInt8, kInt32, kUNum:
		return kInt
	case kUint8, kUint32, kUint64:
		return kUint
	case kFloat32, kDefNaN:
		return kFloat
	case kRegexp:
		return kString
	case kULevel:
		return kLevel
	case kUPort:
		return kPort
	case kUStr:
		return kString
	}
	return k
}

// unpacker: the kind's type has an Unpack method.
func (k kind) unpacker() bool { return k == kUNum || k == kULevel || k == kUPort || k == kUStr }

var kindNames = map[kind]string{kInt: "int", kInt64: "int64", kUint: "uint", kFloat: "float64", kString: "string", kDur: "duration",
	kPort: "Port", kLevel: "Level", kDefLevel: "DefLevel", kDefBad: "DefBad",
	kInt8: "int8", kInt32: "int32", kUint8: "uint8", kUint32: "uint32", kUint64: "uint64", kFloat32: "float32",
	kUNum: "UNum", kULevel: "ULevel", kUPort: "UPort", kUStr: "UStr", kDefNaN: "DefNaN", kRegexp: "Regexp", kStruct: "struct", kPtr: "ptr", kSlice: "slice", kArray: "array", kMap: "map", kIface: "iface"}

var scalarType = map[kind]reflect.Type{kInt: tInt, kInt64: tInt64, kUint: tUint, kFloat: tFloat64, kString: tString, kDur: tDuration,
	kPort: tPort, kLevel: tLevel, kDefLevel: tDefLevel, kDefBad: tDefBad,
	kInt8: tInt8, kInt32: tInt32, kUint8: tUint8, kUint32: tUint32, kUint64: tUint64, kFloat32: tFloat32,
	kUNum: tUNum, kULevel: tULevel, kUPort: tUPort, kUStr: tUStr, kDefNaN: tDefNaN, kRegexp: tRegexp}

// altTag is the second struct tag name validators are declared under; it is in
// force when Unpack is given ValidatorTag(altTag).
const altTag = "check"

type tnode struct {
	k      kind
	elem   *tnode // ptr, slice, array, map, iface (content the plans put into it)
	alen   int
	fields []*tfield // struct
	lib    string    // name of the hand-written struct type, "" for StructOf
	rt     reflect.Type
	// prt: slices, arrays and maps held behind a pointer (field type *[]T ...):
	// the pointer type; rt stays the type of the collection itself
	prt reflect.Type
	// pp: pointer to scalar held behind a second pointer (**T); rt is **T
	pp bool
	// inlineMap: generated struct whose only field is an inline map
	inlineMap bool
	// vkey: map whose key type is the library type Key (string with Validate)
	vkey bool
	// topColl: wrapper around the one slice / map that is itself the Unpack target
	topColl bool
	// tag: name of the struct tag the vals of the fields below were read from
	// ("validate" or altTag); set on the top node
	tag string
}

type tfield struct {
	idx    int
	goName string
	cfg    string // configured name ("" for inline)
	inline bool
	ignore bool
	mode   string // merge option of the config tag: "" append prepend replace merge
	vals   []vtag // validators of the tag name in force
	alt    []vtag // validators declared under the other tag name
	t      *tnode
}

func (f *tfield) has(name string) bool {
	for _, v := range f.vals {
		if v.name == name {
			return true
		}
	}
	return false
}

// fieldType is the Go type of a struct field holding the node.
func (t *tnode) fieldType() reflect.Type {
	if t.prt != nil {
		return t.prt
	}
	return t.rt
}

// st returns the struct node behind a struct, pointer-to-struct or interface
// holding a pointer to struct; nil otherwise.
func (t *tnode) st() *tnode {
	switch t.k {
	case kStruct:
		return t
	case kPtr:
		if t.elem.k == kStruct {
			return t.elem
		}
	case kIface:
		if t.elem != nil && t.elem.k == kPtr {
			return t.elem.elem
		}
	}
	return nil
}

// needsCfg: the struct holds (through by-value structs) a `required` field,
// which the plans only ever satisfy from the configuration.
func (t *tnode) needsCfg() bool {
	s := t.st()
	if s == nil {
		return false
	}
	for _, f := range s.fields {
		if f.ignore {
			continue
		}
		if f.has("required") {
			return true
		}
		if f.t.k == kStruct && f.t.needsCfg() {
			return true
		}
	}
	return false
}

// hasStructMap: a map of structs held by value is reachable inside the type.
// Merging a configured entry into a pre-filled entry of such a map panics in
// go-ucfg (C07's finding), so plans never let the two sides meet there.
func (t *tnode) hasStructMap() bool {
	switch t.k {
	case kMap:
		return t.elem.k == kStruct || t.elem.hasStructMap()
	case kPtr, kSlice, kArray, kIface:
		return t.elem != nil && t.elem.hasStructMap()
	case kStruct:
		for _, f := range t.fields {
			if f.t.hasStructMap() {
				return true
			}
		}
	}
	return false
}

// ---------------------------------------------------------------------------
// library struct types as tnodes

func fromLib(rt reflect.Type) *tnode { return fromLibTag(rt, "validate", altTag) }

// fromLibTag reads the validators in force from the struct tag `tag`.
func fromLibTag(rt reflect.Type, tag, other string) *tnode {
	n := &tnode{k: kStruct, lib: rt.Name(), rt: rt}
	for i := 0; i < rt.NumField(); i++ {
		sf := rt.Field(i)
		if !exported(sf) {
			continue
		}
		name, _, ignore := parseConfigTag(sf)
		var k kind
		switch sf.Type {
		case tInt:
			k = kInt
		case tString:
			k = kString
		case reflect.PtrTo(rt):
			continue // Node.Next: filled by the plan's cycle, never a position of its own
		default:
			panic("c04: unsupported library field type " + sf.Type.String())
		}
		n.fields = append(n.fields, &tfield{idx: i, goName: sf.Name, cfg: name, ignore: ignore,
			vals: parseValidate(sf.Tag.Get(tag)), alt: parseValidate(sf.Tag.Get(other)), t: &tnode{k: k, rt: sf.Type}})
	}
	return n
}

var libStructs = []reflect.Type{tWithDefaults, tWithBadDefaults, tRange, tPair, tHidden, tURange, tUTagged, tNode}

// swapTags returns a copy of the type tree in which the validators declared
// under the other tag name are in force. The reflect types are shared.
func swapTags(t *tnode) *tnode {
	if t == nil {
		return nil
	}
	c := *t
	c.elem = swapTags(t.elem)
	c.fields = nil
	for _, f := range t.fields {
		g := *f
		g.vals, g.alt = f.alt, f.vals
		g.t = swapTags(f.t)
		c.fields = append(c.fields, &g)
	}
	if t.tag != "" {
		c.tag = altTag
		if t.tag == altTag {
			c.tag = "validate"
		}
	}
	return &c
}

// ---------------------------------------------------------------------------
// generator

type tgen struct {
	r      *rand.Rand
	names  int
	budget int
	// twoTags: fields also declare validators under altTag
	twoTags bool
	// nullable: the validators being drawn are for a pointer field (which can
	// stay nil under a bound no value satisfies)
	nullable bool
}

var namePool = []string{"a", "b", "host", "port", "size", "max_len", "name", "timeout", "level", "items", "opt", "x", "cfg", "rate", "n", "id"}

func (g *tgen) name() (goName, cfg string) {
	g.names++
	return "F" + strconv.Itoa(g.names), namePool[g.r.Intn(len(namePool))] + strconv.Itoa(g.names)
}

func (g *tgen) scalarKind() kind {
	switch x := g.r.Intn(35); {
	case x < 5:
		return kInt
	case x < 7:
		return kInt64
	case x < 9:
		return kUint
	case x < 11:
		return kFloat
	case x < 14:
		return kString
	case x < 17:
		return kDur
	case x < 19:
		return kPort
	case x < 20:
		return kLevel
	case x < 21:
		return kDefLevel
	case x < 22:
		return kDefBad
	case x < 23:
		return kInt8
	case x < 24:
		return kInt32
	case x < 25:
		return kUint8
	case x < 26:
		return kUint32
	case x < 28:
		return kUint64
	case x < 29:
		return kFloat32
	case x < 31:
		return kUNum
	case x < 32:
		return kULevel
	case x < 33:
		return kUPort
	case x < 34:
		return kUStr
	}
	return kDefNaN
}

func scalarNode(k kind) *tnode { return &tnode{k: k, rt: scalarType[k]} }

var durMin = []string{"1s", "1", "5s", "5", "500ms", "0.5", "2s"}
var durMax = []string{"1m", "60", "10s", "10", "1h", "90s"}

func pick(r *rand.Rand, l ...string) string { return l[r.Intn(len(l))] }

// scalarVals draws 0-2 validators that apply to the scalar kind.
func (g *tgen) scalarVals(k kind) []vtag {
	r := g.r
	n := 0
	switch x := r.Intn(20); {
	case x < 5:
		n = 0
	case x < 14:
		n = 1
	default:
		n = 2
	}
	var cand []string
	switch k.base() {
	case kInt, kInt64, kFloat, kDur:
		cand = []string{"required", "nonzero", "positive", "min", "max", "min", "max"}
	case kUint:
		cand = []string{"required", "nonzero", "min", "max", "min", "max"}
	case kString:
		cand = []string{"required", "nonzero"}
		if n > 1 {
			n = 1
		}
	case kPort:
		cand = []string{"required", "min", "max"}
	case kLevel:
		cand = []string{"nonzero", "positive", "min", "max"}
	case kDefLevel:
		cand = []string{"min", "min", "max", "positive"}
	case kDefBad:
		cand = []string{"positive", "max"}
	}
	var out []vtag
	for len(out) < n {
		name := cand[r.Intn(len(cand))]
		dup := false
		for _, o := range out {
			// required and nonzero say the same about the values generated here
			if o.name == name || (o.name == "required" && name == "nonzero") || (o.name == "nonzero" && name == "required") {
				dup = true
			}
		}
		if dup {
			if r.Intn(4) == 0 {
				break
			}
			continue
		}
		t := vtag{name: name}
		switch name {
		case "min":
			switch k.base() {
			case kDur:
				t.param = durMin[r.Intn(len(durMin))]
				// a bound in seconds beyond what a time.Duration holds
				switch y := r.Intn(12); {
				case y < 2:
					t.param = "-1e10" // every duration satisfies it
				case y < 4 && g.nullable:
					t.param = pick(r, "1e10", "inf") // no duration satisfies it
				}
			case kFloat:
				t.param = pick(r, "1", "2.5", "5", "10")
			case kPort:
				t.param = "1024"
			case kLevel:
				t.param = pick(r, "1", "2")
			case kDefLevel:
				t.param = pick(r, "3", "7")
			default:
				t.param = pick(r, "1", "2", "5", "10")
			}
		case "max":
			switch k.base() {
			case kDur:
				t.param = durMax[r.Intn(len(durMax))]
				switch y := r.Intn(12); {
				case y < 2:
					t.param = pick(r, "1e10", "9223372036.854775807", "inf") // every duration satisfies it
				case y < 4 && g.nullable:
					t.param = "-1e10" // no duration satisfies it
				}
			case kFloat:
				t.param = pick(r, "20", "99.5", "50")
			case kPort:
				t.param = pick(r, "9000", "50000")
			case kLevel, kDefLevel, kDefBad:
				t.param = pick(r, "7", "8")
			default:
				t.param = pick(r, "20", "50", "100", "12")
			}
		}
		// one bound in eight of a 64 bit integer field lies at the edge of the
		// kind's range (beyond what a float64 or the other signedness holds)
		if (name == "min" || name == "max") && wide64(k) && r.Intn(8) == 0 {
			other := ""
			for _, o := range out {
				if o.name == "min" || o.name == "max" {
					other = o.param
				}
			}
			if p := edgeBound(r, k, name, other); p != "" {
				t.param = p
			}
		} else if name == "max" {
			// a max drawn after an edge min has to stay above it
			for _, o := range out {
				if o.name == "min" && isEdge(o.param) {
					t.param = edgeBound(r, k, "max", o.param)
				}
			}
		}
		out = append(out, t)
	}
	return out
}

// wide64: 64 bit integer kinds.
func wide64(k kind) bool {
	switch k {
	case kInt64, kUint64:
		return true
	case kInt, kUint:
		return strconv.IntSize == 64
	}
	return false
}

func isEdge(param string) bool { return len(strings.TrimLeft(param, "-")) > 16 }

// edgeBound draws a bound at the edge of the range of a 64 bit integer kind
// that leaves room next to the field's other bound ("" = none; no edge bound
// is drawn next to an ordinary one on the wrong side).
func edgeBound(r *rand.Rand, k kind, name, other string) string {
	unsigned := k.base() == kUint
	switch {
	case name == "max" && other == "":
		if unsigned {
			return pick(r, "9223372036854775807", "9223372036854775808", "18446744073709551614")
		}
		return "9223372036854775806"
	case name == "max": // above any min
		if unsigned {
			return "18446744073709551614"
		}
		return "9223372036854775806"
	case name == "min" && (other == "" || isEdge(other) && !strings.HasPrefix(other, "-")):
		if unsigned {
			if other == "9223372036854775807" {
				return "9223372036854775806"
			}
			return pick(r, "9223372036854775807", "9223372036854775808")
		}
		if other != "" {
			return "-9223372036854775807"
		}
		return pick(r, "-9223372036854775807", "9223372036854775806")
	}
	return ""
}

var tagModes = []string{"append", "prepend", "replace", "merge", "append", "prepend"}

// mode draws a merge option for the config tag with probability pct/100.
func (g *tgen) mode(pct int) string {
	if g.r.Intn(100) < pct {
		return tagModes[g.r.Intn(len(tagModes))]
	}
	return ""
}

func (g *tgen) collVals(pReq, pNonzero int) []vtag {
	x := g.r.Intn(100)
	switch {
	case x < pReq:
		return []vtag{{name: "required"}}
	case x < pReq+pNonzero:
		return []vtag{{name: "nonzero"}}
	}
	return nil
}

func (g *tgen) structNode(depth int) *tnode {
	r := g.r
	if depth > 0 && r.Intn(100) < 40 {
		return fromLib(libStructs[r.Intn(len(libStructs))])
	}
	if depth > 0 && r.Intn(100) < 8 {
		// a struct whose only field is an inline map (it receives every key of
		// the struct's configuration; with sibling fields it would receive
		// theirs as well - C06's matter), with or without validators of its own
		f := &tfield{inline: true}
		f.goName, _ = g.name()
		e := scalarNode(g.scalarKind())
		f.t = &tnode{k: kMap, elem: e, rt: reflect.MapOf(tString, e.rt)}
		f.vals = g.collVals(35, 35)
		if g.twoTags {
			f.alt = g.altVals(f)
		}
		n := &tnode{k: kStruct, fields: []*tfield{f}, inlineMap: true}
		n.rt = buildStruct(n)
		return n
	}
	nf := 1 + r.Intn(3)
	if depth == 0 {
		nf = 2 + r.Intn(4)
	}
	n := &tnode{k: kStruct}
	for i := 0; i < nf; i++ {
		if g.budget <= 0 && i > 0 {
			break
		}
		g.budget--
		n.fields = append(n.fields, g.field(depth, i))
	}
	n.rt = buildStruct(n)
	return n
}

func buildStruct(n *tnode) reflect.Type { return buildStructAs(n, "validate", altTag, "") }

// buildStructAs declares the vals of the fields under the tag name valsName,
// their alt validators under altName, and appends extra to every struct tag.
func buildStructAs(n *tnode, valsName, altName, extra string) reflect.Type {
	sf := make([]reflect.StructField, len(n.fields))
	for i, f := range n.fields {
		f.idx = i
		tag := f.cfg
		if f.inline {
			tag += ",inline"
		}
		if f.ignore {
			tag += ",ignore"
		}
		if f.mode != "" {
			tag += "," + f.mode
		}
		full := `config:"` + tag + `"`
		render := func(name string, vals []vtag) string {
			if len(vals) == 0 {
				return ""
			}
			var parts []string
			for _, v := range vals {
				if v.param != "" {
					parts = append(parts, v.name+"="+v.param)
				} else {
					parts = append(parts, v.name)
				}
			}
			sep := ","
			if len(f.goName)%2 == 0 {
				sep = ", "
			}
			return " " + name + `:"` + strings.Join(parts, sep) + `"`
		}
		first, second := render(valsName, f.vals), render(altName, f.alt)
		if valsName != "validate" {
			first, second = second, first
		}
		if i%3 == 2 {
			first, second = second, first
		}
		full += first + second + extra
		sf[i] = reflect.StructField{Name: f.goName, Type: f.t.fieldType(), Tag: reflect.StructTag(full)}
	}
	return reflect.StructOf(sf)
}

func (g *tgen) field(depth, pos int) *tfield {
	x := g.r.Intn(100)
	if depth >= 2 || g.budget <= 0 {
		x = g.r.Intn(62) // no further structs
	}
	return g.fieldOf(depth, x)
}

// fieldOf builds a field of the category x selects (see the cases).
func (g *tgen) fieldOf(depth, x int) *tfield {
	r := g.r
	f := &tfield{}
	f.goName, f.cfg = g.name()
	deep := depth >= 2
	switch {
	case x < 30: // scalar
		k := g.scalarKind()
		f.t = scalarNode(k)
		f.vals = g.scalarVals(k)
	case x < 42: // pointer to scalar; one in six through a second pointer; *regexp.Regexp
		k := g.scalarKind()
		if r.Intn(10) == 0 {
			k = kRegexp
		}
		e := scalarNode(k)
		f.t = &tnode{k: kPtr, elem: e, rt: reflect.PtrTo(e.rt)}
		if k != kRegexp && r.Intn(6) == 0 {
			f.t.pp = true
			f.t.rt = reflect.PtrTo(f.t.rt)
		}
		g.nullable = true
		f.vals = g.scalarVals(k)
		g.nullable = false
	case x < 48: // slice of scalars
		e := scalarNode(g.scalarKind())
		f.t = &tnode{k: kSlice, elem: e, rt: reflect.SliceOf(e.rt)}
		if r.Intn(5) == 0 {
			e = scalarNode(kInt)
			f.t = &tnode{k: kSlice, elem: e, rt: tSmall, lib: "Small"}
		}
		f.vals = g.collVals(20, 20)
		f.mode = g.mode(50)
		g.behindPointer(f.t, 5)
	case x < 51: // array of scalars
		e := scalarNode(g.scalarKind())
		n := 1 + r.Intn(3)
		f.t = &tnode{k: kArray, elem: e, alen: n, rt: reflect.ArrayOf(n, e.rt)}
		f.vals = g.collVals(2, 2)
		g.behindPointer(f.t, 5)
	case x < 56: // map of scalars
		e := scalarNode(g.scalarKind())
		f.t = &tnode{k: kMap, elem: e, rt: reflect.MapOf(tString, e.rt)}
		f.vals = g.collVals(20, 20)
		switch y := r.Intn(10); {
		case y < 2: // a map type whose InitDefaults inserts an entry
			f.t = initMapNode(r.Intn(2) == 0, false)
			f.vals = nil
		case y < 4: // keys with a Validate of their own
			f.t.vkey = true
			f.t.rt = reflect.MapOf(tKey, e.rt)
		}
		if f.t.lib == "" {
			g.behindPointer(f.t, 4)
		}
	case x < 59: // interface{}, one in four behind a pointer (*interface{})
		f.t = &tnode{k: kIface, rt: tIface}
		if r.Intn(3) == 0 {
			f.t.prt = reflect.PtrTo(tIface)
		}
		content := r.Intn(3)
		if f.t.prt != nil && r.Intn(2) == 0 {
			// behind the pointer: half of the time a pointer to a library struct
			// with a Validate of its own (cross-field condition)
			s := fromLib([]reflect.Type{tRange, tPair, tURange}[r.Intn(3)])
			f.t.elem = &tnode{k: kPtr, elem: s, rt: reflect.PtrTo(s.rt)}
			f.vals = g.collVals(30, 0)
			content = -1
		}
		switch content {
		case -1:
		case 0:
			f.t.elem = scalarNode(kInt)
			f.vals = g.collVals(30, 30)
		case 1:
			f.t.elem = scalarNode(kString)
			f.vals = g.collVals(30, 0)
		default:
			if deep || g.budget <= 0 {
				f.t.elem = scalarNode(kInt)
			} else {
				s := g.structNode(depth + 1)
				f.t.elem = &tnode{k: kPtr, elem: s, rt: reflect.PtrTo(s.rt)}
			}
			f.vals = g.collVals(30, 0)
		}
	case x < 62: // ignored field carrying a validator its value breaks
		f.t = scalarNode(kInt)
		f.ignore = true
		f.vals = []vtag{{name: "min", param: "100"}}
	case x < 70: // struct by value
		f.t = g.structNode(depth + 1)
		f.mode = g.mode(12)
	case x < 79: // pointer to struct
		s := g.structNode(depth + 1)
		f.t = &tnode{k: kPtr, elem: s, rt: reflect.PtrTo(s.rt)}
		f.vals = g.collVals(25, 0)
		f.mode = g.mode(12)
	case x < 83: // inline struct (generated structs only: unique names)
		s := g.structNode(depth + 1)
		if s.lib != "" || s.inlineMap {
			f.t = s // (an inline map held inline would receive the keys of ITS holder's siblings)
		} else {
			f.t = s
			f.inline = true
			f.cfg = ""
		}
	case x < 90: // slice of structs / pointers to structs
		s := g.structNode(depth + 1)
		e := s
		if r.Intn(3) == 0 {
			e = &tnode{k: kPtr, elem: s, rt: reflect.PtrTo(s.rt)}
		}
		f.t = &tnode{k: kSlice, elem: e, rt: reflect.SliceOf(e.rt)}
		f.vals = g.collVals(15, 15)
		f.mode = g.mode(50)
		g.behindPointer(f.t, 6)
	case x < 93: // array of structs
		s := g.structNode(depth + 1)
		n := 1 + r.Intn(2)
		f.t = &tnode{k: kArray, elem: s, alen: n, rt: reflect.ArrayOf(n, s.rt)}
		f.vals = g.collVals(2, 2)
	default: // map of structs / pointers to structs
		s := g.structNode(depth + 1)
		e := s
		if r.Intn(2) == 0 {
			e = &tnode{k: kPtr, elem: s, rt: reflect.PtrTo(s.rt)}
		}
		f.t = &tnode{k: kMap, elem: e, rt: reflect.MapOf(tString, e.rt)}
		f.vals = g.collVals(15, 15)
		f.mode = g.mode(12)
		if r.Intn(5) == 0 {
			f.t = initMapNode(r.Intn(2) == 0, true)
			f.vals, f.mode = nil, ""
		}
	}
	if g.twoTags {
		f.alt = g.altVals(f)
	}
	if f.t.k == kMap && f.t.lib != "" {
		f.alt = nil // InitDefaults keeps these maps non-empty: no validators of their own
	}
	return f
}

// initMapNode: one of the library map types with InitDefaults.
func initMapNode(bad, structElem bool) *tnode {
	switch {
	case structElem && bad:
		return &tnode{k: kMap, elem: fromLib(tLimit), rt: tDefLimitsBad, lib: "DefLimitsBad"}
	case structElem:
		return &tnode{k: kMap, elem: fromLib(tLimit), rt: tDefLimits, lib: "DefLimits"}
	case bad:
		return &tnode{k: kMap, elem: scalarNode(kPort), rt: tDefPortsBad, lib: "DefPortsBad"}
	}
	return &tnode{k: kMap, elem: scalarNode(kPort), rt: tDefPorts, lib: "DefPorts"}
}

// keyType is the key type of a map node.
func (t *tnode) keyType() reflect.Type {
	if t.vkey {
		return tKey
	}
	return tString
}

// behindPointer makes one collection field in `every` a pointer to the collection.
func (g *tgen) behindPointer(t *tnode, every int) {
	if g.r.Intn(every) == 0 {
		t.prt = reflect.PtrTo(t.rt)
	}
}

// altVals draws the validators a field declares under altTag: independent of
// the ones under `validate`, of the same family; one field in four has none.
func (g *tgen) altVals(f *tfield) []vtag {
	if f.ignore {
		return f.vals
	}
	if g.r.Intn(4) == 0 {
		return nil
	}
	t := f.t
	switch {
	case t.k.scalar():
		return g.scalarVals(t.k)
	case t.k == kPtr && t.elem.k.scalar():
		g.nullable = true
		defer func() { g.nullable = false }()
		return g.scalarVals(t.elem.k)
	case t.k == kSlice, t.k == kMap:
		return g.collVals(20, 20)
	case t.k == kArray:
		return g.collVals(2, 2)
	case t.k == kIface:
		if t.elem.k == kInt {
			return g.collVals(30, 30)
		}
		return g.collVals(30, 0)
	case t.k == kPtr:
		return g.collVals(25, 0)
	}
	return nil
}

// genType builds one top-level struct type.
func genType(r *rand.Rand) *tnode {
	g := &tgen{r: r, budget: 8 + r.Intn(12)}
	g.twoTags = r.Intn(2) == 0
	n := &tnode{k: kStruct, tag: "validate"}
	nf := 2 + r.Intn(5)
	for i := 0; i < nf; i++ {
		g.budget--
		n.fields = append(n.fields, g.field(0, i))
	}
	n.rt = buildStruct(n)
	return n
}

// genTopColl builds a wrapper struct around ONE slice or map. The check hands
// the slice / map itself to Unpack (the top-level target is not a struct);
// the wrapper only lets plans, model and walk work as for any other type.
func genTopColl(r *rand.Rand) *tnode {
	g := &tgen{r: r, budget: 5 + r.Intn(6)}
	g.twoTags = r.Intn(2) == 0
	x := []int{42, 44, 46, 52, 84, 85, 86, 87, 88, 95, 97}[r.Intn(11)]
	f := g.fieldOf(0, x)
	f.cfg, f.vals, f.alt, f.mode = "w", nil, nil, ""
	f.t.prt = nil // the target itself is the slice / map
	n := &tnode{k: kStruct, fields: []*tfield{f}, topColl: true, tag: "validate"}
	n.rt = buildStruct(n)
	return n
}

func (t *tnode) String() string {
	if t.topColl {
		return fmt.Sprint(t.fields[0].t.rt)
	}
	return fmt.Sprint(t.rt)
}

// ---------------------------------------------------------------------------
// twins: the same type built anew, for telling apart WHY an outcome is wrong

// twinSeq only makes the struct tags of a twin differ from those of every type
// built before in this process; no verdict depends on its value.
var twinSeq int64

type twinMaps struct {
	t map[*tnode]*tnode
	f map[*tfield]*tfield
}

// twinType rebuilds the generated structs of a type tree (vals declared under
// inForce, alt under other) as types go-ucfg has never seen: same fields,
// names, options and validators, one more (meaningless) key in every struct
// tag. With onlyInForce the other tag name declares the validators of the tag
// in force as well (the declarations it had are gone). Hand-written library
// structs are shared.
func twinType(top *tnode, inForce, other string, onlyInForce bool) (*tnode, twinMaps) {
	id := atomic.AddInt64(&twinSeq, 1)
	m := twinMaps{map[*tnode]*tnode{}, map[*tfield]*tfield{}}
	extra := ` twin:"` + strconv.FormatInt(id, 10) + `"`
	var build func(t *tnode) *tnode
	build = func(t *tnode) *tnode {
		if t == nil {
			return nil
		}
		if c, ok := m.t[t]; ok {
			return c
		}
		c := *t
		m.t[t] = &c
		c.elem = build(t.elem)
		switch t.k {
		case kStruct:
			if t.lib != "" {
				break
			}
			c.fields = nil
			for _, f := range t.fields {
				g := *f
				g.t = build(f.t)
				if onlyInForce && !f.ignore {
					g.alt = g.vals
				}
				m.f[f] = &g
				c.fields = append(c.fields, &g)
			}
			c.rt = buildStructAs(&c, inForce, other, extra)
		case kPtr:
			c.rt = reflect.PtrTo(c.elem.rt)
			if t.pp {
				c.rt = reflect.PtrTo(c.rt)
			}
		case kSlice:
			if t.lib == "" {
				c.rt = reflect.SliceOf(c.elem.rt)
			}
		case kArray:
			c.rt = reflect.ArrayOf(t.alen, c.elem.rt)
		case kMap:
			if t.lib == "" {
				c.rt = reflect.MapOf(t.keyType(), c.elem.rt)
			}
		}
		if t.prt != nil {
			c.prt = reflect.PtrTo(c.rt)
		}
		return &c
	}
	return build(top), m
}
