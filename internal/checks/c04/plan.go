package c04

import (
	"fmt"
	"math"
	"math/big"
	"math/rand"
	"reflect"
	"regexp"
	"sort"
	"strconv"
	"strings"
	"time"
)

// A plan assigns to every position of a value of the generated type where its
// value comes from: the configuration (inCfg), the pre-filled target (inPre),
// InitDefaults of a library type, or nowhere (zero / nil). From one plan the
// configuration tree and the pre-filled target are rendered; faults are edits
// of a clone of the plan.

type pnode struct {
	t      *tnode
	f      *tfield // the struct field this node fills (nil: top, element, entry)
	parent *pnode
	path   string // dotted configuration path (what an error has to name)
	rpath  string // dotted path of the position in the unpacked result (differs under append/prepend)
	seg    string // last segment of path ("" for inline fields and the top)
	rseg   string // last segment of rpath
	mode   string // merge mode in force at this node: tag option of the nearest field, else the global option
	global string // top node: the merge option passed to Unpack ("" none)
	vopt   string // top node: name passed as ValidatorTag option ("" = option not given)
	shape  string // shape reported for a fault at this position
	sshape string // struct-like nodes: shape of the plain fields inside
	key    string // map entries
	isElem bool   // slice/array element or map entry: inCfg/inPre are fixed by the collection
	// fromInit: the map entry InitDefaults of the map type inserts (key initKey)
	fromInit bool
	// boxed: interface position whose pre-filled number sits behind a pointer (iface(*int))
	boxed bool
	// cycle: pre-filled Node whose Next pointers lead into a cycle of that many nodes
	cycle int
	// dropped: pre-filled element of a slice that the configuration replaces
	// (replace mode): it is rendered into the target but is no fault position
	dropped bool

	inCfg, inPre bool
	cfgNull      bool        // the configuration holds an explicit null here
	cfgVal       interface{} // leaves: int64 | float64 | string | time.Duration
	preVal       interface{}
	viaVar       bool // the setting is "${v.xN}" referencing a top-level variable
	form         int  // spelling of the configuration value

	kids []*pnode
}

type pctx struct {
	canCfg  bool // the holder is present in the configuration
	canPre  bool // the holder exists in the pre-filled target
	visited bool // the holder is reified (InitDefaults runs, absent fields are looked at one by one)
}

// leafKind returns the scalar kind of a leaf position (scalar, pointer to
// scalar, interface holding a scalar) and ok=false for containers.
func (n *pnode) leafKind() (kind, bool) {
	switch {
	case n.t.k.scalar():
		return n.t.k, true
	case n.t.k == kPtr && n.t.elem.k.scalar():
		return n.t.elem.k, true
	case n.t.k == kIface && !n.structContent():
		if n.t.elem.k.scalar() {
			return n.t.elem.k, true
		}
		return kInt, true
	}
	return 0, false
}

// structContent: an interface position whose plan holds a pointer to struct.
func (n *pnode) structContent() bool { return n.t.k == kIface && n.sshape != "" }

func (n *pnode) vals() []vtag {
	if n.f == nil || n.isElem {
		return nil
	}
	return n.f.vals
}

// ---------------------------------------------------------------------------
// value domains

type dom struct {
	k      kind
	lo, hi float64 // inclusive, natural units (seconds for durations)
	hasLo  bool
	hasHi  bool
	nz     bool
	bounds []float64 // boundary values named by validators (inclusive bounds are valid)
	tags   []vtag    // the validators the domain was built from
	// edge: a bound lies beyond 2^53; values are then drawn from a list of
	// candidates and compared exactly
	edge bool
}

func intrinsic(k kind) (lo, hi float64, hasLo, hasHi bool) {
	switch k.base() {
	case kUint:
		return 0, 0, true, false
	case kPort:
		return 1, 65535, true, true
	case kLevel, kDefLevel, kDefBad:
		return 0, 9, true, true
	}
	return 0, 0, false, false
}

func boundOf(k kind, param string) float64 {
	if k.base() == kDur {
		b, _ := parseBound(param, true)
		return b / float64(time.Second)
	}
	b, _ := parseBound(param, false)
	return b
}

func domainOf(k kind, vals []vtag) dom {
	d := dom{k: k}
	d.lo, d.hi, d.hasLo, d.hasHi = intrinsic(k)
	return d.with(vals)
}

// tagOnly is the domain one validator alone describes (without the range the
// kind's own Validate accepts).
func tagOnly(k kind, v vtag) dom { return dom{k: k}.with([]vtag{v}) }

func (d dom) with(vals []vtag) dom {
	k := d.k
	raise := func(x float64) {
		if !d.hasLo || x > d.lo {
			d.lo, d.hasLo = x, true
		}
	}
	lower := func(x float64) {
		if !d.hasHi || x < d.hi {
			d.hi, d.hasHi = x, true
		}
	}
	for _, v := range vals {
		d.tags = append(d.tags, v)
		switch v.name {
		case "required", "nonzero":
			d.nz = true
		case "positive":
			raise(0)
			d.bounds = append(d.bounds, 0)
		case "min":
			b := boundOf(k, v.param)
			raise(b)
			if !beyondDuration(k, b) {
				d.bounds = append(d.bounds, b)
			}
			d.edge = d.edge || isEdge(v.param) && wide64(k)
		case "max":
			b := boundOf(k, v.param)
			lower(b)
			if !beyondDuration(k, b) {
				d.bounds = append(d.bounds, b)
			}
			d.edge = d.edge || isEdge(v.param) && wide64(k)
		}
	}
	return d
}

// maxDurSeconds: the largest number of seconds a time.Duration holds (rounded down).
const maxDurSeconds = 9223372036.0

// beyondDuration: a duration bound in seconds no time.Duration reaches.
func beyondDuration(k kind, seconds float64) bool {
	return k == kDur && (seconds > maxDurSeconds || seconds < -maxDurSeconds)
}

// beyondParam: the parameter of a min / max on a duration lies beyond the range.
func beyondParam(k kind, v vtag) bool {
	return (v.name == "min" || v.name == "max") && beyondDuration(k, boundOf(k, v.param))
}

// empty: no value of the kind satisfies the domain (a duration bound beyond
// the range on the wrong side).
func (d dom) empty() bool {
	return d.k == kDur && (d.hasLo && d.lo > maxDurSeconds || d.hasHi && d.hi < -maxDurSeconds)
}

// ---------------------------------------------------------------------------
// values at the edge of a kind's range

func kindLimits(k kind) (lo, hi *big.Int) {
	bits, unsigned := 0, false
	switch k {
	case kInt:
		bits = strconv.IntSize
	case kInt64:
		bits = 64
	case kInt32:
		bits = 32
	case kInt8:
		bits = 8
	case kUint:
		bits, unsigned = strconv.IntSize, true
	case kUint64:
		bits, unsigned = 64, true
	case kUint32:
		bits, unsigned = 32, true
	case kUint8:
		bits, unsigned = 8, true
	default:
		return nil, nil
	}
	one := big.NewInt(1)
	if unsigned {
		return big.NewInt(0), new(big.Int).Sub(new(big.Int).Lsh(one, uint(bits)), one)
	}
	h := new(big.Int).Lsh(one, uint(bits-1))
	return new(big.Int).Neg(h), new(big.Int).Sub(h, one)
}

// typed turns an integer into the value representation of the plans: int64
// where it fits, uint64 above.
func typed(x *big.Int) interface{} {
	if x.IsInt64() {
		return x.Int64()
	}
	return x.Uint64()
}

func bigOf(v interface{}) *big.Int {
	switch x := v.(type) {
	case int64:
		return big.NewInt(x)
	case uint64:
		return new(big.Int).SetUint64(x)
	}
	return nil
}

// edgeValues lists values at and next to the limits of the kind's range (and
// the places where a narrower or differently signed representation ends).
func edgeValues(k kind) []interface{} {
	var out []interface{}
	if lo, hi := kindLimits(k); lo != nil {
		seen := map[string]bool{}
		add := func(x *big.Int) {
			if x.Cmp(lo) < 0 || x.Cmp(hi) > 0 || seen[x.String()] {
				return
			}
			seen[x.String()] = true
			out = append(out, typed(x))
		}
		one := big.NewInt(1)
		add(lo)
		add(new(big.Int).Add(lo, one))
		add(hi)
		add(new(big.Int).Sub(hi, one))
		for _, sh := range []uint{7, 8, 31, 32, 53, 63} {
			p := new(big.Int).Lsh(one, sh)
			add(p)
			add(new(big.Int).Add(p, one))
			add(new(big.Int).Sub(p, one))
			add(new(big.Int).Neg(p))
			add(new(big.Int).Sub(new(big.Int).Neg(p), one))
		}
		return out
	}
	switch k {
	case kFloat, kDefNaN:
		return []interface{}{1e18, -1e18, 1e300, -1e300, 9007199254740992.0, 1e-300,
			math.NaN(), math.NaN(), math.Inf(1), math.Inf(-1), math.Copysign(0, -1), 5e-324, -5e-324, 2.2250738585072014e-308}
	case kFloat32:
		return []interface{}{1e30, -1e30, 16777217.0,
			math.NaN(), math.NaN(), math.Inf(1), math.Inf(-1), math.Copysign(0, -1),
			float64(math.SmallestNonzeroFloat32), -float64(math.SmallestNonzeroFloat32)}
	case kDur:
		return []interface{}{2562047 * time.Hour, -2562047 * time.Hour, 1000 * time.Hour, -1000 * time.Hour}
	}
	return nil
}

// isEdgeValue: the value lies outside the range ordinary plans draw from.
func isEdgeValue(v interface{}) bool {
	switch x := v.(type) {
	case uint64:
		return true
	case int64:
		return x > 100000 || x < -100000
	case float64:
		return floatClass(x) != "" || math.Abs(x) > 100000 || x != 0 && math.Abs(x) < 0.25
	case time.Duration:
		return x > 100*time.Hour || x < -100*time.Hour
	}
	return false
}

// floatClass names the special float values: NaN, the infinities, negative
// zero and subnormal numbers ("" for every other value).
func floatClass(v interface{}) string {
	x, ok := v.(float64)
	switch {
	case !ok:
		return ""
	case math.IsNaN(x):
		return "NaN"
	case math.IsInf(x, 1):
		return "+Inf"
	case math.IsInf(x, -1):
		return "-Inf"
	case x == 0 && math.Signbit(x):
		return "negative-zero"
	case x != 0 && math.Abs(x) < 2.2250738585072014e-308, x != 0 && math.Abs(x) <= float64(math.SmallestNonzeroFloat32):
		return "subnormal"
	}
	return ""
}

// exactOK: the value satisfies every validator of the domain (integers are
// compared exactly, everything else lies far from its bounds).
func (d dom) exactOK(v interface{}) bool {
	for _, t := range d.tags {
		if !tagHolds(d.k, v, t) {
			return false
		}
	}
	return true
}

func tagHolds(k kind, v interface{}, t vtag) bool {
	if x := bigOf(v); x != nil {
		switch t.name {
		case "required", "nonzero":
			return x.Sign() != 0
		case "positive":
			return x.Sign() >= 0
		case "min", "max":
			if b, ok := new(big.Int).SetString(t.param, 10); ok {
				if t.name == "min" {
					return x.Cmp(b) >= 0
				}
				return x.Cmp(b) <= 0
			}
		}
	}
	return tagOnly(k, t).okValue(v)
}

// candidates: the values an edge domain draws from.
func (d dom) candidates() []interface{} {
	out := edgeValues(d.k)
	lo, hi := kindLimits(d.k)
	if lo == nil {
		return out
	}
	add := func(x *big.Int) {
		if x.Cmp(lo) >= 0 && x.Cmp(hi) <= 0 {
			out = append(out, typed(x))
		}
	}
	for _, t := range d.tags {
		if b, ok := new(big.Int).SetString(t.param, 10); ok && (t.name == "min" || t.name == "max") {
			for _, delta := range []int64{-2, -1, 0, 1, 2} {
				add(new(big.Int).Add(b, big.NewInt(delta)))
			}
		}
	}
	for _, x := range []int64{-40, -3, 0, 1, 7, 40, 1000} {
		add(big.NewInt(x))
	}
	return out
}

// pickFrom draws one of the values keep accepts.
func pickFrom(r *rand.Rand, vals []interface{}, keep func(interface{}) bool) (interface{}, bool) {
	var ok []interface{}
	for _, v := range vals {
		if keep(v) {
			ok = append(ok, v)
		}
	}
	if len(ok) == 0 {
		return nil, false
	}
	return ok[r.Intn(len(ok))], true
}

func (d dom) ok(x float64) bool {
	if math.IsNaN(x) && (d.hasLo || d.hasHi) {
		return false // NaN is neither >= nor <= anything
	}
	if d.hasLo && x < d.lo || d.hasHi && x > d.hi {
		return false
	}
	return !(d.nz && x == 0)
}

func canon(k kind, x float64) interface{} {
	switch k.base() {
	case kFloat:
		return x
	case kDur:
		return time.Duration(math.Round(x * float64(time.Second)))
	case kString:
		return ""
	}
	return int64(x)
}

var goodStrings = []string{"x", "abc", "web-1", "some value", "ü", "0", "false"}

// valid draws a value that clearly satisfies the domain: an interior value, or
// (one in four) an exact bound, which the documentation declares inclusive.
func (d dom) valid(r *rand.Rand) interface{} {
	if d.k.base() == kString {
		if !d.nz && r.Intn(6) == 0 {
			return ""
		}
		return goodStrings[r.Intn(len(goodStrings))]
	}
	if d.empty() {
		return canon(d.k, 0) // no valid value exists; callers do not ask (the model would reject the plan)
	}
	if d.edge {
		if v, ok := pickFrom(r, d.candidates(), d.exactOK); ok {
			return v
		}
		return int64(1) // (never happens for the bounds drawn; the model would reject the plan)
	}
	// one value in eight lies at the edge of the kind's range
	if r.Intn(8) == 0 {
		if v, ok := pickFrom(r, edgeValues(d.k), func(v interface{}) bool { return d.okValue(v) }); ok {
			return v
		}
	}
	if len(d.bounds) > 0 && r.Intn(4) == 0 {
		if b := d.bounds[r.Intn(len(d.bounds))]; d.ok(b) {
			return canon(d.k, b)
		}
	}
	lo, hi := d.lo, d.hi
	if d.k == kDur {
		// bounds beyond the range of a duration restrict nothing
		if d.hasLo && lo < -maxDurSeconds {
			d.hasLo = false
		}
		if d.hasHi && hi > maxDurSeconds {
			d.hasHi = false
		}
	}
	if !d.hasLo {
		lo = -30
		if d.hasHi && hi-40 < lo {
			lo = hi - 40
		}
	}
	if !d.hasHi {
		hi = lo + 70
	}
	if d.k.base() == kPort && r.Intn(2) == 0 {
		for _, p := range []float64{80, 443, 8080, 9200, 65535, 1} {
			if d.ok(p) && r.Intn(3) == 0 {
				return canon(d.k, p)
			}
		}
	}
	if hi-lo > 200 {
		hi = lo + 200
	}
	if math.Floor(hi) < math.Ceil(lo) {
		return canon(d.k, d.hi) // contradictory bounds (never drawn); the model rejects the plan
	}
	for try := 0; try < 40; try++ {
		x := math.Ceil(lo) + float64(r.Intn(int(math.Floor(hi)-math.Ceil(lo))+1))
		if (d.k.base() == kFloat || d.k == kDur) && r.Intn(2) == 0 && x+0.5 <= hi {
			x += 0.5
		}
		if d.ok(x) {
			return canon(d.k, x)
		}
	}
	return canon(d.k, d.hi)
}

// elemValue: values of collection elements are small, positive and non-zero.
func elemValue(r *rand.Rand, k kind) interface{} {
	switch k.base() {
	case kString:
		return goodStrings[r.Intn(len(goodStrings)-2)]
	case kPort:
		return int64([]int{80, 443, 8080, 1, 65535}[r.Intn(5)])
	case kFloat:
		return float64(1+r.Intn(9)) + 0.5*float64(r.Intn(2))
	case kDur:
		return time.Duration(1+r.Intn(9)) * time.Second
	}
	return int64(1 + r.Intn(9))
}

// bad returns values that clearly break validator v and, where possible,
// nothing else.
func (d dom) bad(r *rand.Rand, v vtag) (interface{}, bool) {
	lo, hi, hasLo, hasHi := intrinsic(d.k)
	step := 1.0
	if d.k.base() == kFloat || d.k == kDur {
		step = 0.5
	}
	// a value at the edge of the kind's range that breaks v: always for an edge
	// bound, one time in three otherwise
	if beyondParam(d.k, v) {
		if tagHolds(d.k, time.Second, v) {
			return nil, false // every duration satisfies the bound
		}
		// no duration does: any value is a fault
		return []interface{}{time.Second, -3 * time.Second, 90 * time.Minute, time.Duration(0), 2562047 * time.Hour, -2562047 * time.Hour}[r.Intn(6)], true
	}
	if (v.name == "min" || v.name == "max" || v.name == "positive") && d.k.base() == kFloat && r.Intn(5) == 0 {
		return math.NaN(), true // satisfies no comparison
	}
	if v.name == "min" || v.name == "max" || v.name == "positive" {
		edge := isEdge(v.param)
		if edge || r.Intn(3) == 0 {
			vals := edgeValues(d.k)
			if edge {
				vals = dom{k: d.k, tags: []vtag{v}}.candidates()
			}
			if x, ok := pickFrom(r, vals, func(x interface{}) bool { return !tagHolds(d.k, x, v) }); ok {
				return x, true
			}
		}
		if edge {
			return nil, false
		}
	}
	switch v.name {
	case "min":
		b := boundOf(d.k, v.param)
		x := b - step
		if b-3 >= 0 && r.Intn(2) == 0 {
			x = b - 3
		}
		if hasLo && x < lo {
			return nil, false
		}
		return canon(d.k, x), true
	case "max":
		b := boundOf(d.k, v.param)
		x := b + step
		if r.Intn(2) == 0 && !(hasHi && b+7 > hi) {
			x = b + 7
		}
		if hasHi && x > hi {
			return nil, false
		}
		return canon(d.k, x), true
	case "positive":
		if d.k.base() == kUint {
			return nil, false
		}
		if step < 1 && r.Intn(2) == 0 {
			return canon(d.k, -0.5), true
		}
		return canon(d.k, -3), true
	case "nonzero":
		return canon(d.k, 0), true
	case "Validate":
		switch d.k.base() {
		case kPort:
			return int64([]int{0, 70000, 65536}[r.Intn(3)]), true
		case kLevel, kDefLevel, kDefBad:
			return int64([]int{12, -2, 10}[r.Intn(3)]), true
		}
	}
	return nil, false
}

func initValue(k kind) interface{} {
	switch k {
	case kDefLevel:
		return int64(defLevelInit)
	case kDefBad:
		return int64(defBadInit)
	case kDefNaN:
		return math.NaN()
	}
	return nil
}

func asFloat(v interface{}) float64 {
	switch x := v.(type) {
	case int64:
		return float64(x)
	case uint64:
		return float64(x)
	case float64:
		return x
	case time.Duration:
		return float64(x) / float64(time.Second)
	}
	return 0
}

func (d dom) okValue(v interface{}) bool {
	if s, ok := v.(string); ok {
		return !(d.nz && s == "")
	}
	return d.ok(asFloat(v))
}

// ---------------------------------------------------------------------------
// plan generator

type pgen struct {
	r          *rand.Rand
	force      bool // every position that can come from the configuration does
	useVars    bool
	infeasible bool
}

func childPath(path, name string) string {
	if path == "" {
		return name
	}
	return path + "." + name
}

func (g *pgen) node(t *tnode, f *tfield, parent *pnode, path, shape string, ctx pctx, init interface{}) *pnode {
	n := &pnode{t: t, f: f, parent: parent, path: path, rpath: path, shape: shape, mode: parent.mode}
	if f != nil {
		if !f.inline {
			n.seg, n.rseg = f.cfg, f.cfg
		}
		if f.mode != "" {
			n.mode = f.mode
		}
	}
	switch {
	case t.k.scalar(), t.k == kPtr && t.elem.k.scalar():
		g.leaf(n, ctx, init)
	case t.k == kStruct:
		n.inCfg = ctx.canCfg && (g.force || t.needsCfg() || g.r.Intn(4) > 0)
		if f != nil && f.inline {
			n.inCfg = ctx.canCfg
		}
		n.inPre = ctx.canPre
		n.sshape = "nested-struct"
		if f != nil && f.inline {
			n.sshape = "inline"
		}
		g.structKids(n, pctx{n.inCfg, n.inPre, ctx.visited})
	case t.k == kPtr: // pointer to struct
		n.sshape = "pointer-to-struct"
		g.ptrStruct(n, ctx, f != nil && f.has("required"))
	case t.k == kIface:
		g.iface(n, ctx)
	case t.k == kSlice:
		g.slice(n, ctx)
	case t.k == kArray:
		g.array(n, ctx)
	case t.k == kMap:
		g.mapNode(n, ctx)
	}
	return n
}

// ptrStruct decides how a pointer to struct (field, element shape set by the
// caller) is filled.
func (g *pgen) ptrStruct(n *pnode, ctx pctx, required bool) {
	r := g.r
	needCfg := n.t.needsCfg() || required
	var opts []string
	if ctx.canCfg {
		opts = append(opts, "cfg", "cfg")
		if ctx.canPre {
			opts = append(opts, "both", "both")
		}
	}
	if ctx.canPre && !needCfg {
		opts = append(opts, "pre", "pre")
	}
	if !needCfg && !g.force {
		opts = append(opts, "nil")
	}
	if len(opts) == 0 {
		if needCfg {
			g.infeasible = true
		}
		return
	}
	o := opts[r.Intn(len(opts))]
	if g.force && ctx.canCfg && o == "pre" {
		o = "both"
	}
	switch o {
	case "cfg":
		n.inCfg = true
	case "pre":
		n.inPre = true
	case "both":
		n.inCfg, n.inPre = true, true
	case "nil":
		return
	}
	g.structKids(n, pctx{n.inCfg, n.inPre, n.inCfg})
}

// structKids fills the fields of a struct-like node.
func (g *pgen) structKids(n *pnode, ctx pctx) {
	s := n.t.st()
	hasLibInit := s.lib != "" && hasInit(s.rt)
	for _, f := range s.fields {
		path := n.path
		if !f.inline {
			path = childPath(n.path, f.cfg)
		}
		shape := n.sshape
		switch {
		case f.t.k == kPtr && f.t.elem.k.scalar() && f.t.pp:
			shape = "double-pointer-field"
		case f.t.k == kPtr && f.t.elem.k.scalar():
			shape = "pointer-field"
		case f.t.k == kIface && f.t.prt != nil:
			shape = "pointer-to-interface"
		case f.t.prt != nil:
			shape = "pointer-to-collection"
		case f.t.k == kMap && f.inline:
			shape = "inline-map"
		case f.t.k == kIface:
			shape = "interface-field"
		}
		var init interface{}
		if ctx.visited {
			if hasLibInit {
				init = libInit(s.lib, f.goName)
			} else if f.t.k.scalar() {
				init = initValue(f.t.k)
			}
		}
		if n.fromInit {
			// the entry exists before the configuration is merged into it
			if field, v := mapInit(n.parent.t.lib); field == f.goName {
				init = v
			}
		}
		n.kids = append(n.kids, g.node(f.t, f, n, path, shape, ctx, init))
	}
	g.fixLib(n, s)
	if s.lib == "Node" && n.inPre && g.r.Intn(3) == 0 {
		n.cycle = 1 + g.r.Intn(3)
	}
}

func libInit(lib, field string) interface{} {
	switch lib + "." + field {
	case "WithDefaults.N":
		return int64(7)
	case "WithBadDefaults.N":
		return int64(1)
	case "WithDefaults.S", "WithBadDefaults.S":
		return "dflt"
	}
	return nil
}

func (n *pnode) set() bool { return n.inCfg || n.inPre }

func (n *pnode) clear() { n.inCfg, n.inPre, n.cfgNull, n.viaVar = false, false, false, false }

// fixLib makes the cross-field conditions of Range and Pair hold.
func (g *pgen) fixLib(n *pnode, s *tnode) {
	switch s.lib {
	case "Range", "URange":
		lo, hi := n.kids[0], n.kids[1]
		lv, hv := int64(1+g.r.Intn(3)), int64(7+g.r.Intn(3))
		lo.cfgVal, lo.preVal = lv, lv
		hi.cfgVal, hi.preVal = hv, hv
		if !hi.set() {
			lo.clear()
		}
	case "Pair":
		a, b := n.kids[0], n.kids[1]
		for _, k := range n.kids {
			if s, _ := k.cfgVal.(string); s == "" {
				k.cfgVal = "x"
			}
			if s, _ := k.preVal.(string); s == "" {
				k.preVal = "y"
			}
		}
		if a.set() != b.set() {
			a.clear()
			b.clear()
		}
	}
}

func (g *pgen) leaf(n *pnode, ctx pctx, init interface{}) {
	r := g.r
	k, _ := n.leafKind()
	n.form = r.Intn(8) // low two bits: spelling; bit 2: alternative text of special floats
	if n.isElem {
		n.inCfg, n.inPre = ctx.canCfg, ctx.canPre
		v := elemValue(r, k)
		n.cfgVal, n.preVal = v, v
		if r.Intn(2) == 0 {
			n.preVal = elemValue(r, k)
		}
		n.viaVar = g.useVars && n.inCfg && r.Intn(8) == 0
		// one configured element in ten is an explicit null (the element becomes
		// the zero value): only where the zero value is valid, no InitDefaults
		// replaces it, nothing pre-filled sits at the position and the collection
		// field carries no validators (go-ucfg hands them down to the elements)
		if n.inCfg && !n.inPre && r.Intn(10) == 0 && nullElemOK(n, k) {
			n.cfgNull, n.viaVar = true, false
		}
		return
	}
	if n.f != nil && n.f.ignore {
		n.inPre, n.preVal = ctx.canPre, int64(1)
		n.inCfg, n.cfgVal = ctx.canCfg && r.Intn(3) == 0, int64(3)
		return
	}
	d := domainOf(k, n.vals())
	req := n.f != nil && n.f.has("required")
	nullable := n.t.k == kPtr || n.t.k == kIface
	var opts []string
	if ctx.canCfg && !d.empty() {
		opts = append(opts, "config", "config", "config", "config")
	}
	if ctx.canPre && !req && init == nil && !d.empty() {
		opts = append(opts, "default", "default", "default")
	}
	switch {
	case init != nil && !nullable:
		if !req && d.okValue(init) {
			opts = append(opts, "initdefaults", "initdefaults")
		}
	case nullable:
		if !req {
			opts = append(opts, "absent")
		}
	default:
		zero := canon(k, 0)
		// a zero that a `nonzero`/`required` field is left with is never generated
		if !d.nz && d.okValue(zero) {
			opts = append(opts, "absent")
		}
	}
	if len(opts) == 0 {
		g.infeasible = true
		return
	}
	o := opts[r.Intn(len(opts))]
	if g.force && ctx.canCfg && !d.empty() {
		o = "config" // (no value can be configured under a bound nothing satisfies)
	}
	switch o {
	case "config":
		n.inCfg, n.cfgVal = true, d.valid(r)
		n.viaVar = g.useVars && r.Intn(6) == 0
		if ctx.canPre && init == nil && r.Intn(6) == 0 {
			n.inPre, n.preVal = true, d.valid(r) // overwritten by the setting
		}
	case "default":
		n.inPre, n.preVal = true, d.valid(r)
	}
	if n.t.k == kIface && n.inPre && r.Intn(3) == 0 {
		n.boxed = true
	}
}

// zeroValid: the zero value of the kind passes the kind's own Validate.
func zeroValid(k kind) bool {
	lo, _, hasLo, _ := intrinsic(k)
	return !(hasLo && lo > 0)
}

func nullElemOK(n *pnode, k kind) bool {
	c := n.parent
	if c == nil || c.f == nil || len(c.f.vals) > 0 || len(c.f.alt) > 0 {
		return false
	}
	return zeroValid(k) && initValue(k) == nil
}

func (g *pgen) iface(n *pnode, ctx pctx) {
	r := g.r
	e := n.t.elem
	req := n.f != nil && n.f.has("required")
	if e.k == kPtr {
		// pointer to struct content: only a pre-filled one is merged into
		if ctx.canPre {
			needCfg := e.needsCfg()
			if !needCfg && !req && r.Intn(5) == 0 {
				return
			}
			n.sshape = n.shape
			n.inPre = true
			n.inCfg = ctx.canCfg && (needCfg || req || g.force || r.Intn(2) == 0)
			if (needCfg || req) && !n.inCfg {
				g.infeasible = true
			}
			g.structKids(n, pctx{n.inCfg, true, n.inCfg})
			return
		}
		if !req {
			return
		}
		// falls through: a required interface in a configuration-only holder gets a number
	}
	g.leaf(n, ctx, nil)
}

func (g *pgen) elemShape(k kind) string {
	switch k {
	case kSlice:
		return "slice-elem"
	case kArray:
		return "array-elem"
	}
	return "map-entry"
}

// elem creates one element / entry of a collection with fixed flags. seg is
// its index in the configuration list (or key), rseg its index in the result.
func (g *pgen) elem(coll *pnode, seg, rseg string, inCfg, inPre bool) *pnode {
	return g.elemFrom(coll, seg, rseg, inCfg, inPre, false)
}

func (g *pgen) elemFrom(coll *pnode, seg, rseg string, inCfg, inPre, fromInit bool) *pnode {
	e := coll.t.elem
	shape := g.elemShape(coll.t.k)
	n := &pnode{t: e, parent: coll, path: childPath(coll.path, seg), rpath: childPath(coll.rpath, rseg), seg: seg, rseg: rseg,
		shape: shape, isElem: true, mode: coll.mode, fromInit: fromInit}
	ctx := pctx{inCfg, inPre, inCfg}
	if e.k.scalar() {
		g.leaf(n, ctx, nil)
		return n
	}
	n.inCfg, n.inPre = inCfg, inPre
	n.sshape = shape
	g.structKids(n, ctx)
	return n
}

// sliceMode is the way Unpack combines a configured list with a pre-filled
// slice under the merge mode in force: "" (index by index), append, prepend,
// replace.
func sliceMode(mode string) string {
	switch mode {
	case "append", "prepend":
		return mode
	case "replace", "replacearr":
		return "replace"
	}
	return ""
}

// isTarget: n is the slice / map handed to Unpack itself (wrapper types): a
// configuration always exists for it, at least an empty one.
func (g *pgen) isTarget(n *pnode) bool {
	return n.parent != nil && n.parent.parent == nil && n.parent.t.topColl
}

func (g *pgen) slice(n *pnode, ctx pctx) {
	r := g.r
	req, nz := n.f.has("required"), n.f.has("nonzero")
	mode := sliceMode(n.mode)
	nCfg, nPre := 0, 0
	if ctx.canCfg {
		nCfg = r.Intn(4)
		if g.force && nCfg == 0 {
			nCfg = 1
		}
	}
	if ctx.canPre {
		nPre = r.Intn(4)
	}
	if req && nCfg == 0 {
		if !ctx.canCfg {
			g.infeasible = true
		}
		nCfg = 1
	}
	if mode == "" {
		// index by index: elements below both lengths are merged, the tail of the
		// longer side is kept
		if n.t.elem.needsCfg() && nPre > nCfg {
			nPre = nCfg
		}
		if nz && nCfg+nPre == 0 {
			if ctx.canCfg {
				nCfg = 1
			} else {
				nPre = 1
			}
		}
		n.inCfg, n.inPre = nCfg > 0, nPre > 0
		for i := 0; i < nCfg || i < nPre; i++ {
			n.kids = append(n.kids, g.elem(n, strconv.Itoa(i), strconv.Itoa(i), i < nCfg, i < nPre))
		}
		if g.isTarget(n) {
			n.inCfg = true
			return
		}
		g.emptyOrNull(n, ctx, nCfg, nPre > 0)
		return
	}
	// append / prepend / replace: the configured and the pre-filled elements
	// are separate values
	if n.t.elem.needsCfg() || mode == "replace" && n.t.elem.hasStructMap() {
		// (replace: Unpack merges the configured elements into copies of the old ones)
		nPre = 0
	}
	present := nCfg > 0 || ctx.canCfg && !req && r.Intn(2) == 0 || g.isTarget(n) // present and empty: `[]`
	survive := nPre
	if mode == "replace" && present {
		survive = 0
	}
	if nz && nCfg+survive == 0 {
		switch {
		case ctx.canCfg:
			nCfg, present = 1, true
		case n.t.elem.needsCfg():
			g.infeasible = true
		default:
			nPre = 1
		}
	}
	n.inCfg, n.inPre = present, nPre > 0
	cfgAt, preAt := 0, 0
	switch {
	case mode == "append":
		cfgAt = nPre
	case mode == "prepend":
		preAt = nCfg
	}
	pres := func() {
		for i := 0; i < nPre; i++ {
			k := g.elem(n, strconv.Itoa(preAt+i), strconv.Itoa(preAt+i), false, true)
			if mode == "replace" && present {
				k.dropped = true
				k.seg, k.rseg = "~"+strconv.Itoa(i), "~"+strconv.Itoa(i)
			}
			n.kids = append(n.kids, k)
		}
	}
	if mode == "append" {
		pres()
	}
	for j := 0; j < nCfg; j++ {
		n.kids = append(n.kids, g.elem(n, strconv.Itoa(j), strconv.Itoa(cfgAt+j), true, false))
	}
	if mode != "append" {
		pres()
	}
	if !present && ctx.canCfg && !g.force && !req && r.Intn(8) == 0 {
		n.inCfg, n.cfgNull = true, true // `x: null` (the empty list was drawn above)
	}
}

// emptyOrNull: a collection without configured elements is sometimes present
// in the configuration all the same, as an empty list / object or as null.
// Neither is used under `required`, nor where the result would be an empty
// collection under `nonzero`.
func (g *pgen) emptyOrNull(n *pnode, ctx pctx, nCfg int, hasPre bool) {
	if nCfg > 0 || !ctx.canCfg || g.force || n.f.has("required") || (n.f.has("nonzero") && !hasPre) {
		return
	}
	switch g.r.Intn(8) {
	case 0, 1:
		n.inCfg = true // `[]` or `{}`
	case 2:
		n.inCfg, n.cfgNull = true, true
	}
}

func (g *pgen) array(n *pnode, ctx pctx) {
	n.inCfg = ctx.canCfg && (g.force || !ctx.canPre || n.t.elem.needsCfg() || g.r.Intn(2) == 0)
	n.inPre = ctx.canPre
	for i := 0; i < n.t.alen; i++ {
		n.kids = append(n.kids, g.elem(n, strconv.Itoa(i), strconv.Itoa(i), n.inCfg, n.inPre))
	}
}

var mapKeys = []string{"k1", "k2", "old", "web", "db", "Main"}

func (g *pgen) mapNode(n *pnode, ctx pctx) {
	r := g.r
	e := n.t.elem
	nk := r.Intn(4)
	if nk == 0 && (n.f.has("required") || n.f.has("nonzero")) {
		nk = 1
	}
	perm := r.Perm(len(mapKeys))
	needCfg := e.needsCfg()
	for i := 0; i < nk; i++ {
		var opts []string
		if ctx.canCfg {
			opts = append(opts, "cfg", "cfg")
			if ctx.canPre && e.k != kStruct {
				opts = append(opts, "both")
			}
		}
		if ctx.canPre && !needCfg && !(i == 0 && n.f.has("required")) {
			opts = append(opts, "pre", "pre")
		}
		if len(opts) == 0 {
			g.infeasible = true
			break
		}
		o := opts[r.Intn(len(opts))]
		if o == "both" && n.mode == "replace" && !e.k.scalar() {
			// replace policy: the configured entry does not merge into the
			// pre-filled entry of the same key, which is dropped with the old map
			old := g.elem(n, mapKeys[perm[i]], mapKeys[perm[i]], false, true)
			old.key = mapKeys[perm[i]]
			n.kids = append(n.kids, old)
			o = "cfg"
		}
		k := g.elem(n, mapKeys[perm[i]], mapKeys[perm[i]], o != "pre", o != "cfg")
		k.key = mapKeys[perm[i]]
		n.kids = append(n.kids, k)
	}
	if field, iv := mapInit(n.t.lib); iv != nil && ctx.visited {
		// the entry InitDefaults inserts whenever the map's holder is unpacked
		// (also into a nil map, also when the configuration only sets other keys);
		// where the inserted value is invalid the configuration has to repair it
		var need bool
		if field == "" {
			need = !domainOf(e.k, nil).okValue(iv)
		} else {
			for _, f := range e.fields {
				if f.goName == field {
					need = !domainOf(f.t.k, f.vals).okValue(iv)
				}
			}
		}
		in := ctx.canCfg && (need || g.force || r.Intn(3) == 0)
		if need && !in {
			g.infeasible = true
		}
		k := g.elemFrom(n, initKey, initKey, in, false, true)
		k.key = initKey
		n.kids = append(n.kids, k)
	}
	nCfg := 0
	for _, k := range n.kids {
		if k.inCfg {
			nCfg++
		}
		n.inCfg = n.inCfg || k.inCfg
		n.inPre = n.inPre || k.inPre
	}
	if n.mode == "replace" && nCfg > 0 {
		// replace policy meeting a non-empty configured object: the result holds
		// the configured entries alone (and what InitDefaults inserts); entries
		// that are only pre-filled are dropped with the old map
		for _, k := range n.kids {
			if k.inPre && !k.inCfg {
				k.dropped = true
				k.seg, k.rseg = "~"+k.key, "~"+k.key
			}
		}
	}
	if g.isTarget(n) {
		n.inCfg = true
		return
	}
	if n.f != nil && n.f.inline {
		return // an inline map is present exactly when one of its keys is
	}
	g.emptyOrNull(n, ctx, nCfg, n.inPre)
	if n.t.lib != "" {
		n.cfgNull = false // (present and empty instead)
	}
}

var globalModes = []string{"append", "prepend", "replace", "replacearr"}

// genPlan draws a plan for the top-level struct.
func genPlan(r *rand.Rand, top *tnode, force bool) (*pnode, bool) {
	g := &pgen{r: r, force: force, useVars: r.Intn(5) < 3 && !top.topColl}
	n := &pnode{t: top, shape: "field", sshape: "field", inCfg: true, inPre: true}
	if r.Intn(3) == 0 {
		n.global = globalModes[r.Intn(len(globalModes))]
		n.mode = n.global
	}
	g.structKids(n, pctx{true, true, true})
	repath(n)
	return n, !g.infeasible
}

// ---------------------------------------------------------------------------
// cloning and traversal

func (n *pnode) clone(parent *pnode, m map[*pnode]*pnode) *pnode {
	c := *n
	c.parent = parent
	c.kids = make([]*pnode, len(n.kids))
	for i, k := range n.kids {
		c.kids[i] = k.clone(&c, m)
	}
	m[n] = &c
	return &c
}

// retarget copies a plan onto the twin of its type.
func retarget(n *pnode, parent *pnode, m twinMaps) *pnode {
	c := *n
	c.parent = parent
	if t, ok := m.t[n.t]; ok {
		c.t = t
	}
	if f, ok := m.f[n.f]; ok {
		c.f = f
	}
	c.kids = make([]*pnode, len(n.kids))
	for i, k := range n.kids {
		c.kids[i] = retarget(k, &c, m)
	}
	return &c
}

// repath recomputes the paths below n from the segments.
func repath(n *pnode) {
	for _, k := range n.kids {
		k.path, k.rpath = n.path, n.rpath
		if k.seg != "" {
			k.path = childPath(n.path, k.seg)
		}
		if k.rseg != "" {
			k.rpath = childPath(n.rpath, k.rseg)
		}
		repath(k)
	}
}

func (n *pnode) each(f func(*pnode)) {
	f(n)
	for _, k := range n.kids {
		k.each(f)
	}
}

// ---------------------------------------------------------------------------
// rendering: configuration

type cfgOut struct {
	vars map[string]interface{}
	nvar int
}

func encode(k kind, v interface{}, form int) interface{} {
	alt := form&4 != 0
	form &= 3
	switch x := v.(type) {
	case string:
		return x
	case float64:
		switch form {
		case 2:
			if x == math.Trunc(x) && math.Abs(x) < 1<<62 {
				return int(x)
			}
		case 3:
			if alt {
				switch floatClass(x) {
				case "NaN":
					return "nan"
				case "+Inf":
					return "inf"
				case "-Inf":
					return "-infinity"
				}
			}
			return strconv.FormatFloat(x, 'g', -1, 64)
		}
		return x
	case time.Duration:
		whole := x%time.Second == 0
		switch form {
		case 1:
			if whole {
				return int(x / time.Second)
			}
		case 2:
			return float64(x) / float64(time.Second)
		}
		return x.String()
	case int64:
		switch form {
		case 1:
			return x
		case 2:
			if x >= 0 {
				return uint64(x)
			}
		case 3:
			return strconv.FormatInt(x, 10)
		}
		if int64(int(x)) != x {
			return x
		}
		return int(x)
	case uint64: // values above MaxInt64
		if form == 3 {
			return strconv.FormatUint(x, 10)
		}
		return x
	}
	return v
}

func (o *cfgOut) leaf(n *pnode) interface{} {
	if n.cfgNull {
		return nil
	}
	k, _ := n.leafKind()
	v := encode(k, n.cfgVal, n.form)
	if n.t.k == kIface {
		// what an interface{} target receives is kept apart by Go type: plain numbers only
		v = encode(k, n.cfgVal, (n.form&3)%3)
	}
	if n.viaVar {
		if d, ok := n.cfgVal.(time.Duration); ok {
			v = d.String() // a referenced number is not read as seconds (C03's business)
		}
		if s, ok := v.(string); !ok || s != "" { // an empty string is not moved into a variable
			o.nvar++
			name := "x" + strconv.Itoa(o.nvar)
			o.vars[name] = v
			return "${v." + name + "}"
		}
	}
	return v
}

// cfg renders the configuration value of a position that is inCfg.
func (o *cfgOut) cfg(n *pnode) interface{} {
	if n.cfgNull {
		return nil
	}
	if _, ok := n.leafKind(); ok {
		return o.leaf(n)
	}
	switch {
	case n.structLike():
		d := map[string]interface{}{}
		o.fields(n, d)
		return d
	case n.t.k == kSlice || n.t.k == kArray:
		l := []interface{}{}
		for _, k := range n.kids {
			if k.inCfg {
				l = append(l, o.cfg(k))
			}
		}
		return l
	case n.t.k == kMap:
		d := map[string]interface{}{}
		for _, k := range n.kids {
			if k.inCfg {
				d[k.key] = o.cfg(k)
			}
		}
		return d
	}
	return nil
}

func (n *pnode) structLike() bool {
	switch n.t.k {
	case kStruct:
		return true
	case kPtr:
		return n.t.elem.k == kStruct
	case kIface:
		return n.structContent()
	}
	return false
}

func (o *cfgOut) fields(n *pnode, d map[string]interface{}) {
	for _, k := range n.kids {
		if !k.inCfg {
			continue
		}
		if k.f.inline && k.t.k == kMap {
			for _, e := range k.kids {
				if e.inCfg {
					d[e.key] = o.cfg(e)
				}
			}
			continue
		}
		if k.f.inline {
			o.fields(k, d)
			continue
		}
		d[k.f.cfg] = o.cfg(k)
	}
}

func renderCfg(top *pnode) map[string]interface{} {
	o := &cfgOut{vars: map[string]interface{}{}}
	d := map[string]interface{}{}
	o.fields(top, d)
	if len(o.vars) > 0 {
		d["v"] = o.vars
	}
	return d
}

// ---------------------------------------------------------------------------
// rendering: pre-filled target

func conv(v interface{}, rt reflect.Type) reflect.Value {
	if rt == tRegexp {
		s, _ := v.(string)
		return reflect.ValueOf(regexp.MustCompile(s)).Elem()
	}
	return reflect.ValueOf(v).Convert(rt)
}

// ptrTo wraps a pointer to scalar into the second pointer of a **T field.
func ptrTo(n *pnode, p reflect.Value) reflect.Value {
	if !n.t.pp {
		return p
	}
	q := reflect.New(p.Type())
	q.Elem().Set(p)
	return q
}

func (n *pnode) structType() *tnode {
	if n.t.k == kIface {
		return n.t.elem.elem
	}
	return n.t.st()
}

// pre writes the pre-filled part of position n into dst (addressable).
func pre(n *pnode, dst reflect.Value) {
	if !n.inPre {
		return
	}
	if n.t.prt != nil {
		// the field is a pointer to the collection
		p := reflect.New(n.t.rt)
		dst.Set(p)
		dst = p.Elem()
	}
	switch {
	case n.structLike():
		s := n.structType()
		sv := dst
		switch n.t.k {
		case kPtr:
			dst.Set(reflect.New(s.rt))
			sv = dst.Elem()
		case kIface:
			p := reflect.New(s.rt)
			dst.Set(p)
			sv = p.Elem()
		}
		for _, k := range n.kids {
			pre(k, sv.Field(k.f.idx))
		}
		if n.cycle > 0 {
			// Next leads into a ring of n.cycle further nodes (all valid)
			ring := make([]*Node, n.cycle)
			for i := range ring {
				ring[i] = &Node{V: 1 + i}
			}
			for i := range ring {
				ring[i].Next = ring[(i+1)%len(ring)]
			}
			sv.FieldByName("Next").Set(reflect.ValueOf(ring[0]))
		}
	case n.t.k.scalar():
		dst.Set(conv(n.preVal, n.t.rt))
	case n.t.k == kPtr:
		p := reflect.New(n.t.elem.rt)
		p.Elem().Set(conv(n.preVal, n.t.elem.rt))
		dst.Set(ptrTo(n, p))
	case n.t.k == kIface:
		switch x := n.preVal.(type) {
		case int64:
			if n.boxed {
				p := new(int)
				*p = int(x)
				dst.Set(reflect.ValueOf(p))
				break
			}
			dst.Set(reflect.ValueOf(int(x)))
		default:
			dst.Set(reflect.ValueOf(n.preVal))
		}
	case n.t.k == kSlice:
		cnt := 0
		for _, k := range n.kids {
			if k.inPre {
				cnt++
			}
		}
		s := reflect.MakeSlice(n.t.rt, cnt, cnt) // non-nil also when empty
		i := 0
		for _, k := range n.kids {
			if k.inPre {
				pre(k, s.Index(i))
				i++
			}
		}
		dst.Set(s)
	case n.t.k == kArray:
		for i, k := range n.kids {
			pre(k, dst.Index(i))
		}
	case n.t.k == kMap:
		m := reflect.MakeMap(n.t.rt)
		for _, k := range n.kids {
			if k.inPre {
				e := reflect.New(n.t.elem.rt).Elem()
				pre(k, e)
				m.SetMapIndex(reflect.ValueOf(k.key).Convert(n.t.keyType()), e)
			}
		}
		dst.Set(m)
	}
}

func renderPre(top *pnode) reflect.Value {
	p := reflect.New(top.t.rt)
	pre(top, p.Elem())
	return p
}

// ---------------------------------------------------------------------------
// the model of Unpack for the generated shapes: which value each position
// ends up with. It is used only to make sure that a base plan holds no fault
// and a fault variant exactly one, before go-ucfg is asked.

func callInit(v reflect.Value) {
	if !v.CanAddr() {
		return
	}
	if in, ok := v.Addr().Interface().(initializer); ok {
		in.InitDefaults()
	}
}

func ifaceValue(n *pnode) reflect.Value {
	switch x := n.cfgVal.(type) {
	case int64:
		return reflect.ValueOf(x)
	}
	return reflect.ValueOf(n.cfgVal)
}

// apply merges the configuration part of position n into dst. It is called for
// struct fields of reified structs and for elements/entries in the configuration.
func apply(n *pnode, dst reflect.Value) {
	if n.f != nil && n.f.ignore {
		return
	}
	if n.cfgNull {
		if _, leaf := n.leafKind(); leaf && n.isElem && n.t.k.scalar() {
			dst.Set(reflect.Zero(n.t.rt)) // a null element is the zero value
		}
		return
	}
	if n.t.prt != nil {
		if !n.inCfg {
			return
		}
		if dst.IsNil() {
			dst.Set(reflect.New(n.t.rt))
		}
		dst = dst.Elem()
	}
	switch {
	case n.structLike():
		s := n.structType()
		sv := dst
		switch n.t.k {
		case kPtr:
			if !n.inCfg {
				return
			}
			if dst.IsNil() {
				dst.Set(reflect.New(s.rt))
			}
			sv = dst.Elem()
		case kIface:
			if !n.inCfg {
				return
			}
			sv = dst.Elem().Elem()
		}
		callInit(sv)
		for _, k := range n.kids {
			apply(k, sv.Field(k.f.idx))
		}
	case n.t.k.scalar():
		if n.inCfg {
			dst.Set(conv(n.cfgVal, n.t.rt))
		} else if !n.isElem && hasInit(n.t.rt) {
			dst.Set(reflect.Zero(n.t.rt))
			callInit(dst)
		}
	case n.t.k == kPtr:
		if n.inCfg {
			p := reflect.New(n.t.elem.rt)
			p.Elem().Set(conv(n.cfgVal, n.t.elem.rt))
			dst.Set(ptrTo(n, p))
		}
	case n.t.k == kIface:
		if n.inCfg {
			dst.Set(ifaceValue(n))
		}
	case n.t.k == kSlice:
		if !n.inCfg {
			return
		}
		var cfgKids []*pnode
		for _, k := range n.kids {
			if k.inCfg {
				cfgKids = append(cfgKids, k)
			}
		}
		nc, no := len(cfgKids), 0
		if !dst.IsNil() {
			no = dst.Len()
		}
		var s reflect.Value
		at := 0
		switch sliceMode(n.mode) {
		case "append":
			s = reflect.MakeSlice(n.t.rt, no+nc, no+nc)
			reflect.Copy(s, dst)
			at = no
		case "prepend":
			s = reflect.MakeSlice(n.t.rt, no+nc, no+nc)
			reflect.Copy(s.Slice(nc, no+nc), dst)
		case "replace":
			s = reflect.MakeSlice(n.t.rt, nc, nc) // fresh elements, nothing of the old list survives
		default:
			l := nc
			if no > l {
				l = no
			}
			s = reflect.MakeSlice(n.t.rt, l, l)
			reflect.Copy(s, dst)
		}
		for j, k := range cfgKids {
			apply(k, s.Index(at+j))
		}
		dst.Set(s)
	case n.t.k == kArray:
		if !n.inCfg {
			return
		}
		for i, k := range n.kids {
			apply(k, dst.Index(i))
		}
	case n.t.k == kMap:
		if n.mode == "replace" && !dst.IsNil() && dst.Len() > 0 {
			// replace policy: a non-empty configured object exchanges the old map
			for _, k := range n.kids {
				if k.inCfg {
					dst.Set(reflect.MakeMap(n.t.rt))
					break
				}
			}
		}
		if _, iv := mapInit(n.t.lib); iv != nil {
			// InitDefaults of the map type runs whenever the map is unpacked
			if dst.IsNil() {
				dst.Set(reflect.MakeMap(n.t.rt))
			}
			dst.Interface().(initializer).InitDefaults()
		}
		if !n.inCfg {
			return
		}
		if dst.IsNil() {
			dst.Set(reflect.MakeMap(n.t.rt))
		}
		for _, k := range n.kids {
			if !k.inCfg {
				continue
			}
			key := reflect.ValueOf(k.key).Convert(n.t.keyType())
			e := reflect.New(n.t.elem.rt).Elem()
			if old := dst.MapIndex(key); old.IsValid() {
				e.Set(old)
			}
			apply(k, e)
			dst.SetMapIndex(key, e)
		}
	}
}

// model returns the value Unpack is expected to produce for the plan.
func model(top *pnode) reflect.Value {
	p := renderPre(top)
	apply(top, p.Elem())
	return p
}

// ---------------------------------------------------------------------------
// description for witnesses and keys

func (n *pnode) source() string {
	switch {
	case n.inCfg && n.cfgNull:
		return "config-null"
	case n.inCfg && n.viaVar:
		return "varexp"
	case n.inCfg:
		return "config"
	case n.inPre:
		return "default"
	case n.fromInit:
		return "initdefaults"
	}
	return "absent"
}

// collState describes how a slice or map position is given: merge mode,
// configuration side (absent, null, empty, set), pre-filled side.
func collState(n *pnode) string {
	nc, np := 0, 0
	for _, k := range n.kids {
		if k.inCfg {
			nc++
		}
		if k.inPre {
			np++
		}
	}
	c := "cfg-set"
	switch {
	case !n.inCfg:
		c = "cfg-absent"
	case n.cfgNull:
		c = "cfg-null"
	case nc == 0:
		c = "cfg-empty"
	case nc < np:
		c = "cfg-shorter"
	}
	p := "pre-filled"
	switch {
	case !n.inPre:
		p = "pre-nil"
	case np == 0:
		p = "pre-empty"
	}
	m := "map"
	if n.mode == "replace" {
		m = "map:replace"
	}
	if n.t.k == kSlice {
		m = "slice:" + sliceMode(n.mode)
	}
	return m + ":" + c + ":" + p
}

// sources lists position=source for every leaf and the state of every slice
// and map, for keys and witnesses.
func sources(top *pnode) string {
	var l []string
	top.each(func(n *pnode) {
		if n.parent == nil {
			return
		}
		if n.t.k == kSlice || n.t.k == kMap {
			l = append(l, n.rpath+"#"+collState(n))
		}
		if len(n.kids) == 0 {
			s := n.source()
			if n.inCfg && n.inPre {
				s += "+default"
			}
			l = append(l, n.rpath+"="+s)
		}
	})
	sort.Strings(l)
	if top.global != "" {
		l = append([]string{"global=" + top.global}, l...)
	}
	return strings.Join(l, " ")
}

func show(v interface{}) string {
	return fmt.Sprintf("%#v", v)
}
