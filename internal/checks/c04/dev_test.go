package c04

import (
	"fmt"
	"os"
	"sort"
	"strconv"
	"testing"
)

func TestDev(t *testing.T) {
	n, _ := strconv.Atoi(os.Getenv("C04_N"))
	if n == 0 {
		n = 2000
	}
	seed, _ := strconv.ParseInt(os.Getenv("C04_SEED"), 10, 64)
	if seed == 0 {
		seed = 1
	}
	sets := map[string]map[string]int{}
	evs := map[string]int64{}
	sigs := map[string]int{}
	first := map[string]string{}
	for i := 0; i < n; i++ {
		r := check{}.Run(seed, "quick", i, false)
		for k, l := range r.Sets {
			if sets[k] == nil {
				sets[k] = map[string]int{}
			}
			for _, v := range l {
				sets[k][v]++
			}
		}
		for k, v := range r.Events {
			evs[k] += v
		}
		for _, v := range r.Violations {
			sigs[v.Sig]++
			if _, ok := first[v.Sig]; !ok {
				first[v.Sig] = fmt.Sprintf("case %d: %s", i, v.Detail)
			}
		}
		for _, s := range r.Inconclusive {
			fmt.Println("INCONC", i, s)
		}
	}
	for k, s := range sets {
		var l []string
		for v, c := range s {
			l = append(l, fmt.Sprintf("%s(%d)", v, c))
		}
		sort.Strings(l)
		fmt.Println("SET", k, len(l))
		for _, v := range l {
			fmt.Println("    ", v)
		}
	}
	fmt.Println("EVENTS", evs)
	for k, c := range sigs {
		fmt.Println("SIG", c, k)
		if os.Getenv("C04_SHOW") != "" {
			fmt.Println("     ", first[k])
		}
	}
}
