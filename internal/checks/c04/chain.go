package c04

import (
	"fmt"
	"math/rand"
	"reflect"
	"strconv"
	"strings"
	"time"

	ucfg "github.com/elastic/go-ucfg"

	"verif/internal/harness"
)

// Sixth wave, second batch: pre-filled POINTER CHAINS. A field of type
// *T ... ****T (T a number, string, duration, slice, map, struct or
// interface{} holding a further chain) is pre-filled - by the caller or by
// InitDefaults - with a chain that is nil at its k-th level (k = 1..depth),
// or complete and ending in a zero / empty / valid value; its setting is
// absent, null or (fields without fault) a valid value. The documented
// validators look through pointers: `required` demands a value at the END of
// the chain, the others admit nil at any level.
//
// The expected verdict is the oracle walk (walk.go) over the target as it is
// pre-filled; nothing of the library's validators is used.

const chainRounds = 3

// CEnd: a struct at the end of a chain, with a validator of its own.
type CEnd struct {
	V int `config:"v" validate:"min=1" check:"min=1"`
}

// CInit: InitDefaults builds the chains from the pre-filled Mode (digits to
// base 8: state of S, N, L; see cInitState).
type CInit struct {
	Mode int      `config:"mode"`
	S    **string `config:"s" validate:"required" check:"nonzero"`
	N    ***int   `config:"n" validate:"nonzero" check:"required"`
	L    **[]int  `config:"l" validate:"required" check:"required"`
}

// states of a CInit field: 1..depth = nil at that level, depth+1 = complete
// with zero / empty (L: nil slice), depth+2 = complete and valid, depth+3 (L) =
// empty non-nil slice.
func (c *CInit) InitDefaults() {
	s, n, l := c.Mode%8, c.Mode/8%8, c.Mode/64%8
	c.S, c.N, c.L = nil, nil, nil
	if s >= 2 {
		var in *string
		if s >= 3 {
			str := ""
			if s >= 4 {
				str = "x"
			}
			in = &str
		}
		c.S = &in
	}
	if n >= 2 {
		var in2 *int
		if n >= 4 {
			i := 0
			if n >= 5 {
				i = 5
			}
			in2 = &i
		}
		var in1 **int
		if n >= 3 {
			in1 = &in2
		}
		c.N = &in1
	}
	if l >= 2 {
		var in *[]int
		if l >= 3 {
			var sl []int
			switch l {
			case 4:
				sl = []int{1}
			case 5:
				sl = []int{}
			}
			in = &sl
		}
		c.L = &in
	}
}

const cInitValid = 4 + 5*8 + 4*64

var tCEnd = reflect.TypeOf(CEnd{})

type cState struct {
	nilAt int    // 0: complete chain; k: nil at level k (1 = the field itself)
	end   string // complete chains: good | zero | nil-coll | bad-inner
}

func (s cState) String() string {
	if s.nilAt > 0 {
		return "nil@" + strconv.Itoa(s.nilAt)
	}
	return s.end
}

type cField struct {
	goName, cfg string
	pointee     string // int int64 uint8 float64 string duration slice map struct iface
	depth       int    // pointer levels of the field type
	inner       int    // iface: pointer levels of the value the interface holds
	innerStr    bool   // iface: chain to string instead of int
	vals        [2]string
	rt          reflect.Type
	base        cState
	setting     string // absent | null | value
}

func (f *cField) endType() reflect.Type {
	switch f.pointee {
	case "int":
		return reflect.TypeOf(int(0))
	case "int64":
		return reflect.TypeOf(int64(0))
	case "uint8":
		return reflect.TypeOf(uint8(0))
	case "float64":
		return reflect.TypeOf(float64(0))
	case "string":
		return reflect.TypeOf("")
	case "duration":
		return tDuration
	case "slice":
		return reflect.TypeOf([]int(nil))
	case "map":
		return reflect.TypeOf(map[string]int(nil))
	case "struct":
		return tCEnd
	}
	return tIface
}

func (f *cField) innerType() reflect.Type {
	t := reflect.TypeOf(int(0))
	if f.innerStr {
		t = reflect.TypeOf("")
	}
	for i := 0; i < f.inner; i++ {
		t = reflect.PtrTo(t)
	}
	return t
}

// levels: number of places of the chain that can be nil.
func (f *cField) levels() int {
	if f.pointee == "iface" {
		return f.depth + 1 + f.inner
	}
	return f.depth
}

func (f *cField) build(st cState) reflect.Value {
	return f.buildAt(f.rt, 1, st)
}

func (f *cField) buildAt(t reflect.Type, level int, st cState) reflect.Value {
	switch t.Kind() {
	case reflect.Ptr:
		if st.nilAt == level {
			return reflect.Zero(t)
		}
		p := reflect.New(t.Elem())
		p.Elem().Set(f.buildAt(t.Elem(), level+1, st))
		return p
	case reflect.Interface:
		v := reflect.New(t).Elem()
		if st.nilAt == level {
			return v
		}
		v.Set(f.buildAt(f.innerType(), level+1, st))
		return v
	}
	v := reflect.New(t).Elem()
	good := st.end == "good"
	switch t.Kind() {
	case reflect.Int, reflect.Int64:
		if good {
			v.SetInt(5)
			if t == tDuration {
				v.SetInt(int64(5 * time.Second))
			}
		}
	case reflect.Uint8:
		if good {
			v.SetUint(5)
		}
	case reflect.Float64:
		if good {
			v.SetFloat(5)
		}
	case reflect.String:
		if good {
			v.SetString("x")
		}
	case reflect.Slice:
		switch st.end {
		case "good":
			v.Set(reflect.ValueOf([]int{1, 2}))
		case "zero":
			v.Set(reflect.ValueOf([]int{}))
		}
	case reflect.Map:
		switch st.end {
		case "good":
			v.Set(reflect.ValueOf(map[string]int{"a": 1}))
		case "zero":
			v.Set(reflect.ValueOf(map[string]int{}))
		}
	case reflect.Struct:
		if good {
			v.Set(reflect.ValueOf(CEnd{V: 5}))
		}
	}
	return v
}

func (f *cField) states() []cState {
	var out []cState
	for k := 1; k <= f.levels(); k++ {
		out = append(out, cState{nilAt: k})
	}
	out = append(out, cState{end: "good"})
	switch f.pointee {
	case "slice", "map":
		out = append(out, cState{end: "zero"}, cState{end: "nil-coll"})
	case "struct":
		out = append(out, cState{end: "bad-inner"})
	default:
		out = append(out, cState{end: "zero"})
	}
	return out
}

func tagIdx(tag string) int {
	if tag == altTag {
		return 1
	}
	return 0
}

// findings of one field value under the tag in force (oracle of walk.go).
func (f *cField) findings(v reflect.Value, tag, path string) []finding {
	var out []finding
	for _, t := range parseValidate(f.vals[tagIdx(tag)]) {
		if why := violates(v, t); why != "" {
			out = append(out, finding{path, t.name, "pointer-chain", why})
		}
	}
	walkValue(v, path, "pointer-chain", tag, &out)
	return out
}

func (f *cField) cfgValue() interface{} {
	switch f.pointee {
	case "int", "int64", "uint8":
		return 7
	case "float64":
		return 2.5
	case "string":
		return "y"
	case "duration":
		return "3s"
	case "slice":
		return []interface{}{4, 5, 6}
	case "map":
		return map[string]interface{}{"b": 2}
	case "struct":
		return map[string]interface{}{"v": 6}
	}
	return nil
}

func (f *cField) structField() reflect.StructField {
	tag := fmt.Sprintf(`config:"%s"`, f.cfg)
	if f.vals[0] != "" {
		tag += fmt.Sprintf(` validate:"%s"`, f.vals[0])
	}
	if f.vals[1] != "" {
		tag += fmt.Sprintf(` %s:"%s"`, altTag, f.vals[1])
	}
	return reflect.StructField{Name: f.goName, Type: f.rt, Tag: reflect.StructTag(tag)}
}

func genChainField(r *rand.Rand, i int) *cField {
	f := &cField{goName: "F" + strconv.Itoa(i), cfg: "f" + strconv.Itoa(i)}
	pointees := []string{"int", "int64", "uint8", "float64", "string", "string", "duration", "slice", "map", "struct", "struct", "iface"}
	f.pointee = pointees[r.Intn(len(pointees))]
	f.depth = 1 + r.Intn(4)
	if r.Intn(3) > 0 && f.depth < 2 {
		f.depth = 2
	}
	if f.pointee == "iface" {
		f.depth = r.Intn(3)
		f.inner = r.Intn(3)
		f.innerStr = r.Intn(2) == 0
		if f.depth+f.inner == 0 {
			f.inner = 2
		}
	}
	f.rt = f.endType()
	for k := 0; k < f.depth; k++ {
		f.rt = reflect.PtrTo(f.rt)
	}
	var others []string
	switch f.pointee {
	case "int", "int64", "uint8", "float64", "duration":
		others = []string{"positive", "min=1", "max=9", "min=1,max=9", "positive,required", "required,max=9"}
	case "string", "slice", "map":
		others = []string{"required,nonzero", "nonzero,required"}
	}
	for t := 0; t < 2; t++ {
		switch x := r.Intn(10); {
		case x < 6:
			f.vals[t] = "required"
		case x < 8 && f.pointee != "struct":
			f.vals[t] = "nonzero"
		case x < 9 && len(others) > 0:
			f.vals[t] = others[r.Intn(len(others))]
		}
	}
	return f
}

// endClass classifies where the chain held by v ends (for signatures).
func endClass(v reflect.Value) string {
	ptrs, inIface := 0, false
	for {
		switch v.Kind() {
		case reflect.Ptr:
			if v.IsNil() {
				switch {
				case inIface:
					return "typed-nil-pointer-in-interface"
				case ptrs == 0:
					return "nil-pointer-field"
				}
				return "nil-pointer-below-non-nil-pointer"
			}
			ptrs++
			v = v.Elem()
			continue
		case reflect.Interface:
			if v.IsNil() {
				if ptrs == 0 {
					return "nil-interface-field"
				}
				return "nil-interface-below-pointer"
			}
			inIface = true
			v = v.Elem()
			continue
		case reflect.Struct:
			return "struct-at-end-of-chain-of-" + strconv.Itoa(ptrs)
		}
		if ptrs >= 2 {
			return "zero-or-empty-below-several-pointers"
		}
		return "zero-or-empty-below-one-pointer"
	}
}

func chainProbe(res *harness.R, seed int64, idx, round int, verbose bool) {
	r := rand.New(rand.NewSource(harness.Mix(seed, "C04chain", idx*8+round)))
	vopt := ""
	switch r.Intn(6) {
	case 0, 1:
		vopt = altTag
	case 2:
		vopt = "validate"
	}
	inForce := "validate"
	if vopt == altTag {
		inForce = altTag
	}
	opts := append([]ucfg.Option{}, unpackOpts...)
	if vopt != "" {
		opts = append(opts, ucfg.ValidatorTag(vopt))
	}
	res.Ev("chain_probes", 1)

	// the type
	nf := 2 + r.Intn(3)
	fields := make([]*cField, nf)
	var sfs []reflect.StructField
	for i := range fields {
		fields[i] = genChainField(r, i)
		sfs = append(sfs, fields[i].structField())
	}
	holder := []string{"top", "top", "nested", "pointer", "double-pointer", "slice", "inline", "pointer-slice"}[r.Intn(8)]
	initField := reflect.StructField{Name: "Init", Type: reflect.TypeOf(CInit{}), Tag: `config:"init"`}
	var tt reflect.Type
	st := reflect.StructOf(sfs)
	prefix := ""
	elems := 1
	switch holder {
	case "top":
		tt = reflect.StructOf(append(append([]reflect.StructField{}, sfs...), initField))
	case "nested":
		tt = reflect.StructOf([]reflect.StructField{{Name: "Sub", Type: st, Tag: `config:"sub"`}, initField})
		prefix = "sub."
	case "pointer":
		tt = reflect.StructOf([]reflect.StructField{{Name: "Sub", Type: reflect.PtrTo(st), Tag: `config:"sub"`}, initField})
		prefix = "sub."
	case "double-pointer":
		tt = reflect.StructOf([]reflect.StructField{{Name: "Sub", Type: reflect.PtrTo(reflect.PtrTo(st)), Tag: `config:"sub"`}, initField})
		prefix = "sub."
	case "inline":
		tt = reflect.StructOf([]reflect.StructField{{Name: "Sub", Type: st, Tag: `config:",inline"`}, initField})
	case "slice":
		tt = reflect.StructOf([]reflect.StructField{{Name: "Sub", Type: reflect.SliceOf(st), Tag: `config:"sub"`}, initField})
		elems = 1 + r.Intn(2)
	case "pointer-slice":
		tt = reflect.StructOf([]reflect.StructField{{Name: "Sub", Type: reflect.SliceOf(reflect.PtrTo(st)), Tag: `config:"sub"`}, initField})
		elems = 1 + r.Intn(2)
	}
	isSlice := holder == "slice" || holder == "pointer-slice"
	res.SetAdd("chain_holder", holder)

	// base states (valid under the tag in force) and settings
	type cand struct {
		f  *cField
		st cState
	}
	var faults []cand
	for _, f := range fields {
		var valid []cState
		for _, s := range f.states() {
			if len(f.findings(f.build(s), inForce, f.cfg)) == 0 {
				valid = append(valid, s)
			} else {
				faults = append(faults, cand{f, s})
			}
		}
		f.base = valid[r.Intn(len(valid))] // "good" is always valid
		f.setting = "absent"
		required := false
		for _, t := range parseValidate(f.vals[tagIdx(inForce)]) {
			required = required || t.name == "required"
		}
		// an explicit null may keep, clear or zero the pre-filled chain: only
		// where every state of the chain is valid under the tag in force
		anyState := !required
		for _, c := range faults {
			anyState = anyState && c.f != f
		}
		switch x := r.Intn(10); {
		case x < 2 && anyState:
			f.setting = "null"
		case x < 4 && f.pointee != "iface":
			f.setting = "value"
		}
	}

	// the fault of the second pass
	withFault := r.Intn(5) > 0
	initFault := withFault && r.Intn(6) == 0
	var fault *cand
	faultElem := 0
	faultSetting := "absent"
	initMode := cInitValid
	if initFault {
		digit := r.Intn(3)
		state := 1 + r.Intn(5)
		m := []int{4, 5, 4}
		m[digit] = state
		initMode = m[0] + m[1]*8 + m[2]*64
	} else if withFault && len(faults) > 0 {
		// nil levels below the first are the rare states: half of the draws
		var deep []cand
		for _, c := range faults {
			if c.st.nilAt >= 2 {
				deep = append(deep, c)
			}
		}
		pick := faults
		if len(deep) > 0 && r.Intn(2) == 0 {
			pick = deep
		}
		c := pick[r.Intn(len(pick))]
		fault = &c
		faultElem = r.Intn(elems)
		for _, fd := range c.f.findings(c.f.build(c.st), inForce, c.f.cfg) {
			if fd.validator == "required" && fd.path == c.f.cfg && r.Intn(4) == 0 && (!isSlice || faultElem == 0) {
				faultSetting = "null"
			}
		}
	}

	for pass := 0; pass < 2; pass++ {
		if pass == 1 && fault == nil && !initFault {
			break
		}
		// fill builds the holder struct value number e
		fill := func(sv reflect.Value, e int, model bool) {
			for i, f := range fields {
				s := f.base
				if pass == 1 && fault != nil && fault.f == f && e == faultElem {
					s = fault.st
				} else if model && f.setting == "value" && e == 0 {
					s = cState{end: "good"} // a valid value arrives; the exact value is not compared
				}
				sv.Field(i).Set(f.build(s))
			}
		}
		mk := func(model bool) reflect.Value {
			t := reflect.New(tt)
			tv := t.Elem()
			mode := cInitValid
			if pass == 1 {
				mode = initMode
			}
			tv.FieldByName("Init").Set(reflect.ValueOf(CInit{Mode: mode}))
			if model {
				callInit(tv.FieldByName("Init"))
			}
			switch holder {
			case "top":
				fill(tv, 0, model)
			case "nested", "inline":
				fill(tv.Field(0), 0, model)
			case "pointer":
				p := reflect.New(st)
				fill(p.Elem(), 0, model)
				tv.Field(0).Set(p)
			case "double-pointer":
				p := reflect.New(st)
				fill(p.Elem(), 0, model)
				pp := reflect.New(p.Type())
				pp.Elem().Set(p)
				tv.Field(0).Set(pp)
			case "slice":
				s := reflect.MakeSlice(reflect.SliceOf(st), elems, elems)
				for e := 0; e < elems; e++ {
					fill(s.Index(e), e, model)
				}
				tv.Field(0).Set(s)
			case "pointer-slice":
				s := reflect.MakeSlice(reflect.SliceOf(reflect.PtrTo(st)), elems, elems)
				for e := 0; e < elems; e++ {
					p := reflect.New(st)
					fill(p.Elem(), e, model)
					s.Index(e).Set(p)
				}
				tv.Field(0).Set(s)
			}
			return t
		}
		// configuration
		sub := map[string]interface{}{}
		nullOnFault := false
		for _, f := range fields {
			setting := f.setting
			if pass == 1 && fault != nil && fault.f == f && (faultElem == 0 || !isSlice) {
				setting = faultSetting
				nullOnFault = setting == "null"
			}
			switch setting {
			case "null":
				sub[f.cfg] = nil
			case "value":
				sub[f.cfg] = f.cfgValue()
			}
		}
		cfg := map[string]interface{}{"other": 1}
		switch {
		case holder == "top" || holder == "inline":
			for k, v := range sub {
				cfg[k] = v
			}
		case isSlice:
			if len(sub) > 0 || r.Intn(3) == 0 {
				cfg["sub"] = []interface{}{sub}
			}
		default:
			if len(sub) > 0 || r.Intn(3) == 0 {
				cfg["sub"] = sub
			}
		}
		if r.Intn(3) == 0 {
			cfg["init"] = map[string]interface{}{}
		}

		model := mk(true)
		want := walk(model, inForce)
		target := mk(false)
		desc := fmt.Sprintf("pointer chains (chain.go); holder %s; ValidatorTag option %q; type %s; config %v; pre-filled %s", holder, vopt, tt, cfg, showChains(target))

		var err, newErr error
		panicked, pv, where := harness.Safe(func() {
			c, e := ucfg.NewFrom(cfg, unpackOpts...)
			if e != nil {
				newErr = e
				return
			}
			err = c.Unpack(target.Interface(), opts...)
		})
		res.Eval(2)
		if panicked {
			res.Violate(panicSig(where)+":pointer-chain", "Unpack panicked: %s; %s", pv, desc)
			return
		}
		if newErr != nil {
			res.Inconc("chain probe: NewFrom failed: %v", newErr)
			return
		}
		for _, f := range fields {
			res.SetAdd("chain_field", fmt.Sprintf("%s:depth%d:%s", f.pointee, f.levels(), f.setting))
		}

		// soundness: whatever was given, a nil result means a clean target
		if err == nil {
			if after := walk(target, inForce); len(after) > 0 {
				fv := fieldAt(target, after[0].path)
				cls := "unknown"
				if fv.IsValid() {
					cls = endClass(fv)
				}
				src := ""
				if strings.HasPrefix(after[0].path, "init.") {
					src = ":initdefaults"
				}
				res.Violate("accepted-invalid:pointer-chain:"+after[0].validator+":"+cls+src,
					"Unpack returned nil, the result holds %+v (%d findings; expected from the pre-fill: %d); %s", after[0], len(after), len(want), desc)
				return
			}
		}

		if len(want) == 0 {
			if pass == 1 {
				res.Ev("chain_initdefaults_states_valid_under_the_tag_in_force", 1)
			}
			res.Ev("chain_valid_runs", 1)
			if err != nil {
				sig := "valid-input-rejected:pointer-chain"
				for _, f := range fields {
					if f.setting == "value" && f.base.nilAt >= 2 && namesPath(err.Error(), prefix+f.cfg) {
						sig += ":setting-into-partly-nil-chain"
						break
					}
				}
				res.Violate(sig, "Unpack failed (%v) although every reachable value is valid; %s", err, desc)
				return
			}
			continue
		}
		if pass == 0 {
			res.Inconc("chain probe: faultless target invalid for the walk: %+v; %s", want[0], desc)
			return
		}
		// completeness
		what := "initdefaults:mode" + strconv.Itoa(initMode)
		if fault != nil {
			what = fmt.Sprintf("%s:depth%d:%s:%s", fault.f.pointee, fault.f.levels(), fault.st, faultSetting)
			if nullOnFault {
				res.Ev("chain_faults_with_null_setting", 1)
			}
			switch {
			case fault.st.nilAt >= 2:
				res.Ev("chain_faults_nil_below_a_non_nil_pointer", 1)
				res.SetAdd("chain_nil_level_of_depth", fmt.Sprintf("%d/%d", fault.st.nilAt, fault.f.levels()))
			case fault.st.nilAt == 1:
				res.Ev("chain_faults_nil_field", 1)
			default:
				res.Ev("chain_faults_at_the_end_of_a_complete_chain", 1)
			}
		} else {
			res.Ev("chain_faults_from_initdefaults", 1)
		}
		res.Ev("chain_fault_runs", 1)
		res.Key("chain:" + hashKey(desc))
		res.SetAdd("chain_fault", want[0].validator+":"+holder+":"+what)
		if err == nil {
			// (the soundness test above has reported it unless the library repaired the value)
			res.Violate("accepted-invalid:pointer-chain:"+want[0].validator+":pre-fill-replaced",
				"Unpack returned nil and a clean target although the pre-filled value was invalid (%+v) and had no setting; %s", want[0], desc)
			return
		}
		named := false
		for _, f := range want {
			segs := strings.Split(f.path, ".")
			for i := len(segs); i > 0 && !named; i-- {
				named = namesPath(err.Error(), strings.Join(segs[:i], "."))
			}
		}
		if !named {
			res.Violate("error-does-not-name-field:pointer-chain", "error %q names neither %s nor a setting enclosing it; %s", err, want[0].path, desc)
			return
		}
	}
}

// fieldAt returns the field value the dotted config path leads to (as far as
// it leads to struct fields / list indices), invalid if it cannot be followed.
func fieldAt(root reflect.Value, path string) reflect.Value {
	v := root
	for _, seg := range strings.Split(path, ".") {
		for v.Kind() == reflect.Ptr || v.Kind() == reflect.Interface {
			if v.IsNil() {
				return reflect.Value{}
			}
			v = v.Elem()
		}
		switch v.Kind() {
		case reflect.Struct:
			next := reflect.Value{}
			t := v.Type()
			for i := 0; i < t.NumField() && !next.IsValid(); i++ {
				name, inline, _ := parseConfigTag(t.Field(i))
				if inline {
					if sub := fieldAt(v.Field(i), seg); sub.IsValid() {
						next = sub
					}
				} else if name == seg {
					next = v.Field(i)
				}
			}
			if !next.IsValid() {
				return next
			}
			v = next
		case reflect.Slice, reflect.Array:
			i, err := strconv.Atoi(seg)
			if err != nil || i < 0 || i >= v.Len() {
				return reflect.Value{}
			}
			v = v.Index(i)
		default:
			return reflect.Value{}
		}
	}
	return v
}

// showChains renders a target with its pointer levels spelled out.
func showChains(v reflect.Value) string {
	var b strings.Builder
	var show func(v reflect.Value)
	show = func(v reflect.Value) {
		switch v.Kind() {
		case reflect.Ptr:
			if v.IsNil() {
				b.WriteString("nil")
				return
			}
			b.WriteString("&")
			show(v.Elem())
		case reflect.Interface:
			if v.IsNil() {
				b.WriteString("iface(nil)")
				return
			}
			b.WriteString("iface(" + v.Elem().Type().String() + " ")
			show(v.Elem())
			b.WriteString(")")
		case reflect.Struct:
			b.WriteString("{")
			for i := 0; i < v.NumField(); i++ {
				if i > 0 {
					b.WriteString(" ")
				}
				b.WriteString(v.Type().Field(i).Name + ":")
				show(v.Field(i))
			}
			b.WriteString("}")
		case reflect.Slice:
			if v.IsNil() {
				b.WriteString("nil-slice")
				return
			}
			b.WriteString("[")
			for i := 0; i < v.Len(); i++ {
				if i > 0 {
					b.WriteString(" ")
				}
				show(v.Index(i))
			}
			b.WriteString("]")
		case reflect.Map:
			if v.IsNil() {
				b.WriteString("nil-map")
				return
			}
			fmt.Fprintf(&b, "%v", v.Interface())
		case reflect.String:
			fmt.Fprintf(&b, "%q", v.String())
		default:
			fmt.Fprintf(&b, "%v", v.Interface())
		}
	}
	show(v)
	return b.String()
}
