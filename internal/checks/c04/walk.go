package c04

import (
	"fmt"
	"math"
	"math/big"
	"reflect"
	"regexp"
	"sort"
	"strconv"
	"strings"
	"time"
	"unicode"
	"unicode/utf8"
)

// The oracle: an independent reflection walk over a populated target. It is
// written from the documented tag semantics (doc comment of Unpack) and never
// calls into go-ucfg.
//
//	required  value present: non-nil pointer/interface, number != 0,
//	          non-empty string, non-nil non-empty slice/map, array of len > 0
//	nonzero   number/duration != 0, string/slice/map/array not empty; nil allowed
//	positive  number/duration >= 0; nil allowed
//	min=N     number >= N, duration >= N (N a duration or a number of seconds)
//	max=N     number <= N, duration <= N
//
// Validators look through pointers and interfaces. Every reachable value whose
// type (value or pointer receiver) has a Validate() method must accept.

type finding struct {
	path      string // dotted config path of the field / value
	validator string // required | nonzero | positive | min | max | Validate
	shape     string
	detail    string
}

type vtag struct {
	name  string
	param string
}

func parseValidate(tag string) []vtag {
	if strings.TrimSpace(tag) == "" {
		return nil
	}
	var out []vtag
	for _, part := range strings.Split(tag, ",") {
		kv := strings.SplitN(part, "=", 2)
		t := vtag{name: strings.TrimSpace(kv[0])}
		if len(kv) == 2 {
			t.param = strings.TrimSpace(kv[1])
		}
		out = append(out, t)
	}
	return out
}

// parseConfigTag returns the configured name and the flags of a config tag.
func parseConfigTag(f reflect.StructField) (name string, inline, ignore bool) {
	parts := strings.Split(f.Tag.Get("config"), ",")
	name = parts[0]
	for _, o := range parts[1:] {
		switch o {
		case "inline", "squash":
			inline = true
		case "ignore":
			ignore = true
		}
	}
	if name == "" {
		name = strings.ToLower(f.Name)
	}
	return
}

func exported(f reflect.StructField) bool {
	r, _ := utf8.DecodeRuneInString(f.Name)
	return f.PkgPath == "" && unicode.IsUpper(r)
}

// deref follows pointers and interfaces; isNil reports that a nil was met.
func deref(v reflect.Value) (reflect.Value, bool) {
	for v.IsValid() && (v.Kind() == reflect.Ptr || v.Kind() == reflect.Interface) {
		if v.IsNil() {
			return v, true
		}
		v = v.Elem()
	}
	if !v.IsValid() {
		return v, true
	}
	return v, false
}

func parseBound(param string, isDur bool) (float64, bool) {
	if isDur {
		if d, err := time.ParseDuration(param); err == nil {
			return float64(d), true
		}
		if f, err := strconv.ParseFloat(param, 64); err == nil {
			return f * float64(time.Second), true
		}
		return 0, false
	}
	if i, err := strconv.ParseInt(param, 0, 64); err == nil {
		return float64(i), true
	}
	if f, err := strconv.ParseFloat(param, 64); err == nil {
		return f, true
	}
	return 0, false
}

// exact returns the value of a number and of a validator parameter without
// rounding (64 bit integers and their bounds do not fit a float64).
func exact(v reflect.Value) (*big.Float, bool) {
	x := new(big.Float).SetPrec(256)
	switch v.Kind() {
	case reflect.Int, reflect.Int8, reflect.Int16, reflect.Int32, reflect.Int64:
		return x.SetInt64(v.Int()), true
	case reflect.Uint, reflect.Uint8, reflect.Uint16, reflect.Uint32, reflect.Uint64:
		return x.SetUint64(v.Uint()), true
	case reflect.Float32, reflect.Float64:
		if f := v.Float(); !math.IsNaN(f) {
			return x.SetFloat64(f), true
		}
	}
	return nil, false
}

func exactBound(param string, isDur bool) (*big.Float, bool) {
	if isDur {
		if d, err := time.ParseDuration(param); err == nil {
			return new(big.Float).SetPrec(256).SetInt64(int64(d)), true
		}
		// a number of seconds, taken exactly
		b, ok := new(big.Float).SetPrec(256).SetString(param)
		if !ok {
			f, okf := parseBound(param, true) // inf
			return new(big.Float).SetPrec(256).SetFloat64(f), okf
		}
		return b.Mul(b, new(big.Float).SetPrec(256).SetInt64(int64(time.Second))), true
	}
	b, ok := new(big.Float).SetPrec(256).SetString(param)
	return b, ok
}

// number returns the numeric value of v for tests against zero and for
// display (rounded for integers beyond 2^53).
func number(v reflect.Value) (float64, bool) {
	switch v.Kind() {
	case reflect.Int, reflect.Int8, reflect.Int16, reflect.Int32, reflect.Int64:
		return float64(v.Int()), true
	case reflect.Uint, reflect.Uint8, reflect.Uint16, reflect.Uint32, reflect.Uint64:
		return float64(v.Uint()), true
	case reflect.Float32, reflect.Float64:
		return v.Float(), true
	}
	return 0, false
}

// violates reports why the field value fv breaks the validator t ("" = holds).
func violates(fv reflect.Value, t vtag) string {
	v, isNil := deref(fv)
	switch t.name {
	case "required":
		if isNil {
			return "nil"
		}
		if n, ok := number(v); ok {
			if n == 0 {
				return "zero number"
			}
			return ""
		}
		switch v.Kind() {
		case reflect.String:
			if v.Len() == 0 {
				return "empty string"
			}
		case reflect.Slice, reflect.Map:
			if v.IsNil() || v.Len() == 0 {
				return "nil or empty " + v.Kind().String()
			}
		case reflect.Array:
			if v.Len() == 0 {
				return "empty array"
			}
		case reflect.Struct:
			if p, ok := regexpPattern(v); ok && p == "" {
				return "regular expression with empty pattern"
			}
		}
		return ""
	case "nonzero":
		if isNil {
			return ""
		}
		if n, ok := number(v); ok {
			if n == 0 {
				return "zero number"
			}
			return ""
		}
		switch v.Kind() {
		case reflect.String:
			if v.Len() == 0 {
				return "empty string"
			}
		case reflect.Slice, reflect.Map:
			if !v.IsNil() && v.Len() == 0 {
				return "empty " + v.Kind().String()
			}
		case reflect.Array:
			if v.Len() == 0 {
				return "empty array"
			}
		case reflect.Struct:
			if p, ok := regexpPattern(v); ok && p == "" {
				return "regular expression with empty pattern"
			}
		}
		return ""
	case "positive":
		if isNil {
			return ""
		}
		// "numeric value >= 0": NaN is not
		if n, ok := number(v); ok && !(n >= 0) {
			return fmt.Sprintf("%v is not >= 0", n)
		}
		return ""
	case "min", "max":
		if isNil {
			return ""
		}
		if f, isNum := number(v); isNum && math.IsNaN(f) {
			return "NaN is neither >= nor <= " + t.param
		}
		n, ok := exact(v)
		if !ok {
			return ""
		}
		isDur := v.Type() == tDuration
		b, ok := exactBound(t.param, isDur)
		if !ok {
			return ""
		}
		show := func(x *big.Float) string {
			if isDur {
				ns, _ := x.Int64()
				return time.Duration(ns).String()
			}
			return x.Text('g', 25)
		}
		if t.name == "min" && n.Cmp(b) < 0 {
			return show(n) + " < " + show(b)
		}
		if t.name == "max" && n.Cmp(b) > 0 {
			return show(n) + " > " + show(b)
		}
		return ""
	}
	return ""
}

// regexpPattern returns the pattern of a regexp.Regexp value.
func regexpPattern(v reflect.Value) (string, bool) {
	if v.Type() != tRegexp {
		return "", false
	}
	if v.CanAddr() {
		return v.Addr().Interface().(*regexp.Regexp).String(), true
	}
	p := reflect.New(tRegexp)
	p.Elem().Set(v)
	return p.Interface().(*regexp.Regexp).String(), true
}

func join(path, name string) string {
	if path == "" {
		return name
	}
	return path + "." + name
}

// callValidate calls Validate() on a non-pointer, non-interface value whose
// type, or the pointer to it, has the method.
func callValidate(v reflect.Value) error {
	t := v.Type()
	if t.PkgPath() == "" && t.Name() == "" {
		return nil // unnamed types have no methods
	}
	if t.Implements(tValidator) {
		return v.Interface().(validator).Validate()
	}
	if reflect.PtrTo(t).Implements(tValidator) {
		if v.CanAddr() {
			return v.Addr().Interface().(validator).Validate()
		}
		p := reflect.New(t)
		p.Elem().Set(v)
		return p.Interface().(validator).Validate()
	}
	return nil
}

// ptrShape: the field is a pointer to a plain value (not to a struct).
func ptrShape(t reflect.Type) bool {
	return t.Kind() == reflect.Ptr && t.Elem().Kind() != reflect.Struct
}

// walkValue visits v (held in the way `shape` says) and everything below it.
func walkValue(v reflect.Value, path, shape, tag string, out *[]finding) {
	walkSeen(v, path, shape, tag, out, map[seenRef]bool{})
}

// seenRef: a pointer already followed. The address alone does not identify a
// value: a struct and its first field, an array and its first element live at
// ONE address and are different values (of different types).
type seenRef struct {
	t reflect.Type
	p uintptr
}

// walkSeen: seen holds the pointers already followed (pre-filled values may be cyclic).
func walkSeen(v reflect.Value, path, shape, tag string, out *[]finding, seen map[seenRef]bool) {
	walkValue := func(v reflect.Value, path, shape, tag string, out *[]finding) {
		walkSeen(v, path, shape, tag, out, seen)
	}
	switch v.Kind() {
	case reflect.Ptr:
		if v.IsNil() || seen[seenRef{v.Type(), v.Pointer()}] {
			return
		}
		seen[seenRef{v.Type(), v.Pointer()}] = true
		walkValue(v.Elem(), path, shape, tag, out)
		return
	case reflect.Interface:
		if v.IsNil() {
			return
		}
		walkValue(v.Elem(), path, "interface-field", tag, out)
		return
	}
	switch v.Kind() {
	case reflect.Struct:
		t := v.Type()
		for i := 0; i < t.NumField(); i++ {
			sf := t.Field(i)
			if !exported(sf) {
				continue
			}
			name, inline, ignore := parseConfigTag(sf)
			if ignore {
				continue
			}
			fv := v.Field(i)
			fpath := join(path, name)
			if inline {
				fpath = path
			}
			fshape := shape
			switch {
			case ptrShape(sf.Type):
				fshape = "pointer-field"
			case sf.Type.Kind() == reflect.Interface:
				fshape = "interface-field"
			}
			for _, t := range parseValidate(sf.Tag.Get(tag)) {
				if why := violates(fv, t); why != "" {
					*out = append(*out, finding{fpath, t.name, fshape, fmt.Sprintf("field %s %s `%s`: %s", sf.Name, sf.Type, sf.Tag, why)})
				}
			}
			// how a struct below this field is held
			sub := shape
			switch chase(sf.Type).Kind() {
			case reflect.Struct:
				switch {
				case inline:
					sub = "inline"
				case sf.Type.Kind() == reflect.Ptr:
					sub = "pointer-to-struct"
				default:
					sub = "nested-struct"
				}
			case reflect.Slice:
				sub = "slice-elem"
			case reflect.Array:
				sub = "array-elem"
			case reflect.Map:
				sub = "map-entry"
			case reflect.Interface:
				sub = "interface-field"
			default:
				sub = fshape
			}
			walkValue(fv, fpath, sub, tag, out)
		}
	case reflect.Slice, reflect.Array:
		sh := "slice-elem"
		if v.Kind() == reflect.Array {
			sh = "array-elem"
		}
		for i := 0; i < v.Len(); i++ {
			walkValue(v.Index(i), join(path, strconv.Itoa(i)), sh, tag, out)
		}
	case reflect.Map:
		keys := v.MapKeys()
		sort.Slice(keys, func(i, j int) bool { return fmt.Sprint(keys[i]) < fmt.Sprint(keys[j]) })
		for _, k := range keys {
			if err := callValidate(k); err != nil {
				*out = append(*out, finding{join(path, fmt.Sprint(k.Interface())), "Validate", "map-key", fmt.Sprintf("key %s.Validate() = %v (key %q)", k.Type(), err, k.Interface())})
			}
			walkValue(v.MapIndex(k), join(path, fmt.Sprint(k.Interface())), "map-entry", tag, out)
		}
	}
	if err := callValidate(v); err != nil {
		*out = append(*out, finding{path, "Validate", shape, fmt.Sprintf("%s.Validate() = %v (value %+v)", v.Type(), err, v.Interface())})
	}
}

func chase(t reflect.Type) reflect.Type {
	for t.Kind() == reflect.Ptr {
		t = t.Elem()
	}
	return t
}

// walk runs the oracle over a populated top-level target (pointer to struct);
// tag is the name of the struct tag the validators in force are declared under.
func walk(target reflect.Value, tag string) []finding {
	var out []finding
	for target.Kind() == reflect.Ptr {
		if target.IsNil() {
			return nil
		}
		target = target.Elem()
	}
	walkValue(target, "", "field", tag, &out)
	return out
}
