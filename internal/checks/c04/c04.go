// Package c04: a successful Unpack returns only values that satisfy every
// declared validator.
//
// One case = one generated target type (reflect.StructOf over plain kinds and
// the hand-written leaf types of lib.go; a type is shared by typeShare
// consecutive cases) and one plan saying where every position of the value
// comes from: the configuration (directly or through ${v.x}), the pre-filled
// target, InitDefaults, or nowhere. The base plan holds no fault: Unpack must
// succeed and the independent validator walk (walk.go) over the populated
// target must be clean. Then one fault at a time is injected at every
// validator-bearing position from every source that can reach it: Unpack must
// fail and name the field.
package c04

import (
	"fmt"
	"hash/fnv"
	"math"
	"math/rand"
	"reflect"
	"sort"
	"strconv"
	"strings"
	"sync"
	"time"
	"unicode"
	"unicode/utf8"

	ucfg "github.com/elastic/go-ucfg"

	"verif/internal/harness"
)

type check struct{}

func init() { harness.Register(check{}) }

func (check) ID() string { return "C04" }

func (check) Cases(tier string) int {
	if tier == "thorough" {
		return 100000
	}
	return 2000
}

const typeShare = 4     // consecutive cases sharing one generated type
const graphRounds = 2   // pre-filled graphs (alias.go) per case
const topEvery = 6      // one type in topEvery is a top-level slice / map target
const maxVariants = 128 // fault variants executed per case

func (check) Rule() string {
	return "one case = (type, plan). Type: top-level struct of 2-6 fields, depth <= 3, fields of kind int int8 int32 int64 uint uint8 uint32 uint64 float32 float64 string time.Duration, the library leaves Port / Level / DefLevel / DefBad (Validate with value or pointer receiver, InitDefaults giving a valid or an invalid value) and the library leaves UNum / ULevel / UPort / UStr that receive their value through go-ucfg's Unpacker / IntUnpacker / UintUnpacker / StringUnpacker interface (ULevel, UPort also with Validate), DefNaN (a float64 whose InitDefaults sets NaN), pointers to those (one in six through a second pointer, **T; one pointer field in ten is a *regexp.Regexp with required / nonzero), slices / arrays / maps of those (one in four to six held behind a pointer: *[]T, *[N]T, *map[string]T, also *[]struct), structs whose only field is an inline map (with or without required / nonzero; held by value, by pointer or as element, never inline themselves), structs by value, by pointer, inline, in slices, arrays and maps (by value and by pointer), interface{} fields (holding a number, a string or a pointer to struct), ignored fields, and the library structs WithDefaults / WithBadDefaults (InitDefaults), Range / Pair (cross-field Validate, value / pointer receiver), URange (ConfigUnpacker + cross-field Validate), UTagged (ConfigUnpacker whose field carries validator tags), Node (a struct with a pointer to its own type: one pre-filled Node in three has its Next chain closed into a ring of 1-3 valid nodes, i.e. a CYCLIC pre-filled default), Hidden (unexported + ignored field); one map of scalars in five is DefPorts / DefPortsBad and one map of structs in five DefLimits / DefLimitsBad - map TYPES whose InitDefaults inserts the entry \"dflt\" (valid resp. breaking the element's Validate / min tag) whenever the map's holder is unpacked, into a nil, empty or pre-filled target, with no, an empty or a set configuration naming other keys and / or \"dflt\" itself; one map of scalars in five has the key type Key (a string with Validate); one interface{} field in three sits behind a pointer (*interface{}, holding a number, a string, a pointer to struct, half of the time a pointer to Range / Pair / URange); pre-filled numbers in interface{} fields sit behind a pointer one time in three (iface(*int)); collision-free `config` names and 0-2 validators per field among required, nonzero, positive, min=N, max=N (durations: 5s or 5) that apply to the kind (one min / max in eight of a 64 bit integer field is a bound at the edge of the kind: 2^63-1, 2^63, 2^64-2, -2^63+1, 2^63-2); every second type declares, field by field, a second independent set of validators under the struct tag `" + altTag + "` next to `validate` (WithDefaults / WithBadDefaults always do); one type per " + strconv.Itoa(typeShare) + " consecutive cases. Half of the slice fields and one in eight struct / pointer-to-struct / map-of-struct fields carry a merge option in the config tag (append, prepend, replace, merge; inherited by the fields below); one slice field in five is the library type Small ([]int with its own Validate). One type in " + strconv.Itoa(topEvery) + " is a slice or map that is ITSELF the Unpack target (Unpack(&[]T{...}) / Unpack(&map[string]T{...}), configuration a list / object, no variables). Validator tag name: Unpack is called without ValidatorTag, with ValidatorTag(validate) or with ValidatorTag(" + altTag + ") (half of the cases of a two-tag type, one in eight of the others, where then no tag validator is in force at all); values, faults and oracle follow the validators declared under the name in force. In half of the cases of a two-tag type (a quarter of the others) the same type and input are first unpacked under the OTHER tag name (a sequence of two Unpack calls with different options in one process); of that first call only panics and accepted numbers outside min / max / positive or rejected by Validate() are judged. Plan: one plan in three passes AppendValues / PrependValues / ReplaceValues / ReplaceArrValues to Unpack; every position independently takes its value from the configuration (spelled as int/int64/uint64/float/string, durations as text or seconds, 1 in 6 through ${v.xN} under PathSep(.)+VarExp), from the pre-filled target, from InitDefaults, or stays zero/nil; slices mix configured, merged and untouched pre-filled elements (index by index without merge mode; separate configured and pre-filled elements under append / prepend / replace), maps mix configured, pre-filled and merged entries (under the replace policy: configured entries, pre-filled entries that are dropped as soon as one entry is configured, and pre-filled entries of non-scalar type under the SAME key as a configured one, which are dropped instead of merged); a slice or map without configured elements is absent, null, or present as an empty list / object, over a nil or a filled pre-fill (also shorter lists than the pre-fill). One configured scalar element / entry in ten is an explicit null (only where the zero value it becomes is valid, nothing pre-filled sits at the position and the collection field has no validators). Valid values are interior or exactly on a bound (bounds are inclusive); float32 / float64 / DefNaN positions also take NaN, +-Inf, -0 and subnormal numbers wherever the validators in force admit them (NaN: only without min / max / positive; -0: not under nonzero / required), as Go float, as text (NaN nan +Inf inf -Inf -infinity -0 5e-324) or through a variable, from the configuration, as pre-filled default or from InitDefaults; one min / max / positive fault in five on a float position is NaN, one nonzero fault in two is -0; one valid number in eight and one min / max / positive fault in three takes a value at the edge of the kind's range (MinInt / MaxInt of the width, +-2^7 2^8 2^31 2^32 2^53 2^63 and their neighbours, MaxUint64, +-1e18 +-1e300 1e-300, +-1e30 for float32, +-2562047h), spelled as int64 / uint64 / float / decimal string or through a variable; values against an edge bound are drawn from the neighbours of the bound and compared exactly. Base plan: Unpack must return nil and the oracle walk must be clean. Then every (position, validator, source) fault the plan admits (<= " + strconv.Itoa(maxVariants) + " per case) is injected alone: bad value from the configuration / through a variable / as pre-filled default / by leaving the field absent / by InitDefaults / as explicit null / as a pre-filled element or entry that survives the merge while the configuration gives the collection as EMPTY list or object (default+empty-config) / a `required` or `nonzero` collection given as empty list or object over a nil, an empty non-nil or (replace) a dropped pre-fill / one element of a Small too big for its Validate / an explicit null as element or entry of a type whose Validate rejects the zero value (config-null) / a non-nil EMPTY pre-filled slice or map under required / nonzero with the setting absent (pre-empty; for pointer-to-collection fields: a pointer to an empty collection) / a pre-filled pointer (also **T, iface(*T), *interface{}) to a ZERO number, an empty string or empty regular expression under required with the setting absent or an explicit null (default, default+config-null) / zero or empty from the configuration under required / the entry of a map type's InitDefaults left unrepaired by the configuration (initdefaults at the entry or at its tagged field, the rest of the map as drawn) / a configured or pre-filled entry under a key the key type's Validate rejects (config-key, default-key) / any value of a *time.Duration under a min / max in seconds no duration reaches (min=1e10, min=inf, max=-1e10), while max=1e10, max=inf, max=9223372036.854775807, min=-1e10 restrict nothing; Unpack must fail and name the field. A fault variant is executed only if the model of Unpack for these shapes agrees that exactly this position is invalid. Non-trivial = the type has at least one validator-bearing position; distinct = distinct (type, sources of all leaves, fault). Besides, every case runs " + strconv.Itoa(graphRounds) + " pre-filled GRAPHS of hand-written recursive types (alias.go: 1-3 components embedding a base as first field that points to its owner, boxes with a named first field pointing up, 3-cell arrays whose cells point to the array, structs whose first field is a pointer to the struct; owner / up / grid / me pointers to the own value, another one or nil), held by the target as pointer to the FIRST field / element (one address, two values), to a later element, to a free-standing struct or to the enclosing value, in pointer fields, **T, slice / array elements, map entries and interface{} fields whose setting is absent, null, a shorter list, an empty object or an object naming another key, plus a struct whose InitDefaults builds such a component; first the valid graph (Unpack must return nil, result clean), then in 3 of 4 probes one place made invalid under the tag in force (tag validators and Validate(), mostly outside the first field and reached below two pointers sharing an address; one in eight anywhere, also out of reach: then nil is demanded); non-trivial = a fault run, distinct = distinct (graph, configuration, fault). And every case runs " + strconv.Itoa(chainRounds) + " pre-filled POINTER CHAINS probes (chain.go): a reflect.StructOf struct of 2-4 fields of type *T .. ****T (T int int64 uint8 float64 string time.Duration []int map[string]int, the struct CEnd with a min=1 field of its own, or interface{} behind 0-2 pointers holding a chain of 0-2 pointers to int / string), validators under `validate` and `" + altTag + "` drawn independently (required 6/10, nonzero 2/10, positive / min=1 / max=9 and pairs 1/10), held at the top, in a nested struct, behind *S / **S, inline, or as 1-2 pre-filled elements of []S / []*S, next to the struct CInit whose InitDefaults builds **string / ***int / **[]int chains from a pre-filled mode; every chain is pre-filled nil at level k (k = 1..number of levels, the interface and the pointers it holds count as levels) or complete with a valid / zero / empty / nil-collection end; base pass: every field in a state the oracle walk accepts, settings absent, a valid value (3/10 of the non-fault fields: the library completes the chain) or null (only where every state of the chain is valid): Unpack must return nil and the result must be clean; fault pass (4 of 5 probes): ONE field (half of the draws: nil at level >= 2) or one CInit chain put into a state the walk rejects, setting absent (or, under required, null one time in four): Unpack must fail naming the field or a setting enclosing it; non-trivial = a fault run, distinct = distinct (type, pre-fill, configuration)."
}

func (check) Assumptions() []string {
	return []string{
		"oracle = own reflection walk written from the doc comment of Unpack: required (non-nil, number != 0, non-empty string/slice/map), nonzero (number != 0, non-empty; nil allowed), positive (>= 0), min/max inclusive, durations compared as durations (bound 5s or a number of seconds); validators look through pointers and interfaces; ignored and unexported fields are skipped; Validate() is called on every reachable value of the library types (value or pointer receiver)",
		"a wrong outcome is classified by re-running the same input on twins of the type that go-ucfg has never unpacked (same fields, names, options, validators; one meaningless extra key in every struct tag): right on the twin = the outcome depends on earlier Unpack calls of the type (sig depends-on-earlier-unpack-of-the-type:*); right only on a twin whose two tag names both declare the validators of the name in force = sig validator-tag-option:validators-of-the-other-tag-name-applied:*; hand-written library structs cannot be rebuilt, deviations inside them keep the plain signature. The twins only choose the signature, never whether there is a violation",
		"types with an Unpack method: the property makes no exception for them - the value they end up with must satisfy the field's tag validators and their own Validate() like any other value (sig unpacker-typed-value-not-validated:* when the accepted invalid value is of such a type); every Unpack of the library leaves stores exactly the value it is given",
		"numbers at the edge of a kind are only compared against small bounds or (64 bit integers) against edge bounds with exact integer arithmetic; durations at the edge stay 47 minutes inside the int64 range; no NaN / Inf",
		"only clear cases are generated: bad values miss a bound by >= 0.5 (by >= 1 for integers), no nil-vs-empty collection under required/nonzero (collections under these tags are non-empty when valid, and the only collection fault is `required` with the field absent), no validator on a kind it does not apply to, no negative bound on unsigned, `required` is only ever satisfied from the configuration, a zero left in an absent non-pointer `nonzero` field is never generated (validator.go's own comment contradicts the Unpack documentation there), a pre-filled value that the configuration overwrites is itself valid",
		"the error must contain the dotted path of the faulty field (a.b.0.c) as a delimited token: the characters next to the occurrence are no path characters (letters, digits, _ . -); wording and quoting are not looked at. Accepted as well: the path of any setting enclosing the field (a non-empty proper prefix of its path) when the fault sits inside an element of a slice/array/map, or when the fault does not come from the configuration (pre-filled default, InitDefaults, absent): there is no configuration node to name then. A path that is neither the field nor one of its enclosing settings, or no path at all, is a violation",
		"for a cross-field Validate() of a struct the faulty 'field' is the struct value itself; for Validate() of a slice type it is the slice; a top-level slice / map target has no name of its own: an error naming no field of the type at all names it (classes: other-path = the message holds the path of another field of the type as a token, no-path otherwise)",
		"merge modes: which pre-filled elements survive is taken from the documentation of the tag options (append / prepend: all, default: the tail beyond the configured list, replace: none - the configured elements are unpacked into fresh values); the replace policy (ReplaceValues, a `replace` tag, also inherited; NOT ReplaceArrValues) applies to Go map targets as well: a pre-filled map that meets a NON-EMPTY configured object is exchanged - the result holds the configured entries alone (plus what InitDefaults of a map type inserts), a configured entry does not merge into the pre-filled entry of its key; an empty, null or absent setting leaves the pre-filled map as it is. Dropped pre-filled elements and entries are no fault positions; the error for a configured element must name its index in the configuration list, the walk looks at its index in the result",
		"avoided shapes (reported by C06/C07): pre-filled map[string]struct entries touched by the configuration, nil inline pointers, inline maps NEXT TO other fields (they receive the siblings' keys, C06's open finding; an inline map is generated only as the single field of its struct), a struct by value inside interface{} merged from the configuration",
		"audit round 4, decided from the statement: required on numbers behind pointers / interfaces, required on pointers to Unpacker numbers, Validate() behind *interface{} - inside (validators look through pointers and interfaces on every route). Duration bounds in seconds beyond the range of time.Duration - inside: min=N / max=N compare the value with N seconds as numbers, so min=1e10 is satisfied by no duration and max=1e10 by every one (text bounds that denote the largest duration only up to float64 rounding, like min=9223372036.854775807, are not generated). Cyclic pre-filled defaults - inside (all pre-filled defaults, structs nested through pointers): Unpack has to return; the ring itself holds valid values only. Map keys implementing Validate() - inside (a key of the result is a reachable value). Field tags of a struct type with an Unpack method - inside, the statement makes no exception; the error may name the struct's setting instead of the field, because which setting fills which field is the type's own business. uintptr - outside: not among the documented target kinds (bool, int*, uint8-64, float*, string, duration, regexp, Config), not generated. Error.Path() - not demanded: 'an error naming that field' is judged on the message (see the naming rule above), as C14 does",
		"fields tagged config:\",ignore\" are NOT judged: Unpack is not responsible for them, neither their validators nor the Validate() of what they hold are looked at (they are generated with values breaking their tag, which must not make Unpack fail)",
		"special floats, from the statement: NaN satisfies neither positive (not >= 0) nor any min / max; NaN and +-Inf are non-zero; -0 is zero and >= 0; subnormal numbers are ordinary small numbers. A float32 position only gets values a float32 holds",
		"null elements: an explicit null at a list position / map key makes the element the zero value; whether the tag validators of the COLLECTION field (min=1 on a []int) say anything about its elements is not stated by the property (go-ucfg hands them down to configured primitive elements) - not generated: collections only carry required / nonzero, and nulls only appear where the collection field declares nothing; the element type's own Validate() is inside (every reachable value implementing Validate() accepts)",
		"pre-filled graphs (alias.go): an address does not identify a value - a struct and its first field, an array and its first element are different values of different types at one address, each has to validate; the oracle walk keys its visited set by (pointer type, address). The configuration never gives a setting inside the graph types, so the graph Unpack leaves is the graph it was given; a value reachable through several settings may be reported under any of them",
		"required / nonzero look through pointers like every other validator: a pointer to an empty slice / map / string / regular expression is empty (an empty-pattern *regexp.Regexp counts as empty because go-ucfg itself defines emptiness of a regexp.Regexp that way for configured values); Validate() is reached through any number of pointers",
		"not demanded: which of several validators of one field is reported, error wording or type, the values Unpack stores (the model of Unpack is used only to decide whether a variant holds exactly one fault; disagreement between model and Unpack about the stored value only counts model_differs_from_unpack / fault_not_in_result)",
	}
}

var unpackOpts = []ucfg.Option{ucfg.PathSep("."), ucfg.VarExp}

// ---------------------------------------------------------------------------
// type cache (a pure function of the type seed; bounded)

var (
	typeMu    sync.Mutex
	typeCache = map[int64][2]*tnode{}
)

// typeFor returns the two readings of one generated type: [0] with the
// validators of the `validate` tag in force, [1] with those of altTag.
func typeFor(tseed int64, topColl bool) [2]*tnode {
	typeMu.Lock()
	defer typeMu.Unlock()
	if t, ok := typeCache[tseed]; ok {
		return t
	}
	if len(typeCache) > 16 {
		typeCache = map[int64][2]*tnode{}
	}
	var t *tnode
	if topColl {
		t = genTopColl(rand.New(rand.NewSource(tseed)))
	} else {
		t = genType(rand.New(rand.NewSource(tseed)))
	}
	pair := [2]*tnode{t, swapTags(t)}
	typeCache[tseed] = pair
	return pair
}

// ---------------------------------------------------------------------------
// faults

type fault struct {
	pos       *pnode // position in the base plan
	validator vtag
	source    string // config | default | absent | initdefaults | config-null | config-empty ...
	bad       interface{}
	structLvl bool // cross-field Validate of a library struct
	collLvl   bool // Validate of a library slice type: one element is made too big
	// emptyColl: the slice / map (of the base plan) holding the faulty pre-filled
	// element is in addition given as an EMPTY list / object by the configuration
	emptyColl *pnode
}

func libValidate(k kind) bool {
	return k == kPort || k == kLevel || k == kDefLevel || k == kDefBad || k == kULevel || k == kUPort
}

// crossField: library structs whose Validate compares their two fields.
func crossField(lib string) bool { return lib == "Range" || lib == "Pair" || lib == "URange" }

// holderInit: value InitDefaults of the holding library struct gives the field.
func holderInit(n *pnode) interface{} {
	if n.parent == nil || n.f == nil {
		return nil
	}
	if s := n.parent.structTypeOrNil(); s != nil && s.lib != "" && hasInit(s.rt) {
		return libInit(s.lib, n.f.goName)
	}
	if n.parent.fromInit && n.parent.parent != nil {
		// field of the entry the map's InitDefaults inserts
		if field, v := mapInit(n.parent.parent.t.lib); field == n.f.goName {
			return v
		}
	}
	return nil
}

// inInitEntry: n is (inside) the map entry InitDefaults of the map type inserts.
func inInitEntry(n *pnode) *pnode {
	for a := n; a != nil; a = a.parent {
		if a.fromInit {
			return a
		}
	}
	return nil
}

// inUnpackerStruct: n is a field of a struct type with an Unpack method.
func inUnpackerStruct(n *pnode) bool {
	if n.parent == nil || n.f == nil {
		return false
	}
	s := n.parent.structTypeOrNil()
	return s != nil && s.rt != nil && hasUnpack(s.rt)
}

func (n *pnode) structTypeOrNil() *tnode {
	if n.structLike() {
		return n.structType()
	}
	return nil
}

func enumerate(r *rand.Rand, top *pnode) []fault {
	var out []fault
	top.each(func(n *pnode) {
		if n.parent == nil || n.f != nil && n.f.ignore || underDropped(n) {
			return
		}
		if n.isElem && n.parent.t.vkey && !n.fromInit {
			// the entry under a key the key type's Validate rejects
			v := vtag{name: "Validate"}
			out = append(out, fault{pos: n, validator: v, source: "config-key"}, fault{pos: n, validator: v, source: "default-key"})
		}
		if k, ok := n.leafKind(); ok {
			vals := append([]vtag{}, n.vals()...)
			d := domainOf(k, n.vals())
			if libValidate(k) {
				vals = append(vals, vtag{name: "Validate"})
			}
			nullable := n.t.k == kPtr || n.t.k == kIface
			for _, v := range vals {
				switch v.name {
				case "required":
					out = append(out, fault{pos: n, validator: v, source: "absent"})
					if nullable {
						out = append(out, fault{pos: n, validator: v, source: "config-null"})
					}
					// zero / empty from the configuration
					out = append(out, fault{pos: n, validator: v, source: "config", bad: canon(k, 0)})
					if nullable {
						// a pre-filled pointer (interface holding a pointer) to a ZERO number,
						// an EMPTY string / pattern, the setting absent or an explicit null:
						// neither set by the configuration nor "not empty"
						out = append(out, fault{pos: n, validator: v, source: "default", bad: canon(k, 0)},
							fault{pos: n, validator: v, source: "default+config-null", bad: canon(k, 0)})
					}
				case "nonzero":
					var bad interface{} = canon(k, 0)
					if k.base() == kFloat && r.Intn(2) == 0 {
						bad = math.Copysign(0, -1)
					}
					out = append(out, fault{pos: n, validator: v, source: "config", bad: bad})
					if nullable {
						out = append(out, fault{pos: n, validator: v, source: "default", bad: bad})
					}
				default:
					if bad, ok := d.bad(r, v); ok {
						out = append(out, fault{pos: n, validator: v, source: "config", bad: bad})
						if bad2, ok := d.bad(r, v); ok {
							bad = bad2
						}
						out = append(out, fault{pos: n, validator: v, source: "default", bad: bad})
					}
					if n.isElem && v.name == "Validate" && !zeroValid(k) {
						// an explicit null as element: the element becomes the zero value
						out = append(out, fault{pos: n, validator: v, source: "config-null"})
					}
					one := tagOnly(k, v)
					breaks := func(x interface{}) bool {
						if v.name == "Validate" {
							lo, hi, _, _ := intrinsic(k)
							f := asFloat(x)
							return f < lo || f > hi
						}
						return !one.okValue(x)
					}
					if n.isElem && n.fromInit {
						// the entry InitDefaults of the map type inserts, not configured
						if _, iv := mapInit(n.parent.t.lib); iv != nil && breaks(iv) {
							out = append(out, fault{pos: n, validator: v, source: "initdefaults"})
						}
					}
					if nullable || n.isElem {
						continue
					}
					init := initValue(k)
					if init == nil {
						init = holderInit(n)
					}
					if init != nil {
						if breaks(init) {
							out = append(out, fault{pos: n, validator: v, source: "initdefaults"})
						}
					} else if breaks(canon(k, 0)) && v.name != "positive" {
						out = append(out, fault{pos: n, validator: v, source: "absent"})
					}
				}
			}
			return
		}
		if n.structLike() {
			if s := n.structType(); len(n.kids) == 2 && crossField(s.lib) {
				out = append(out, fault{pos: n, validator: vtag{name: "Validate"}, source: "config", structLvl: true},
					fault{pos: n, validator: vtag{name: "Validate"}, source: "default", structLvl: true})
			}
		}
		if n.f != nil && !n.isElem && n.f.has("required") {
			// pointer to struct, interface holding a struct, slice, map
			v := vtag{name: "required"}
			out = append(out, fault{pos: n, validator: v, source: "absent"})
			if n.t.k == kPtr || n.t.k == kIface || n.t.prt != nil {
				out = append(out, fault{pos: n, validator: v, source: "config-null"})
			}
		}
		if n.f != nil && !n.isElem && (n.t.k == kSlice || n.t.k == kMap) {
			// the field's own tag against the merged result: an empty list / object
			// from the configuration over no, an empty or (replace) a dropped pre-fill
			for _, v := range n.f.vals {
				if v.name != "required" && v.name != "nonzero" {
					continue
				}
				out = append(out, fault{pos: n, validator: v, source: "config-empty"},
					fault{pos: n, validator: v, source: "config-empty+pre-empty"},
					fault{pos: n, validator: v, source: "pre-empty"})
				if n.t.k == kSlice && sliceMode(n.mode) == "replace" {
					out = append(out, fault{pos: n, validator: v, source: "replaced-by-empty"})
				}
			}
			if n.t.lib == "Small" {
				v := vtag{name: "Validate"}
				out = append(out, fault{pos: n, validator: v, source: "config", collLvl: true, bad: int64(99)},
					fault{pos: n, validator: v, source: "default", collLvl: true, bad: int64(77)},
					fault{pos: n, validator: v, source: "default", collLvl: true, bad: int64(51), emptyColl: n})
			}
		}
	})
	// an invalid pre-filled element / entry that survives the merge, with the
	// collection present in the configuration as an empty list / object
	for _, f := range out {
		if f.source != "default" || f.emptyColl != nil || f.collLvl {
			continue
		}
		for a := f.pos; a != nil; a = a.parent {
			if !a.isElem {
				continue
			}
			c := a.parent
			if !a.inCfg && a.inPre && (c.t.k == kMap || c.t.k == kSlice && sliceMode(c.mode) != "replace") {
				g := f
				g.emptyColl = c
				out = append(out, g)
			}
			break
		}
	}
	return out
}

func underDropped(n *pnode) bool {
	for a := n; a != nil; a = a.parent {
		if a.dropped {
			return true
		}
	}
	return false
}

// stripCfg removes the configuration side below (and of) n; what only the
// configuration gave disappears.
func stripCfg(n *pnode) {
	n.inCfg, n.cfgNull, n.viaVar = false, false, false
	if _, leaf := n.leafKind(); leaf {
		return
	}
	if n.structLike() {
		if n.t.k != kStruct && !n.inPre {
			n.kids = nil
			if n.t.k == kIface {
				n.sshape = ""
			}
			return
		}
		for _, k := range n.kids {
			stripCfg(k)
		}
		return
	}
	keepPre(n)
}

// keepPre keeps the pre-filled elements / entries of a collection only.
func keepPre(c *pnode) {
	var kids []*pnode
	for _, k := range c.kids {
		if !k.inPre {
			continue
		}
		stripCfg(k)
		if c.t.k == kSlice {
			k.dropped = false
			k.seg = strconv.Itoa(len(kids))
			k.rseg = k.seg
		}
		if c.t.k == kMap && k.dropped {
			// without configured entries the old map is not replaced
			k.dropped = false
			k.seg, k.rseg = k.key, k.key
		}
		kids = append(kids, k)
	}
	c.kids = kids
}

// emptyConfig makes the configuration give the collection c as `[]` / `{}`.
func emptyConfig(c *pnode) bool {
	keepPre(c)
	c.inCfg, c.cfgNull = true, false
	return ensureCfg(c)
}

// injectColl edits a slice / map position as a whole.
func injectColl(n *pnode, f fault) bool {
	switch f.source {
	case "config-empty":
		n.kids = nil
		n.inPre = false
		n.inCfg, n.cfgNull = true, false
		return ensureCfg(n)
	case "config-empty+pre-empty":
		n.kids = nil
		n.inCfg, n.cfgNull = true, false
		n.inPre = true // non-nil and empty
		return ensureCfg(n) && ensurePre(n)
	case "pre-empty":
		// a non-nil EMPTY pre-filled collection, the setting absent
		n.kids = nil
		n.inCfg, n.cfgNull = false, false
		n.inPre = true
		return ensurePre(n)
	case "replaced-by-empty":
		keepPre(n)
		if len(n.kids) == 0 {
			return false
		}
		for _, k := range n.kids {
			k.dropped = true
			k.seg, k.rseg = "~"+k.seg, "~"+k.rseg
		}
		n.inCfg, n.cfgNull = true, false
		return ensureCfg(n)
	}
	// Small: one element too big
	for _, k := range n.kids {
		if k.dropped {
			continue
		}
		if f.source == "config" && k.inCfg {
			k.cfgVal, k.viaVar = f.bad, false
			return true
		}
		if f.source == "default" && !k.inCfg && k.inPre {
			k.preVal = f.bad
			return true
		}
	}
	return false
}

// reified: Unpack visits the struct-like node field by field (and runs its
// InitDefaults): the top, structs held by value in a reified struct, and
// everything the configuration mentions.
func (n *pnode) reified() bool {
	if n.parent == nil || n.inCfg {
		return true
	}
	return n.t.k == kStruct && !n.isElem && n.parent.reified()
}

// ensureCfg makes every holder of n present in the configuration.
func ensureCfg(n *pnode) bool {
	for a := n.parent; a != nil; a = a.parent {
		if a.inCfg {
			continue
		}
		if a.isElem || !a.structLike() {
			return false // elements keep the side(s) the collection gave them
		}
		a.inCfg = true
	}
	return true
}

// ensurePre makes every holder of n exist in the pre-filled target.
func ensurePre(n *pnode) bool {
	for a := n.parent; a != nil; a = a.parent {
		if a.inPre {
			continue
		}
		if a.isElem || !a.structLike() {
			return false
		}
		a.inPre = true
	}
	return true
}

// inject edits the (cloned) position n. It returns false when the plan does
// not admit the fault.
func inject(r *rand.Rand, n *pnode, f fault, useVars bool) bool {
	if f.structLvl {
		return injectStruct(n, f)
	}
	if f.collLvl || strings.HasPrefix(f.source, "config-empty") || f.source == "replaced-by-empty" || f.source == "pre-empty" {
		return injectColl(n, f)
	}
	switch f.source {
	case "config-key", "default-key":
		if n.dropped || (f.source == "config-key") != n.inCfg || f.source == "default-key" && !n.inPre {
			return false
		}
		n.key = "bad-" + n.key
		n.seg, n.rseg = n.key, n.key
		return true
	case "config":
		if n.isElem && !n.inCfg {
			return false
		}
		n.inCfg, n.cfgNull, n.cfgVal = true, false, f.bad
		n.viaVar = useVars && r.Intn(3) == 0
		if s, ok := f.bad.(string); ok && s == "" {
			n.viaVar = false
		}
		return ensureCfg(n)
	case "default":
		if n.isElem && (n.inCfg || !n.inPre) {
			return false // only untouched pre-filled elements keep their default
		}
		if !n.isElem && n.parent.reified() {
			k, _ := n.leafKind()
			if n.t.k.scalar() && initValue(k) != nil || holderInit(n) != nil {
				return false // InitDefaults overwrites the pre-filled value
			}
		}
		n.inCfg, n.cfgNull, n.viaVar = false, false, false
		n.inPre, n.preVal = true, f.bad
		if n.t.k == kIface && f.validator.name == "required" {
			n.boxed = true // iface(*int): a plain zero in the interface is a different route
		}
		return ensurePre(n)
	case "default+config-null":
		if n.isElem {
			return false
		}
		if n.parent.reified() {
			k, _ := n.leafKind()
			if n.t.k.scalar() && initValue(k) != nil || holderInit(n) != nil {
				return false
			}
		}
		n.inPre, n.preVal = true, f.bad
		n.boxed = n.t.k == kIface
		n.inCfg, n.cfgNull, n.viaVar = true, true, false
		return ensurePre(n) && ensureCfg(n)
	case "absent":
		if n.isElem {
			return false
		}
		n.clear()
		n.kids = nil
		n.sshape = ""
		return true
	case "config-null":
		if n.isElem {
			if !n.inCfg || n.inPre {
				return false
			}
			n.cfgNull, n.viaVar = true, false
			return true
		}
		n.clear()
		n.kids = nil
		n.sshape = ""
		n.inCfg, n.cfgNull = true, true
		return ensureCfg(n)
	case "initdefaults":
		if e := inInitEntry(n); e != nil {
			// the entry of the map's InitDefaults: the configuration leaves the
			// position (or, one time in two, the whole entry) alone
			if e == n || r.Intn(2) == 0 {
				stripCfg(e)
				return true
			}
		}
		n.clear()
		return ensureCfg(n)
	}
	return false
}

func injectStruct(n *pnode, f fault) bool {
	s := n.structType()
	set := func(k *pnode, v interface{}) {
		if f.source == "config" {
			k.inCfg, k.cfgNull, k.cfgVal, k.viaVar = true, false, v, false
		} else {
			k.clear()
			k.inPre, k.preVal = true, v
		}
	}
	if f.source == "config" {
		if n.isElem && !n.inCfg {
			return false
		}
		n.inCfg = true
		if !ensureCfg(n) {
			return false
		}
	} else {
		if n.isElem && !n.inPre {
			return false
		}
		n.inPre = true
		if !ensurePre(n) {
			return false
		}
	}
	switch s.lib {
	case "Range", "URange":
		set(n.kids[0], int64(9))
		set(n.kids[1], int64(2))
	case "Pair":
		set(n.kids[0], "x")
		n.kids[1].clear()
	}
	return true
}

func kindClass(k kind) string {
	switch k {
	case kString:
		return "string"
	case kDur:
		return "duration"
	case kPort, kLevel, kDefLevel, kDefBad:
		return "named-number"
	case kUNum, kULevel, kUPort:
		return "unpacker-number"
	case kUStr:
		return "unpacker-string"
	case kRegexp:
		return "regexp"
	case kDefNaN:
		return "named-number"
	}
	return "number"
}

// unpackerPosition: the value at n is of a type with an Unpack method (a
// library leaf, or the struct URange itself for its cross-field Validate).
func unpackerPosition(n *pnode) bool {
	if k, ok := n.leafKind(); ok {
		return k.unpacker()
	}
	if s := n.structTypeOrNil(); s != nil && s.rt != nil {
		return hasUnpack(s.rt)
	}
	return false
}

func insideElement(n *pnode) bool {
	for a := n; a != nil; a = a.parent {
		if a.isElem {
			return true
		}
	}
	return false
}

// prefilledMapEntry: n lies in a pre-filled map entry the configuration does
// not mention, while the configuration mentions other keys of that map.
func prefilledMapEntry(n *pnode) bool {
	for a := n; a != nil; a = a.parent {
		if a.isElem && a.parent.t.k == kMap && !a.inCfg && a.inPre && a.parent.inCfg {
			return true
		}
	}
	return false
}

// absentByValueStruct: a struct held by value above n is not mentioned by the
// configuration although its holder is reified.
func absentByValueStruct(n *pnode) bool {
	for a := n; a != nil; a = a.parent {
		if a != n || a.structLike() {
			if a.parent != nil && a.t.k == kStruct && !a.isElem && !(a.f != nil && a.f.inline) && !a.inCfg {
				return true
			}
		}
	}
	return false
}

// ---------------------------------------------------------------------------
// running go-ucfg

type outcome struct {
	cfg      interface{}
	preDesc  string
	target   reflect.Value
	err      error
	newErr   error
	panicked bool
	pv       string
	where    string
}

func run(res *harness.R, p *pnode) (o outcome) {
	full := renderCfg(p)
	o.cfg = full
	o.target = renderPre(p)
	o.preDesc = canonVal(o.target.Elem())
	to := o.target.Interface()
	if p.t.topColl {
		// the wrapped slice / map itself is the Unpack target
		w, ok := full["w"]
		if !ok || w == nil {
			o.newErr = fmt.Errorf("c04: plan without configuration for the top-level collection")
			return
		}
		o.cfg = w
		o.preDesc = canonVal(o.target.Elem().Field(0))
		to = o.target.Elem().Field(0).Addr().Interface()
	}
	o.panicked, o.pv, o.where = harness.Safe(func() {
		c, err := ucfg.NewFrom(o.cfg, unpackOpts...)
		if err != nil {
			o.newErr = err
			return
		}
		o.err = c.Unpack(to, optionsFor(p)...)
	})
	res.Eval(2)
	return
}

// optionsFor: PathSep + VarExp and the plan's global merge option.
func optionsFor(top *pnode) []ucfg.Option {
	opts := append([]ucfg.Option{}, unpackOpts...)
	switch top.global {
	case "append":
		opts = append(opts, ucfg.AppendValues)
	case "prepend":
		opts = append(opts, ucfg.PrependValues)
	case "replace":
		opts = append(opts, ucfg.ReplaceValues)
	case "replacearr":
		opts = append(opts, ucfg.ReplaceArrValues)
	}
	if top.vopt != "" {
		opts = append(opts, ucfg.ValidatorTag(top.vopt))
	}
	return opts
}

// tagName: the struct tag name whose validators are in force for the plan.
func (n *pnode) tagName() string {
	if n.vopt != "" {
		return n.vopt
	}
	return "validate"
}

func panicSig(where string) string {
	fn := where
	if i := strings.Index(fn, "<"); i >= 0 {
		fn = fn[:i]
	}
	if i := strings.LastIndex(fn, "."); i >= 0 {
		fn = fn[i+1:]
	}
	if fn == "" {
		fn = "outside-go-ucfg"
	}
	return "panic:" + fn
}

func hashKey(s string) string {
	h := fnv.New64a()
	h.Write([]byte(s))
	return strconv.FormatUint(h.Sum64(), 36)
}

// Whether an error "names" a setting is judged independent of the wording:
// the message must contain the dotted path as a delimited token, i.e. the
// characters directly before and after the occurrence are not path characters
// (letters, digits, '_', '.', '-'). Quotes, blanks, colons, brackets and the
// ends of the text delimit; so does a full stop that ends a sentence.

func pathRune(r rune) bool {
	return r == '_' || r == '.' || r == '-' || unicode.IsLetter(r) || unicode.IsDigit(r)
}

func namesPath(msg, path string) bool {
	if path == "" {
		return false
	}
	for from := 0; from <= len(msg); {
		i := strings.Index(msg[from:], path)
		if i < 0 {
			return false
		}
		i += from
		j := i + len(path)
		okBefore := i == 0
		if !okBefore {
			r, _ := utf8.DecodeLastRuneInString(msg[:i])
			okBefore = !pathRune(r)
		}
		okAfter := j == len(msg)
		if !okAfter {
			r, size := utf8.DecodeRuneInString(msg[j:])
			okAfter = !pathRune(r)
			if r == '.' { // "... at a.b." / "... at a.b. Next"
				rest := msg[j+size:]
				if next, _ := utf8.DecodeRuneInString(rest); rest == "" || unicode.IsSpace(next) {
					okAfter = true
				}
			}
		}
		if okBefore && okAfter {
			return true
		}
		from = i + 1
	}
	return false
}

// fieldPaths lists the configuration paths of all positions of a plan, as the
// target's configuration calls them. Bare list indices (elements of a slice
// that is itself the target) are left out: a number in a message is no path.
func fieldPaths(top *pnode, norm func(string) string) []string {
	seen := map[string]bool{}
	var out []string
	top.each(func(n *pnode) {
		p := norm(n.path)
		if n.parent == nil || p == "" || seen[p] || strings.Contains(p, "~") || strings.Trim(p, "0123456789.") == "" {
			return
		}
		seen[p] = true
		out = append(out, p)
	})
	return out
}

func (check) Run(seed int64, tier string, idx int, verbose bool) harness.Result {
	res := harness.NewR(idx)
	// sixth wave (alias.go): pre-filled graphs of hand-written types in which
	// different values share one address; own random stream, so the draws of
	// everything below are what they were
	for round := 0; round < graphRounds; round++ {
		graphProbe(res, seed, idx, round, verbose)
	}
	// sixth wave, second batch (chain.go): pre-filled pointer chains that are
	// nil at their k-th level; own random stream as well
	for round := 0; round < chainRounds; round++ {
		chainProbe(res, seed, idx, round, verbose)
	}
	// every topEvery-th type is a slice or map that is itself the Unpack target
	topColl := (idx/typeShare)%topEvery == topEvery-1
	pair := typeFor(harness.Mix(seed, "C04type", idx/typeShare), topColl)
	top := pair[0]
	// norm turns a path of the wrapper into what the target's configuration calls it
	norm := func(p string) string {
		if !topColl {
			return p
		}
		if p == "w" {
			return ""
		}
		return strings.TrimPrefix(p, "w.")
	}
	targetKind := "struct"
	if topColl {
		res.Ev("top_level_collection_cases", 1)
		targetKind = "top-level-" + kindNames[top.fields[0].t.k]
		if top.fields[0].t.lib != "" {
			targetKind += "(" + top.fields[0].t.lib + ")"
		}
	}
	res.SetAdd("unpack_target", targetKind)
	r := rand.New(rand.NewSource(harness.Mix(seed, "C04", idx)))
	typeStr := top.String()

	// The struct tag name the validators are read from: `validate` (no option,
	// or ValidatorTag("validate")) or altTag (ValidatorTag(altTag)); types whose
	// fields declare validators under both names use altTag in half of their
	// cases, the others (nothing declared under altTag: no tag validator is in
	// force) in one of eight. In part of the cases another Unpack of the same
	// type under the OTHER name precedes (priorVopt / hasPrior).
	hasAlt := declaresAlt(top)
	vopt := ""
	switch x := r.Intn(8); {
	case hasAlt && x < 4, x < 1:
		vopt = altTag
	case hasAlt && x < 6, x < 3:
		vopt = "validate"
	}
	hasPrior, priorVopt := false, ""
	if hasAlt && r.Intn(2) == 0 || r.Intn(4) == 0 {
		hasPrior = true
		if vopt != altTag {
			priorVopt = altTag
		} else if r.Intn(2) == 0 {
			priorVopt = "validate"
		}
	}
	inForce, otherTag := "validate", altTag
	if vopt == altTag {
		top = pair[1]
		inForce, otherTag = altTag, "validate"
	}
	tagDim := hasPrior || vopt != ""
	optName := func(v string) string {
		if v == "" {
			return "none"
		}
		return "ValidatorTag(" + v + ")"
	}
	res.SetAdd("validator_tag_option", optName(vopt))
	if hasAlt {
		res.SetAdd("tag_in_force_of_two_tag_type", inForce)
	} else {
		res.SetAdd("tag_in_force_of_one_tag_type", inForce)
	}
	if vopt == altTag {
		res.Ev("cases_validators_of_alt_tag_in_force", 1)
	}

	// a base plan without fault, confirmed by the model
	var base *pnode
	for attempt := 0; attempt < 8 && base == nil; attempt++ {
		p, ok := genPlan(r, top, attempt >= 5)
		if !ok {
			res.Ev("plan_infeasible_retry", 1)
			continue
		}
		p.vopt = vopt
		var fs []finding
		if bad, pv, _ := harness.Safe(func() { fs = walk(model(p), inForce) }); bad {
			res.Inconc("model panicked on a base plan: %s; type %s", pv, typeStr)
			return res.Done()
		}
		if len(fs) > 0 {
			res.Ev("plan_rejected_by_model", 1)
			res.SetAdd("plan_rejected_by_model", fs[0].validator+":"+fs[0].shape)
			if verbose {
				fmt.Printf("plan rejected by the model: %+v\n  sources %s\n", fs[0], sources(p))
			}
			continue
		}
		base = p
	}
	if base == nil {
		res.Ev("no_valid_plan", 1)
		return res.Done()
	}
	srcs := sources(base)
	positions := 0
	base.each(func(n *pnode) {
		if n.parent == nil {
			return
		}
		res.SetAdd("position_kind", kindNames[n.t.k]+"@"+n.shape)
		if n.t.k == kSlice || n.t.k == kMap {
			how := "inherited"
			switch {
			case n.f != nil && n.f.mode != "":
				how = "tag:" + n.f.mode
			case n.mode == "":
				how = "none"
			case n.mode == base.global:
				how = "global:" + n.mode
			}
			res.SetAdd("collection_state", collState(n))
			if n.t.k == kSlice {
				res.SetAdd("slice_mode_from", how+"->"+sliceMode(n.mode))
			}
		}
		if _, ok := n.leafKind(); !ok && !n.isElem {
			for _, v := range n.vals() {
				res.SetAdd("valid", v.name+":"+n.source()+":"+n.shape+"("+kindNames[n.t.k]+")")
			}
		}
		if unpackerPosition(n) {
			res.Ev("unpacker_typed_positions", 1)
			res.SetAdd("unpacker_position", kindNames[n.t.k]+"@"+n.shape+":"+n.source())
		}
		if n.t.k == kMap && n.mode == "replace" {
			nd, twin := 0, 0
			for _, k := range n.kids {
				if k.dropped {
					nd++
					for _, o := range n.kids {
						if o != k && o.key == k.key {
							twin++
						}
					}
				}
			}
			if nd > 0 {
				res.Ev("prefilled_maps_replaced_by_configured_object", 1)
				res.Ev("prefilled_map_entries_dropped_by_replace", int64(nd))
				res.Ev("dropped_map_entries_with_configured_entry_of_same_key", int64(twin))
				how := "global"
				if n.mode != base.global {
					how = "tag"
				}
				res.SetAdd("map_replaced", how+":"+kindNames[n.t.elem.k]+"-elements:"+n.shape)
			}
		}
		if n.t.k == kMap {
			if _, iv := mapInit(n.t.lib); iv != nil {
				res.Ev("maps_with_initdefaults", 1)
				st := "initdefaults-not-run"
				for _, k := range n.kids {
					if k.fromInit {
						st = "entry-" + k.source()
					}
				}
				res.SetAdd("init_map_state", n.t.lib+":"+collState(n)+":"+st)
			}
			if n.t.vkey {
				res.Ev("maps_with_validating_key_type", 1)
			}
		}
		if n.cycle > 0 {
			res.Ev("cyclic_prefilled_defaults", 1)
			res.SetAdd("cycle", strconv.Itoa(n.cycle)+":"+n.sshape+":"+n.source())
		}
		if n.t.k == kIface && n.t.prt != nil {
			res.SetAdd("pointer_to_interface", n.source()+":"+n.sshape)
		}
		if n.boxed {
			res.Ev("interfaces_holding_pointer_to_number", 1)
		}
		if k, ok := n.leafKind(); ok && k == kDur {
			for _, v := range n.vals() {
				if beyondParam(k, v) {
					res.Ev("positions_with_duration_bound_beyond_range", 1)
					res.SetAdd("duration_bound_beyond_range", v.name+"="+v.param+":"+n.source())
				}
			}
		}
		if k, ok := n.leafKind(); ok {
			src := n.source()
			if src == "absent" && n.parent.reified() && (n.t.k.scalar() && initValue(k) != nil || holderInit(n) != nil) {
				src = "initdefaults"
			}
			held := heldValue(n)
			if src == "initdefaults" {
				held = initValue(k)
			}
			if c := floatClass(held); c != "" {
				res.Ev("valid_special_float_values", 1)
				res.SetAdd("special_float_valid", c+":"+kindNames[n.t.k]+":"+src)
			}
			if n.isElem && n.cfgNull {
				res.Ev("null_elements_in_valid_plans", 1)
				res.SetAdd("null_element", kindNames[k]+"@"+n.shape)
			}
			if isEdgeValue(held) {
				res.Ev("valid_values_at_the_edge_of_the_kind", 1)
				if _, big := held.(uint64); big {
					res.Ev("valid_values_at_or_above_2^63", 1)
				}
				res.SetAdd("edge_value_kind", kindNames[k]+":"+src)
			}
			for _, v := range n.vals() {
				if isEdge(v.param) {
					res.Ev("positions_with_bound_at_the_edge_of_the_kind", 1)
					res.SetAdd("edge_bound", kindNames[k]+":"+v.name+"="+v.param)
				}
			}
			res.SetAdd("valid_source", src)
			for _, v := range n.vals() {
				res.SetAdd("valid", v.name+":"+src+":"+n.shape)
			}
		}
	})
	faults := enumerate(r, base)
	positions = len(faults)

	optDesc := "PathSep+VarExp"
	if base.global != "" {
		optDesc += "+" + base.global
	}
	res.SetAdd("global_option", optDesc)
	if vopt != "" {
		optDesc += "+" + optName(vopt)
	}
	if hasPrior {
		optDesc += " (after an Unpack of the same type and input with ValidatorTag option " + optName(priorVopt) + ")"
	}
	describe := func(o outcome) string {
		return fmt.Sprintf("type %s; options %s; config %v; pre-filled %s", typeStr, optDesc, o.cfg, o.preDesc)
	}
	byPath := map[string]*pnode{}
	base.each(func(n *pnode) { byPath[n.rpath] = n })

	// Why an outcome is wrong is told apart by re-running the same input on
	// twins of the type (types.go): twin A is the same type built anew, which
	// go-ucfg has never unpacked before; on twin B in addition BOTH tag names
	// declare the validators of the name in force. A wrong outcome that is right
	// on twin A depends on earlier Unpack calls of the type; one that is right
	// only on twin B comes from reading the declarations of the other tag name.
	type twinT struct {
		top *tnode
		m   twinMaps
	}
	// (a twin is only ever unpacked with one ValidatorTag option)
	twins := map[string]*twinT{}
	twinRun := func(plan *pnode, onlyInForce bool) (outcome, bool) {
		var o outcome
		bad, _, _ := harness.Safe(func() {
			key := fmt.Sprint(onlyInForce, plan.vopt)
			tw := twins[key]
			if tw == nil {
				tt, m := twinType(top, inForce, otherTag, onlyInForce)
				tw = &twinT{tt, m}
				twins[key] = tw
			}
			o = run(res, retarget(plan, nil, tw.m))
		})
		res.Ev("twin_type_reruns_of_wrong_outcomes", 1)
		return o, !bad && !o.panicked && o.newErr == nil
	}
	holds := func(o outcome, tag, path, validator string) bool {
		if o.err != nil {
			return false
		}
		for _, x := range walk(o.target, tag) {
			if x.path == path && x.validator == validator {
				return true
			}
		}
		return false
	}
	// acceptedSig classifies "Unpack (validators of `tag` in force) returned nil
	// although the value at `path` (position n) breaks `validator`".
	acceptedSig := func(plan, n *pnode, tag, path, validator, source, shape, dflt string) string {
		if o, ok := twinRun(plan, false); ok && !holds(o, tag, path, validator) {
			return "depends-on-earlier-unpack-of-the-type:invalid-accepted"
		}
		if tag == inForce && validator != "Validate" {
			if o, ok := twinRun(plan, true); ok && !holds(o, tag, path, validator) {
				return "validator-tag-option:validators-of-the-other-tag-name-applied:invalid-accepted"
			}
		}
		if n != nil && inUnpackerStruct(n) && validator != "Validate" {
			return "field-tag-inside-unpacker-struct-not-validated:" + validator + ":" + source + ":" + shape
		}
		if n != nil && unpackerPosition(n) && !strings.HasPrefix(dflt, "null-element") && !strings.HasPrefix(dflt, "map-key") && !strings.HasPrefix(dflt, "initdefaults-map-entry") && !(shape == "double-pointer-field" && source == "default") {
			what := "tag"
			if validator == "Validate" {
				what = "Validate"
			}
			return "unpacker-typed-value-not-validated:" + what + ":" + source + ":" + shape
		}
		return dflt
	}
	rejectedSig := func(plan *pnode, dflt string) string {
		if o, ok := twinRun(plan, false); ok && o.err == nil {
			return "depends-on-earlier-unpack-of-the-type:valid-rejected"
		}
		{
			if o, ok := twinRun(plan, true); ok && o.err == nil {
				return "validator-tag-option:validators-of-the-other-tag-name-applied:valid-rejected"
			}
		}
		return dflt
	}

	// ---- an earlier Unpack of the same type under the other tag name. Only
	// what is clear under any tag is judged: no panic, and an accepted result
	// holds no number outside min / max / positive of the tag it was given and
	// no value its Validate() rejects.
	if hasPrior {
		res.Ev("cases_with_prior_unpack_under_the_other_tag_name", 1)
		res.SetAdd("prior_unpack_option", optName(priorVopt)+"-then-"+optName(vopt))
		pp := base.clone(nil, map[*pnode]*pnode{})
		pp.vopt = priorVopt
		po := run(res, pp)
		if verbose {
			fmt.Printf("prior Unpack with ValidatorTag option %s: err=%v panic=%v %s\n", optName(priorVopt), po.err, po.panicked, po.pv)
		}
		switch {
		case po.panicked:
			res.Violate(panicSig(po.where), "Unpack (ValidatorTag option %s) panicked: %q at %s; %s", optName(priorVopt), po.pv, po.where, describe(po))
			return res.Done()
		case po.newErr != nil:
			res.Inconc("NewFrom failed on a generated configuration: %v; config %v", po.newErr, po.cfg)
			return res.Done()
		case po.err == nil:
			res.SetAdd("prior_unpack_outcome", "accepted")
			for _, f := range walk(po.target, otherTag) {
				switch f.validator {
				case "min", "max", "positive", "Validate":
				default:
					continue
				}
				n := byPath[f.path]
				src, suffix := "unknown", ""
				if n != nil {
					src = n.source()
					if _, leaf := n.leafKind(); leaf {
						var alt []vtag
						if n.f != nil && !n.isElem {
							alt = n.f.alt
						}
						suffix = edgeSuffix(heldValue(n), alt)
					}
				}
				sig := acceptedSig(pp, n, otherTag, f.path, f.validator, src, f.shape, "soundness:"+f.validator+":prior-call:"+f.shape+suffix)
				res.Violate(sig, "Unpack with ValidatorTag option %s returned nil but the result breaks a validator of that tag at '%s': %s; result %s; type %s; config %v; pre-filled %s",
					optName(priorVopt), f.path, f.detail, canonVal(po.target.Elem()), typeStr, po.cfg, po.preDesc)
			}
		default:
			res.SetAdd("prior_unpack_outcome", "rejected")
		}
	}

	// ---- base: valid input
	o := run(res, base)
	if verbose {
		fmt.Printf("type %s\nsources %s\nconfig %v\npre-filled %s\nbase err=%v panic=%v %s\n", typeStr, srcs, o.cfg, o.preDesc, o.err, o.panicked, o.pv)
	}
	if idx < 2 {
		res.Sample = map[string]interface{}{"type": typeStr, "config": fmt.Sprint(o.cfg), "prefilled": o.preDesc, "sources": srcs, "fault_candidates": len(faults)}
	}
	if positions > 0 {
		res.Key(hashKey(typeStr + "|" + srcs + "|base"))
	}
	switch {
	case o.panicked:
		res.Violate(panicSig(o.where), "Unpack of a valid input panicked: %q at %s; %s", o.pv, o.where, describe(o))
		res.SetAdd("outcome", "base:panic")
		return res.Done()
	case o.newErr != nil:
		res.Inconc("NewFrom failed on a generated configuration: %v; config %v", o.newErr, o.cfg)
		return res.Done()
	case o.err != nil:
		sig := "valid-input-rejected:unknown"
		// the longest path of the type the message contains says which field is blamed
		named := ""
		for _, p := range fieldPaths(base, norm) {
			if len(p) > len(named) && namesPath(o.err.Error(), p) {
				named = p
			}
		}
		if named != "" {
			base.each(func(n *pnode) {
				if norm(n.path) == named && n.parent != nil && sig == "valid-input-rejected:unknown" {
					var names []string
					for _, v := range n.vals() {
						names = append(names, v.name)
					}
					if k, ok := n.leafKind(); ok && libValidate(k) || n.structLike() && n.structType().lib != "" {
						names = append(names, "Validate")
					}
					if len(names) == 0 {
						names = []string{"none"}
					}
					sig = "valid-input-rejected:" + strings.Join(names, "+") + ":" + n.source() + ":" + n.shape
					if _, leaf := n.leafKind(); leaf {
						sig += edgeSuffix(heldValue(n), n.vals())
					}
				}
			})
		}
		sig = rejectedSig(base, sig)
		res.Violate(sig, "Unpack rejects an input that satisfies every validator: %v; sources %s; %s", o.err, srcs, describe(o))
		res.SetAdd("outcome", "base:rejected")
		return res.Done()
	}
	res.SetAdd("outcome", "base:accepted")
	for _, f := range walk(o.target, inForce) {
		src := "unknown"
		n := byPath[f.path]
		if n != nil {
			src = n.source()
		}
		sig := acceptedSig(base, n, inForce, f.path, f.validator, src, f.shape, "soundness:"+f.validator+":"+src+":"+f.shape)
		res.Violate(sig, "Unpack returned nil but the result breaks a validator at '%s': %s; sources %s; result %s; %s",
			f.path, f.detail, srcs, canonVal(o.target.Elem()), describe(o))
	}
	if want := canonVal(model(base).Elem()); want != canonVal(o.target.Elem()) {
		res.Ev("model_differs_from_unpack", 1)
		if verbose {
			fmt.Printf("model differs from Unpack:\n  model  %s\n  unpack %s\n", want, canonVal(o.target.Elem()))
		}
	}

	// ---- one fault at a time
	if len(faults) > maxVariants {
		r.Shuffle(len(faults), func(i, j int) { faults[i], faults[j] = faults[j], faults[i] })
		res.Ev("fault_candidates_not_run", int64(len(faults)-maxVariants))
		faults = faults[:maxVariants]
	}
	useVars := r.Intn(5) < 3 && !topColl
	for _, f := range faults {
		m := map[*pnode]*pnode{}
		variant := base.clone(nil, m)
		n := m[f.pos]
		shape := f.pos.shape
		if f.structLvl {
			shape = f.pos.sshape // how the struct value itself is held
		}
		fid := f.validator.name + ":" + f.source + ":" + shape
		if !inject(r, n, f, useVars) || f.emptyColl != nil && !emptyConfig(m[f.emptyColl]) {
			res.Ev("variant_not_admitted_by_plan", 1)
			continue
		}
		repath(variant)
		source := f.source
		if n.viaVar && source == "config" {
			source = "varexp"
		}
		if f.emptyColl != nil {
			source = "default+empty-config"
		}
		// the model must see exactly this fault
		var fs []finding
		if bad, pv, _ := harness.Safe(func() { fs = walk(model(variant), inForce) }); bad {
			res.Inconc("model panicked on a fault variant %s at '%s': %s; type %s", fid, n.path, pv, typeStr)
			continue
		}
		hit, other := false, false
		for _, x := range fs {
			if x.path != n.rpath {
				other = true
			} else if x.validator == f.validator.name {
				hit = true
			}
		}
		if !hit || other {
			res.Ev("variant_skipped_by_model", 1)
			why := "fault-masked"
			if other {
				why = "second-fault"
			}
			res.SetAdd("variant_skipped_by_model", why+":"+fid)
			continue
		}
		fid = f.validator.name + ":" + source + ":" + shape
		vsrcs := sources(variant)
		res.Key(hashKey(typeStr + "|" + vsrcs + "|" + fid + "@" + n.path))
		res.SetAdd("exercised", fid)
		res.Ev("fault_variants", 1)
		if isEdgeValue(f.bad) {
			res.Ev("fault_variants_with_value_at_the_edge_of_the_kind", 1)
			if _, big := f.bad.(uint64); big {
				res.Ev("fault_variants_with_value_at_or_above_2^63", 1)
			}
			if lk, ok := n.leafKind(); ok {
				res.SetAdd("edge_value_fault", kindNames[lk]+":"+f.validator.name+":"+source)
			}
		}
		if isEdge(f.validator.param) {
			res.Ev("fault_variants_against_bound_at_the_edge_of_the_kind", 1)
		}
		{
			bad := f.bad
			if f.source == "initdefaults" {
				if lk, ok := n.leafKind(); ok {
					bad = initValue(lk)
				}
			}
			if c := floatClass(bad); c != "" {
				res.Ev("fault_variants_with_special_float_value", 1)
				res.SetAdd("special_float_fault", c+":"+f.validator.name+":"+source+":"+shape)
			}
		}
		switch shape {
		case "double-pointer-field", "pointer-to-collection", "inline-map", "pointer-to-interface":
			res.Ev("fault_variants_at_"+shape, 1)
			res.SetAdd("fault_at_"+shape, fid+"("+kindNames[n.t.k]+")")
		}
		if e := inInitEntry(n); e != nil {
			res.Ev("fault_variants_at_entry_of_map_initdefaults", 1)
			res.SetAdd("fault_at_init_map_entry", e.parent.t.lib+":"+fid+":"+collState(e.parent))
		}
		if strings.HasSuffix(source, "-key") {
			res.Ev("fault_variants_map_key_rejected_by_its_validate", 1)
		}
		if inUnpackerStruct(n) {
			res.Ev("fault_variants_at_tagged_field_of_unpacker_struct", 1)
			res.SetAdd("fault_in_unpacker_struct", fid)
		}
		if beyondParam(kDur, f.validator) {
			if lk, ok := n.leafKind(); ok && lk == kDur {
				res.Ev("fault_variants_against_duration_bound_beyond_range", 1)
			}
		}
		if f.validator.name == "required" && (strings.HasPrefix(source, "default") || source == "config" || source == "varexp") {
			if lk, ok := n.leafKind(); ok {
				res.Ev("fault_variants_required_zero_or_empty_value", 1)
				res.SetAdd("required_zero", kindClass(lk)+":"+source+":"+shape)
			}
		}
		if source == "config-null" && n.isElem {
			res.Ev("fault_variants_null_element", 1)
		}
		if lk, ok := n.leafKind(); ok && lk == kRegexp {
			res.Ev("fault_variants_at_regexp_pointer", 1)
		}
		if unpackerPosition(n) {
			res.Ev("fault_variants_at_unpacker_typed_positions", 1)
			res.SetAdd("unpacker_fault", fid)
		}
		if tagDim {
			res.Ev("fault_variants_with_tag_option_or_prior_unpack", 1)
		}

		o := run(res, variant)
		what := fmt.Sprintf("fault %s at '%s' (bad value %s)", fid, n.path, show(f.bad))
		if n.rpath != n.path {
			what += fmt.Sprintf(" [position '%s' of the result]", n.rpath)
		}
		if verbose {
			fmt.Printf("%s\n  config %v\n  pre-filled %s\n  err=%v panic=%v %s\n", what, o.cfg, o.preDesc, o.err, o.panicked, o.pv)
		}
		switch {
		case o.panicked:
			res.Violate(panicSig(o.where), "%s: Unpack panicked: %q at %s; %s", what, o.pv, o.where, describe(o))
			res.SetAdd("outcome", "fault:panic")
		case o.newErr != nil:
			res.Inconc("NewFrom failed on a fault configuration: %v; config %v", o.newErr, o.cfg)
		case o.err == nil:
			seen := false
			for _, x := range walk(o.target, inForce) {
				if x.path == n.rpath {
					if seen {
						continue
					}
					seen = true
					sig := "completeness:" + fid
					lk, isLeaf := n.leafKind()
					if isLeaf && (shape == "pointer-field" || shape == "interface-field" || shape == "double-pointer-field" || shape == "pointer-to-interface") {
						sig += ":" + kindClass(lk)
					}
					tagV := f.validator.name == "min" || f.validator.name == "max" || f.validator.name == "positive"
					switch {
					case source == "initdefaults" && inInitEntry(n) != nil:
						m := inInitEntry(n).parent
						others, target := "no-other-key-configured", "target-map-empty"
						for _, k := range m.kids {
							if k.inCfg && !k.fromInit {
								others = "other-keys-configured"
							}
							if k.inPre {
								target = "target-map-prefilled"
							}
						}
						sig = "initdefaults-map-entry-not-validated:" + f.validator.name + ":" + others + ":" + target
					case strings.HasSuffix(source, "-key"):
						sig = "map-key-not-validated:Validate:" + strings.TrimSuffix(source, "-key")
					case source == "config-null" && n.isElem:
						sig = "null-element-not-validated:" + f.validator.name + ":" + shape
					case prefilledMapEntry(n) && shape != "pointer-to-collection" && shape != "inline-map" && shape != "double-pointer-field" && !(isLeaf && lk == kRegexp):
						sig = "prefilled-map-entry-not-validated"
					case shape == "pointer-field" && tagV && source == "default":
						sig = "validator-skipped-on-pointer-default:" + f.validator.name
					case shape == "pointer-field" && tagV && (source == "config" || source == "varexp"):
						sig = "validator-skipped-on-pointer-from-config:" + f.validator.name
					case source == "initdefaults" && isLeaf && n.t.k.scalar() && initValue(lk) != nil:
						sig = "initdefaults-value-of-primitive-not-validated:tag"
						if f.validator.name == "Validate" {
							sig = "initdefaults-value-of-primitive-not-validated:Validate"
						}
					}
					if source == "initdefaults" && isLeaf {
						sig += edgeSuffix(initValue(lk), []vtag{f.validator})
					} else {
						sig += edgeSuffix(f.bad, []vtag{f.validator})
					}
					sig = acceptedSig(variant, n, inForce, n.rpath, f.validator.name, source, shape, sig)
					res.Violate(sig, "%s: Unpack returned nil and the result holds the invalid value: %s; result %s; %s", what, x.detail, canonVal(o.target.Elem()), describe(o))
				} else {
					res.Violate("soundness:"+x.validator+":unknown:"+x.shape, "%s: Unpack returned nil and the result breaks a validator at another place '%s': %s; result %s; %s",
						what, x.path, x.detail, canonVal(o.target.Elem()), describe(o))
				}
			}
			if seen {
				res.SetAdd("outcome", "fault:not-reported")
			} else {
				res.Ev("fault_not_in_result", 1)
				res.SetAdd("fault_not_in_result", fid)
				res.SetAdd("outcome", "fault:not-in-result")
			}
		default:
			msg := o.err.Error()
			accepted := []string{n.path}
			fromCfg := strings.HasPrefix(source, "config") || source == "varexp" || source == "replaced-by-empty"
			if insideElement(n) || !fromCfg || inUnpackerStruct(n) {
				segs := strings.Split(n.path, ".")
				for i := len(segs) - 1; i >= 1; i-- {
					accepted = append(accepted, strings.Join(segs[:i], "."))
				}
			}
			okPath := false
			all := fieldPaths(variant, norm)
			for i, a := range accepted {
				a = norm(a)
				named := namesPath(msg, a)
				if a == "" {
					// the target itself has no name: the message names no field at all
					named = true
					for _, p := range all {
						if namesPath(msg, p) {
							named = false
						}
					}
				}
				if named {
					okPath = true
					if i == 0 {
						res.SetAdd("outcome", "fault:reported-naming-field")
					} else {
						res.SetAdd("outcome", "fault:reported-naming-enclosing-setting")
					}
					break
				}
			}
			if okPath {
				res.Ev("fault_reported", 1)
				break
			}
			// the path of another field of the type, or no path at all
			class, other := "no-path", ""
			for _, p := range all {
				if len(p) > len(other) && namesPath(msg, p) {
					class, other = "other-path", p
				}
			}
			sig := "error-does-not-name-field:" + class
			if absentByValueStruct(n) {
				sig += ":absent-by-value-struct"
			} else {
				sig += ":" + source + ":" + shape
			}
			res.Violate(sig, "%s: Unpack fails with %q, which does not name '%s' (names %q); %s", what, msg, norm(n.path), other, describe(o))
			res.SetAdd("outcome", "fault:reported-without-field")
		}
	}
	return res.Done()
}

// ---------------------------------------------------------------------------
// canonical rendering of values for witnesses

func canonVal(v reflect.Value) string {
	var b strings.Builder
	canonSeen(&b, v, map[uintptr]bool{})
	return b.String()
}

func canonInto(b *strings.Builder, v reflect.Value) { canonSeen(b, v, map[uintptr]bool{}) }

func canonSeen(b *strings.Builder, v reflect.Value, seen map[uintptr]bool) {
	canonInto := func(b *strings.Builder, v reflect.Value) { canonSeen(b, v, seen) }
	switch v.Kind() {
	case reflect.Ptr, reflect.Interface:
		if v.IsNil() {
			b.WriteString("nil")
			return
		}
		if v.Kind() == reflect.Ptr {
			if seen[v.Pointer()] {
				b.WriteString("&<cycle>")
				return
			}
			seen[v.Pointer()] = true
			b.WriteByte('&')
		}
		canonInto(b, v.Elem())
	case reflect.Struct:
		if p, ok := regexpPattern(v); ok {
			b.WriteString("regexp(" + strconv.Quote(p) + ")")
			return
		}
		b.WriteByte('{')
		t := v.Type()
		first := true
		for i := 0; i < t.NumField(); i++ {
			if !exported(t.Field(i)) {
				continue
			}
			if !first {
				b.WriteByte(' ')
			}
			first = false
			name, _, _ := parseConfigTag(t.Field(i))
			if name == "" {
				name = t.Field(i).Name
			}
			b.WriteString(name)
			b.WriteByte(':')
			canonInto(b, v.Field(i))
		}
		b.WriteByte('}')
	case reflect.Slice, reflect.Array:
		if v.Kind() == reflect.Slice && v.IsNil() {
			b.WriteString("nil")
			return
		}
		b.WriteByte('[')
		for i := 0; i < v.Len(); i++ {
			if i > 0 {
				b.WriteByte(' ')
			}
			canonInto(b, v.Index(i))
		}
		b.WriteByte(']')
	case reflect.Map:
		if v.IsNil() {
			b.WriteString("nil")
			return
		}
		keys := v.MapKeys()
		sort.Slice(keys, func(i, j int) bool { return keys[i].String() < keys[j].String() })
		b.WriteString("map[")
		for i, k := range keys {
			if i > 0 {
				b.WriteByte(' ')
			}
			b.WriteString(k.String())
			b.WriteByte(':')
			canonInto(b, v.MapIndex(k))
		}
		b.WriteByte(']')
	case reflect.String:
		b.WriteString(strconv.Quote(v.String()))
	default:
		if v.Type() == tDuration {
			fmt.Fprint(b, v.Interface())
			return
		}
		if n, ok := number(v); ok {
			b.WriteString(strconv.FormatFloat(n, 'g', -1, 64))
			return
		}
		fmt.Fprint(b, v.Interface())
	}
}

// declaresAlt: some field of the type declares validators under altTag.
func declaresAlt(t *tnode) bool {
	if t == nil {
		return false
	}
	for _, f := range t.fields {
		if !f.ignore && (len(f.alt) > 0 || declaresAlt(f.t)) {
			return true
		}
	}
	return declaresAlt(t.elem)
}

// edgeSuffix qualifies a signature when the value involved lies at the edge of
// its kind's range or is judged against a bound that does.
func edgeSuffix(v interface{}, vals []vtag) string {
	if _, isDur := v.(time.Duration); isDur {
		for _, t := range vals {
			if beyondParam(kDur, t) {
				return ":duration-bound-beyond-range"
			}
		}
	}
	for _, t := range vals {
		if isEdge(t.param) {
			return ":bound-at-the-edge-of-the-kind"
		}
	}
	if _, big := v.(uint64); big {
		return ":value-at-or-above-2^63"
	}
	if c := floatClass(v); c != "" {
		return ":value-" + c
	}
	if isEdgeValue(v) {
		return ":value-at-the-edge-of-the-kind"
	}
	return ""
}

// heldValue: the value the plan gives a leaf position (nil: none).
func heldValue(n *pnode) interface{} {
	switch {
	case n.inCfg && !n.cfgNull:
		return n.cfgVal
	case n.inPre && !n.inCfg:
		return n.preVal
	}
	return nil
}
