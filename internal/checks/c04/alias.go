package c04

import (
	"errors"
	"fmt"
	"math/rand"
	"reflect"
	"sort"
	"strings"

	ucfg "github.com/elastic/go-ucfg"

	"verif/internal/harness"
)

// Sixth wave: pre-filled OBJECT GRAPHS in which different values share one
// address. reflect.StructOf cannot build recursive types, so the graph is made
// of hand-written library types: a struct and its first field (embedded,
// named, or a pointer field), an array and its first element live at one
// address; the first field / element holds a pointer back to (or into) the
// value it is part of. The Unpack target reaches the graph through settings
// the configuration does not give (absent, explicit null, untouched slice
// elements / map entries, an interface{} field, InitDefaults), so everything
// in it is a "pre-filled default" that has to validate. Oracle: the same
// independent walk as everywhere else in this check (its visited set is keyed
// by type AND address) over the expected result.

// ABase / AComp: embedded first field with a pointer to its owner.
type ABase struct {
	Owner *AComp `config:"owner"`
	Link  *ABase `config:"link"`
	Tag   string `config:"tag" validate:"nonzero" check:"required"`
}

type AComp struct {
	ABase   `config:",inline"`
	Workers int     `config:"workers" validate:"min=1" check:"max=64"`
	Rate    float64 `config:"rate" validate:"positive" check:"nonzero"`
	Lvl     Level   `config:"lvl"`
	Span    Range   `config:"span"`
}

func (c *AComp) Validate() error {
	if c.Workers == 13 {
		return errors.New("c04lib: acomp with 13 workers")
	}
	return nil
}

// AHead / ABox: named (not embedded) first field.
type AHead struct {
	Up   *ABox `config:"up"`
	Mark int   `config:"mark" validate:"max=9" check:"positive"`
}

type ABox struct {
	Head AHead `config:"head"`
	Size int   `config:"size" validate:"positive" check:"min=-5"`
	Port Port  `config:"port"`
}

// ACell / AGrid: an array and its first element.
type ACell struct {
	Grid *AGrid `config:"grid"`
	V    int    `config:"v" validate:"max=9" check:"min=0"`
}

type AGrid [3]ACell

// ASelf: the first field is itself a pointer; &s.Me and s share one address.
type ASelf struct {
	Me *ASelf `config:"me"`
	N  int    `config:"n" validate:"min=1" check:"nonzero"`
}

// AInit: InitDefaults builds a component owning its own base on top of the
// pre-filled Seed and publishes the pointer to the base.
type AInit struct {
	Seed int    `config:"seed"`
	B    *ABase `config:"b"`
	N    int    `config:"n"`
}

func (a *AInit) InitDefaults() {
	c := &AComp{Workers: a.Seed, Rate: 1, Span: Range{Lo: 1, Hi: 2}}
	c.Tag = "init"
	c.Owner = c
	a.B = &c.ABase
}

// ATarget: the Unpack target; every field but Name / Init.N holds part of the graph.
type ATarget struct {
	Name string            `config:"name"`
	PB   *ABase            `config:"pb"`
	PH   *AHead            `config:"ph"`
	PC   *ACell            `config:"pc"`
	PS   **ASelf           `config:"ps"`
	LB   []*ABase          `config:"lb"`
	MH   map[string]*AHead `config:"mh"`
	IF   interface{}       `config:"if"`
	AC   [2]*ACell         `config:"ac"`
	PCo  *AComp            `config:"pco"`
	PBx  *ABox             `config:"pbx"`
	PG   *AGrid            `config:"pg"`
	Init AInit             `config:"init"`
}

// aSlot: one place of the graph that can be made invalid.
type aSlot struct {
	desc      string
	validator func(tag string) string // validator broken under the tag in force
	apply     func(tag string)
	at        seenRef // the struct value holding the slot
	inFirst   bool    // the slot lies inside the first field / first element
}

func refOf(p interface{}) seenRef {
	v := reflect.ValueOf(p)
	return seenRef{v.Type().Elem(), v.Pointer()}
}

func fixed(s string) func(string) string { return func(string) string { return s } }

func byTag(validate, check string) func(string) string {
	return func(tag string) string {
		if tag == altTag {
			return check
		}
		return validate
	}
}

type aGraph struct {
	comps []*AComp
	boxes []*ABox
	grids []*AGrid
	selfs []*ASelf
	free  []*ABase
	slots []aSlot
}

func pickIdx(r *rand.Rand, n int) int {
	if n == 0 {
		return -1
	}
	return r.Intn(n)
}

// genGraph draws the objects and their links; all values valid.
func genGraph(r *rand.Rand) *aGraph {
	g := &aGraph{}
	for i, n := 0, 1+r.Intn(3); i < n; i++ {
		c := &AComp{Workers: 1 + r.Intn(12), Rate: 0.5 + float64(r.Intn(4)), Lvl: Level(r.Intn(10)), Span: Range{Lo: r.Intn(3), Hi: 3 + r.Intn(3)}}
		c.Tag = fmt.Sprintf("c%d", i)
		g.comps = append(g.comps, c)
	}
	for i, n := 0, r.Intn(3); i < n; i++ {
		g.free = append(g.free, &ABase{Tag: fmt.Sprintf("f%d", i)})
	}
	bases := func() *ABase {
		if len(g.free) > 0 && r.Intn(3) == 0 {
			return g.free[r.Intn(len(g.free))]
		}
		return &g.comps[r.Intn(len(g.comps))].ABase
	}
	for _, c := range g.comps {
		switch r.Intn(4) {
		case 0, 1:
			c.Owner = c
		case 2:
			c.Owner = g.comps[r.Intn(len(g.comps))]
		}
		if r.Intn(3) == 0 {
			c.Link = bases()
		}
	}
	for _, f := range g.free {
		if r.Intn(2) == 0 {
			f.Owner = g.comps[r.Intn(len(g.comps))]
		}
		if r.Intn(3) == 0 {
			f.Link = bases()
		}
	}
	for i, n := 0, 1+r.Intn(2); i < n; i++ {
		g.boxes = append(g.boxes, &ABox{Head: AHead{Mark: r.Intn(10)}, Size: r.Intn(50), Port: Port(1 + r.Intn(60000))})
	}
	for _, b := range g.boxes {
		switch r.Intn(4) {
		case 0, 1:
			b.Head.Up = b
		case 2:
			b.Head.Up = g.boxes[r.Intn(len(g.boxes))]
		}
	}
	for i, n := 0, 1+r.Intn(2); i < n; i++ {
		gr := &AGrid{}
		for j := range gr {
			gr[j].V = r.Intn(10)
		}
		g.grids = append(g.grids, gr)
	}
	for _, gr := range g.grids {
		for j := range gr {
			switch r.Intn(3) {
			case 0:
				gr[j].Grid = gr
			case 1:
				gr[j].Grid = g.grids[r.Intn(len(g.grids))]
			}
		}
		if r.Intn(2) == 0 {
			gr[0].Grid = gr
		}
	}
	for i, n := 0, 1+r.Intn(2); i < n; i++ {
		g.selfs = append(g.selfs, &ASelf{N: 1 + r.Intn(5)})
	}
	for _, s := range g.selfs {
		switch r.Intn(4) {
		case 0, 1:
			s.Me = s
		case 2:
			s.Me = g.selfs[r.Intn(len(g.selfs))]
		}
	}

	// the places that can be made invalid
	for i, c := range g.comps {
		c := c
		at := refOf(c)
		n := fmt.Sprintf("comp%d.", i)
		g.slots = append(g.slots,
			aSlot{n + "Workers", byTag("min", "max"), func(tag string) {
				if tag == altTag {
					c.Workers = 65
				} else {
					c.Workers = 0
				}
			}, at, false},
			aSlot{n + "Rate", byTag("positive", "nonzero"), func(tag string) {
				if tag == altTag {
					c.Rate = 0
				} else {
					c.Rate = -1.5
				}
			}, at, false},
			aSlot{n + "Lvl", fixed("Validate"), func(string) { c.Lvl = 12 }, at, false},
			aSlot{n + "Span", fixed("Validate"), func(string) { c.Span = Range{Lo: 5, Hi: 1} }, at, false},
			aSlot{n + "Validate()", fixed("Validate"), func(string) { c.Workers = 13 }, at, false},
			aSlot{n + "ABase.Tag", byTag("nonzero", "required"), func(string) { c.Tag = "" }, at, true},
		)
	}
	for i, f := range g.free {
		f := f
		g.slots = append(g.slots, aSlot{fmt.Sprintf("free%d.Tag", i), byTag("nonzero", "required"), func(string) { f.Tag = "" }, refOf(f), false})
	}
	for i, b := range g.boxes {
		b := b
		at := refOf(b)
		n := fmt.Sprintf("box%d.", i)
		g.slots = append(g.slots,
			aSlot{n + "Size", byTag("positive", "min"), func(tag string) {
				if tag == altTag {
					b.Size = -9
				} else {
					b.Size = -3
				}
			}, at, false},
			aSlot{n + "Port", fixed("Validate"), func(string) { b.Port = 0 }, at, false},
			aSlot{n + "Head.Mark", byTag("max", "positive"), func(tag string) {
				if tag == altTag {
					b.Head.Mark = -1
				} else {
					b.Head.Mark = 11
				}
			}, at, true},
		)
	}
	for i, gr := range g.grids {
		gr := gr
		for j := range gr {
			j := j
			g.slots = append(g.slots, aSlot{fmt.Sprintf("grid%d[%d].V", i, j), byTag("max", "min"), func(tag string) {
				if tag == altTag {
					gr[j].V = -2
				} else {
					gr[j].V = 12
				}
			}, refOf(&gr[j]), j == 0})
		}
	}
	for i, s := range g.selfs {
		s := s
		g.slots = append(g.slots, aSlot{fmt.Sprintf("self%d.N", i), byTag("min", "nonzero"), func(string) { s.N = 0 }, refOf(s), false})
	}
	return g
}

// fillTarget draws what the target's fields hold and the configuration.
func fillTarget(r *rand.Rand, g *aGraph, t *ATarget, res *harness.R) map[string]interface{} {
	cfg := map[string]interface{}{"name": "x"}
	holder := func(field, what, setting string) {
		res.SetAdd("graph_holder", field+"="+what+":"+setting)
	}
	absentOrNull := func(field string) string {
		if r.Intn(5) == 0 {
			cfg[field] = nil
			return "null"
		}
		return "absent"
	}
	base := func() (*ABase, string) {
		if len(g.free) > 0 && r.Intn(4) == 0 {
			return g.free[r.Intn(len(g.free))], "free-standing-struct"
		}
		return &g.comps[r.Intn(len(g.comps))].ABase, "&embedded-first-field"
	}
	cell := func() (*ACell, string) {
		gr := g.grids[r.Intn(len(g.grids))]
		if r.Intn(4) == 0 {
			return &gr[1+r.Intn(2)], "&later-array-element"
		}
		return &gr[0], "&first-array-element"
	}
	if r.Intn(2) == 0 {
		var w string
		t.PB, w = base()
		holder("*ABase", w, absentOrNull("pb"))
	}
	if r.Intn(2) == 0 {
		t.PH = &g.boxes[r.Intn(len(g.boxes))].Head
		holder("*AHead", "&named-first-field", absentOrNull("ph"))
	}
	if r.Intn(2) == 0 {
		var w string
		t.PC, w = cell()
		holder("*ACell", w, absentOrNull("pc"))
	}
	if r.Intn(2) == 0 {
		s := g.selfs[r.Intn(len(g.selfs))]
		// **ASelf == &s.Me: the pointer to the first (pointer typed) field
		t.PS = &s.Me
		w := "&pointer-first-field"
		if s.Me == nil {
			w += "(nil)"
		}
		holder("**ASelf", w, absentOrNull("ps"))
	}
	if r.Intn(3) == 0 {
		n := 1 + r.Intn(3)
		setting := "absent"
		k := 0
		if r.Intn(2) == 0 {
			k = 1 + r.Intn(n) // the first k elements are given by the configuration
			if k == n {
				n++
			}
			var l []interface{}
			for i := 0; i < k; i++ {
				t.LB = append(t.LB, &ABase{Tag: "own"})
				l = append(l, map[string]interface{}{"tag": fmt.Sprintf("cfg%d", i)})
			}
			cfg["lb"] = l
			setting = "shorter-list"
		} else if r.Intn(4) == 0 {
			cfg["lb"] = nil
			setting = "null"
		}
		for i := k; i < n; i++ {
			b, w := base()
			t.LB = append(t.LB, b)
			holder("[]*ABase-element", w, setting)
		}
	}
	if r.Intn(3) == 0 {
		t.MH = map[string]*AHead{}
		setting := "absent"
		switch r.Intn(4) {
		case 0:
			cfg["mh"] = map[string]interface{}{}
			setting = "empty-object"
		case 1:
			cfg["mh"] = map[string]interface{}{"zz": map[string]interface{}{"mark": 3}}
			setting = "other-key"
		case 2:
			cfg["mh"] = nil
			setting = "null"
		}
		for i, n := 0, 1+r.Intn(2); i < n; i++ {
			t.MH[fmt.Sprintf("k%d", i)] = &g.boxes[r.Intn(len(g.boxes))].Head
			holder("map[string]*AHead-entry", "&named-first-field", setting)
		}
	}
	if r.Intn(3) == 0 {
		setting := absentOrNull("if")
		switch r.Intn(4) {
		case 0:
			b, w := base()
			t.IF = b
			holder("interface{}(*ABase)", w, setting)
		case 1:
			t.IF = &g.boxes[r.Intn(len(g.boxes))].Head
			holder("interface{}(*AHead)", "&named-first-field", setting)
		case 2:
			c, w := cell()
			t.IF = c
			holder("interface{}(*ACell)", w, setting)
		case 3:
			t.IF = &g.selfs[r.Intn(len(g.selfs))].Me
			holder("interface{}(**ASelf)", "&pointer-first-field", setting)
		}
	}
	if r.Intn(3) == 0 {
		setting := absentOrNull("ac")
		for i := range t.AC {
			if r.Intn(3) > 0 {
				var w string
				t.AC[i], w = cell()
				holder("[2]*ACell-element", w, setting)
			}
		}
	}
	// the enclosing values themselves
	if r.Intn(4) == 0 {
		t.PCo = g.comps[r.Intn(len(g.comps))]
		holder("*AComp", "enclosing-struct", absentOrNull("pco"))
	}
	if r.Intn(4) == 0 {
		t.PBx = g.boxes[r.Intn(len(g.boxes))]
		holder("*ABox", "enclosing-struct", absentOrNull("pbx"))
	}
	if r.Intn(4) == 0 {
		t.PG = g.grids[r.Intn(len(g.grids))]
		holder("*AGrid", "enclosing-array", absentOrNull("pg"))
	}
	return cfg
}

// routeClasses: for every struct value reachable from root, how the FIRST route
// to it (depth first, in field order) passes pointers sharing an address with a
// pointer of another type met before on that route ("" = no such pair).
func routeClasses(root reflect.Value) map[seenRef]string {
	out := map[seenRef]string{}
	seen := map[seenRef]bool{}
	var stack []seenRef
	var visit func(v reflect.Value, class string)
	visit = func(v reflect.Value, class string) {
		switch v.Kind() {
		case reflect.Ptr:
			if v.IsNil() {
				return
			}
			ref := seenRef{v.Type(), v.Pointer()}
			if seen[ref] {
				return
			}
			seen[ref] = true
			if class == "" {
				for _, e := range stack {
					if e.p == ref.p && e.t != ref.t {
						class = sharedClass(e.t, ref.t)
						break
					}
				}
			}
			stack = append(stack, ref)
			visit(v.Elem(), class)
			stack = stack[:len(stack)-1]
		case reflect.Interface:
			if !v.IsNil() {
				visit(v.Elem(), class)
			}
		case reflect.Struct:
			if v.CanAddr() {
				ref := seenRef{v.Type(), v.UnsafeAddr()}
				if _, ok := out[ref]; !ok {
					out[ref] = class
				}
			}
			for i := 0; i < v.NumField(); i++ {
				if exported(v.Type().Field(i)) {
					visit(v.Field(i), class)
				}
			}
		case reflect.Array, reflect.Slice:
			for i := 0; i < v.Len(); i++ {
				visit(v.Index(i), class)
			}
		case reflect.Map:
			keys := v.MapKeys()
			sort.Slice(keys, func(i, j int) bool { return fmt.Sprint(keys[i]) < fmt.Sprint(keys[j]) })
			for _, k := range keys {
				visit(v.MapIndex(k), class)
			}
		}
	}
	visit(root, "")
	return out
}

// sharedClass names the relation of two pointer types met at one address, in
// the order they were met.
func sharedClass(first, second reflect.Type) string {
	part := func(inner, outer reflect.Type) string {
		switch outer.Kind() {
		case reflect.Struct:
			if outer.NumField() > 0 && outer.Field(0).Type == inner {
				f := outer.Field(0)
				switch {
				case f.Anonymous:
					return "embedded-first-field"
				case inner.Kind() == reflect.Ptr:
					return "pointer-typed-first-field"
				}
				return "named-first-field"
			}
		case reflect.Array:
			if outer.Elem() == inner {
				return "first-array-element"
			}
		}
		return ""
	}
	if p := part(first.Elem(), second.Elem()); p != "" {
		return "below-pointer-to-" + p + "-then-pointer-to-enclosing-value"
	}
	if p := part(second.Elem(), first.Elem()); p != "" {
		return "below-pointer-to-enclosing-value-then-pointer-to-" + p
	}
	return "below-two-pointers-sharing-an-address"
}

func classOr(c string) string {
	if c == "" {
		return "no-shared-address-on-the-route"
	}
	return c
}

// graphProbe: one pre-filled graph, the faultless run and one injected fault.
func graphProbe(res *harness.R, seed int64, idx, round int, verbose bool) {
	r := rand.New(rand.NewSource(harness.Mix(seed, "C04graph", idx*8+round)))
	vopt := ""
	switch r.Intn(6) {
	case 0, 1:
		vopt = altTag
	case 2:
		vopt = "validate"
	}
	inForce := "validate"
	if vopt == altTag {
		inForce = altTag
	}
	opts := append([]ucfg.Option{}, unpackOpts...)
	if vopt != "" {
		opts = append(opts, ucfg.ValidatorTag(vopt))
	}
	withFault := r.Intn(4) > 0
	res.Ev("graph_probes", 1)

	// the same draw twice: the faultless graph, then the graph with one fault
	gseed := r.Int63()
	for pass := 0; pass < 2; pass++ {
		if pass == 1 && !withFault {
			break
		}
		gr := rand.New(rand.NewSource(gseed))
		g := genGraph(gr)
		t := &ATarget{}
		t.Init.Seed = 3
		cfg := fillTarget(gr, g, t, res)
		if gr.Intn(2) == 0 {
			cfg["init"] = map[string]interface{}{"n": 4}
		}
		var slot *aSlot
		initFault := false
		if pass == 1 {
			if gr.Intn(8) == 0 {
				// InitDefaults builds the invalid component
				initFault = true
				t.Init.Seed = 0
				if inForce == altTag {
					t.Init.Seed = 65
				}
			} else {
				// the places outside the first field / element, reached below two
				// pointers sharing an address, are the interesting ones; one fault
				// in eight may sit anywhere (also out of reach of the target)
				pre := *t
				pre.Init.InitDefaults()
				reach := routeClasses(reflect.ValueOf(&pre).Elem())
				var shared, out, in, all []int
				for i, s := range g.slots {
					all = append(all, i)
					c, ok := reach[s.at]
					switch {
					case !ok:
					case s.inFirst:
						in = append(in, i)
					case c != "":
						shared = append(shared, i)
					default:
						out = append(out, i)
					}
				}
				pick := all
				switch x := gr.Intn(8); {
				case x < 4 && len(shared) > 0:
					pick = shared
				case x < 6 && len(out) > 0:
					pick = out
				case x < 7 && len(in) > 0:
					pick = in
				}
				slot = &g.slots[pick[gr.Intn(len(pick))]]
				slot.apply(inForce)
			}
		}

		// expected result: the target as it is, Init after its own InitDefaults
		model := *t
		model.Init.InitDefaults()
		classes := routeClasses(reflect.ValueOf(&model).Elem())
		var want []finding
		walkValue(reflect.ValueOf(&model).Elem(), "", "field", inForce, &want)
		shared := 0
		for _, c := range classes {
			if c != "" {
				shared++
			}
		}
		res.Ev("graph_structs_reached_below_pointers_sharing_an_address", int64(shared))
		if shared > 0 {
			res.Ev("graph_runs_with_shared_address_on_a_route", 1)
		}
		for _, c := range classes {
			res.SetAdd("graph_route_class", classOr(c))
		}

		desc := func() string {
			return fmt.Sprintf("hand-written graph types (alias.go); ValidatorTag option %q; config %v; pre-filled target %s", vopt, cfg, canonGraph(t))
		}
		preDesc := desc()

		var err, newErr error
		panicked, pv, where := harness.Safe(func() {
			c, e := ucfg.NewFrom(cfg, unpackOpts...)
			if e != nil {
				newErr = e
				return
			}
			err = c.Unpack(t, opts...)
		})
		res.Eval(2)
		if panicked {
			res.Violate(panicSig(where)+":prefilled-graph", "Unpack panicked: %s; %s", pv, preDesc)
			return
		}
		if newErr != nil {
			res.Inconc("graph probe: NewFrom failed: %v", newErr)
			return
		}

		faultClass := ""
		faultDesc := "none"
		switch {
		case slot != nil:
			c, reached := classes[slot.at]
			faultDesc = slot.desc + " breaks " + slot.validator(inForce)
			if !reached {
				faultClass = "unreachable"
			} else {
				faultClass = classOr(c)
			}
		case initFault:
			faultDesc = "AInit.InitDefaults builds a component with Workers=Seed breaking " + byTag("min", "max")(inForce)
			faultClass = classOr(classes[refOf(model.Init.B.Owner)])
		}

		if len(want) == 0 {
			// nothing reachable is invalid (no fault, or the fault is not reachable)
			if pass == 1 {
				res.Ev("graph_faults_not_reachable_from_the_target", 1)
				if faultClass != "unreachable" {
					res.Inconc("graph probe: fault %s reachable (%s) but the walk finds nothing; %s", faultDesc, faultClass, preDesc)
					return
				}
			} else {
				res.Ev("graph_valid_runs", 1)
			}
			if err != nil {
				res.Violate("valid-input-rejected:prefilled-graph", "Unpack failed (%v) although every reachable value is valid (fault: %s); %s", err, faultDesc, preDesc)
				return
			}
			var after []finding
			walkValue(reflect.ValueOf(t).Elem(), "", "field", inForce, &after)
			if len(after) > 0 {
				res.Violate("accepted-invalid:prefilled-graph:"+after[0].validator+":result-of-valid-input", "Unpack returned nil, the result holds %+v; %s", after[0], preDesc)
				return
			}
			continue
		}
		if pass == 0 {
			res.Inconc("graph probe: faultless graph invalid for the walk: %+v; %s", want[0], preDesc)
			return
		}
		res.Ev("graph_fault_runs", 1)
		res.Key("graph:" + hashKey(preDesc+faultDesc))
		res.SetAdd("graph_fault", want[0].validator+":"+faultClass)
		if faultClass != "" && faultClass != "no-shared-address-on-the-route" && (slot == nil || !slot.inFirst) {
			res.Ev("graph_faults_outside_the_first_field_reached_below_pointers_sharing_an_address", 1)
		}
		if err == nil {
			res.Violate("accepted-invalid:prefilled-graph:"+want[0].validator+":"+faultClass,
				"Unpack returned nil although %s (oracle: %+v, %d findings); %s", faultDesc, want[0], len(want), preDesc)
			return
		}
		// the error names the faulty field or a setting enclosing it
		// (a value reachable through several settings may be reported under any of them)
		named := false
		for _, f := range append(perHolder(&model, inForce), want...) {
			segs := strings.Split(f.path, ".")
			for i := len(segs); i > 0 && !named; i-- {
				named = namesPath(err.Error(), strings.Join(segs[:i], "."))
			}
		}
		if !named {
			res.Violate("error-does-not-name-field:prefilled-graph", "error %q names neither %s nor a setting enclosing it (fault: %s); %s", err, want[0].path, faultDesc, preDesc)
			return
		}
	}
}

// canonGraph renders the target for messages; shared and cyclic pointers are
// shown once and then by reference.
func canonGraph(t *ATarget) string {
	var b strings.Builder
	ids := map[seenRef]int{}
	addrs := map[uintptr]int{}
	var show func(v reflect.Value)
	show = func(v reflect.Value) {
		switch v.Kind() {
		case reflect.Ptr:
			if v.IsNil() {
				b.WriteString("nil")
				return
			}
			ref := seenRef{v.Type(), v.Pointer()}
			if id, ok := ids[ref]; ok {
				fmt.Fprintf(&b, "->#%d", id)
				return
			}
			ids[ref] = len(ids) + 1
			fmt.Fprintf(&b, "&#%d(%s)", ids[ref], v.Type().Elem().String())
			if first, ok := addrs[v.Pointer()]; ok {
				fmt.Fprintf(&b, "(same address as #%d)", first)
			} else {
				addrs[v.Pointer()] = ids[ref]
			}
			show(v.Elem())
		case reflect.Interface:
			if v.IsNil() {
				b.WriteString("nil")
				return
			}
			b.WriteString("iface:")
			show(v.Elem())
		case reflect.Struct:
			b.WriteByte('{')
			for i := 0; i < v.NumField(); i++ {
				if i > 0 {
					b.WriteByte(' ')
				}
				b.WriteString(v.Type().Field(i).Name + ":")
				show(v.Field(i))
			}
			b.WriteByte('}')
		case reflect.Slice, reflect.Array:
			b.WriteByte('[')
			for i := 0; i < v.Len(); i++ {
				if i > 0 {
					b.WriteByte(' ')
				}
				show(v.Index(i))
			}
			b.WriteByte(']')
		case reflect.Map:
			keys := v.MapKeys()
			sort.Slice(keys, func(i, j int) bool { return keys[i].String() < keys[j].String() })
			b.WriteString("map[")
			for i, k := range keys {
				if i > 0 {
					b.WriteByte(' ')
				}
				b.WriteString(k.String() + ":")
				show(v.MapIndex(k))
			}
			b.WriteByte(']')
		default:
			fmt.Fprint(&b, v.Interface())
		}
	}
	show(reflect.ValueOf(t).Elem())
	return b.String()
}

// perHolder walks every top-level field, slice / array element and map entry
// of the target on its own (fresh visited set): all the paths under which an
// invalid value shared by several settings can be reported.
func perHolder(t *ATarget, tag string) []finding {
	var out []finding
	v := reflect.ValueOf(t).Elem()
	for i := 0; i < v.NumField(); i++ {
		name, _, _ := parseConfigTag(v.Type().Field(i))
		f := v.Field(i)
		switch f.Kind() {
		case reflect.Slice, reflect.Array:
			for j := 0; j < f.Len(); j++ {
				walkValue(f.Index(j), join(name, fmt.Sprint(j)), "slice-elem", tag, &out)
			}
		case reflect.Map:
			for _, k := range f.MapKeys() {
				walkValue(f.MapIndex(k), join(name, k.String()), "map-entry", tag, &out)
			}
		default:
			walkValue(f, name, "field", tag, &out)
		}
	}
	return out
}
