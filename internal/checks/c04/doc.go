// Package c04: see DESIGN.md section 3 C04.
package c04
