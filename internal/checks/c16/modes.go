package c16

import (
	"fmt"
	"math/rand"
	"strconv"

	ucfg "github.com/elastic/go-ucfg"

	"verif/internal/gen"
	"verif/internal/model"
)

// pathSepPlacementClaimed: the statement speaks of "a dotted field path" and
// the options document their names as dot notation; neither makes the effect
// depend on a PathSep option standing in front of them. With true the position
// of PathSep (first / after the field options / absent) is a dimension of the
// workload and the result must be the same; with false PathSep is always given
// first (see Assumptions).
const pathSepPlacementClaimed = true

const (
	psFirst = iota
	psLast
	psAbsent
	psMiddle // after the first field option of the call (with one option: after it)
)

var psNames = [...]string{"first", "after the field options", "absent", "after the first field option"}

// separators other than "." a call may configure for the names of its DATA.
// Field option paths stay dotted (statement: "a dotted field path"). No key and
// no field path of the workload contains one of them, so the trees mean the
// same under every separator.
var otherSeps = []string{"/", "::", "_"}

// modes are the special dimensions of one case.
type modes struct {
	ps  int    // placement of the PathSep option
	sep string // its separator ("" iff ps == psAbsent)

	// folded spelling of the data (sixth wave): object-valued settings are
	// written as keys joined with sep ("a/b": v instead of a: {b: v})
	fold     bool
	foldSeed int64

	// set by classify for the call it looks at: the call gives the statement's
	// result when its separator is replaced by "."
	sepDecides bool

	num      int               // index into numOptions, -1: no numeric names
	numLate  bool              // the option stands after the field options
	numMap   map[string]string // letter key -> numeric name
	numNames map[string]bool   // the numeric names in use

	long     bool // a list longer than the default MaxIdx on an option path
	longN    int
	longIdx  int
	longMax  bool // MaxIdx(5000) is given
	longLate bool
}

func drawModes(r *rand.Rand) *modes {
	m := &modes{num: -1}
	switch x := r.Intn(100); {
	case x < 2:
		m.long = true
		m.longMax = r.Intn(2) == 0
		m.longLate = r.Intn(2) == 0
	case x < 14:
		m.num = r.Intn(len(numOptions))
		m.numLate = r.Intn(2) == 0
	}
	if pathSepPlacementClaimed {
		switch x := r.Intn(100); {
		case x < 4:
			m.ps = psLast
		case x < 8:
			m.ps = psAbsent
		case x < 11:
			m.ps = psMiddle
		}
	}
	m.sep = "."
	if r.Intn(5) == 0 {
		m.sep = otherSeps[r.Intn(len(otherSeps))]
	}
	m.fold = r.Intn(3) == 0
	m.foldSeed = r.Int63()
	if m.ps == psAbsent {
		m.sep, m.fold = "", false // without PathSep names are not split at all
	}
	return m
}

func (m *modes) String() string {
	s := ""
	switch m.ps {
	case psLast:
		s += " PathSep after the field options"
	case psAbsent:
		s += " no PathSep"
	case psMiddle:
		s += " PathSep after the first field option"
	}
	if m.sep != "." && m.sep != "" {
		s += fmt.Sprintf(" PathSep(%q)", m.sep)
	}
	if m.fold {
		s += fmt.Sprintf(" [object-valued settings of the data partly spelled as keys joined with %q]", m.sep)
	}
	if m.num >= 0 {
		s += fmt.Sprintf(" numeric names %v kept by %s", m.numMap, numOptions[m.num].name)
	}
	if m.long {
		s += fmt.Sprintf(" list of %d elements, option for position %d", m.longN, m.longIdx)
		if m.longMax {
			s += ", MaxIdx(5000)"
		}
	}
	return s
}

// show renders a tree for a description (long lists shortened).
func (m *modes) show(n *model.Node) string {
	s := n.String()
	if m.long && len(s) > 700 {
		s = s[:350] + " ... " + s[len(s)-350:]
	}
	return s
}

// options assembles the option list of one Merge call.
func (m *modes) options(gopts, fieldOpts []ucfg.Option) []ucfg.Option {
	var early, late []ucfg.Option
	add := func(o ucfg.Option, isLate bool) {
		if isLate {
			late = append(late, o)
		} else {
			early = append(early, o)
		}
	}
	if m.num >= 0 {
		switch numOptions[m.num].name {
		case "EnableNumKeys(true)":
			add(ucfg.EnableNumKeys(true), m.numLate)
		case "MaxIdx(0)":
			add(ucfg.MaxIdx(0), m.numLate)
		case "MaxIdx(7)":
			add(ucfg.MaxIdx(7), m.numLate)
		case "MaxIdx(19)":
			add(ucfg.MaxIdx(19), m.numLate)
		}
	}
	if m.long && m.longMax {
		add(ucfg.MaxIdx(5000), m.longLate)
	}
	var opts []ucfg.Option
	if m.ps == psFirst {
		opts = append(opts, ucfg.PathSep(m.sep))
	}
	opts = append(opts, early...)
	opts = append(opts, gopts...)
	for i, f := range fieldOpts {
		opts = append(opts, f)
		if i == 0 && m.ps == psMiddle {
			opts = append(opts, ucfg.PathSep(m.sep))
		}
	}
	if len(fieldOpts) == 0 && m.ps == psMiddle {
		opts = append(opts, ucfg.PathSep(m.sep))
	}
	opts = append(opts, late...)
	if m.ps == psLast {
		opts = append(opts, ucfg.PathSep(m.sep))
	}
	return opts
}

// otherSep: the call configures a separator other than ".".
func (m *modes) otherSep() bool { return m.sep != "." && m.sep != "" }

// afterOtherSep: the i-th field option of a call stands behind a PathSep with
// a separator other than ".".
func (m *modes) afterOtherSep(i int) bool {
	return m.otherSep() && (m.ps == psFirst || (m.ps == psMiddle && i >= 1))
}

// toGo is the Go value handed to Merge for the tree n: nested maps and slices,
// and in fold mode some object-valued settings spelled as keys joined with the
// call's separator, at any depth, also several levels in one key. The spelling
// of a tree is the same in every call of the case.
func (m *modes) toGo(n *model.Node) interface{} {
	if !m.fold || m.sep == "" {
		return n.ToGo()
	}
	c := 0
	return m.spell(rand.New(rand.NewSource(m.foldSeed)), n, &c)
}

// foldedKeys counts the joined keys toGo writes for n.
func (m *modes) foldedKeys(n *model.Node) int {
	c := 0
	if m.fold && m.sep != "" {
		m.spell(rand.New(rand.NewSource(m.foldSeed)), n, &c)
	}
	return c
}

func (m *modes) spell(r *rand.Rand, n *model.Node, folded *int) interface{} {
	if n == nil || !n.IsSub() {
		return n.ToGo()
	}
	if len(n.D) == 0 {
		if !n.HasA && len(n.A) == 0 {
			return n.ToGo()
		}
		l := make([]interface{}, 0, len(n.A))
		for _, v := range n.A {
			l = append(l, m.spell(r, v, folded))
		}
		return l
	}
	out := make(map[string]interface{}, len(n.D))
	for _, k := range n.SortedKeys() {
		m.put(r, out, k, isNum(k), n.D[k], folded)
	}
	return out
}

// put writes the setting name (hasNum: one of its components is numeric) with
// value v into out, as it is or folded with its children's names. Under
// EnableNumKeys a numeric component of a JOINED key is read as a position (the
// option is documented for whole keys, path.go falls back to positions for
// names with separators; numeric segments are C20's matter): such keys are not
// written.
func (m *modes) put(r *rand.Rand, out map[string]interface{}, name string, hasNum bool, v *model.Node, folded *int) {
	if v.IsSub() && len(v.D) > 0 && r.Intn(2) == 0 {
		ok := true
		if m.num >= 0 && numOptions[m.num].name == "EnableNumKeys(true)" {
			ok = !hasNum
			for k := range v.D {
				if isNum(k) {
					ok = false
				}
			}
		}
		if ok {
			for _, k := range v.SortedKeys() {
				*folded++
				m.put(r, out, name+m.sep+k, hasNum || isNum(k), v.D[k], folded)
			}
			return
		}
	}
	out[name] = m.spell(r, v, folded)
}

// renameNumeric turns one or two of the key names into numeric names, in both
// trees, the option paths and the decoys.
func (m *modes) renameNumeric(r *rand.Rand, a, b *model.Node, fos []fopt, decoys []decoy) {
	var pool []string
	for _, n := range numNames {
		if v, _ := strconv.Atoi(n); v > numOptions[m.num].max {
			pool = append(pool, n)
		}
	}
	m.numMap = map[string]string{}
	m.numNames = map[string]bool{}
	keys := r.Perm(len(gen.Keys))
	names := r.Perm(len(pool))
	for i, n := 0, 1+r.Intn(2); i < n; i++ {
		m.numMap[gen.Keys[keys[i]]] = pool[names[i]]
		m.numNames[pool[names[i]]] = true
	}
	rename(a, m.numMap)
	rename(b, m.numMap)
	for i := range fos {
		fos[i].path = renamePath(fos[i].path, m.numMap)
	}
	for i := range decoys {
		decoys[i].path = renamePath(decoys[i].path, m.numMap)
	}
}

func (m *modes) throughNumericName(p []string) bool {
	for _, s := range p {
		if m.numNames[s] {
			return true
		}
	}
	return false
}

// plantLongList plants, at a place named by one or two keys, a list of more
// than 1024 elements in both trees and points the first concrete option (else
// the first option) at one of its last positions, or at a setting of that
// element. Options that are no longer compatible are dropped.
func (m *modes) plantLongList(r *rand.Rand, a, b *model.Node, fos []fopt, prims []interface{}) []fopt {
	at := 0
	for i, f := range fos {
		if !isDoubleStar(f.path) {
			at = i
			break
		}
	}
	var prefix []string
	for i, n := 0, 1+r.Intn(2); i < n; i++ {
		prefix = append(prefix, gen.Keys[r.Intn(len(gen.Keys))])
	}
	m.longIdx = []int{1023, 1024, 1025, 1026, 1031}[r.Intn(5)]
	m.longN = m.longIdx + 1 + r.Intn(3)
	tail := ""
	if r.Intn(2) == 0 {
		tail = gen.Keys[r.Intn(len(gen.Keys))]
	}
	mk := func() *model.Node {
		l := model.List()
		for i := 0; i < m.longN; i++ {
			var e *model.Node = model.List(model.P(prims[r.Intn(len(prims))]))
			if tail != "" {
				e = model.Dict().Set(tail, e)
			}
			l.A = append(l.A, e)
		}
		return l
	}
	plant(a, prefix, mk())
	plant(b, prefix, mk())
	p := append(append([]string{}, prefix...), strconv.Itoa(m.longIdx))
	if tail != "" {
		p = append(p, tail)
	}
	fos[at].path = p
	kept := []fopt{fos[at]}
	for i, f := range fos {
		if i != at && compatible(f.path, p) {
			kept = append(kept, f)
		}
	}
	return kept
}

// positionAbove1024: the path has a list position above the default MaxIdx.
func positionAbove1024(p []string) bool {
	for _, s := range p {
		if v, err := strconv.Atoi(s); err == nil && v > 1024 {
			return true
		}
	}
	return false
}

// lostOptionSig names the reason, if it is one of the structural ones, why the
// option fs[i] should have been lost altogether.
func (m *modes) lostOptionSig(fs []fopt, i int) string {
	p := fs[i].path
	for j, s := range p {
		if s == "**" && len(p)-j-1 >= 2 {
			return "double-star-followed-by-several-components-never-applies"
		}
	}
	for k, w := range fs {
		if k == i || !isDoubleStar(w.path) {
			continue
		}
		if !isDoubleStar(p) {
			for e := 1; e < len(p); e++ {
				if matchEnd(p[:e], w.path) == e {
					return "option-below-a-node-matched-by-**-is-lost"
				}
			}
		}
		if isDoubleStar(p) && p[0] != "**" {
			return "inner-**-lost-next-to-another-**"
		}
	}
	switch {
	case m.sepDecides && m.afterOtherSep(i):
		return "field-option-ignored-when-pathsep-other-than-dot-precedes-it"
	case m.num >= 0 && m.throughNumericName(p):
		return "field-path-through-numeric-name-not-honoured"
	case m.long && positionAbove1024(p):
		return "field-path-position-above-1024-not-honoured"
	}
	return ""
}
