package c16

import (
	"math/rand"
	"strconv"

	"verif/internal/gen"
	"verif/internal/model"
)

// Field paths as patterns. A component is a name, a list position, "*" (any
// position, only used alone, see Assumptions) or "**" (any number of
// components, also none). A pattern addresses every node whose whole path it
// matches; the subtree of an option is everything at and below such a node.

// matchEnd gives the length of the longest prefix of q that pattern p matches
// completely (-1: none), i.e. the innermost node on the way to q at which a
// subtree of the option starts.
func matchEnd(q, p []string) int {
	if len(p) == 0 {
		return 0
	}
	if p[0] == "**" {
		best := -1
		for s := len(q); s >= 0; s-- {
			if e := matchEnd(q[s:], p[1:]); e >= 0 && s+e > best {
				best = s + e
			}
		}
		return best
	}
	if len(q) == 0 || !segMatch(p[0], q[0]) {
		return -1
	}
	if e := matchEnd(q[1:], p[1:]); e >= 0 {
		return 1 + e
	}
	return -1
}

// isDoubleStar: the pattern uses "**" somewhere.
func isDoubleStar(p []string) bool { return contains(p, "**") }

// simpleDoubleStar: the form **.name.
func simpleDoubleStar(p []string) bool { return len(p) == 2 && p[0] == "**" && p[1] != "**" }

func last(p []string) string { return p[len(p)-1] }

// dsForm names the shape of a ** pattern for the monitors.
func dsForm(p []string) string {
	s := ""
	for i, c := range p {
		if i > 0 {
			s += "."
		}
		switch {
		case c == "**":
			s += "**"
		case isNum(c):
			s += "idx"
		default:
			s += "name"
		}
	}
	return s
}

// genDoubleStar draws a pattern with "**": **.n, **.n.m, n.**.m, n.**.m.k, **.n.**.m
func genDoubleStar(r *rand.Rand) []string {
	k := func() string { return gen.Keys[r.Intn(len(gen.Keys))] }
	switch x := r.Intn(20); {
	case x < 9:
		return []string{"**", k()}
	case x < 13:
		return []string{"**", k(), k()}
	case x < 17:
		return []string{k(), "**", k()}
	case x < 18:
		return []string{k(), "**", k(), k()}
	case x < 19:
		return []string{"**", k(), strconv.Itoa(r.Intn(2))}
	default:
		return []string{"**", k(), "**", k()}
	}
}

// instantiate gives one concrete path the pattern addresses: every "**" stands
// for 0-2 names.
func instantiate(r *rand.Rand, p []string) []string {
	var q []string
	for _, c := range p {
		if c == "**" {
			for i, n := 0, r.Intn(3); i < n; i++ {
				q = append(q, gen.Keys[r.Intn(len(gen.Keys))])
			}
			continue
		}
		q = append(q, c)
	}
	return q
}

// nestedPartner derives a path whose subtrees nest with those of p across a
// "**": a concrete path below a place **.name addresses, or a **.name that
// addresses a node on the way to the concrete p.
func nestedPartner(r *rand.Rand, p []string) []string {
	k := func() string { return gen.Keys[r.Intn(len(gen.Keys))] }
	switch {
	case isStarForm(p):
		return genDoubleStar(r)
	case isDoubleStar(p):
		q := instantiate(r, p)
		q = append(q, k())
		if r.Intn(3) == 0 {
			q = append(q, k())
		}
		return q
	case len(p) >= 2:
		at := r.Intn(len(p) - 1)
		if isNum(p[at]) {
			return genDoubleStar(r)
		}
		return []string{"**", p[at]}
	}
	return []string{"**", k(), p[0]}
}

// namesOnly: the pattern consists of names and "**" (no positions, no "*").
func namesOnly(p []string) bool {
	for _, s := range p {
		if s != "**" && (isNum(s) || s == "*") {
			return false
		}
	}
	return true
}

// removeMatching deletes every named setting whose path pattern p addresses.
func removeMatching(n *model.Node, path []string, p []string) {
	if !n.IsSub() {
		return
	}
	for k, c := range n.D {
		q := appendPath(path, k)
		if matchEnd(q, p) == len(q) {
			delete(n.D, k)
			continue
		}
		removeMatching(c, q, p)
	}
	for i, c := range n.A {
		removeMatching(c, appendPath(path, strconv.Itoa(i)), p)
	}
}

// --- numeric names ---------------------------------------------------------

// numNames are setting NAMES that look like numbers. They are above every list
// length the trees of a case can reach, so that a name and a position never
// render alike in a node holding both a dictionary and a list part.
var numNames = []string{"20", "37", "64", "1024", "1100", "2000"}

// numOptions keep such names names: EnableNumKeys, or a MaxIdx below them.
var numOptions = []struct {
	name string
	max  int // names must be above max (-1: any)
}{
	{"EnableNumKeys(true)", -1},
	{"MaxIdx(0)", 0},
	{"MaxIdx(7)", 7},
	{"MaxIdx(19)", 19},
	{"MaxIdx(1024)+names>1024", 1024},
}

// rename applies the renaming m to every dictionary key of n.
func rename(n *model.Node, m map[string]string) {
	if !n.IsSub() {
		return
	}
	if len(n.D) > 0 {
		d := make(map[string]*model.Node, len(n.D))
		for k, c := range n.D {
			if nk, ok := m[k]; ok {
				k = nk
			}
			d[k] = c
		}
		n.D = d
	}
	for _, c := range n.D {
		rename(c, m)
	}
	for _, c := range n.A {
		rename(c, m)
	}
}

func renamePath(p []string, m map[string]string) []string {
	q := make([]string, len(p))
	for i, s := range p {
		if ns, ok := m[s]; ok {
			s = ns
		}
		q[i] = s
	}
	return q
}
