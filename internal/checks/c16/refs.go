package c16

import (
	"fmt"
	"math/rand"
	"sort"
	"strconv"
	"strings"

	ucfg "github.com/elastic/go-ucfg"

	"verif/internal/gen"
	"verif/internal/model"
)

// Destinations holding references. A setting of the destination A whose value
// is an object or a list is moved to a top-level setting r<i> (a name no tree
// and no option uses) and replaced by the reference ${r<i>} (optionally
// through a chain ${r<i>} -> ${r<i>x}). With VarExp on, merging B onto such a
// setting merges into a private copy of the referenced value: the referencing
// setting becomes the merged value, the referenced one stays as it was. The
// result, without the r<i> settings, must be the one the same call gives for
// the literal tree A (differential twin), whatever per-field options are given:
// the options name paths of the REFERENCING settings.

// noDollar is the primitive pool without strings VarExp would read as syntax.
var noDollar = func() []interface{} {
	var l []interface{}
	for _, p := range gen.Prims {
		if s, ok := p.(string); ok && strings.Contains(s, "$") {
			continue
		}
		l = append(l, p)
	}
	return l
}()

type refSite struct {
	path  []string
	key   string
	chain bool
	list  bool
	want  string // canonical value of the subtree that was moved
	orig  *model.Node
}

func (s refSite) String() string {
	c := ""
	if s.chain {
		c = " via chain"
	}
	return fmt.Sprintf("%s=${%s}%s", strings.Join(s.path, "."), s.key, c)
}

// containerPaths lists the paths of all non-empty containers below n.
func containerPaths(n *model.Node, p []string, out *[][]string) {
	if !n.IsSub() || len(p) >= 4 {
		return
	}
	for _, k := range n.SortedKeys() {
		c := n.D[k]
		if c.IsSub() && len(c.D)+len(c.A) > 0 {
			q := appendPath(p, k)
			*out = append(*out, q)
			containerPaths(c, q, out)
		}
	}
	for i, c := range n.A {
		if c.IsSub() && len(c.D)+len(c.A) > 0 {
			q := appendPath(p, strconv.Itoa(i))
			*out = append(*out, q)
			containerPaths(c, q, out)
		}
	}
}

// swapAt puts v at path p of n and returns what was there.
func swapAt(n *model.Node, p []string, v *model.Node) *model.Node {
	n = nodeAt(n, p[:len(p)-1])
	s := p[len(p)-1]
	if old, ok := n.D[s]; ok {
		n.D[s] = v
		return old
	}
	i, _ := strconv.Atoi(s)
	old := n.A[i]
	n.A[i] = v
	return old
}

// nodeAt returns the node at path p, nil if there is none. A component
// addresses the named setting of that name, else (a number) the list position.
func nodeAt(n *model.Node, p []string) *model.Node {
	for _, s := range p {
		if !n.IsSub() {
			return nil
		}
		if c, ok := n.D[s]; ok {
			n = c
			continue
		}
		i, err := strconv.Atoi(s)
		if err != nil || i < 0 || i >= len(n.A) {
			return nil
		}
		n = n.A[i]
	}
	return n
}

func related(q, p []string) bool {
	return model.HasPrefix(q, p) || model.HasPrefix(p, q)
}

// buildRefTree derives the destination with references from a (a top-level
// dictionary). Sites on, above or below an option path or a decoy are preferred.
func buildRefTree(r *rand.Rand, a *model.Node, fos []fopt, decoys []decoy) (*model.Node, []refSite) {
	var all, near [][]string
	containerPaths(a, nil, &all)
	for _, q := range all {
		hit := false
		for _, f := range fos {
			if isDoubleStar(f.path) {
				if contains(q, last(f.path)) {
					hit = true
				}
			} else if related(q, f.path) {
				hit = true
			}
		}
		for _, d := range decoys {
			if related(q, d.path) {
				hit = true
			}
		}
		if hit {
			near = append(near, q)
		}
	}
	if len(all) == 0 {
		return nil, nil
	}
	n := 1
	if r.Intn(5) < 2 {
		n = 2
	}
	var sites []refSite
	for i := 0; i < n; i++ {
		pool := all
		if len(near) > 0 && r.Intn(4) > 0 {
			pool = near
		}
		q := pool[r.Intn(len(pool))]
		dup := false
		for _, s := range sites {
			if samePath(s.path, q) {
				dup = true
			}
		}
		if !dup {
			sites = append(sites, refSite{path: q, chain: r.Intn(3) == 0})
		}
	}
	// deepest first: a site inside another site's value ends up inside the
	// referenced value (a reference found while merging through a reference)
	sort.SliceStable(sites, func(i, j int) bool { return len(sites[i].path) > len(sites[j].path) })
	t := a.Copy()
	for i := range sites {
		s := &sites[i]
		s.key = "r" + strconv.Itoa(i)
		orig := swapAt(a.Copy(), s.path, model.Nil()) // the literal value (references inlined)
		s.want = orig.Canon()
		s.orig = orig
		s.list = len(orig.D) == 0
		moved := swapAt(t, s.path, model.P("${"+s.key+"}"))
		if s.chain {
			t.D[s.key] = model.P("${" + s.key + "x}")
			t.D[s.key+"x"] = moved
		} else {
			t.D[s.key] = moved
		}
	}
	return t, sites
}

// mergeLibRef merges aRef then b with VarExp on and observes the result without
// the r<i> settings; problem names a referenced setting that changed.
func mergeLibRef(md *modes, aRef, b *model.Node, sites []refSite, opts []ucfg.Option) (got string, problem string, err error) {
	opts = append(append([]ucfg.Option{}, opts...), ucfg.VarExp)
	c := ucfg.New()
	for _, t := range []*model.Node{aRef, b} {
		if err := c.Merge(md.toGo(t), opts...); err != nil {
			return "", "", fmt.Errorf("merge: %w", err)
		}
	}
	var m map[string]interface{}
	var l []interface{}
	if err := c.Unpack(&m, ucfg.PathSep("."), ucfg.VarExp); err != nil {
		return "", "", fmt.Errorf("unpack into map: %w", err)
	}
	if err := c.Unpack(&l, ucfg.PathSep("."), ucfg.VarExp); err != nil {
		return "", "", fmt.Errorf("unpack into slice: %w", err)
	}
	for _, s := range sites {
		for _, k := range []string{s.key, s.key + "x"} {
			v, ok := m[k]
			if !ok {
				if k == s.key || s.chain {
					problem = fmt.Sprintf("referenced setting %s is gone", k)
				}
				continue
			}
			if c := model.CanonIfc(v); c != s.want {
				problem = fmt.Sprintf("referenced setting %s now reads %s, before the merge %s", k, c, s.want)
			}
			delete(m, k)
		}
	}
	return model.CanonIfc(m) + "|" + model.CanonIfc(l), problem, nil
}

// withReferenced returns y naming the referenced settings as well, with the
// (literal) values they have in the destination. Under a global ReplaceValues
// the top level keeps only what the new value names: this way the settings the
// references point to survive, with the value they had.
func withReferenced(y *model.Node, sites []refSite) *model.Node {
	t := y.Copy()
	if t.D == nil {
		t.D = map[string]*model.Node{}
	}
	for _, s := range sites {
		t.D[s.key] = s.orig.Copy()
		if s.chain {
			t.D[s.key+"x"] = s.orig.Copy()
		}
	}
	return t
}
