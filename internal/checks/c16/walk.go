package c16

import (
	"strconv"

	"verif/internal/model"
)

// The policy walk of C16. It is the merge model of C01 (internal/model) with
// one difference, which only shows when policies NEST:
//
// The statement says that the subtree at an option's path "is merged as if the
// named policy were the global one", everything else as under the global
// policy. Under a replace policy the named settings of B replace those of A:
// the node's key set is B's, and a child that is not the start of an option's
// subtree is B's child. A child at which an option with ANOTHER policy starts
// is a subtree of its own: A's old child and B's child are merged under that
// policy. A child that is merely on the way to such a subtree is B's child,
// except for what is found further down that way.
//
// model.Merge drops A's dictionary at a replace node before it looks at any
// child (as the library does), so below a replace node no option has anything
// left to merge with. That is kept as walkAsBuilt, the predicate of the finding
// "field-policy-inside-enclosing-replace-has-no-effect".

func appendPath(path []string, k string) []string {
	q := make([]string, len(path)+1)
	copy(q, path)
	q[len(path)] = k
	return q
}

func walk(to, from *model.Node, path []string, pol model.PolicyFn) {
	p := pol(path)
	if len(from.D) > 0 {
		old := to.D
		if p == model.PReplace {
			to.D = nil
		}
		for k, v := range from.D {
			if to.D == nil {
				to.D = map[string]*model.Node{}
			}
			q := appendPath(path, k)
			if p == model.PReplace {
				to.D[k] = underReplace(old[k], v, q, pol)
			} else {
				to.D[k] = walkValues(to.D[k], v, q, pol)
			}
		}
	}
	// lists: as in the merge model (elements meet only when merged by index)
	switch p {
	case model.PReplace, model.PArrReplace:
		if len(from.A) > 0 {
			to.A = nil
			for _, v := range from.A {
				to.A = append(to.A, v.Copy())
			}
			to.HasA = true
		}
	case model.PPrepend:
		if len(from.A) > 0 {
			na := make([]*model.Node, 0, len(from.A)+len(to.A))
			for _, v := range from.A {
				na = append(na, v.Copy())
			}
			to.A = append(na, to.A...)
			to.HasA = true
		}
	case model.PAppend:
		for _, v := range from.A {
			to.A = append(to.A, v.Copy())
			to.HasA = true
		}
	default:
		for i, v := range from.A {
			if i < len(to.A) {
				to.A[i] = walkValues(to.A[i], v, appendPath(path, strconv.Itoa(i)), pol)
			} else {
				to.A = append(to.A, v.Copy())
				to.HasA = true
			}
		}
	}
}

// underReplace gives the value of a named child q of a node merged under replace.
func underReplace(old, v *model.Node, q []string, pol model.PolicyFn) *model.Node {
	if pol(q) != model.PReplace {
		// an option with another policy starts here
		return walkValues(old, v, q, pol)
	}
	res := v.Copy()
	if old.IsSub() && v.IsSub() {
		for k, c := range v.D {
			res.D[k] = underReplace(old.D[k], c, appendPath(q, k), pol)
		}
	}
	return res
}

// walkValues: the new value, unless both sides are containers (a nil counts
// as an empty one and never replaces a container).
func walkValues(old, v *model.Node, path []string, pol model.PolicyFn) *model.Node {
	if old == nil {
		return v.Copy()
	}
	var subOld, subV *model.Node
	switch {
	case old.IsSub():
		subOld = old
	case old.Kind == model.KNil:
		subOld = &model.Node{Kind: model.KSub}
	default:
		return v.Copy()
	}
	switch {
	case v.IsSub():
		subV = v
	case v.Kind == model.KNil:
		subV = &model.Node{Kind: model.KSub}
	default:
		return v.Copy()
	}
	walk(subOld, subV, path, pol)
	return subOld
}

// mergeModel: A then B merged into an empty config under the statement's walk.
func mergeModel(a, b *model.Node, pol model.PolicyFn) *model.Node {
	m := &model.Node{Kind: model.KSub}
	walk(m, a.Copy(), nil, pol)
	walk(m, b.Copy(), nil, pol)
	return m
}

// walkAsBuilt: the same with the dictionary dropped up front at a replace node.
func walkAsBuilt(a, b *model.Node, pol model.PolicyFn) *model.Node {
	m := &model.Node{Kind: model.KSub}
	model.Merge(m, a.Copy(), nil, pol)
	model.Merge(m, b.Copy(), nil, pol)
	return m
}
