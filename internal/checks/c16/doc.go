// Package c16: see DESIGN.md section 3 C16.
package c16
