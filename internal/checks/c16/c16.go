// Package c16: a per-field merge policy applies to exactly the named subtree.
package c16

import (
	"fmt"
	"math/rand"
	"strconv"
	"strings"

	ucfg "github.com/elastic/go-ucfg"

	"verif/internal/gen"
	"verif/internal/harness"
	"verif/internal/model"
	"verif/internal/obs"
)

type check struct{}

func init() { harness.Register(check{}) }

func (check) ID() string { return "C16" }

func (check) Cases(tier string) int {
	if tier == "thorough" {
		return 300000
	}
	return 6000
}

func (check) Rule() string {
	return "pairs (A, B = mutation of A) of trees whose 3 keys repeat at every depth, merged with PathSep(\".\"), one of 5 global policies and one or two Field{Merge,Replace,Append,Prepend}Values options; field paths: concrete paths of 1-3 names/indices (present or absent, addressing objects, lists, list positions, primitives), **.name, *.name over a top-level list, name.*.name. Compared with the merge model run with policy(q) = per-field policy if its path matches a prefix of q (longest match wins) else the global one, plus two model-independent laws (outside the subtree nothing changes; a path matching nothing changes nothing). Non-trivial = the field option changes the model result w.r.t. the plain global merge; distinct = distinct (global, options, A, B)."
}

func (check) Assumptions() []string {
	return []string{
		"reading fixed in DESIGN.md: the policy in force at a node decides how that node's dictionary and list parts combine (so a global ReplaceValues above the path leaves nothing for the field option to merge with)",
		"wildcard shapes other than **.name, *.name (top-level list) and name.*.name are not generated: their meaning is not settled by statement or documentation",
		"PathSep precedes the field options (documented usage); two options never name the same path",
		"merge model and canonical comparison as in C01",
	}
}

var globals = []struct {
	p    model.Policy
	opts []ucfg.Option
}{
	{model.PDefault, nil},
	{model.PReplace, []ucfg.Option{ucfg.ReplaceValues}},
	{model.PArrReplace, []ucfg.Option{ucfg.ReplaceArrValues}},
	{model.PAppend, []ucfg.Option{ucfg.AppendValues}},
	{model.PPrepend, []ucfg.Option{ucfg.PrependValues}},
}

var fieldPols = []struct {
	p    model.Policy
	name string
	mk   func(...string) ucfg.Option
}{
	{model.PDefault, "FieldMergeValues", ucfg.FieldMergeValues},
	{model.PReplace, "FieldReplaceValues", ucfg.FieldReplaceValues},
	{model.PAppend, "FieldAppendValues", ucfg.FieldAppendValues},
	{model.PPrepend, "FieldPrependValues", ucfg.FieldPrependValues},
}

type fopt struct {
	path []string
	h    int // index into fieldPols
}

func (f fopt) String() string {
	return fmt.Sprintf("%s(%q)", fieldPols[f.h].name, strings.Join(f.path, "."))
}

func isNum(s string) bool {
	_, err := strconv.Atoi(s)
	return err == nil
}

func segMatch(p, q string) bool {
	if p == "*" {
		return isNum(q)
	}
	return p == q
}

// strictMatch: p (possibly starting with **) matches a prefix of q.
func strictMatch(q, p []string) bool {
	if len(p) > 0 && p[0] == "**" {
		rest := p[1:]
		for s := 0; s <= len(q); s++ {
			if strictMatch(q[s:], rest) {
				return true
			}
		}
		return false
	}
	if len(q) < len(p) {
		return false
	}
	for i := range p {
		if !segMatch(p[i], q[i]) {
			return false
		}
	}
	return true
}

// strictPolicy is the statement's policy function: longest matching option wins.
func strictPolicy(g model.Policy, fos []fopt) model.PolicyFn {
	return func(q []string) model.Policy {
		best := -1
		pol := g
		for _, f := range fos {
			if strictMatch(q, f.path) && len(f.path) > best {
				best = len(f.path)
				pol = fieldPols[f.h].p
			}
		}
		return pol
	}
}

// --- the as-built descent, used ONLY as the predicate of the known finding ---
//
// The library keeps a trie of the option paths and walks it along with the
// merge. On a miss it keeps the current trie node for the next level, so an
// option for a.b also fires at x.a.y.b: its path only needs to be a
// subsequence of the node path. The automaton below reproduces that for
// concrete (wildcard-free) option paths.
type trie struct {
	kids map[string]*trie
	star int // -1 none, else index into fieldPols
}

func (t *trie) paddedAt(s string) bool {
	i, _ := strconv.Atoi(s)
	for k := range t.kids {
		if j, err := strconv.Atoi(k); err == nil && j > i {
			return true
		}
	}
	return false
}

func newTrie() *trie { return &trie{kids: map[string]*trie{}, star: -1} }

func buildTrie(fos []fopt) *trie {
	root := newTrie()
	for _, f := range fos {
		t := root
		for _, s := range f.path {
			k := t.kids[s]
			if k == nil {
				k = newTrie()
				t.kids[s] = k
			}
			t = k
		}
		t.star = f.h
	}
	return root
}

func leakPolicy(g model.Policy, fos []fopt) model.PolicyFn {
	root := buildTrie(fos)
	return func(q []string) model.Policy {
		t := root
		pol := g
		for _, s := range q {
			k := t.kids[s]
			if k == nil && isNum(s) {
				k = t.kids["*"] // a list level consumes a "*" segment
				if k == nil && t.paddedAt(s) {
					// the option trie is itself a config: an option for index 2
					// pads positions 0 and 1 with nils, and a nil answers a
					// lookup with a fresh empty node, which ends the descent
					t = newTrie()
					continue
				}
			}
			if k == nil {
				continue // miss: same trie node for the next level
			}
			t = k
			if k.star >= 0 {
				pol = fieldPols[k.star].p
			}
		}
		return pol
	}
}

func hasDoubleStar(fos []fopt) bool {
	for _, f := range fos {
		for _, s := range f.path {
			if s == "**" {
				return true
			}
		}
	}
	return false
}

func hasWildcard(fos []fopt) bool {
	for _, f := range fos {
		for _, s := range f.path {
			if s == "*" || s == "**" {
				return true
			}
		}
	}
	return false
}

func genPath(r *rand.Rand, a *model.Node) []string {
	switch x := r.Intn(12); {
	case x == 0:
		return []string{"**", gen.Keys[r.Intn(len(gen.Keys))]}
	case x == 1:
		return []string{"*", gen.Keys[r.Intn(len(gen.Keys))]}
	case x == 2:
		return []string{gen.Keys[r.Intn(len(gen.Keys))], "*", gen.Keys[r.Intn(len(gen.Keys))]}
	case x < 9:
		// a path that exists in A (walk down randomly), preferably ending at a container
		var p []string
		n := a
		for d := 0; d < 3 && n.IsSub(); d++ {
			if len(n.D) > 0 && (len(n.A) == 0 || r.Intn(2) == 0) {
				ks := n.SortedKeys()
				k := ks[r.Intn(len(ks))]
				p = append(p, k)
				n = n.D[k]
			} else if len(n.A) > 0 {
				i := r.Intn(len(n.A))
				p = append(p, strconv.Itoa(i))
				n = n.A[i]
			} else {
				break
			}
			if n.IsSub() && r.Intn(3) == 0 {
				break
			}
		}
		if len(p) > 0 {
			return p
		}
		fallthrough
	default:
		plen := 1 + r.Intn(3)
		var p []string
		for j := 0; j < plen; j++ {
			if r.Intn(5) == 0 {
				p = append(p, strconv.Itoa(r.Intn(2)))
			} else {
				p = append(p, gen.Keys[r.Intn(len(gen.Keys))])
			}
		}
		return p
	}
}

// plant puts sub at path p inside n, creating intermediate containers.
func plant(n *model.Node, p []string, sub *model.Node) {
	for i, s := range p {
		last := i == len(p)-1
		if isNum(s) {
			j, _ := strconv.Atoi(s)
			n.D = nil
			n.HasA = true
			for len(n.A) <= j {
				n.A = append(n.A, model.P("pad"))
			}
			if last {
				n.A[j] = sub
				return
			}
			if !n.A[j].IsSub() {
				n.A[j] = &model.Node{Kind: model.KSub}
			}
			n = n.A[j]
		} else {
			n.A = nil
			n.HasA = false
			if n.D == nil {
				n.D = map[string]*model.Node{}
			}
			if last {
				n.D[s] = sub
				return
			}
			if !n.D[s].IsSub() {
				n.D[s] = &model.Node{Kind: model.KSub}
			}
			n = n.D[s]
		}
	}
}

// listy generates a subtree in which lists meet lists: a list of primitives,
// or a small dictionary of such lists.
func listy(r *rand.Rand) *model.Node {
	mk := func() *model.Node {
		n := model.List()
		for i, c := 0, 1+r.Intn(3); i < c; i++ {
			n.A = append(n.A, model.P(gen.Prims[r.Intn(len(gen.Prims))]))
		}
		return n
	}
	switch r.Intn(4) {
	case 0:
		d := model.Dict()
		for _, k := range gen.Keys {
			if r.Intn(2) == 0 {
				d.D[k] = mk()
			}
		}
		return d
	case 1:
		l := model.List()
		for i, c := 0, 1+r.Intn(2); i < c; i++ {
			l.A = append(l.A, model.Dict().Set(gen.Keys[r.Intn(len(gen.Keys))], mk()))
		}
		return l
	}
	return mk()
}

func samePath(a, b []string) bool { return strings.Join(a, "\x00") == strings.Join(b, "\x00") }

// removeAt deletes the subtree at the all-names path p (through dictionaries only).
func removeAt(n *model.Node, p []string) {
	for len(p) > 1 {
		if !n.IsSub() {
			return
		}
		n = n.D[p[0]]
		if n == nil {
			return
		}
		p = p[1:]
	}
	if n.IsSub() {
		delete(n.D, p[0])
	}
}

func pathExists(n *model.Node, p []string) bool {
	for _, s := range p {
		if !n.IsSub() {
			return false
		}
		if isNum(s) {
			i, _ := strconv.Atoi(s)
			if i >= len(n.A) {
				return false
			}
			n = n.A[i]
		} else {
			c, ok := n.D[s]
			if !ok {
				return false
			}
			n = c
		}
	}
	return true
}

func allNames(p []string) bool {
	for _, s := range p {
		if isNum(s) || s == "*" || s == "**" {
			return false
		}
	}
	return true
}

func mergeLib(a, b *model.Node, opts []ucfg.Option) (*ucfg.Config, error) {
	c := ucfg.New()
	for _, t := range []*model.Node{a, b} {
		if err := c.Merge(t.ToGo(), opts...); err != nil {
			return nil, err
		}
	}
	return c, nil
}

func mergeModel(a, b *model.Node, pol model.PolicyFn) *model.Node {
	m := &model.Node{Kind: model.KSub}
	model.Merge(m, a.Copy(), nil, pol)
	model.Merge(m, b.Copy(), nil, pol)
	return m
}

func (check) Run(seed int64, tier string, idx int, verbose bool) harness.Result {
	res := harness.NewR(idx)
	r := rand.New(rand.NewSource(harness.Mix(seed, "C16", idx)))
	o := gen.TreeOpts{ListBias: true}
	g := globals[r.Intn(len(globals))]
	a := gen.Top(r, o, 3)
	b := gen.MutateTop(r, o, a, 3)
	pickH := func() int {
		// prefer a per-field policy that differs from the global one
		for i := 0; i < 3; i++ {
			h := r.Intn(len(fieldPols))
			if fieldPols[h].p != g.p {
				return h
			}
		}
		return r.Intn(len(fieldPols))
	}
	fos := []fopt{{genPath(r, a), pickH()}}
	if r.Intn(4) == 0 {
		f2 := fopt{genPath(r, b), pickH()}
		if !samePath(f2.path, fos[0].path) && !hasWildcard(fos) && !hasWildcard([]fopt{f2}) {
			fos = append(fos, f2)
		}
	}
	if !hasWildcard(fos) && r.Intn(10) < 6 {
		// plant list-bearing subtrees at the option path in both operands so
		// that the per-field policy has something to decide
		for _, f := range fos {
			sa := listy(r)
			plant(a, f.path, sa)
			plant(b, f.path, gen.Mutate(r, o, sa, 2))
		}
		res.Ev("planted", 1)
	}
	desc := fmt.Sprintf("global=%v options=%v A=%s B=%s", g.p, fos, a, b)
	if idx < 2 {
		res.Sample = desc
	}

	opts := []ucfg.Option{ucfg.PathSep(".")}
	opts = append(opts, g.opts...)
	for _, f := range fos {
		opts = append(opts, fieldPols[f.h].mk(strings.Join(f.path, ".")))
	}
	var got string
	panicked, pv, where := harness.Safe(func() {
		c, err := mergeLib(a, b, opts)
		res.Eval(2)
		if err != nil {
			res.Violate("merge-error", "Merge returned %v; %s", err, desc)
			if p := obs.TypedErrorProblem(err); p != "" {
				res.Violate("untyped-error", "%s", p)
			}
			return
		}
		got, err = obs.Top(c)
		res.Eval(1)
		if err != nil {
			res.Violate("unpack-error", "Unpack failed: %v; %s", err, desc)
		}
	})
	if panicked {
		res.Violate("panic", "panic %q at %s; %s", pv, where, desc)
		return res.Done()
	}
	if len(res.Violations) > 0 {
		return res.Done()
	}

	strict := mergeModel(a, b, strictPolicy(g.p, fos)).CanonTop()
	plain := mergeModel(a, b, model.Global(g.p))
	leak := ""
	if !hasDoubleStar(fos) {
		leak = mergeModel(a, b, leakPolicy(g.p, fos)).CanonTop()
	}
	if verbose {
		fmt.Printf("%s\n got    %s\n strict %s\n leak   %s\n plain  %s\n", desc, got, strict, leak, plain.CanonTop())
	}
	res.SetAdd("global", g.p.String())
	for _, f := range fos {
		res.SetAdd("field_policy", fieldPols[f.h].name)
		form := "concrete"
		switch {
		case f.path[0] == "**":
			form = "**.name"
		case f.path[0] == "*":
			form = "*.name"
		case len(f.path) == 3 && f.path[1] == "*":
			form = "name.*.name"
		}
		res.SetAdd("path_form", fmt.Sprintf("%s/len%d", form, len(f.path)))
		if pathExists(a, f.path) || pathExists(b, f.path) {
			res.Ev("option_path_present", 1)
		} else {
			res.Ev("option_path_absent", 1)
		}
	}
	res.SetAdd("options_per_merge", strconv.Itoa(len(fos)))
	if strict != plain.CanonTop() {
		res.Key(desc)
		res.Ev("option_changes_result", 1)
	}
	known := leak != "" && got == leak && got != strict
	switch {
	case got == strict:
	case known:
		res.Violate("field-policy-leaks-to-subsequence-paths", "a field option is applied at a node whose path merely contains the option path as a subsequence: got %s want %s; %s", got, strict, desc)
	default:
		res.Violate("field-policy-model-mismatch", "got %s want %s (as-built leak model: %s); %s", got, strict, leak, desc)
	}

	// model-independent laws (skipped where the known leak explains the result)
	if known {
		return res.Done()
	}
	panicked, pv, where = harness.Safe(func() {
		cPlain, err := mergeLib(a, b, append([]ucfg.Option{ucfg.PathSep(".")}, g.opts...))
		res.Eval(2)
		if err != nil {
			return
		}
		gotPlain, err := obs.Top(cPlain)
		if err != nil {
			return
		}
		// law 2: a concrete path that matches nothing in either tree changes nothing
		matchesNothing := true
		for _, f := range fos {
			if hasWildcard([]fopt{f}) || pathExists(a, f.path) || pathExists(b, f.path) {
				matchesNothing = false
			}
		}
		if matchesNothing {
			res.Ev("law_absent_path_checked", 1)
			if got != gotPlain {
				res.Violate("law-absent-path-changes-result", "option path present in neither tree, yet result differs from the plain global merge: got %s plain %s; %s", got, gotPlain, desc)
			}
		}
		// law 1: outside the subtrees named by the options nothing changes
		if !hasWildcard(fos) {
			names := true
			for _, f := range fos {
				if !allNames(f.path) {
					names = false
				}
			}
			if names {
				var mw, mp map[string]interface{}
				cWith, _ := mergeLib(a, b, opts)
				if cWith == nil || cWith.Unpack(&mw) != nil || cPlain.Unpack(&mp) != nil {
					return
				}
				nw, np := model.FromIfc(mw), model.FromIfc(mp)
				for _, f := range fos {
					removeAt(nw, f.path)
					removeAt(np, f.path)
				}
				res.Ev("law_outside_unaffected_checked", 1)
				if nw.Canon() != np.Canon() {
					res.Violate("law-outside-subtree-affected", "settings outside the option's subtree differ from the plain global merge: with option %s, plain %s; %s", nw.Canon(), np.Canon(), desc)
				}
			}
		}
	})
	if panicked {
		res.Violate("panic", "panic %q at %s in laws; %s", pv, where, desc)
	}
	return res.Done()
}
