// Package c16: a per-field merge policy applies to exactly the named subtree.
package c16

import (
	"fmt"
	"math/rand"
	"strconv"
	"strings"

	ucfg "github.com/elastic/go-ucfg"

	"verif/internal/gen"
	"verif/internal/harness"
	"verif/internal/model"
	"verif/internal/obs"
)

type check struct{}

func init() { harness.Register(check{}) }

func (check) ID() string { return "C16" }

func (check) Cases(tier string) int {
	if tier == "thorough" {
		return 300000
	}
	return 6000
}

func (check) Rule() string {
	return "pairs (A, B = mutation of A) of trees whose 3 keys repeat at every depth, merged with one of 5 global policies and a pool of one to three Field{Merge,Replace,Append,Prepend}Values options; field paths: concrete paths of 1-3 names/indices (present or absent, addressing objects, lists, list positions, primitives), patterns with ** (**.n, **.n.m, n.**.m, n.**.m.k, **.n.idx, **.n.**.m; ** = any number of components, also none), *.name over a top-level list and name.*.name (these two only alone); combinations of concrete paths and ** patterns incl. pairs whose subtrees nest across a ** (a concrete path below a node a ** pattern addresses, an inner ** next to a root **). List-bearing subtrees are planted at the option paths and at decoys (the same names in the same order at another depth). Special dimensions (modes.go): 12% of the cases turn one or two key names into numeric NAMES (20..2000) in trees, paths and decoys, kept names by EnableNumKeys(true), MaxIdx(0/7/19) or by being above the default MaxIdx; 2% plant a list of 1024-1034 elements and point an option at position 1023..1031 of it (with and without MaxIdx(5000)); 11% give PathSep after the field options, after the first of them or not at all; a fifth of the cases configure a separator other than '.' (/ :: _) at that place while the field paths stay dotted, and a third of the cases spell object-valued settings of the data partly as keys joined with the call's separator (a/b/c: v), at any depth. Call 1 uses the whole pool; in half of the cases one or two further calls reuse the SAME Option values in another selection/order, under another global policy or with swapped operands. Every result is compared with the merge model run with policy(q) = policy of the option whose subtree is the innermost one containing q, else the global one; reused Option values are compared with a twin call made with newly created ones; a third of the cases repeats every call with a destination in which one or two object/list valued settings on, above or below the option paths (also inside one another, also through a chain) are replaced by references to top-level settings, VarExp on: same result as for the literal destination, referenced settings unchanged; plus two model-independent laws (outside the subtrees the options address nothing changes; a path matching nothing changes nothing). Non-trivial = the options change the model result w.r.t. the plain global merge; distinct = distinct (global, options, A, B)."
}

func (check) Assumptions() []string {
	return []string{
		"nested policies, dictionaries: the subtree of an option is merged as if its policy were the global one also where it lies below a node merged under replace (global ReplaceValues or an enclosing FieldReplaceValues): the replace node takes B's named settings (a setting B does not name is dropped, also one on an option path), but a child at which an option with another policy starts is merged with A's old child under that policy, and a child on the way to such a subtree is B's child except for what is found further down that way (walk.go)",
		"nested policies, lists: elements meet only where the list is merged by index; below a replaced, appended or prepended list no option has two values to merge (positions shift), nothing is claimed there",
		"destinations holding references: under a global ReplaceValues B names the referenced top-level settings as well, with the value they have (else the replace drops them and what is left refers to nothing), and no ** option is in the call (it may address settings inside the referenced values); sources holding references are C10's matter; strings containing '$' are not generated in those cases",
		"the statement names one wildcard, '**' (any number of path components, also none): patterns with '**' in front, in the middle or twice are generated alone and in combination; a trailing '**' is not generated (nothing says whether a.** differs from a)",
		"the single-level wildcard '*' is not named by the statement: *.name and name.*.name are generated only alone (they behave like the documentation's examples); what '*' means next to other options, next to position options, below '**' or twice in one call is not claimed",
		"combinations are generated only where the statement settles them: where subtrees nest the innermost decides; which of two options wins whose subtrees START at the same node is open, so two options never name the same path and a ** pattern is combined with another path only if their last components differ",
		"field names are dot notation (statement: 'a dotted field path', documentation of the options): the effect does not depend on PathSep(\".\") standing in front of the field options or being given at all (pathSepPlacementClaimed in modes.go), nor on which separator PathSep configures for the names of the data: a field path is dotted under PathSep(\"/\") as well, before or after the field options; the keys and field paths of the workload contain none of the separators in use, so a tree means the same under each of them (a key that contains '.' while another separator is configured, and names escaped with EscapePath, are not generated: nothing says whether the dotted field path a.b addresses such a key)",
		"keys joined with the call's separator inside one input spell the nesting they name (C02/C18's matter, used here only as a spelling of the operands): only object-valued settings are folded, never list positions, and under EnableNumKeys no joined key has a numeric component (there the library reads it as a position, C20's matter)",
		"a numeric component of a field path addresses the list position of that number or the setting of that NAME, whichever the data holds; numeric names are plain decimals above every list length of the case (no second spelling such as 010 or 0x10, that is C20's matter)",
		"the statement is about Merge: Field options passed to Unpack into typed targets (structs with pre-filled *Config fields) are not generated; the result of a Merge is read by Unpack into map/slice without field options",
		"an Option is a value: a Merge call's result depends on the options passed to THAT call only, not on calls the same Option value took part in before",
		"merge model and canonical comparison as in C01",
	}
}

var globals = []struct {
	p    model.Policy
	opts []ucfg.Option
}{
	{model.PDefault, nil},
	{model.PReplace, []ucfg.Option{ucfg.ReplaceValues}},
	{model.PArrReplace, []ucfg.Option{ucfg.ReplaceArrValues}},
	{model.PAppend, []ucfg.Option{ucfg.AppendValues}},
	{model.PPrepend, []ucfg.Option{ucfg.PrependValues}},
}

var fieldPols = []struct {
	p    model.Policy
	name string
	mk   func(...string) ucfg.Option
}{
	{model.PDefault, "FieldMergeValues", ucfg.FieldMergeValues},
	{model.PReplace, "FieldReplaceValues", ucfg.FieldReplaceValues},
	{model.PAppend, "FieldAppendValues", ucfg.FieldAppendValues},
	{model.PPrepend, "FieldPrependValues", ucfg.FieldPrependValues},
}

type fopt struct {
	path []string
	h    int // index into fieldPols
}

func (f fopt) String() string {
	return fmt.Sprintf("%s(%q)", fieldPols[f.h].name, strings.Join(f.path, "."))
}

func isNum(s string) bool {
	_, err := strconv.Atoi(s)
	return err == nil
}

func segMatch(p, q string) bool {
	if p == "*" {
		return isNum(q)
	}
	return p == q
}

// strictPolicy is the statement's policy function: the subtree of an option is
// merged as if its policy were the global one, so where subtrees nest the
// innermost one decides (for concrete paths: the longest matching option).
// The generator never produces two options whose subtrees start at the same
// node, so there are no ties to break.
func strictPolicy(g model.Policy, fos []fopt) model.PolicyFn {
	return func(q []string) model.Policy {
		best := -1
		pol := g
		for _, f := range fos {
			if e := matchEnd(q, f.path); e > best {
				best = e
				pol = fieldPols[f.h].p
			}
		}
		return pol
	}
}

// --- the as-built descent, used ONLY as the predicate of the known finding ---
//
// The library keeps a trie of the option paths and walks it along with the
// merge. On a miss it keeps the current trie node for the next level, so an
// option for a.b also fires at x.a.y.b: its path only needs to be a
// subsequence of the node path. The automaton below reproduces that for
// concrete (wildcard-free) option paths.
type trie struct {
	kids map[string]*trie
	star int // -1 none, else index into fieldPols
}

func (t *trie) paddedAt(s string) bool {
	i, _ := strconv.Atoi(s)
	for k := range t.kids {
		if j, err := strconv.Atoi(k); err == nil && j > i {
			return true
		}
	}
	return false
}

func newTrie() *trie { return &trie{kids: map[string]*trie{}, star: -1} }

func buildTrie(fos []fopt) *trie {
	root := newTrie()
	for _, f := range fos {
		t := root
		for _, s := range f.path {
			k := t.kids[s]
			if k == nil {
				k = newTrie()
				t.kids[s] = k
			}
			t = k
		}
		t.star = f.h
	}
	return root
}

func leakPolicy(g model.Policy, fos []fopt) model.PolicyFn {
	root := buildTrie(fos)
	return func(q []string) model.Policy {
		t := root
		pol := g
		for _, s := range q {
			k := t.kids[s]
			if k == nil && isNum(s) {
				k = t.kids["*"] // a list level consumes a "*" segment
				if k == nil && t.paddedAt(s) {
					// the option trie is itself a config: an option for index 2
					// pads positions 0 and 1 with nils, and a nil answers a
					// lookup with a fresh empty node, which ends the descent
					t = newTrie()
					continue
				}
			}
			if k == nil {
				continue // miss: same trie node for the next level
			}
			t = k
			if k.star >= 0 {
				pol = fieldPols[k.star].p
			}
		}
		return pol
	}
}

// arrLeakPolicy is the as-built descent for concrete options combined with
// **.name options, used ONLY as the predicate of a finding: when nothing is
// configured for a key or index and the current level of the option tree has
// "**" as its only NAME, the library hands that level down unchanged - together
// with the positions configured in its list part. An option for l.0 combined
// with any ** option therefore also fires at l.1.0, l.5.x.0, ...
func arrLeakPolicy(g model.Policy, fos []fopt) model.PolicyFn {
	var conc []fopt
	wild := map[string]int{}
	for _, f := range fos {
		if isDoubleStar(f.path) {
			wild[f.path[1]] = f.h
		} else {
			conc = append(conc, f)
		}
	}
	root := buildTrie(conc)
	onlyPositions := func(t *trie) bool {
		for k := range t.kids {
			if !isNum(k) {
				return false
			}
		}
		return len(t.kids) > 0
	}
	return func(q []string) model.Policy {
		t := root
		pol := g
		for _, s := range q {
			var k *trie
			padded := false
			if t != nil {
				k = t.kids[s]
				padded = k == nil && isNum(s) && t.paddedAt(s)
			}
			switch {
			case k != nil && k.star >= 0:
				pol, t = fieldPols[k.star].p, k
			case k != nil:
				t = k
			default:
				if h, ok := wild[s]; ok {
					pol, t = fieldPols[h].p, nil
				} else if padded || t == nil || !onlyPositions(t) {
					t = nil
				}
				// else: the level is handed down as it is
			}
		}
		return pol
	}
}

func onlySimpleDoubleStars(fos []fopt) bool {
	for _, f := range fos {
		if isDoubleStar(f.path) && !simpleDoubleStar(f.path) {
			return false
		}
	}
	return true
}

func hasDoubleStar(fos []fopt) bool {
	for _, f := range fos {
		for _, s := range f.path {
			if s == "**" {
				return true
			}
		}
	}
	return false
}

func hasWildcard(fos []fopt) bool {
	for _, f := range fos {
		for _, s := range f.path {
			if s == "*" || s == "**" {
				return true
			}
		}
	}
	return false
}

func genPath(r *rand.Rand, a *model.Node) []string {
	switch x := r.Intn(12); {
	case x == 0:
		return genDoubleStar(r)
	case x == 1:
		return []string{"*", gen.Keys[r.Intn(len(gen.Keys))]}
	case x == 2:
		return []string{gen.Keys[r.Intn(len(gen.Keys))], "*", gen.Keys[r.Intn(len(gen.Keys))]}
	case x < 9:
		// a path that exists in A (walk down randomly), preferably ending at a container
		var p []string
		n := a
		for d := 0; d < 3 && n.IsSub(); d++ {
			if len(n.D) > 0 && (len(n.A) == 0 || r.Intn(2) == 0) {
				ks := n.SortedKeys()
				k := ks[r.Intn(len(ks))]
				p = append(p, k)
				n = n.D[k]
			} else if len(n.A) > 0 {
				i := r.Intn(len(n.A))
				p = append(p, strconv.Itoa(i))
				n = n.A[i]
			} else {
				break
			}
			if n.IsSub() && r.Intn(3) == 0 {
				break
			}
		}
		if len(p) > 0 {
			return p
		}
		fallthrough
	default:
		plen := 1 + r.Intn(3)
		var p []string
		for j := 0; j < plen; j++ {
			if r.Intn(5) == 0 {
				p = append(p, strconv.Itoa(r.Intn(2)))
			} else {
				p = append(p, gen.Keys[r.Intn(len(gen.Keys))])
			}
		}
		return p
	}
}

// plant puts sub at path p inside n, creating intermediate containers.
func plant(n *model.Node, p []string, sub *model.Node) {
	for i, s := range p {
		last := i == len(p)-1
		if isNum(s) {
			j, _ := strconv.Atoi(s)
			n.D = nil
			n.HasA = true
			for len(n.A) <= j {
				n.A = append(n.A, model.P("pad"))
			}
			if last {
				n.A[j] = sub
				return
			}
			if !n.A[j].IsSub() {
				n.A[j] = &model.Node{Kind: model.KSub}
			}
			n = n.A[j]
		} else {
			n.A = nil
			n.HasA = false
			if n.D == nil {
				n.D = map[string]*model.Node{}
			}
			if last {
				n.D[s] = sub
				return
			}
			if !n.D[s].IsSub() {
				n.D[s] = &model.Node{Kind: model.KSub}
			}
			n = n.D[s]
		}
	}
}

// listy generates a subtree in which lists meet lists: a list of primitives,
// or a small dictionary of such lists.
func listy(r *rand.Rand, prims []interface{}) *model.Node {
	mk := func() *model.Node {
		n := model.List()
		for i, c := 0, 1+r.Intn(3); i < c; i++ {
			n.A = append(n.A, model.P(prims[r.Intn(len(prims))]))
		}
		return n
	}
	switch r.Intn(4) {
	case 0:
		d := model.Dict()
		for _, k := range gen.Keys {
			if r.Intn(2) == 0 {
				d.D[k] = mk()
			}
		}
		return d
	case 1:
		l := model.List()
		for i, c := 0, 1+r.Intn(2); i < c; i++ {
			l.A = append(l.A, model.Dict().Set(gen.Keys[r.Intn(len(gen.Keys))], mk()))
		}
		return l
	}
	return mk()
}

func samePath(a, b []string) bool { return strings.Join(a, "\x00") == strings.Join(b, "\x00") }

// removeAt deletes the subtree at the all-names path p (through dictionaries only).
func removeAt(n *model.Node, p []string) {
	for len(p) > 1 {
		if !n.IsSub() {
			return
		}
		n = n.D[p[0]]
		if n == nil {
			return
		}
		p = p[1:]
	}
	if n.IsSub() {
		delete(n.D, p[0])
	}
}

func pathExists(n *model.Node, p []string) bool { return len(p) == 0 || nodeAt(n, p) != nil }

func allNames(p []string) bool {
	for _, s := range p {
		if isNum(s) || s == "*" || s == "**" {
			return false
		}
	}
	return true
}

func mergeLib(md *modes, a, b *model.Node, opts []ucfg.Option) (*ucfg.Config, error) {
	c := ucfg.New()
	for _, t := range []*model.Node{a, b} {
		if err := c.Merge(md.toGo(t), opts...); err != nil {
			return nil, err
		}
	}
	return c, nil
}

// isStarForm: the path uses the single-level wildcard.
func isStarForm(p []string) bool {
	for _, s := range p {
		if s == "*" {
			return true
		}
	}
	return false
}

func contains(p []string, s string) bool {
	for _, x := range p {
		if x == s {
			return true
		}
	}
	return false
}

// compatible: two options may be given together if the statement settles what
// the combination means. Where subtrees nest the innermost one decides; the
// only thing left open is which of two options wins whose subtrees START at
// the same node. Two different concrete paths never do; a pattern with "**"
// can end where another path ends only if their last components are equal.
// Single-level wildcards are only used alone.
func compatible(p1, p2 []string) bool {
	if isStarForm(p1) || isStarForm(p2) || samePath(p1, p2) {
		return false
	}
	if !isDoubleStar(p1) && !isDoubleStar(p2) {
		return true
	}
	return last(p1) != last(p2)
}

func comboKind(fos []fopt) string {
	ds, cc := 0, 0
	for _, f := range fos {
		if isDoubleStar(f.path) {
			ds++
		} else {
			cc++
		}
	}
	return fmt.Sprintf("%dx**+%dxconcrete", ds, cc)
}

type decoy struct {
	path []string
	h    int
}

// decoyPolicy is the strict policy plus "the option also fires at its decoy":
// used only as a monitor (would a leak to the decoy be visible in the result?).
func decoyPolicy(g model.Policy, fos []fopt, ds []decoy) model.PolicyFn {
	strict := strictPolicy(g, fos)
	return func(q []string) model.Policy {
		best, pol := -1, model.Policy(-1)
		for _, d := range ds {
			if model.HasPrefix(q, d.path) && len(d.path) > best {
				best, pol = len(d.path), fieldPols[d.h].p
			}
		}
		if best >= 0 {
			return pol
		}
		return strict(q)
	}
}

func (check) Run(seed int64, tier string, idx int, verbose bool) harness.Result {
	res := harness.NewR(idx)
	r := rand.New(rand.NewSource(harness.Mix(seed, "C16", idx)))
	o := gen.TreeOpts{ListBias: true}
	prims := gen.Prims
	// a third of the cases also runs with a destination that holds references
	// (refs.go); their trees avoid strings VarExp reads as syntax
	refMode := r.Intn(3) == 0
	if refMode {
		prims = noDollar
		o.Prims = noDollar
	}
	g := globals[r.Intn(len(globals))]
	// special dimensions of a case (modes.go): numeric NAMES on the field paths,
	// a list longer than the default MaxIdx, PathSep not in front
	md := drawModes(r)
	if md.long && r.Intn(4) > 0 {
		g = globals[0] // elements only meet where the list is merged by index
	}
	a := gen.Top(r, o, 3)
	b := gen.MutateTop(r, o, a, 3)
	pickHFor := func(gp model.Policy) int {
		// prefer a per-field policy that differs from the global one
		for i := 0; i < 3; i++ {
			h := r.Intn(len(fieldPols))
			if fieldPols[h].p != gp {
				return h
			}
		}
		return r.Intn(len(fieldPols))
	}
	pickH := func() int { return pickHFor(g.p) }

	// --- the pool of options of this case: 1-3 options that may be combined
	fos := []fopt{{genPath(r, a), pickH()}}
	extra := 0
	switch x := r.Intn(100); {
	case x < 45:
	case x < 82:
		extra = 1
	default:
		extra = 2
	}
	for e := 0; e < extra; e++ {
		for try := 0; try < 4; try++ {
			var p []string
			if r.Intn(4) == 0 {
				p = nestedPartner(r, fos[r.Intn(len(fos))].path)
			} else if r.Intn(3) == 0 {
				p = genDoubleStar(r)
			} else if r.Intn(2) == 0 {
				p = genPath(r, b)
			} else {
				p = genPath(r, a)
			}
			ok := true
			for _, f := range fos {
				if !compatible(f.path, p) {
					ok = false
				}
			}
			if ok {
				fos = append(fos, fopt{p, pickH()})
				break
			}
		}
	}

	// --- plant list-bearing subtrees where the options (and their look-alikes
	// at another depth) point, in both operands, so that policies decide something
	var decoys []decoy
	if !hasStarForm(fos) && r.Intn(10) < 6 {
		type pl struct {
			path []string
			sub  *model.Node
		}
		var real, dec []pl
		for _, f := range fos {
			sa := listy(r, prims)
			if isDoubleStar(f.path) {
				// some concrete place the pattern addresses
				real = append(real, pl{instantiate(r, f.path), sa})
				continue
			}
			real = append(real, pl{f.path, sa})
			if r.Intn(2) == 0 {
				// a decoy: the same names in the same order at another depth
				// (first name dropped, or one more name/index somewhere before
				// the last one)
				var d []string
				if len(f.path) > 1 && r.Intn(4) == 0 {
					d = append(d, f.path[1:]...)
				} else {
					at := r.Intn(len(f.path))
					d = append(d, f.path[:at]...)
					if r.Intn(5) == 0 {
						d = append(d, strconv.Itoa(r.Intn(2)))
					} else {
						d = append(d, gen.Keys[r.Intn(len(gen.Keys))])
					}
					d = append(d, f.path[at:]...)
				}
				dec = append(dec, pl{d, sa})
				decoys = append(decoys, decoy{d, f.h})
			}
		}
		for _, p := range append(dec, real...) {
			plant(a, p.path, p.sub.Copy())
			plant(b, p.path, gen.Mutate(r, o, p.sub, 2))
		}
		res.Ev("planted", 1)
		// a decoy only counts if planting the real places left it standing and
		// it is not itself inside an option's subtree
		kept := decoys[:0]
		for _, d := range decoys {
			inside := false
			for _, f := range fos {
				if matchEnd(d.path, f.path) >= 0 {
					inside = true
				}
			}
			if !inside && pathExists(a, d.path) && pathExists(b, d.path) {
				kept = append(kept, d)
			}
		}
		decoys = kept
	}
	if hasStarForm(fos) {
		md.long, md.num = false, -1
	}
	if md.long {
		fos, decoys = md.plantLongList(r, a, b, fos, prims), nil
	}
	if md.num >= 0 {
		md.renameNumeric(r, a, b, fos, decoys)
	}
	desc := fmt.Sprintf("global=%v options=%v%s A=%s B=%s", g.p, fos, md.String(), md.show(a), md.show(b))
	if idx < 2 {
		res.Sample = desc
	}

	// the destination with references (refs.go); needs a top-level dictionary
	var aRef *model.Node
	var sites []refSite
	if refMode && !a.HasA && len(a.A) == 0 && len(a.D) > 0 {
		aRef, sites = buildRefTree(r, a, fos, decoys)
	}

	// Option values are created ONCE per case and reused by all rounds below.
	vals := make([]ucfg.Option, len(fos))
	for i, f := range fos {
		vals[i] = fieldPols[f.h].mk(strings.Join(f.path, "."))
	}
	fresh := func(fs []fopt) []ucfg.Option {
		var l []ucfg.Option
		for _, f := range fs {
			l = append(l, fieldPols[f.h].mk(strings.Join(f.path, ".")))
		}
		return l
	}
	mkOpts := func(gopts []ucfg.Option, fieldOpts []ucfg.Option) []ucfg.Option {
		return md.options(gopts, fieldOpts)
	}
	// lib merges x then y with opts and returns the canonical result.
	var libMd func(m *modes, x, y *model.Node, opts []ucfg.Option, d string) (got string, ok bool)
	lib := func(x, y *model.Node, opts []ucfg.Option, d string) (got string, ok bool) {
		return libMd(md, x, y, opts, d)
	}
	libMd = func(md *modes, x, y *model.Node, opts []ucfg.Option, d string) (got string, ok bool) {
		panicked, pv, where := harness.Safe(func() {
			c, err := mergeLib(md, x, y, opts)
			res.Eval(2)
			if err != nil {
				res.Violate("merge-error", "Merge returned %v; %s", err, d)
				if p := obs.TypedErrorProblem(err); p != "" {
					res.Violate("untyped-error", "%s", p)
				}
				return
			}
			got, err = obs.Top(c)
			res.Eval(1)
			if err != nil {
				res.Violate("unpack-error", "Unpack failed: %v; %s", err, d)
				return
			}
			ok = true
		})
		if panicked {
			res.Violate("panic", "panic %q at %s; %s", pv, where, d)
			return "", false
		}
		return got, ok
	}
	// checkRef repeats a call (destination a, source y) with the destination
	// that holds references and compares with gotPlain, the result for the
	// literal destination. Not under a global replace: it drops the referenced
	// top-level settings, what is left of A may then refer to nothing.
	checkRef := func(gl int, fs []fopt, y *model.Node, gotPlain, d string) {
		if aRef == nil {
			return
		}
		yRef := y
		underReplace := globals[gl].p == model.PReplace
		if underReplace {
			// a global replace keeps only the top-level settings B names: B
			// names the referenced settings too, with the value they have.
			// Not with a ** option: it may address settings inside the
			// referenced values, which then legitimately change.
			// Nor where B names nothing at the top level: then nothing is
			// replaced there, and naming the referenced settings would change that.
			if hasDoubleStar(fs) || y.HasA || len(y.A) > 0 || len(y.D) == 0 {
				res.Ev("ref_calls_skipped_global_replace", 1)
				return
			}
			yRef = withReferenced(y, sites)
			res.Ev("ref_calls_under_global_replace", 1)
			decisive := false
			for _, st := range sites {
				for _, f := range fs {
					if fieldPols[f.h].p != model.PReplace && related(st.path, f.path) && nodeAt(y, st.path).IsSub() {
						decisive = true
					}
				}
			}
			if decisive && mergeModel(a, y, strictPolicy(model.PReplace, fs)).CanonTop() != mergeModel(a, y, model.Global(model.PReplace)).CanonTop() {
				res.Ev("ref_calls_under_global_replace_where_a_merging_option_meets_a_reference", 1)
			}
			d += " [B also names the referenced settings]"
		}
		d = fmt.Sprintf("%s; destination with references %v: %s", d, sites, aRef)
		run := func(fieldOpts []ucfg.Option) (got string, ok bool) {
			panicked, pv, where := harness.Safe(func() {
				var problem string
				var err error
				got, problem, err = mergeLibRef(md, aRef, yRef, sites, mkOpts(globals[gl].opts, fieldOpts))
				res.Eval(4)
				if err != nil {
					res.Violate("error-with-destination-reference", "%v; %s", err, d)
					return
				}
				if problem != "" {
					res.Violate("merge-through-reference-modifies-referenced-setting", "%s; %s", problem, d)
				}
				ok = true
			})
			if panicked {
				res.Violate("panic", "panic %q at %s; %s", pv, where, d)
				return "", false
			}
			return got, ok
		}
		gotRef, ok := run(fresh(fs))
		if !ok {
			return
		}
		res.Ev("ref_calls", 1)
		if gotRef == gotPlain {
			return
		}
		// is this about the per-field options at all?
		r0, ok1 := run(nil)
		p0, ok2 := lib(a, y, mkOpts(globals[gl].opts, nil), d)
		if ok1 && ok2 && r0 != p0 {
			res.Violate("destination-reference-changes-merge-result", "merging onto a setting that refers to a value gives another result than merging onto that value, even without per-field options: with references %s, literal %s; %s", r0, p0, d)
			return
		}
		if underReplace {
			res.Violate("destination-reference-not-merged-by-field-policy-under-global-replace", "under a global ReplaceValues a per-field option with a merging policy merges a setting that refers to a value differently from a setting holding that value: with references %s, literal %s; %s", gotRef, gotPlain, d)
			return
		}
		res.Violate("destination-reference-changes-field-policy-result", "with per-field options, merging onto a setting that refers to a value gives another result than merging onto that value (the options name the path of the referring setting): with references %s, literal %s; %s", gotRef, gotPlain, d)
	}

	// classify compares a library result with the statement's model and names
	// the deviation; known = explained by the (repaired) subsequence leak.
	classify := func(got string, gl int, fs []fopt, x, y *model.Node, d string) (known bool) {
		gp := globals[gl].p
		strict := mergeModel(x, y, strictPolicy(gp, fs)).CanonTop()
		leak := ""
		if !hasDoubleStar(fs) {
			leak = mergeModel(x, y, leakPolicy(gp, fs)).CanonTop()
		}
		if verbose {
			fmt.Printf("%s\n got    %s\n strict %s\n leak   %s\n", d, got, strict, leak)
		}
		if got == strict {
			return false
		}
		// is it the separator? The same call, same placement of PathSep, same
		// spelling of the data, with "." as the separator (differential twin)
		md.sepDecides = false
		for i := range fs {
			if md.afterOtherSep(i) {
				twin := *md
				twin.sep = "."
				g2, ok := libMd(&twin, x, y, twin.options(globals[gl].opts, fresh(fs)), d+" [twin call with PathSep(\".\") at the same place]")
				md.sepDecides = ok && g2 == strict
				break
			}
		}
		if md.sepDecides && md.ps == psFirst && got == mergeModel(x, y, model.Global(gp)).CanonTop() {
			res.Violate("field-option-ignored-when-pathsep-other-than-dot-precedes-it", "the per-field options have no effect at all because PathSep(%q) is given in front of them (their names are dot notation whatever separator the names of the data use): got %s want %s; %s", md.sep, got, strict, d)
			return true
		}
		if (md.ps == psLast || md.ps == psAbsent) && got == mergeModel(x, y, model.Global(gp)).CanonTop() {
			res.Violate("field-option-ignored-unless-pathsep-precedes-it", "the per-field options have no effect at all because PathSep(\".\") is not given in front of them (their names are dot notation by documentation, a one-component name has no separator at all): got %s want %s; %s", got, strict, d)
			return true
		}
		// options lost altogether, each for one of the structural reasons
		// (smallest set of lost options first)
		for size := 1; size <= len(fs); size++ {
			for mask := 1; mask < 1<<uint(len(fs)); mask++ {
				var rest []fopt
				sig, n, all := "", 0, true
				for i, f := range fs {
					if mask&(1<<uint(i)) == 0 {
						rest = append(rest, f)
						continue
					}
					n++
					sg := md.lostOptionSig(fs, i)
					if sg == "" {
						all = false
					} else if sig == "" {
						sig = sg
					}
				}
				if n != size || !all || got != mergeModel(x, y, strictPolicy(gp, rest)).CanonTop() {
					continue
				}
				res.Violate(sig, "the result is the one the call gives with only the options %v: got %s want %s; %s", rest, got, strict, d)
				return true
			}
		}
		if got == walkAsBuilt(x, y, strictPolicy(gp, fs)).CanonTop() {
			res.Violate("field-policy-inside-enclosing-replace-has-no-effect", "an option with a merging policy whose subtree lies below a node merged under replace (global ReplaceValues or an enclosing FieldReplaceValues) has nothing left to merge with, the old named settings are dropped before any field is looked at: got %s want %s; %s", got, strict, d)
			return true
		}
		if leak != "" && got == leak {
			res.Violate("field-policy-leaks-to-subsequence-paths", "a field option is applied at a node whose path merely contains the option path as a subsequence: got %s want %s; %s", got, strict, d)
			return true
		}
		if hasDoubleStar(fs) && onlySimpleDoubleStars(fs) && got == mergeModel(x, y, arrLeakPolicy(gp, fs)).CanonTop() {
			res.Violate("list-position-option-leaks-deeper-when-combined-with-**", "an option for a list position, given together with a ** option, is also applied to the same position of lists further down: got %s want %s; %s", got, strict, d)
			return false
		}
		if len(fs) >= 2 {
			// does every option do the right thing when it is given alone?
			alone := true
			for _, f := range fs {
				one := []fopt{f}
				g1, ok := lib(x, y, mkOpts(globals[gl].opts, fresh(one)), d+" [option "+f.String()+" alone]")
				if !ok || g1 != mergeModel(x, y, strictPolicy(gp, one)).CanonTop() {
					alone = false
				}
			}
			if alone {
				sig := "field-options-right-alone-wrong-combined"
				if hasDoubleStar(fs) {
					sig += "-with-**"
				}
				res.Violate(sig, "each option alone gives the statement's result, together they do not: got %s want %s; %s", got, strict, d)
				return false
			}
		}
		res.Violate("field-policy-model-mismatch", "got %s want %s (as-built leak model: %s); %s", got, strict, leak, d)
		return false
	}

	// --- round 0: all options of the pool, in order
	opts := mkOpts(g.opts, vals)
	got, ok := lib(a, b, opts, desc)
	if !ok {
		return res.Done()
	}
	gl := 0
	for i := range globals {
		if globals[i].p == g.p {
			gl = i
		}
	}
	strict := mergeModel(a, b, strictPolicy(g.p, fos)).CanonTop()
	plain := mergeModel(a, b, model.Global(g.p))
	res.SetAdd("global", g.p.String())
	for _, f := range fos {
		res.SetAdd("field_policy", fieldPols[f.h].name)
		form := "concrete"
		switch {
		case isDoubleStar(f.path):
			form = dsForm(f.path)
		case f.path[0] == "*":
			form = "*.name"
		case len(f.path) == 3 && f.path[1] == "*":
			form = "name.*.name"
		}
		res.SetAdd("path_form", fmt.Sprintf("%s/len%d", form, len(f.path)))
		if isDoubleStar(f.path) {
			continue
		}
		if pathExists(a, f.path) || pathExists(b, f.path) {
			res.Ev("option_path_present", 1)
		} else {
			res.Ev("option_path_absent", 1)
		}
	}
	res.SetAdd("options_per_merge", strconv.Itoa(len(fos)))
	// would the loss of the options in sel show in the result?
	decides := func(sel func(f fopt) bool) bool {
		var rest []fopt
		for _, f := range fos {
			if !sel(f) {
				rest = append(rest, f)
			}
		}
		return len(rest) < len(fos) && mergeModel(a, b, strictPolicy(g.p, rest)).CanonTop() != strict
	}
	res.SetAdd("pathsep_placement", psNames[md.ps])
	res.SetAdd("pathsep", fmt.Sprintf("%q %s", md.sep, psNames[md.ps]))
	if md.otherSep() {
		res.Ev("pathsep_other_than_dot_cases", 1)
		before := 0
		for i := range fos {
			if md.afterOtherSep(i) {
				before++
			}
		}
		if before > 0 {
			res.Ev("pathsep_other_than_dot_before_field_options_cases", 1)
			if decides(func(f fopt) bool {
				for i := range fos {
					if md.afterOtherSep(i) && samePath(f.path, fos[i].path) {
						return true
					}
				}
				return false
			}) {
				res.Ev("pathsep_other_than_dot_before_field_options_that_decide", 1)
			}
		}
	}
	if md.fold {
		if n := md.foldedKeys(a) + md.foldedKeys(b); n > 0 {
			res.Ev("folded_key_cases", 1)
			res.Ev("folded_keys", int64(n))
			res.SetAdd("folded_key_separator", md.sep)
			if strict != plain.CanonTop() {
				res.Ev("folded_key_cases_where_options_decide", 1)
			}
		}
	}
	if md.ps != psFirst {
		res.Ev("pathsep_not_first_cases", 1)
		if strict != plain.CanonTop() {
			res.Ev("pathsep_not_first_and_options_decide", 1)
		}
	}
	if md.num >= 0 {
		res.Ev("numeric_name_cases", 1)
		res.SetAdd("numeric_names_kept_by", numOptions[md.num].name)
		for n := range md.numNames {
			res.SetAdd("numeric_names", n)
		}
		if decides(func(f fopt) bool { return md.throughNumericName(f.path) }) {
			res.Ev("numeric_name_on_option_path_decides", 1)
		}
	}
	if md.long {
		res.Ev("long_list_cases", 1)
		res.SetAdd("long_list_position", strconv.Itoa(md.longIdx))
		if decides(func(f fopt) bool { return positionAbove1024(f.path) }) {
			res.Ev("long_list_position_above_1024_decides", 1)
		}
	}
	for i := range fos {
		switch md.lostOptionSig(fos, i) {
		case "double-star-followed-by-several-components-never-applies":
			res.Ev("**_followed_by_several_components", 1)
			if decides(func(f fopt) bool { return samePath(f.path, fos[i].path) }) {
				res.Ev("**_followed_by_several_components_decides", 1)
			}
		case "option-below-a-node-matched-by-**-is-lost":
			res.Ev("option_below_a_**_match", 1)
			if decides(func(f fopt) bool { return samePath(f.path, fos[i].path) }) {
				res.Ev("option_below_a_**_match_decides", 1)
			}
		case "inner-**-lost-next-to-another-**":
			res.Ev("inner_**_next_to_another_**", 1)
			if decides(func(f fopt) bool { return samePath(f.path, fos[i].path) }) {
				res.Ev("inner_**_next_to_another_**_decides", 1)
			}
		}
	}
	if len(fos) > 1 {
		res.SetAdd("combination", comboKind(fos))
		if hasDoubleStar(fos) && comboKind(fos)[len("0x**+"):] != "0xconcrete" {
			res.Ev("combined_**_with_concrete", 1)
		}
		// does the combination decide more than any single option of it?
		more := true
		for _, f := range fos {
			if mergeModel(a, b, strictPolicy(g.p, []fopt{f})).CanonTop() == strict {
				more = false
			}
		}
		if more {
			res.Ev("combination_differs_from_every_single_option", 1)
		}
	}
	if len(decoys) > 0 {
		res.Ev("decoy_same_names_at_other_depth", int64(len(decoys)))
		if mergeModel(a, b, decoyPolicy(g.p, fos, decoys)).CanonTop() != strict {
			res.Ev("decoy_would_show_a_leak", 1)
		}
	}
	if strict != plain.CanonTop() {
		res.Key(desc)
		res.Ev("option_changes_result", 1)
	}
	if aRef != nil {
		res.Ev("ref_cases", 1)
		decisive := false
		for _, st := range sites {
			kind := "object"
			if st.list {
				kind = "list"
			}
			if st.chain {
				kind += "/chain"
			}
			res.SetAdd("ref_target", kind)
			if nb := nodeAt(b, st.path); nb.IsSub() {
				res.Ev("ref_sites_meeting_a_container_of_B", 1)
			}
			for _, f := range fos {
				switch {
				case isDoubleStar(f.path):
					if matchEnd(st.path, f.path) >= 0 {
						res.Ev("ref_sites_inside_option_subtree", 1)
						decisive = true
					}
				case samePath(st.path, f.path):
					res.Ev("ref_sites_at_option_path", 1)
					decisive = true
				case model.HasPrefix(f.path, st.path):
					res.Ev("ref_sites_above_option_path", 1)
					decisive = true
				case model.HasPrefix(st.path, f.path):
					res.Ev("ref_sites_inside_option_subtree", 1)
					decisive = true
				}
			}
			for _, dc := range decoys {
				if related(st.path, dc.path) {
					res.Ev("ref_sites_on_decoy", 1)
				}
			}
		}
		if len(sites) > 1 && model.HasPrefix(sites[0].path, sites[1].path) {
			res.Ev("ref_site_inside_referenced_value", 1)
		}
		if decisive && strict != plain.CanonTop() && g.p != model.PReplace {
			res.Ev("ref_cases_where_options_decide", 1)
		}
		checkRef(gl, fos, b, got, desc)
	}
	known := classify(got, gl, fos, a, b, desc)

	// --- further rounds: the SAME Option values in other calls (another
	// selection, another order, another global policy, operands swapped). An
	// Option is a value: what it does may not depend on the calls it was part
	// of before. Differential twin: the same call with newly created options.
	if !known && len(res.Violations) == 0 && r.Intn(2) == 0 {
		history := fmt.Sprintf("[call 1: %v]", fos)
		for rd, n := 0, 1+r.Intn(2); rd < n; rd++ {
			perm := r.Perm(len(fos))
			sel := perm[:1+r.Intn(len(perm))]
			g2 := gl
			if r.Intn(2) == 0 {
				g2 = r.Intn(len(globals))
			}
			x, y := a, b
			if r.Intn(3) == 0 {
				x, y = b, a
			}
			var fs []fopt
			var vs []ucfg.Option
			for _, i := range sel {
				fs = append(fs, fos[i])
				vs = append(vs, vals[i])
			}
			d := fmt.Sprintf("global=%v options=%v (Option values reused from earlier calls %s) A=%s B=%s", globals[g2].p, fs, history, x, y)
			history += fmt.Sprintf(" [call %d: %v]", rd+2, fs)
			gotR, ok := lib(x, y, mkOpts(globals[g2].opts, vs), d)
			if !ok {
				break
			}
			gotF, ok := lib(x, y, mkOpts(globals[g2].opts, fresh(fs)), d+" [twin with new Option values]")
			if !ok {
				break
			}
			res.Ev("reuse_calls", 1)
			if len(fs) < len(fos) {
				res.Ev("reuse_calls_with_fewer_options", 1)
				full := mergeModel(x, y, strictPolicy(globals[g2].p, fos)).CanonTop()
				if full != mergeModel(x, y, strictPolicy(globals[g2].p, fs)).CanonTop() {
					// a left-over of a dropped option would be visible here
					res.Ev("reuse_calls_where_dropped_option_would_show", 1)
				}
			}
			if g2 != gl {
				res.Ev("reuse_calls_other_global", 1)
			}
			if gotR != gotF {
				res.Violate("reused-option-value-carries-state-across-merges", "an Option value that already took part in other Merge calls gives another result than a newly created one: reused %s, new %s; %s", gotR, gotF, d)
				break
			}
			if x == a {
				checkRef(g2, fs, y, gotF, d)
			}
			if classify(gotR, g2, fs, x, y, d) || len(res.Violations) > 0 {
				break
			}
		}
	}

	// model-independent laws on round 0 (skipped where the known leak explains the result)
	if known {
		return res.Done()
	}
	panicked, pv, where := harness.Safe(func() {
		cPlain, err := mergeLib(md, a, b, mkOpts(g.opts, nil))
		res.Eval(2)
		if err != nil {
			return
		}
		gotPlain, err := obs.Top(cPlain)
		if err != nil {
			return
		}
		// law 2: a concrete path that matches nothing in either tree changes nothing
		matchesNothing := true
		for _, f := range fos {
			if hasWildcard([]fopt{f}) || pathExists(a, f.path) || pathExists(b, f.path) {
				matchesNothing = false
			}
		}
		if matchesNothing {
			res.Ev("law_absent_path_checked", 1)
			if got != gotPlain {
				res.Violate("law-absent-path-changes-result", "option path present in neither tree, yet result differs from the plain global merge: got %s plain %s; %s", got, gotPlain, desc)
			}
		}
		// law 1: outside the subtrees named by the options nothing changes
		// (options made of names only, or **.name: everything called name)
		if !hasStarForm(fos) {
			names := true
			for _, f := range fos {
				if !namesOnly(f.path) {
					names = false
				}
			}
			if names {
				var mw, mp map[string]interface{}
				cWith, _ := mergeLib(md, a, b, mkOpts(g.opts, fresh(fos)))
				if cWith == nil || cWith.Unpack(&mw) != nil || cPlain.Unpack(&mp) != nil {
					return
				}
				nw, np := model.FromIfc(mw), model.FromIfc(mp)
				for _, f := range fos {
					if isDoubleStar(f.path) {
						removeMatching(nw, nil, f.path)
						removeMatching(np, nil, f.path)
					} else {
						removeAt(nw, f.path)
						removeAt(np, f.path)
					}
				}
				res.Ev("law_outside_unaffected_checked", 1)
				if hasDoubleStar(fos) {
					res.Ev("law_outside_unaffected_checked_with_**", 1)
				}
				if nw.Canon() != np.Canon() {
					res.Violate("law-outside-subtree-affected", "settings outside the option's subtree differ from the plain global merge: with option %s, plain %s; %s", nw.Canon(), np.Canon(), desc)
				}
			}
		}
	})
	if panicked {
		res.Violate("panic", "panic %q at %s in laws; %s", pv, where, desc)
	}
	return res.Done()
}

func hasStarForm(fos []fopt) bool {
	for _, f := range fos {
		if isStarForm(f.path) {
			return true
		}
	}
	return false
}
