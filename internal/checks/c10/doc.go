// Package c10: see DESIGN.md section 3 C10.
package c10
