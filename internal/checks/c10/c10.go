// Package c10: Merge copies; source and destination stay independent.
package c10

import (
	"fmt"
	"math/rand"
	"strings"

	ucfg "github.com/elastic/go-ucfg"
	"github.com/elastic/go-ucfg/cfgutil"
	ucfgflag "github.com/elastic/go-ucfg/flag"

	"verif/internal/gen"
	"verif/internal/harness"
	"verif/internal/model"
)

type check struct{}

func init() { harness.Register(check{}) }

func (check) ID() string { return "C10" }

func (check) Cases(tier string) int {
	if tier == "thorough" {
		return 100000
	}
	return 3000
}

func (check) Rule() string {
	return "a source config (root, child or grand-child handle; half of them with ${...} references to their own root, a third with references to whole objects/lists of their own tree; half of them with a prior history of Remove/Set/drain-a-container/grow-and-shrink operations, so that emptied objects and lists, detached spellings and re-set values occur) is merged into a destination (empty or a mutation of the source tree, half of these with references to their own objects at keys the source also defines, a third with a prior history) directly, or embedded in a map, a nested map, a slice (twice), a struct field of type *Config or Config, under one of 5 policies, through Config.Merge or (1 of 4 cases) through a cfgutil.Collector (started with nil, an empty or a filled config) that 0-3 further *Config sources are added to before/after the source, each of them held to the same invariants; a fifth of the source roots and the destinations they meet are list-shaped (top-level lists, generated, with ${0}-style references to their own entries), a tenth of all destinations are lists; the non-evaluating fingerprint of the source's whole root tree (node addresses, stored field names, parent links, values, unresolved expressions) and its public reads (Path, Parent, Unpack with its own references) are compared before/after; node address sets of source and destination must be disjoint and no parent link of a destination node may name a config of a source; then (2 of 3 cases) every container of one or both sides receives a probe write (new key / appended element) and then a history of 1-12 Set*/Remove/Merge/SetChild operations (also through flag.NewFlagKeyValue(side).Set and Collector.Add; addresses from a fixed pool and from the trees as they are now; up to 2 of the merges take the OTHER side, directly or embedded, as their source) is applied to one side while the other side's fingerprint and unpack must stay constant and the address sets stay disjoint after every step. Second part of every case: source and destination are parts of ONE tree (source a child of the destination, an ancestor of it, the destination itself, a sibling subtree; dict- and list-shaped trees, direct or in a map, 5 policies, with/without MetaData, a third with a prior history): the tree must end as the same merge between two identical separate trees ends (3 repetitions on fresh identical trees must agree with it and with each other), sibling sources keep their fingerprint and share nothing with the destination. A quarter of the sources are built with MetaData, a third of the merges carry the MetaData option. Non-trivial = source has >= 3 nodes and the history performed >= 1 successful mutation; distinct = distinct (source, placement, policy, history)."
}

func (check) Assumptions() []string {
	return []string{
		"the VerifWalk hook exposes stored state faithfully without evaluating it",
		"sharing of immutable parts (*Meta records, parsed expression trees) between copies is by design and not checked; only Config nodes, fields tables and value cells are",
		"not demanded: independence of *Config values captured by Unpack into a *Config field (documented as capturing a reference)",
		"a source that is a part of the tree merged into (child or ancestor of the destination, the destination itself) is inside the property: 'merging from a config' merges what the config holds when Merge is called, so the tree must end as if an untouched copy of it had supplied the source (differential twin); where that leaves the source's part of the tree as it was, the source must not have moved; sibling subtrees are held to the plain statement (source fingerprint constant, nothing shared)",
		"the MetaData option of a Merge is a statement about the destination: the metadata source of every node of the operand is part of the source's fingerprint",
		"not generated: cyclic Config graphs built through the API (SetChild of an ancestor root; audit item 2): the Merge documentation excludes cyclic structures and the statement is about what a merge does to source and destination, not about refusing malformed operands; surviving them is C07's subject",
		"not judged: what an inlined list-shaped *Config contributes to the destination (audit item 3): the source stays untouched, the result of normalization is C05's subject",
	}
}

var rdOpts = []ucfg.Option{ucfg.PathSep("."), ucfg.VarExp}

var treeOpts = gen.TreeOpts{Prims: []interface{}{"s", "t", int64(-3), uint64(7), true, 2.5, "x y"}}

// fp is the non-evaluating picture of a tree: text (compared before/after),
// the addresses of its config nodes, fields tables and value cells, and the
// nodes in walk order.
type fp struct {
	text  string
	addrs map[uintptr]string
	walk  []ucfg.VerifNode
}

func fingerprintOf(c *ucfg.Config) fp {
	walk := ucfg.VerifWalk(c)
	var b strings.Builder
	addrs := map[uintptr]string{}
	for _, n := range walk {
		fmt.Fprintf(&b, "%s|%s|%x|%x|%q|%x|%x|%q|%q|%d|%d|%v\n", n.Walk, n.Kind, n.Addr, n.Fields, n.Field, n.Parent, n.Holder, n.Text, n.Source, n.NDict, n.NArr, n.HasArr)
		if n.Addr != 0 {
			addrs[n.Addr] = n.Walk
		}
		if n.Fields != 0 {
			addrs[n.Fields] = n.Walk + "(fields)"
		}
	}
	return fp{b.String(), addrs, walk}
}

// gained classifies a difference between two pictures of the same tree: the
// first node that differs is a container that had no entries and has some now.
func gained(before, after fp) string {
	if len(before.walk) == len(after.walk) {
		// the two pictures differ in nothing but the source recorded in the
		// metadata of their nodes
		same, diff := true, false
		for i, n := range before.walk {
			m := after.walk[i]
			if n.Source != m.Source {
				diff = true
				m.Source = n.Source
			}
			if n != m {
				same = false
				break
			}
		}
		if same && diff {
			return ":only-metadata-source-of-nodes-changed"
		}
		// ... or in nothing but the stored parent links
		same, diff = true, false
		for i, n := range before.walk {
			m := after.walk[i]
			if n.Parent != m.Parent {
				diff = true
				m.Parent = n.Parent
			}
			if n != m {
				same = false
				break
			}
		}
		if same && diff {
			return ":only-parent-links-of-nodes-changed"
		}
	}
	for i, n := range before.walk {
		if i >= len(after.walk) {
			return ""
		}
		m := after.walk[i]
		if n == m {
			continue
		}
		if n.Kind == "sub" && n.NDict+n.NArr == 0 && m.Kind == "sub" && m.Addr == n.Addr && m.Walk == n.Walk && m.NDict+m.NArr > 0 {
			return ":empty-container-gained-entries"
		}
		return ""
	}
	return ""
}

// aliased returns the first node (in walk order of the destination) that is
// the same object as a node of the source.
func aliased(dst, src fp) (dstWalk, srcWalk string, addr uintptr, found bool) {
	for _, n := range dst.walk {
		if n.Addr != 0 {
			if sw, ok := src.addrs[n.Addr]; ok {
				return n.Walk, sw, n.Addr, true
			}
		}
		if n.Fields != 0 {
			if sw, ok := src.addrs[n.Fields]; ok {
				return n.Walk + "(fields)", sw, n.Fields, true
			}
		}
	}
	return "", "", 0, false
}

func join(p, k string) string {
	if p == "" {
		return k
	}
	return p + "." + k
}

func parentOf(p string) string {
	if i := strings.LastIndex(p, "."); i >= 0 {
		return p[:i]
	}
	return ""
}

// newEntry names a setting that does not exist yet inside container n.
func newEntry(n ucfg.VerifNode, key string) string {
	if n.NArr > 0 || (n.HasArr && n.NDict == 0) {
		return join(n.Walk, fmt.Sprint(n.NArr))
	}
	return join(n.Walk, key)
}

func emptyContainer(walk []ucfg.VerifNode, p string) bool {
	for _, n := range walk {
		if n.Walk == p {
			return n.Kind == "sub" && n.NDict == 0 && n.NArr == 0
		}
	}
	return false
}

func subs(walk []ucfg.VerifNode) []ucfg.VerifNode {
	var out []ucfg.VerifNode
	for _, n := range walk {
		if n.Kind == "sub" {
			out = append(out, n)
		}
	}
	return out
}

var sepOpt = ucfg.PathSep(".")

// prehistory applies 1-3 operations to c before it takes part in the merge:
// the states a long-lived config is in (emptied containers, re-set values,
// settings that came and went) are not reachable by NewFrom alone.
func prehistory(r *rand.Rand, c *ucfg.Config, protect map[string]bool, who string, log *[]string) (ops int, drained []string) {
	k := 1 + r.Intn(3)
	for i := 0; i < k; i++ {
		walk := ucfg.VerifWalk(c)
		var nodes, conts, full []ucfg.VerifNode
		for _, n := range walk[1:] {
			if protect[n.Walk] {
				continue
			}
			nodes = append(nodes, n)
			if n.Kind == "sub" {
				conts = append(conts, n)
				if n.NDict+n.NArr > 0 {
					full = append(full, n)
				}
			}
		}
		conts = append(conts, walk[0])
		var err error
		var what string
		switch op := r.Intn(7); {
		case op == 0 && len(nodes) > 0:
			n := nodes[r.Intn(len(nodes))]
			_, err = c.Remove(n.Walk, -1, sepOpt)
			what = fmt.Sprintf("Remove(%q)", n.Walk)
		case op <= 2 && len(full) > 0:
			// drain: every entry of one container is removed, the container stays
			n := full[r.Intn(len(full))]
			var kids []string
			for _, m := range walk {
				if m.Walk != n.Walk && parentOf(m.Walk) == n.Walk && strings.HasPrefix(m.Walk, join(n.Walk, "")) {
					kids = append(kids, m.Walk)
				}
			}
			for j := len(kids) - 1; j >= 0 && err == nil; j-- {
				if protect[kids[j]] {
					continue
				}
				_, err = c.Remove(kids[j], -1, sepOpt)
			}
			what = fmt.Sprintf("drain(%q)", n.Walk)
			if err == nil {
				drained = append(drained, n.Walk)
			}
		case op == 3 && len(nodes) > 0:
			n := nodes[r.Intn(len(nodes))]
			err = c.SetString(n.Walk, -1, fmt.Sprintf("p%d", i), sepOpt)
			what = fmt.Sprintf("SetString(%q)", n.Walk)
		case op == 4:
			n := conts[r.Intn(len(conts))]
			name := newEntry(n, "nk")
			err = c.SetInt(name, -1, int64(40+i), sepOpt)
			what = fmt.Sprintf("SetInt(%q)", name)
		case op == 5:
			// a setting that came and went
			n := conts[r.Intn(len(conts))]
			name := newEntry(n, "tmp")
			if err = c.SetBool(name, -1, true, sepOpt); err == nil {
				_, err = c.Remove(name, -1, sepOpt)
			}
			what = fmt.Sprintf("Set+Remove(%q)", name)
			if err == nil && n.NDict+n.NArr == 0 {
				drained = append(drained, n.Walk)
			}
		default:
			n := conts[r.Intn(len(conts))]
			name := newEntry(n, "sc")
			sub := ucfg.New()
			sub.SetString("k", -1, "v")
			err = c.SetChild(name, -1, sub, sepOpt)
			what = fmt.Sprintf("SetChild(%q)", name)
		}
		if err == nil {
			ops++
		}
		*log = append(*log, fmt.Sprintf("pre:%s.%s err=%v", who, what, err != nil))
	}
	return ops, drained
}

var plainRefs = []string{"${x}", "p-${x}", "${y.z}", "${x}${y.z}", "${missing:dflt}"}

// hasObjRef: the subtree contains a reference other than the plain ones.
func hasObjRef(n *model.Node) bool {
	if n == nil {
		return false
	}
	if s, ok := n.Prim.(string); ok && n.Kind == model.KPrim && strings.Contains(s, "${") {
		for _, p := range append(plainRefs[:len(plainRefs):len(plainRefs)], listRefs...) {
			if s == p {
				return false
			}
		}
		return true
	}
	for _, v := range n.D {
		if hasObjRef(v) {
			return true
		}
	}
	for _, v := range n.A {
		if hasObjRef(v) {
			return true
		}
	}
	return false
}

// withObjRefs replaces some settings of the top-level dictionary n (located
// at prefix in its tree) by references to whole objects/lists next to them.
// The referenced containers hold no such reference themselves (no cycles).
func withObjRefs(r *rand.Rand, n *model.Node, prefix string) int {
	keys := n.SortedKeys()
	target := map[string]bool{}
	var targets []string
	for _, k := range keys {
		if v := n.D[k]; v.IsSub() && !hasObjRef(v) && (k == "y" || r.Intn(2) == 0) {
			target[k] = true
			targets = append(targets, k)
		}
	}
	if len(targets) == 0 {
		return 0
	}
	ref := func() *model.Node { return model.P("${" + prefix + targets[r.Intn(len(targets))] + "}") }
	cnt := 0
	for _, k := range keys {
		if target[k] || k == "x" {
			continue
		}
		v := n.D[k]
		if r.Intn(2) == 0 {
			n.D[k] = ref()
			cnt++
			continue
		}
		if v.IsSub() {
			for _, kk := range v.SortedKeys() {
				if r.Intn(4) == 0 {
					v.D[kk] = ref()
					cnt++
				}
			}
		}
	}
	return cnt
}

func root(c *ucfg.Config) *ucfg.Config {
	for c.Parent() != nil {
		c = c.Parent()
	}
	return c
}

type reads struct {
	path   string
	parent *ucfg.Config
	unpack string
}

func readAll(c *ucfg.Config) reads {
	r := reads{path: c.Path("."), parent: c.Parent()}
	var m map[string]interface{}
	var a []interface{}
	e1 := c.Unpack(&m, rdOpts...)
	e2 := c.Unpack(&a, rdOpts...)
	if e1 != nil {
		m = nil // a failed Unpack leaves partial data behind; only the failure is compared
	}
	if e2 != nil {
		a = nil
	}
	r.unpack = fmt.Sprintf("%s|%s|%v|%v", model.CanonIfc(m), model.CanonIfc(a), e1 != nil, e2 != nil)
	return r
}

// withRefs sprinkles references to the tree's own root into string leaves.
func withRefs(r *rand.Rand, n *model.Node) { withRefsOf(r, n, plainRefs) }

// listRefs: the plain references of a list-shaped root ([v0, {z: vz}, ...]).
var listRefs = []string{"${0}", "p-${0}", "${1.z}", "${0}${1.z}", "${missing:dflt}"}

func withRefsOf(r *rand.Rand, n *model.Node, pool []string) {
	if !n.IsSub() {
		return
	}
	for _, k := range n.SortedKeys() {
		v := n.D[k]
		if v.Kind == model.KPrim {
			if _, ok := v.Prim.(string); ok && r.Intn(2) == 0 {
				v.Prim = pool[r.Intn(len(pool))]
			}
		}
		withRefsOf(r, v, pool)
	}
	for _, v := range n.A {
		if v.Kind == model.KPrim {
			if _, ok := v.Prim.(string); ok && r.Intn(3) == 0 {
				v.Prim = pool[0]
			}
		}
		withRefsOf(r, v, pool)
	}
}

// listTop generates a list-shaped top level: entry 0 and entry 1.z are plain
// values (what the references of the other entries point to), followed by
// 0-3 arbitrary entries.
func listTop(r *rand.Rand, first string, refs bool) *model.Node {
	l := model.List(model.P(first), model.Dict().Set("z", model.P("vz")))
	for i, k := 0, r.Intn(4); i < k; i++ {
		e := gen.Tree(r, treeOpts, 2)
		if refs {
			if _, ok := e.Prim.(string); ok && e.Kind == model.KPrim && r.Intn(2) == 0 {
				e.Prim = listRefs[r.Intn(len(listRefs))]
			}
			withRefsOf(r, e, listRefs)
		}
		l.A = append(l.A, e)
	}
	return l
}

type embC struct {
	E *ucfg.Config `config:"emb"`
}
type embSecond struct {
	E *ucfg.Config `config:"emb"`
	Z string       `config:"emb.zz9"`
}

// a *Config (or Config) in a field tagged inline contributes its settings and
// its list elements to the enclosing object
type inlC struct {
	N string       `config:"zzname"`
	E *ucfg.Config `config:",inline"`
}
type inlV struct {
	E ucfg.Config `config:",inline"`
}
type inl2 struct {
	A *ucfg.Config `config:",inline"`
	B *ucfg.Config `config:",inline"`
}

type embV struct {
	E ucfg.Config `config:"emb"`
}

func (check) Run(seed int64, tier string, idx int, verbose bool) harness.Result {
	res := harness.NewR(idx)
	r := rand.New(rand.NewSource(harness.Mix(seed, "C10", idx)))
	var log []string
	fail := func(sig, format string, a ...interface{}) {
		res.Violate(sig, "%s; steps=[%s]", fmt.Sprintf(format, a...), strings.Join(log, "; "))
	}
	panicked, pv, where := harness.Safe(func() {
		// --- build the source ---
		st := gen.TopDict(r, treeOpts, 3)
		refs := r.Intn(2) == 0
		listRoot := r.Intn(5) == 0
		protect := map[string]bool{"x": true, "y": true, "y.z": true}
		if listRoot {
			// the source's root is a list; its references name entries by index
			st = listTop(r, "v0", refs)
			protect = map[string]bool{"0": true, "1": true, "1.z": true}
			res.Ev("list_shaped_source_roots", 1)
		} else {
			if refs {
				withRefs(r, st)
			}
			// the referenced settings themselves are plain values (no setting is
			// reached twice in one evaluation: that is C08/C09 territory)
			st.Set("x", model.P("vx"))
			st.Set("y", model.Dict().Set("z", model.P("vz")))
			if r.Intn(3) == 0 {
				// settings that are references to whole objects/lists of the same tree
				res.Ev("source_object_references", int64(withObjRefs(r, st, "")))
			}
			if r.Intn(3) == 0 {
				// references to settings that are references themselves
				for i, k := 0, 1+r.Intn(2); i < k; i++ {
					cand := []string{"x"}
					for _, key := range st.SortedKeys() {
						if v := st.D[key]; v.Kind == model.KPrim {
							if t, ok := v.Prim.(string); ok && strings.Contains(t, "${") {
								cand = append(cand, key)
							}
						}
					}
					st.Set(fmt.Sprintf("w%d", i+1), model.P("${"+cand[r.Intn(len(cand))]+"}"))
					res.Ev("source_chained_references", 1)
				}
			}
		}
		// a quarter of the sources know where they come from (MetaData), the
		// others have no metadata on their nodes
		srcOpts := rdOpts
		if r.Intn(4) == 0 {
			srcOpts = append(append([]ucfg.Option{}, rdOpts...), ucfg.MetaData(ucfg.Meta{Source: "src.yml"}))
		}
		srcRoot, err := ucfg.NewFrom(st.ToGo(), srcOpts...)
		res.Eval(1)
		if err != nil {
			fail("newfrom-error", "NewFrom(%s): %v", st, err)
			return
		}
		log = append(log, fmt.Sprintf("srcRoot=%s (refs=%v)", st, refs))
		var srcDrained []string
		if r.Intn(2) == 0 {
			var n int
			n, srcDrained = prehistory(r, srcRoot, protect, "srcRoot", &log)
			res.Ev("source_prehistory_ops", int64(n))
			res.Eval(n)
		}
		// the handle that is merged: the root, a child or a grand-child (as
		// the tree is now: emptied containers are handles like any other)
		src, srcKind, srcPath := srcRoot, "root", ""
		if listRoot {
			srcKind = "root-list"
		}
		for depth := 0; depth < 2 && r.Intn(2) == 0; depth++ {
			var cand []ucfg.VerifNode
			for _, n := range ucfg.VerifWalk(src)[1:] {
				if n.Kind == "sub" && !strings.Contains(n.Walk, ".") && (n.NDict+n.NArr > 0 || r.Intn(3) == 0) {
					cand = append(cand, n)
				}
			}
			if len(cand) == 0 {
				break
			}
			k := cand[r.Intn(len(cand))]
			ch, err := src.Child(k.Walk, -1, sepOpt)
			if err != nil || ch == nil {
				break
			}
			src, srcPath = ch, join(srcPath, k.Walk)
			srcKind = []string{"child", "grandchild"}[depth]
			if k.NArr > 0 {
				srcKind += "-list"
				break
			}
		}
		srcIsList := ucfg.VerifWalk(src)[0].NArr > 0
		log = append(log, fmt.Sprintf("src=%s %q", srcKind, srcPath))
		res.SetAdd("source_kind", srcKind)

		// --- destination ---
		var dst *ucfg.Config
		dstKind := "dict"
		if (srcIsList && r.Intn(3) > 0) || r.Intn(10) == 0 {
			// a list-shaped destination (top-level lists are merged in place):
			// empty, the fixed two entries, or generated with references to
			// its own entries
			var dl *model.Node
			switch r.Intn(4) {
			case 0:
				dl = model.List()
			case 1:
				dl = model.List(model.P("d0"), model.Dict().Set("a", model.P("d1")))
			default:
				dl = listTop(r, "d0", r.Intn(2) == 0)
				if r.Intn(3) == 0 {
					dl.A = dl.A[:1]
				}
			}
			dst, err = ucfg.NewFrom(dl.ToGo(), rdOpts...)
			if err != nil {
				fail("newfrom-error", "NewFrom(%s): %v", dl, err)
				return
			}
			log = append(log, fmt.Sprintf("dst=%s", dl))
			dstKind = "list"
			if r.Intn(4) == 0 {
				n, _ := prehistory(r, dst, map[string]bool{"0": true, "1": true, "1.z": true}, "dst", &log)
				res.Ev("destination_prehistory_ops", int64(n))
				res.Eval(n)
			}
		} else if r.Intn(2) == 0 {
			dst = ucfg.New()
			log = append(log, "dst=empty")
			dstKind = "empty"
		} else {
			dt := gen.MutateTop(r, treeOpts, st, 3)
			for !dt.IsSub() || dt.HasA {
				dt = gen.TopDict(r, treeOpts, 3)
			}
			wrap := r.Intn(2) == 0
			if r.Intn(3) > 0 {
				// the destination refers to objects/lists of its own at keys
				// the source may define as well
				pre := ""
				if wrap {
					pre = "emb."
				}
				res.Ev("destination_object_references", int64(withObjRefs(r, dt, pre)))
			}
			if wrap {
				dt = model.Dict().Set("emb", dt)
			}
			dst, err = ucfg.NewFrom(dt.ToGo(), rdOpts...)
			if err != nil {
				fail("newfrom-error", "NewFrom(%s): %v", dt, err)
				return
			}
			log = append(log, fmt.Sprintf("dst=%s", dt))
			if r.Intn(3) == 0 {
				n, _ := prehistory(r, dst, nil, "dst", &log)
				res.Ev("destination_prehistory_ops", int64(n))
				res.Eval(n)
			}
		}

		pols := []struct {
			n string
			o ucfg.Option
		}{{"default", nil}, {"replace", ucfg.ReplaceValues}, {"arr-replace", ucfg.ReplaceArrValues}, {"append", ucfg.AppendValues}, {"prepend", ucfg.PrependValues}}
		pol := pols[r.Intn(len(pols))]
		mo := []ucfg.Option{ucfg.PathSep(".")}
		if pol.o != nil {
			mo = append(mo, pol.o)
		}
		res.SetAdd("policy", pol.n)
		if r.Intn(3) == 0 {
			// the merge (and every later merge of the history) names the
			// source of what it merges: that is a statement about the
			// destination only
			mo = append(mo, ucfg.MetaData(ucfg.Meta{Source: "overlay.yml"}))
			pol.n += "+metadata"
			res.Ev("cases_merging_with_metadata_option", 1)
			for _, n := range ucfg.VerifWalk(src) {
				if n.Source == "" {
					res.Ev("source_nodes_without_metadata_meeting_metadata_merge", 1)
				}
			}
		}

		// --- entry point: Config.Merge, or a cfgutil.Collector that the source
		// (and further sources before/after it) is added to ---
		var col *cfgutil.Collector
		var extras []*ucfg.Config // the further sources: nothing ever writes to them
		preExtras := 0
		if r.Intn(4) == 0 {
			if dstKind == "empty" && r.Intn(2) == 0 {
				col = cfgutil.NewCollector(nil, mo...)
				dstKind = "collector-made"
			} else {
				col = cfgutil.NewCollector(dst, mo...)
			}
			dst = col.Config()
			nx := r.Intn(4)
			for i := 0; i < nx; i++ {
				var xt *model.Node
				switch {
				case srcIsList || dstKind == "list":
					xt = listTop(r, fmt.Sprintf("e%d", i), r.Intn(2) == 0)
				case r.Intn(2) == 0 && !listRoot:
					xt = gen.MutateTop(r, treeOpts, st, 3)
				default:
					xt = gen.TopDict(r, treeOpts, 3)
				}
				x, err := ucfg.NewFrom(xt.ToGo(), rdOpts...)
				if err != nil {
					fail("newfrom-error", "NewFrom(%s): %v", xt, err)
					return
				}
				log = append(log, fmt.Sprintf("extra%d=%s", i, xt))
				extras = append(extras, x)
			}
			preExtras = r.Intn(len(extras) + 1)
			res.SetAdd("collector_sequence", fmt.Sprintf("start=%s pre=%d post=%d", dstKind, preExtras, len(extras)-preExtras))
		}
		res.SetAdd("destination_kind", dstKind)

		// child handles of the destination taken before the merge: whatever
		// becomes of them (still part of the destination or detached), they
		// never belong to the source
		var dstHandles []*ucfg.Config
		if ss := subs(ucfg.VerifWalk(dst)); len(ss) > 1 && r.Intn(2) == 0 {
			for i, k := 0, 1+r.Intn(3); i < k; i++ {
				n := ss[1+r.Intn(len(ss)-1)]
				if h, err := dst.Child(n.Walk, -1, sepOpt); err == nil && h != nil {
					dstHandles = append(dstHandles, h)
					log = append(log, fmt.Sprintf("h%d=dst.Child(%q)", len(dstHandles)-1, n.Walk))
				}
			}
			res.Ev("destination_child_handles_taken_before_merge", int64(len(dstHandles)))
		}

		// --- placement ---
		var from interface{}
		placement := []string{"direct", "map", "nested-map", "slice-twice", "struct-ptr", "struct-value", "map-twice", "map-second-spelling", "struct-second-spelling", "struct-inline-ptr", "struct-inline-value", "struct-two-inline"}[r.Intn(12)]
		if (srcIsList && r.Intn(2) == 0) || r.Intn(5) == 0 || col != nil {
			placement = "direct"
		}
		prefix := "emb"
		switch placement {
		case "direct":
			from, prefix = src, ""
		case "map":
			from = map[string]interface{}{"emb": src}
		case "nested-map":
			from, prefix = map[string]interface{}{"m": map[string]interface{}{"emb": src}, "o": 1}, "m.emb"
		case "slice-twice":
			from, prefix = map[string]interface{}{"l": []interface{}{src, "mid", src}}, "l.0"
		case "struct-ptr":
			from = embC{src}
		case "struct-value":
			from = &embV{*src}
		case "map-twice":
			from = map[string]interface{}{"emb": src, "emb2": src}
		case "map-second-spelling":
			// the namespace the source is embedded under is spelled a second
			// time in the same input (a dotted key adding a new setting)
			from = map[string]interface{}{"emb": src, "emb.zz9": "second", "emb.zz8.k": 1}
		case "struct-second-spelling":
			from = embSecond{E: src, Z: "second"}
		case "struct-inline-ptr":
			from, prefix = inlC{N: "n", E: src}, ""
		case "struct-inline-value":
			from, prefix = &inlV{*src}, ""
		case "struct-two-inline":
			// a second inlined config defines other settings of the objects
			// the source holds at the same names / list positions
			prefix = ""
			w := ucfg.VerifWalk(src)
			var second *model.Node
			if w[0].NArr > 0 {
				second = model.List()
			} else {
				second = model.Dict().Set("zq1", model.P("s"))
			}
			for _, n := range w[1:] {
				if strings.Contains(n.Walk, ".") {
					continue
				}
				switch {
				case second.HasA && n.Kind == "sub" && n.NArr == 0:
					second.A = append(second.A, model.Dict().Set("zq2", model.P(int64(len(second.A)))))
				case second.HasA:
					// nothing can be added to a primitive or list element: the
					// second list ends before it
					goto built
				case n.Kind == "sub" && n.NArr == 0 && r.Intn(2) == 0:
					second.Set(n.Walk, model.Dict().Set("zq2", model.P(int64(1))))
				}
			}
		built:
			sc, err := ucfg.NewFrom(second.ToGo(), rdOpts...)
			if err != nil {
				fail("newfrom-error", "NewFrom(%s): %v", second, err)
				return
			}
			if r.Intn(2) == 0 {
				from = inl2{A: src, B: sc}
				log = append(log, fmt.Sprintf("inline: source, then %s", second))
			} else {
				from = inl2{A: sc, B: src}
				log = append(log, fmt.Sprintf("inline: %s, then source", second))
			}
		}
		embedded := placement != "direct"
		inline := strings.HasPrefix(placement, "struct-inline") || placement == "struct-two-inline"
		if col != nil {
			res.SetAdd("placement", "collector-add")
		} else {
			res.SetAdd("placement", placement)
		}
		// --- before / merge / after ---
		fBefore := fingerprintOf(srcRoot)
		fpBefore := fBefore.text
		rdBefore := readAll(src)
		dstBefore := fingerprintOf(dst)
		{
			// monitors: which of the states the merge meets
			srcW := ucfg.VerifWalk(src)
			kindAt := map[string]string{}
			for _, n := range dstBefore.walk {
				kindAt[n.Walk] = n.Kind
			}
			emptied := 0
			for _, n := range srcW {
				if n.Kind == "sub" && n.NDict+n.NArr == 0 {
					for _, d := range srcDrained {
						if d == join(srcPath, n.Walk) {
							emptied++
							break
						}
					}
				}
				if n.Walk == "" {
					continue
				}
				switch dk := kindAt[join(prefix, n.Walk)]; {
				case dk == "dyn" && n.Kind == "sub":
					res.Ev("destination_reference_meets_source_container", 1)
				case dk == "sub" && n.Kind == "dyn":
					res.Ev("source_reference_meets_destination_container", 1)
				}
			}
			if emptied > 0 {
				res.Ev("cases_source_holds_emptied_container_at_merge", 1)
			}
		}
		if col == nil {
			err = dst.Merge(from, mo...)
			res.Eval(1)
			log = append(log, fmt.Sprintf("dst.Merge(%s, %s)", placement, pol.n))
			if err != nil {
				// a refused merge has not changed the source either
				if after := fingerprintOf(srcRoot); after.text != fBefore.text {
					fail("source-modified-by-refused-merge"+gained(fBefore, after), "Merge returned %v and the fingerprint of the source changed: %q vs %q", err, firstDiff(fBefore.text, after.text), firstDiff(after.text, fBefore.text))
					return
				}
				if inline {
					// inlined settings may collide with what the struct or the
					// other inlined config defines: refusing that is C05's subject
					res.Ev("inline_merges_refused", 1)
					return
				}
				fail("merge-error", "Merge returned %v", err)
				return
			}
			if inline {
				res.Ev("inline_merges_done", 1)
				if ucfg.VerifWalk(src)[0].NArr > 0 {
					res.Ev("inline_merges_of_list_shaped_sources", 1)
				}
			}
		} else {
			// every config handed to the collector is the source of a merge
			seq := append(append(append([]*ucfg.Config{}, extras[:preExtras]...), src), extras[preExtras:]...)
			roots := append(append(append([]*ucfg.Config{}, extras[:preExtras]...), srcRoot), extras[preExtras:]...)
			before := make([]fp, len(roots))
			for i, c := range roots {
				before[i] = fingerprintOf(c)
			}
			for i, c := range seq {
				err = col.Add(c, nil)
				res.Eval(1)
				log = append(log, fmt.Sprintf("collector.Add(#%d, %s)", i, pol.n))
				if err != nil {
					fail("merge-error", "Collector.Add returned %v", err)
					return
				}
				res.Ev("collector_adds", 1)
				for j, c := range roots {
					if after := fingerprintOf(c); after.text != before[j].text {
						sig := "source-modified-by-merge"
						if j != i {
							sig = "source-modified-by-later-add-to-collector"
							if j > i {
								sig = "source-modified-before-it-was-added-to-collector"
							}
						}
						fail(sig+":collector"+gained(before[j], after), "after Add #%d the config #%d handed to the collector changed: %q vs %q", i, j, firstDiff(before[j].text, after.text), firstDiff(after.text, before[j].text))
						return
					}
				}
			}
			if col.Config() != dst {
				dst = col.Config()
			}
		}
		fAfter := fingerprintOf(srcRoot)
		fpAfter := fAfter.text
		rdAfter := readAll(src)
		res.Eval(2)
		res.Ev("source_nodes_fingerprinted", int64(strings.Count(fpAfter, "\n")))
		if fpBefore != fpAfter {
			sig := "source-modified-by-merge"
			if embedded && srcKind == "root" && rdAfter.path != "" && sameExceptRootContext(fpBefore, fpAfter) {
				sig = "embedded-root-source-reparented"
			} else {
				sig += gained(fBefore, fAfter)
			}
			fail(sig, "fingerprint of the source changed: first differing line before=%q after=%q", firstDiff(fpBefore, fpAfter), firstDiff(fpAfter, fpBefore))
			return
		}
		if rdBefore != rdAfter {
			fail("source-reads-changed", "public reads of the source changed: before %+v after %+v", rdBefore, rdAfter)
			return
		}
		// disjoint reports (and classifies) a node shared by both sides
		disjoint := func(when string) bool {
			fd, fs := fingerprintOf(dst), fingerprintOf(srcRoot)
			sfx := ""
			if when != "" {
				sfx = ":" + when
			}
			parented := func(in fp, what, q string) bool {
				// the parent link of every node of the destination stays inside
				// the destination (never names a config of a source)
				for _, n := range fd.walk {
					if n.Parent > 1 {
						if sw, ok := in.addrs[n.Parent]; ok {
							sig := "destination-node-parented-in-source"
							if n.Walk == "" {
								sig = "destination-root-parented-in-source"
							}
							fail(sig+q+sfx, "destination node %q has node %q (%#x) of %s as its parent", n.Walk, sw, n.Parent, what)
							return true
						}
					}
				}
				return false
			}
			dw, sw, a, found := aliased(fd, fs)
			if !found {
				fxs := make([]fp, len(extras))
				for i, x := range extras {
					fxs[i] = fingerprintOf(x)
					if dw, xw, a, found := aliased(fd, fxs[i]); found {
						sig := "aliasing:collector-source"
						if dw == "(fields)" {
							sig += ":root-fields-table"
						}
						fail(sig+sfx, "destination node %q and node %q of extra source %d are the same object (%#x)", dw, xw, i, a)
						return false
					}
				}
				if parented(fs, "the source", "") {
					return false
				}
				for i := range extras {
					if parented(fxs[i], fmt.Sprintf("extra source %d", i), ":collector-source") {
						return false
					}
				}
				for i, h := range dstHandles {
					if hw, sw, a, found := aliased(fingerprintOf(h), fs); found {
						fail("aliasing:destination-child-handle-taken-before-merge"+sfx, "node %q below handle h%d of the destination and source node %q are the same object (%#x)", hw, i, sw, a)
						return false
					}
				}
				return true
			}
			sig := "aliasing"
			// a copy sits where the merge put it: below the same relative
			// path as in the source handle. A shared node found elsewhere in
			// the destination got there through something else (a reference
			// of the destination that the merge followed).
			rel := strings.TrimSuffix(sw, "(fields)")
			if srcPath != "" {
				rel = strings.TrimPrefix(strings.TrimPrefix(rel, srcPath), ".")
			}
			if !embedded && !strings.HasSuffix(strings.TrimSuffix(dw, "(fields)"), rel) {
				sig = "aliasing:shared-node-at-another-path-than-in-source"
			}
			if dw == "(fields)" {
				sig = "aliasing:root-fields-table"
			}
			if when != "" {
				sig += ":" + when
			}
			fail(sig, "destination node %q and source node %q are the same object (%#x)", dw, sw, a)
			return false
		}
		if !disjoint("") {
			return
		}
		res.Ev("address_sets_compared", 1)

		// unpackOf: evaluated contents (own references included)
		unpackOf := func(c *ucfg.Config) string {
			var m map[string]interface{}
			var a []interface{}
			e := c.Unpack(&m, rdOpts...)
			if e != nil {
				m = nil
			}
			// list-shaped configs show their contents (and what the
			// references in their entries yield) as a slice only
			e2 := c.Unpack(&a, rdOpts...)
			if e2 != nil {
				a = nil
			}
			return fmt.Sprintf("%s|%v|%s|%v", model.CanonIfc(m), e != nil, model.CanonIfc(a), e2 != nil)
		}
		// step runs one operation on one side; the other side must not move.
		// target is the address written to ("" if the operation has none).
		step := func(sname, what, target string, sideC, other *ucfg.Config, sig string, op func() error) (ok, cont bool) {
			fpO := fingerprintOf(other)
			rdO := unpackOf(other)
			xBefore := make([]fp, len(extras))
			for i, x := range extras {
				xBefore[i] = fingerprintOf(x)
			}
			var hBefore []fp
			if sideC == src {
				// a write to the source is invisible through the handles too
				for _, h := range dstHandles {
					hBefore = append(hBefore, fingerprintOf(h))
				}
			}
			intoEmpty := target != "" && emptyContainer(ucfg.VerifWalk(sideC), parentOf(target))
			err := op()
			res.Eval(1)
			log = append(log, fmt.Sprintf("%s.%s(%q)", sname, what, target))
			if intoEmpty && err == nil {
				res.Ev("writes_into_empty_containers", 1)
			}
			fpO2 := fingerprintOf(other)
			if fpO.text != fpO2.text {
				fail(sig+gained(fpO, fpO2), "after %s on %s the other side's fingerprint changed: %q vs %q", what, sname, firstDiff(fpO.text, fpO2.text), firstDiff(fpO2.text, fpO.text))
				return err == nil, false
			}
			if rd2 := unpackOf(other); rd2 != rdO {
				fail(sig, "after %s on %s the other side unpacks differently: %s vs %s", what, sname, rdO, rd2)
				return err == nil, false
			}
			for i, b := range xBefore {
				if a := fingerprintOf(extras[i]); a.text != b.text {
					fail(sig+":collector-source-moved"+gained(b, a), "after %s on %s extra source %d of the collector changed: %q vs %q", what, sname, i, firstDiff(b.text, a.text), firstDiff(a.text, b.text))
					return err == nil, false
				}
			}
			for i, b := range hBefore {
				if a := fingerprintOf(dstHandles[i]); a.text != b.text {
					fail(sig+":through-pre-merge-child-handle-of-destination"+gained(b, a), "after %s on %s handle h%d of the destination changed: %q vs %q", what, sname, i, firstDiff(b.text, a.text), firstDiff(a.text, b.text))
					return err == nil, false
				}
			}
			return err == nil, true
		}
		const visible = "later-write-visible-through-other-side"

		// --- probe writes: a new entry in every container of a side ---
		muts := 0
		if r.Intn(3) > 0 {
			type sd struct {
				c, other *ucfg.Config
				name     string
			}
			sides := []sd{{dst, srcRoot, "dst"}, {src, dst, "src"}}
			switch r.Intn(3) {
			case 0:
				sides = sides[:1]
			case 1:
				sides = sides[1:]
			}
			if sides[0].c == dst {
				for i, h := range dstHandles {
					sides = append(sides, sd{h, srcRoot, fmt.Sprintf("h%d", i)})
				}
			}
			for _, s := range sides {
				for _, n := range subs(ucfg.VerifWalk(s.c)) {
					name := newEntry(n, "zq")
					sig := visible
					if s.c != dst && s.c != src {
						sig += ":through-pre-merge-child-handle-of-destination"
						res.Ev("writes_through_destination_child_handles", 1)
					}
					ok, cont := step(s.name, "probe:SetString", name, s.c, s.other, sig, func() error {
						return s.c.SetString(name, -1, "probe", sepOpt)
					})
					if !cont {
						return
					}
					if ok {
						muts++
						res.Ev("probe_writes", 1)
						if r.Intn(2) == 0 {
							if _, cont = step(s.name, "probe:Remove", name, s.c, s.other, sig, func() error {
								_, e := s.c.Remove(name, -1, sepOpt)
								return e
							}); !cont {
								return
							}
						}
					}
				}
			}
			if !disjoint("after-later-operation") {
				return
			}
		}

		// envProbe: one side is read with the OTHER side as its environment,
		// so that settings of both are evaluated within one call (a name the
		// side lacks is looked up in the environment). Whatever the two sides
		// have in common after the merge, reading everything in one call
		// yields what reading setting by setting (one call each) yields.
		envProbe := func(sname string, side, other, env *ucfg.Config, i int) (cont bool) {
			if ucfg.VerifWalk(side)[0].NArr > 0 || ucfg.VerifWalk(env)[0].NArr > 0 {
				return true
			}
			var names, dyns []string
			for _, n := range ucfg.VerifWalk(env)[1:] {
				if !strings.Contains(n.Walk, ".") && (n.Kind == "string" || n.Kind == "dyn") {
					names = append(names, n.Walk)
					if n.Kind == "dyn" {
						dyns = append(dyns, n.Walk)
					}
				}
			}
			if len(names) == 0 {
				return true
			}
			k := names[r.Intn(len(names))]
			if len(dyns) > 0 && r.Intn(3) > 0 {
				k = dyns[r.Intn(len(dyns))]
			}
			// the side does not define the name itself (any more) ...
			if has, _ := side.Has(k, -1); has {
				if _, cont = step(sname, "env-probe:Remove", k, side, other, visible, func() error {
					_, e := side.Remove(k, -1, sepOpt)
					return e
				}); !cont {
					return false
				}
			}
			// ... differs from the other side in a plain setting ...
			if r.Intn(2) == 0 {
				t := "x"
				if r.Intn(2) == 0 {
					var plain []string
					for _, n := range ucfg.VerifWalk(side)[1:] {
						if n.Kind == "string" && !strings.Contains(n.Walk, ".") {
							plain = append(plain, n.Walk)
						}
					}
					if len(plain) > 0 {
						t = plain[r.Intn(len(plain))]
					}
				}
				if _, cont = step(sname, "env-probe:SetString", t, side, other, visible, func() error {
					return side.SetString(t, -1, fmt.Sprintf("envw%d", i), sepOpt)
				}); !cont {
					return false
				}
			}
			// ... and refers to it
			zenv := fmt.Sprintf("zenv%d", i)
			ok, cont := step(sname, "env-probe:Merge{"+zenv+":${"+k+"}}", "", side, other, visible, func() error {
				return side.Merge(map[string]interface{}{zenv: "${" + k + "}"}, sepOpt, ucfg.VarExp)
			})
			if !cont || !ok {
				return cont
			}
			ro := []ucfg.Option{sepOpt, ucfg.VarExp, ucfg.Env(env)}
			var m map[string]interface{}
			res.Eval(1)
			if e := side.Unpack(&m, ro...); e != nil {
				res.Ev("env_reads_refused", 1)
				return true
			}
			res.Ev("env_reads_in_one_call", 1)
			if _, ok := m[zenv].(string); ok {
				res.Ev("env_reads_resolved_through_other_side", 1)
			}
			for _, n := range ucfg.VerifWalk(side)[1:] {
				if n.Kind != "string" && n.Kind != "dyn" {
					continue
				}
				v, ok := lookup(m, n.Walk)
				want, isStr := v.(string)
				if !ok || !isStr {
					continue
				}
				got, e := side.String(n.Walk, -1, ro...)
				res.Eval(1)
				res.Ev("env_read_settings_compared", 1)
				if e != nil || got != want {
					fail("one-call-read-with-other-side-as-env-differs-from-separate-reads", "%s.Unpack(Env(other side)) yields %q for %q, %s.String(%q, Env(other side)) yields %q (err=%v)", sname, want, n.Walk, sname, n.Walk, got, e)
					return false
				}
			}
			return true
		}

		// --- history: mutate one side, the other must not move ---
		n := 1 + r.Intn(12)
		crossMerges := 0
		for i := 0; i < n; i++ {
			side, other, otherHandle, sname := dst, srcRoot, src, "dst"
			visible := visible
			if r.Intn(2) == 0 {
				side, other, otherHandle, sname = src, dst, dst, "src"
			} else if len(dstHandles) > 0 && r.Intn(3) == 0 {
				hi := r.Intn(len(dstHandles))
				side, sname = dstHandles[hi], fmt.Sprintf("h%d", hi)
				visible += ":through-pre-merge-child-handle-of-destination"
				res.Ev("writes_through_destination_child_handles", 1)
			}
			// the address: from the fixed pool, or taken from the tree as it is now
			names := []string{"a", "b", "c", "a.b", "a.a", "emb", "emb.a", "emb.a.b", "emb2.b", "m.emb.a", "l.0.a", "l.2.b", "x", "y.z", "b.0", "0", "1.a", "2", "0.b"}
			name := names[r.Intn(len(names))]
			nameKind := "pool"
			if w := ucfg.VerifWalk(side); r.Intn(2) == 0 {
				if r.Intn(2) == 0 && len(w) > 1 {
					name, nameKind = w[1+r.Intn(len(w)-1)].Walk, "existing-setting"
				} else {
					ss := subs(w)
					name, nameKind = newEntry(ss[r.Intn(len(ss))], []string{"a", "b", "nk"}[r.Intn(3)]), "new-entry-in-existing-container"
				}
			}
			res.SetAdd("history_address_kind", nameKind)
			var ok, cont bool
			switch op := r.Intn(7); {
			case op == 6:
				// a later write through the flag entry point (-D name=value)
				arg := name + []string{"=fw", "=3", "=true", "", "=-2.5"}[r.Intn(5)]
				autoBool := r.Intn(2) == 0
				ok, cont = step(sname, "FlagKeyValue.Set", name, side, other, visible, func() error {
					fv := ucfgflag.NewFlagKeyValue(side, autoBool, mo...)
					if e := fv.Set(arg); e != nil {
						return e
					}
					return fv.Error()
				})
				if ok {
					res.Ev("later_writes_through_flag_value", 1)
				}
			case op == 0:
				ok, cont = step(sname, "SetString", name, side, other, visible, func() error {
					return side.SetString(name, -1, fmt.Sprintf("w%d", i), sepOpt)
				})
			case op == 1:
				ix := r.Intn(3) - 1
				ok, cont = step(sname, fmt.Sprintf("SetInt[%d]", ix), name, side, other, visible, func() error {
					return side.SetInt(name, ix, int64(i), sepOpt)
				})
			case op == 2:
				ok, cont = step(sname, "Remove", name, side, other, visible, func() error {
					_, e := side.Remove(name, -1, sepOpt)
					return e
				})
			case op == 3:
				t := gen.TopDict(r, treeOpts, 2)
				if r.Intn(2) == 0 {
					t = model.Dict().Set("emb", t)
				}
				ok, cont = step(sname, "Merge", "", side, other, visible, func() error { return side.Merge(t.ToGo(), mo...) })
			case op == 4 && crossMerges < 2:
				// a later merge in which the other side is the source (again)
				crossMerges++
				var f interface{} = otherHandle
				how := "Merge(other side)"
				switch r.Intn(3) {
				case 0:
					f, how = map[string]interface{}{"emb": otherHandle}, "Merge({emb: other side})"
				case 1:
					how = "Collector.Add(other side)"
				}
				ok, cont = step(sname, how, "", side, other, "source-modified-by-later-merge", func() error {
					if how == "Collector.Add(other side)" {
						return cfgutil.NewCollector(side, mo...).Add(otherHandle, nil)
					}
					return side.Merge(f, mo...)
				})
				if ok {
					res.Ev("later_merges_from_other_side", 1)
				}
			default:
				sub := ucfg.New()
				sub.SetString("k", -1, "v")
				ok, cont = step(sname, "SetChild", name, side, other, visible, func() error {
					return side.SetChild(name, -1, sub, sepOpt)
				})
			}
			if !cont {
				return
			}
			if ok {
				muts++
				if !disjoint("after-later-operation") {
					return
				}
			}
		}
		// both sides read with the other one as environment
		if r.Intn(2) == 0 {
			if !envProbe("dst", dst, srcRoot, srcRoot, n) || !envProbe("src", src, dst, dst, n+1) {
				return
			}
		} else if !envProbe("src", src, dst, dst, n) || !envProbe("dst", dst, srcRoot, srcRoot, n+1) {
			return
		}
		res.Ev("history_mutations", int64(muts))
		if st.Size() >= 3 && muts >= 1 {
			res.Key(strings.Join(log, ";"))
		}
	})
	if panicked {
		fail("panic", "panic %q at %s", pv, where)
	}
	// second part of every case: operands that overlap the destination
	mainLog := log
	log = nil
	panicked, pv, where = harness.Safe(func() { overlapCase(r, res, &log, fail) })
	if panicked {
		fail("panic", "panic %q at %s", pv, where)
	}
	log = append(append(mainLog, "--- overlapping operands ---"), log...)
	if idx < 2 {
		res.Sample = log
	}
	if verbose {
		fmt.Println(strings.Join(log, "\n"))
	}
	return res.Done()
}

// lookup finds the value unpacked for the setting stored at path p.
func lookup(v interface{}, p string) (interface{}, bool) {
	for _, seg := range strings.Split(p, ".") {
		switch x := v.(type) {
		case map[string]interface{}:
			w, ok := x[seg]
			if !ok {
				return nil, false
			}
			v = w
		case []interface{}:
			var i int
			if _, err := fmt.Sscanf(seg, "%d", &i); err != nil || i < 0 || i >= len(x) || fmt.Sprint(i) != seg {
				return nil, false
			}
			v = x[i]
		default:
			return nil, false
		}
	}
	return v, true
}

// canonOf: address-free picture of a tree (stored kinds, values, unresolved
// expressions) plus its evaluated contents.
func canonOf(c *ucfg.Config) []string {
	var out []string
	for _, n := range ucfg.VerifWalk(c) {
		out = append(out, fmt.Sprintf("%s|%s|%q", n.Walk, n.Kind, n.Text))
	}
	return append(out, "unpack|"+readAll(c).unpack)
}

// below: p names a setting strictly below q.
func below(p, q string) bool {
	return p != q && (q == "" || strings.HasPrefix(p, q+"."))
}

func region(canon []string, p string) string {
	var b strings.Builder
	for _, l := range canon {
		w := l[:strings.Index(l, "|")]
		if w != "unpack" && (w == p || below(w, p)) {
			b.WriteString(l + "\n")
		}
	}
	return b.String()
}

type mpath struct {
	p string
	n *model.Node
}

// modelSubs lists the containers of a model tree with their paths.
func modelSubs(n *model.Node, p string, out *[]mpath) {
	if !n.IsSub() {
		return
	}
	*out = append(*out, mpath{p, n})
	for _, k := range n.SortedKeys() {
		modelSubs(n.D[k], join(p, k), out)
	}
	for i, v := range n.A {
		modelSubs(v, join(p, fmt.Sprint(i)), out)
	}
}

// permuted copies a model tree inserting the keys of every dictionary in a
// random order.
func permuted(r *rand.Rand, n *model.Node) *model.Node {
	if n == nil {
		return nil
	}
	m := &model.Node{Kind: n.Kind, Prim: n.Prim, HasA: n.HasA}
	if n.D != nil {
		m.D = make(map[string]*model.Node, len(n.D))
		keys := n.SortedKeys()
		for _, i := range r.Perm(len(keys)) {
			m.D[keys[i]] = permuted(r, n.D[keys[i]])
		}
	}
	for _, v := range n.A {
		m.A = append(m.A, permuted(r, v))
	}
	return m
}

// atOrAbove: a names b or a setting b is a part of.
func atOrAbove(a, b string) bool { return a == b || below(b, a) }

// plantRefs puts 1-3 references to containers of the tree into the operand (the
// container at ps): preferably at names / positions at which the destination
// (the container at pd) holds a container too, so that the merge has to follow
// them. No reference points to something it is a part of, no planted
// reference sits inside something referenced (no cycles), and neither the
// destination nor the plain settings the other references use are overwritten.
func plantRefs(r *rand.Rand, res *harness.R, st *model.Node, pd, ps string, protect map[string]bool) int {
	find := func(p string) *model.Node {
		var cs []mpath
		modelSubs(st, "", &cs)
		for _, c := range cs {
			if c.p == p {
				return c.n
			}
		}
		return nil
	}
	var locs, targets []string
	for i, k := 0, 1+r.Intn(3); i < k; i++ {
		S, D := find(ps), find(pd)
		if S == nil || D == nil {
			break
		}
		// where: a name or position of the operand
		var names, meeting []string
		if S.HasA {
			for j := 0; j <= len(S.A); j++ {
				names = append(names, fmt.Sprint(j))
				if D.HasA && j < len(D.A) && D.A[j].IsSub() {
					meeting = append(meeting, fmt.Sprint(j))
				}
			}
		} else {
			names = append(names, "a", "b", "c")
			for _, key := range D.SortedKeys() {
				if D.D[key].IsSub() {
					meeting = append(meeting, key)
				}
			}
		}
		j := names[r.Intn(len(names))]
		meets := false
		if len(meeting) > 0 && r.Intn(4) > 0 {
			j, meets = meeting[r.Intn(len(meeting))], true
		}
		L := join(ps, j)
		if protect[L] || atOrAbove(L, pd) {
			continue
		}
		bad := false
		for _, t := range targets {
			if atOrAbove(t, L) || atOrAbove(L, t) {
				bad = true
			}
		}
		if bad {
			continue
		}
		// what: a container that L is no part of, that holds no planted
		// reference and is not overwritten by planting at L
		var cs []mpath
		modelSubs(st, "", &cs)
		var tc []string
		for _, c := range cs {
			t := c.p
			if t == "" || atOrAbove(t, L) || atOrAbove(L, t) {
				continue
			}
			ok := true
			for _, l := range locs {
				if atOrAbove(t, l) {
					ok = false
				}
			}
			if ok {
				tc = append(tc, t)
			}
		}
		if len(tc) == 0 {
			continue
		}
		t := tc[r.Intn(len(tc))]
		ref := model.P("${" + t + "}")
		if S.HasA {
			var ix int
			fmt.Sscanf(j, "%d", &ix)
			if ix < len(S.A) {
				S.A[ix] = ref
			} else {
				S.A = append(S.A, ref)
			}
		} else {
			S.Set(j, ref)
		}
		locs, targets = append(locs, L), append(targets, t)
		switch {
		case atOrAbove(pd, t):
			res.SetAdd("overlap_reference_target", "into-the-part-merged-into")
		case atOrAbove(ps, t):
			res.SetAdd("overlap_reference_target", "into-the-operand-itself")
		case !strings.Contains(t, ".") && st.HasA:
			res.SetAdd("overlap_reference_target", "list-position-of-the-root")
		case !strings.Contains(t, "."):
			res.SetAdd("overlap_reference_target", "top-level-setting")
		default:
			res.SetAdd("overlap_reference_target", "elsewhere-in-the-tree")
		}
		res.Ev("overlap_references_planted", 1)
		if meets {
			res.Ev("overlap_references_meeting_a_container_of_the_destination", 1)
		}
	}
	return len(locs)
}

// overlapCase: source and destination of a Merge are parts of ONE tree (the
// source is a child of the destination, an ancestor of it, the destination
// itself, or a sibling subtree). The statement does not exempt them: merging
// from a config means merging what the config holds when Merge is called.
// Oracle: a differential twin. Three identical trees are built; the merge in
// question runs inside tree A, the reference run merges the source handle of
// the untouched tree C into the destination handle of tree B (two trees that
// share nothing: the plain case the rest of this check is about). A and B must
// end up with the same contents, for every repetition of A. For sibling
// subtrees the source must not move at all and share nothing afterwards.
func overlapCase(r *rand.Rand, res *harness.R, log *[]string, fail func(sig, format string, a ...interface{})) {
	listRoot := r.Intn(4) == 0
	refs := r.Intn(2) == 0
	protect := map[string]bool{"x": true, "y": true, "y.z": true}
	var st *model.Node
	if listRoot {
		st = listTop(r, "v0", refs)
		protect = map[string]bool{"0": true, "1": true, "1.z": true}
	} else {
		st = gen.TopDict(r, treeOpts, 3)
		if refs {
			withRefs(r, st)
		}
		st.Set("x", model.P("vx"))
		st.Set("y", model.Dict().Set("z", model.P("vz")))
	}
	// --- which parts of the tree meet ---
	var conts []mpath
	modelSubs(st, "", &conts)
	isList := map[string]bool{}
	for _, c := range conts {
		isList[c.p] = c.n.HasA
	}
	kind := []string{"child-of-destination", "ancestor-of-destination", "the-destination-itself", "sibling-subtree"}[r.Intn(4)]
	pd, ps := "", ""
	type pair struct{ d, s string }
	var cand []pair
	for _, ca := range conts {
		for _, cb := range conts {
			a, b := ca.p, cb.p
			switch {
			case kind == "child-of-destination" && below(b, a),
				kind == "ancestor-of-destination" && below(a, b),
				kind == "the-destination-itself" && a == b,
				kind == "sibling-subtree" && a != b && !below(a, b) && !below(b, a):
				cand = append(cand, pair{a, b})
			}
		}
	}
	if len(cand) == 0 {
		kind = "the-destination-itself"
	} else {
		c := cand[r.Intn(len(cand))]
		pd, ps = c.d, c.s
	}

	// --- the operand holds references to objects and lists of the tree: into
	// the part merged into, into the operand itself, to top-level settings
	// and list positions. Merge follows them where they meet a container of
	// the destination, i.e. while it is writing to the tree they point into.
	planted := 0
	if r.Intn(4) > 0 {
		planted = plantRefs(r, res, st, pd, ps, protect)
	}
	if planted > 0 {
		res.Ev("overlap_cases_operand_holds_container_references", 1)
	}

	pre, pk := r.Intn(3) == 0, r.Int63()
	var buildErr error
	// every build inserts the keys of every dictionary in another order (the
	// runtime enumerates small maps as rotations of the insertion order)
	build := func(lg *[]string, permute bool) *ucfg.Config {
		m := st
		if permute {
			m = permuted(r, st)
		}
		c, err := ucfg.NewFrom(m.ToGo(), rdOpts...)
		res.Eval(1)
		if err != nil {
			buildErr = err
			return nil
		}
		if pre {
			prehistory(rand.New(rand.NewSource(pk)), c, protect, "tree", lg)
		}
		return c
	}
	*log = append(*log, fmt.Sprintf("tree=%s", st))
	probe := build(log, false)
	if probe == nil {
		fail("newfrom-error", "NewFrom(%s): %v", st, buildErr)
		return
	}
	embedded := r.Intn(4) == 0
	pols := []struct {
		n string
		o ucfg.Option
	}{{"default", nil}, {"replace", ucfg.ReplaceValues}, {"arr-replace", ucfg.ReplaceArrValues}, {"append", ucfg.AppendValues}, {"prepend", ucfg.PrependValues}}
	pol := pols[r.Intn(len(pols))]
	mo := []ucfg.Option{sepOpt, ucfg.VarExp}
	if pol.o != nil {
		mo = append(mo, pol.o)
	}
	if r.Intn(4) == 0 {
		mo = append(mo, ucfg.MetaData(ucfg.Meta{Source: "overlay.yml"}))
		pol.n += "+metadata"
	}
	handle := func(c *ucfg.Config, p string) *ucfg.Config {
		if p == "" {
			return c
		}
		h, err := c.Child(p, -1, sepOpt)
		if err != nil {
			return nil
		}
		return h
	}
	from := func(h *ucfg.Config) interface{} {
		if embedded {
			return map[string]interface{}{"emb": h}
		}
		return h
	}
	how := "direct"
	if embedded {
		how = "in-map"
	}
	*log = append(*log, fmt.Sprintf("%s: tree.Child(%q).Merge(%s tree.Child(%q), %s)", kind, pd, how, ps, pol.n))
	res.SetAdd("overlap_kind", kind+"/"+how)
	res.Ev("overlap_cases", 1)

	// --- reference run: the same merge between two trees that share nothing ---
	var dummy []string
	B, C := build(&dummy, false), build(&dummy, false)
	bd, cs := handle(B, pd), handle(C, ps)
	if bd == nil || cs == nil {
		res.Ev("overlap_handles_gone_after_prehistory", 1)
		return
	}
	bBefore := canonOf(B)
	if c := canonOf(probe); strings.Join(c, "\n") != strings.Join(bBefore, "\n") {
		res.Inconc("twin trees differ before the merge")
		return
	}
	err := bd.Merge(from(cs), mo...)
	res.Eval(1)
	if err != nil {
		// a refused merge may leave a partial result: nothing is compared
		res.Ev("overlap_reference_merge_refused", 1)
		return
	}
	want := canonOf(B)
	wantText := strings.Join(want, "\n")
	// what a merge of the snapshot does to the part of the tree the source is
	srcPartMoves := region(bBefore, ps) != region(want, ps)
	if !srcPartMoves {
		res.Ev("overlap_cases_source_part_must_stay", 1)
	}
	q := ""
	if isList[ps] {
		q = ":list-source"
	}

	// --- the merge inside one tree, repeated (the library may iterate maps) ---
	sigOf := func(what string) string {
		if planted > 0 {
			switch what {
			case "result-differs-from-merge-of-snapshot":
				what = "differs-from-separate-tree"
			case "result-varies-between-identical-runs":
				what = "order-dependent"
			}
			return "overlapping-operand:references-into-the-tree:" + kind + q + ":" + what
		}
		return "overlapping-operand:" + kind + q + ":" + what
	}
	var first string
	for rep := 0; rep < 6; rep++ {
		A := probe
		if rep > 0 {
			A = build(&dummy, true)
			res.Ev("overlap_rebuilds_with_permuted_key_insertion", 1)
		}
		if A == nil {
			return
		}
		hd, hs := handle(A, pd), handle(A, ps)
		if hd == nil || hs == nil {
			return
		}
		aBefore := canonOf(A)
		srcBefore := fingerprintOf(hs)
		err := hd.Merge(from(hs), mo...)
		res.Eval(1)
		if err != nil {
			fail(sigOf("merge-refused"), "Merge returned %v (the same merge from an identical separate tree succeeds)", err)
			return
		}
		got := canonOf(A)
		gotText := strings.Join(got, "\n")
		if rep == 0 {
			first = gotText
		} else if gotText != first {
			fail(sigOf("result-varies-between-identical-runs"), "run 0 and run %d of the same merge on identical trees (keys inserted in another order) end differently: %q vs %q", rep, firstDiff(first, gotText), firstDiff(gotText, first))
			return
		}
		if kind == "sibling-subtree" {
			srcAfter := fingerprintOf(hs)
			if srcAfter.text != srcBefore.text {
				fail(sigOf("source-modified-by-merge")+gained(srcBefore, srcAfter), "fingerprint of the source subtree changed: %q vs %q", firstDiff(srcBefore.text, srcAfter.text), firstDiff(srcAfter.text, srcBefore.text))
				return
			}
			if dw, sw, a, found := aliased(fingerprintOf(hd), srcAfter); found {
				fail(sigOf("aliasing"), "destination node %q and source node %q are the same object (%#x)", dw, sw, a)
				return
			}
		}
		if gotText != wantText {
			what := "result-differs-from-merge-of-snapshot"
			if !srcPartMoves && region(aBefore, ps) != region(got, ps) {
				// merging what the source held leaves that part of the tree
				// as it was, but it is different now
				what = "source-modified-by-merge"
			}
			fail(sigOf(what), "tree after the merge differs from the tree after merging the same source taken from an identical separate tree: got %q want %q; source part before=%q after=%q", firstDiff(gotText, wantText), firstDiff(wantText, gotText), region(aBefore, ps), region(got, ps))
			return
		}
	}
	res.Ev("overlap_results_equal_to_merge_of_snapshot", 1)
}

func firstDiff(a, b string) string {
	la, lb := strings.Split(a, "\n"), strings.Split(b, "\n")
	for i, l := range la {
		if i >= len(lb) || lb[i] != l {
			return l
		}
	}
	return ""
}

// sameExceptRootContext: the two fingerprints differ only in the root line
// (stored field / parent of the root) and in the parent path prefix.
func sameExceptRootContext(a, b string) bool {
	la, lb := strings.Split(a, "\n"), strings.Split(b, "\n")
	if len(la) != len(lb) {
		return false
	}
	for i := 1; i < len(la); i++ {
		if la[i] != lb[i] {
			return false
		}
	}
	return la[0] != lb[0]
}
