// Package c10: Merge copies; source and destination stay independent.
package c10

import (
	"fmt"
	"math/rand"
	"strings"

	ucfg "github.com/elastic/go-ucfg"

	"verif/internal/gen"
	"verif/internal/harness"
	"verif/internal/model"
)

type check struct{}

func init() { harness.Register(check{}) }

func (check) ID() string { return "C10" }

func (check) Cases(tier string) int {
	if tier == "thorough" {
		return 100000
	}
	return 3000
}

func (check) Rule() string {
	return "a source config (root, child or grand-child handle; half of them with ${...} references to their own root) is merged into a destination (empty or a mutation of the source tree) directly, or embedded in a map, a nested map, a slice (twice), a struct field of type *Config or Config, under one of 5 policies; the non-evaluating fingerprint of the source's whole root tree (node addresses, stored field names, parent links, values, unresolved expressions) and its public reads (Path, Parent, Unpack with its own references) are compared before/after; node address sets of source and destination must be disjoint; then a history of 1-12 Set*/Remove/Merge operations is applied to one side while the other side's fingerprint and unpack must stay constant. Non-trivial = source has >= 3 nodes and the history performed >= 1 successful mutation; distinct = distinct (source, placement, policy, history)."
}

func (check) Assumptions() []string {
	return []string{
		"the VerifWalk hook exposes stored state faithfully without evaluating it",
		"sharing of immutable parts (*Meta records, parsed expression trees) between copies is by design and not checked; only Config nodes, fields tables and value cells are",
		"not demanded: independence of *Config values captured by Unpack into a *Config field (documented as capturing a reference)",
	}
}

var rdOpts = []ucfg.Option{ucfg.PathSep("."), ucfg.VarExp}

var treeOpts = gen.TreeOpts{Prims: []interface{}{"s", "t", int64(-3), uint64(7), true, 2.5, "x y"}}

func fingerprint(c *ucfg.Config) (string, map[uintptr]string) {
	walk := ucfg.VerifWalk(c)
	var b strings.Builder
	addrs := map[uintptr]string{}
	for _, n := range walk {
		fmt.Fprintf(&b, "%s|%s|%x|%x|%q|%x|%x|%q|%q|%d|%d|%v\n", n.Walk, n.Kind, n.Addr, n.Fields, n.Field, n.Parent, n.Holder, n.Text, n.Source, n.NDict, n.NArr, n.HasArr)
		if n.Addr != 0 {
			addrs[n.Addr] = n.Walk
		}
		if n.Fields != 0 {
			addrs[n.Fields] = n.Walk + "(fields)"
		}
	}
	return b.String(), addrs
}

func root(c *ucfg.Config) *ucfg.Config {
	for c.Parent() != nil {
		c = c.Parent()
	}
	return c
}

type reads struct {
	path   string
	parent *ucfg.Config
	unpack string
}

func readAll(c *ucfg.Config) reads {
	r := reads{path: c.Path("."), parent: c.Parent()}
	var m map[string]interface{}
	var a []interface{}
	e1 := c.Unpack(&m, rdOpts...)
	e2 := c.Unpack(&a, rdOpts...)
	if e1 != nil {
		m = nil // a failed Unpack leaves partial data behind; only the failure is compared
	}
	if e2 != nil {
		a = nil
	}
	r.unpack = fmt.Sprintf("%s|%s|%v|%v", model.CanonIfc(m), model.CanonIfc(a), e1 != nil, e2 != nil)
	return r
}

// withRefs sprinkles references to the tree's own root into string leaves.
func withRefs(r *rand.Rand, n *model.Node) {
	if !n.IsSub() {
		return
	}
	for _, k := range n.SortedKeys() {
		v := n.D[k]
		if v.Kind == model.KPrim {
			if _, ok := v.Prim.(string); ok && r.Intn(2) == 0 {
				v.Prim = []string{"${x}", "p-${x}", "${y.z}", "${x}${y.z}", "${missing:dflt}"}[r.Intn(5)]
			}
		}
		withRefs(r, v)
	}
	for _, v := range n.A {
		if v.Kind == model.KPrim {
			if _, ok := v.Prim.(string); ok && r.Intn(3) == 0 {
				v.Prim = "${x}"
			}
		}
		withRefs(r, v)
	}
}

type embC struct {
	E *ucfg.Config `config:"emb"`
}
type embSecond struct {
	E *ucfg.Config `config:"emb"`
	Z string       `config:"emb.zz9"`
}

type embV struct {
	E ucfg.Config `config:"emb"`
}

func (check) Run(seed int64, tier string, idx int, verbose bool) harness.Result {
	res := harness.NewR(idx)
	r := rand.New(rand.NewSource(harness.Mix(seed, "C10", idx)))
	var log []string
	fail := func(sig, format string, a ...interface{}) {
		res.Violate(sig, "%s; steps=[%s]", fmt.Sprintf(format, a...), strings.Join(log, "; "))
	}
	panicked, pv, where := harness.Safe(func() {
		// --- build the source ---
		st := gen.TopDict(r, treeOpts, 3)
		refs := r.Intn(2) == 0
		if refs {
			withRefs(r, st)
		}
		// the referenced settings themselves are plain values (no setting is
		// reached twice in one evaluation: that is C08/C09 territory)
		st.Set("x", model.P("vx"))
		st.Set("y", model.Dict().Set("z", model.P("vz")))
		srcRoot, err := ucfg.NewFrom(st.ToGo(), rdOpts...)
		res.Eval(1)
		if err != nil {
			fail("newfrom-error", "NewFrom(%s): %v", st, err)
			return
		}
		src, srcTree, srcKind := srcRoot, st, "root"
		for depth := 0; depth < 2 && r.Intn(2) == 0; depth++ {
			var cand []string
			for _, k := range srcTree.SortedKeys() {
				if v := srcTree.D[k]; v.IsSub() && (len(v.D) > 0 || len(v.A) > 0) {
					cand = append(cand, k)
				}
			}
			if len(cand) == 0 {
				break
			}
			k := cand[r.Intn(len(cand))]
			ch, err := src.Child(k, -1)
			if err != nil {
				break
			}
			src, srcTree = ch, srcTree.D[k]
			srcKind = []string{"child", "grandchild"}[depth]
			if len(srcTree.A) > 0 {
				srcKind += "-list"
				break
			}
		}
		log = append(log, fmt.Sprintf("src=%s of %s (refs=%v)", srcKind, st, refs))
		res.SetAdd("source_kind", srcKind)

		// --- destination ---
		var dst *ucfg.Config
		if len(srcTree.A) > 0 && r.Intn(2) == 0 {
			// a list source meets a list destination (top-level lists are merged in place)
			dl := model.List(model.P("d0"), model.Dict().Set("a", model.P("d1")))
			dst, err = ucfg.NewFrom(dl.ToGo(), rdOpts...)
			if err != nil {
				fail("newfrom-error", "NewFrom(%s): %v", dl, err)
				return
			}
			log = append(log, fmt.Sprintf("dst=%s", dl))
		} else if r.Intn(2) == 0 {
			dst = ucfg.New()
			log = append(log, "dst=empty")
		} else {
			dt := gen.MutateTop(r, treeOpts, st, 3)
			for !dt.IsSub() || dt.HasA {
				dt = gen.TopDict(r, treeOpts, 3)
			}
			if r.Intn(2) == 0 {
				dt = model.Dict().Set("emb", dt)
			}
			dst, err = ucfg.NewFrom(dt.ToGo(), rdOpts...)
			if err != nil {
				fail("newfrom-error", "NewFrom(%s): %v", dt, err)
				return
			}
			log = append(log, fmt.Sprintf("dst=%s", dt))
		}

		// --- placement ---
		var from interface{}
		placement := []string{"direct", "map", "nested-map", "slice-twice", "struct-ptr", "struct-value", "map-twice", "map-second-spelling", "struct-second-spelling"}[r.Intn(9)]
		if len(srcTree.A) > 0 && r.Intn(2) == 0 {
			placement = "direct"
		}
		switch placement {
		case "direct":
			from = src
		case "map":
			from = map[string]interface{}{"emb": src}
		case "nested-map":
			from = map[string]interface{}{"m": map[string]interface{}{"emb": src}, "o": 1}
		case "slice-twice":
			from = map[string]interface{}{"l": []interface{}{src, "mid", src}}
		case "struct-ptr":
			from = embC{src}
		case "struct-value":
			from = &embV{*src}
		case "map-twice":
			from = map[string]interface{}{"emb": src, "emb2": src}
		case "map-second-spelling":
			// the namespace the source is embedded under is spelled a second
			// time in the same input (a dotted key adding a new setting)
			from = map[string]interface{}{"emb": src, "emb.zz9": "second", "emb.zz8.k": 1}
		case "struct-second-spelling":
			from = embSecond{E: src, Z: "second"}
		}
		embedded := placement != "direct"
		res.SetAdd("placement", placement)
		pols := []struct {
			n string
			o ucfg.Option
		}{{"default", nil}, {"replace", ucfg.ReplaceValues}, {"arr-replace", ucfg.ReplaceArrValues}, {"append", ucfg.AppendValues}, {"prepend", ucfg.PrependValues}}
		pol := pols[r.Intn(len(pols))]
		mo := []ucfg.Option{ucfg.PathSep(".")}
		if pol.o != nil {
			mo = append(mo, pol.o)
		}
		res.SetAdd("policy", pol.n)

		// --- before / merge / after ---
		fpBefore, _ := fingerprint(srcRoot)
		rdBefore := readAll(src)
		err = dst.Merge(from, mo...)
		res.Eval(1)
		log = append(log, fmt.Sprintf("dst.Merge(%s, %s)", placement, pol.n))
		if err != nil {
			fail("merge-error", "Merge returned %v", err)
			return
		}
		fpAfter, srcAddrs := fingerprint(srcRoot)
		rdAfter := readAll(src)
		res.Eval(2)
		res.Ev("source_nodes_fingerprinted", int64(strings.Count(fpAfter, "\n")))
		if fpBefore != fpAfter {
			sig := "source-modified-by-merge"
			if embedded && srcKind == "root" && rdAfter.path != "" && sameExceptRootContext(fpBefore, fpAfter) {
				sig = "embedded-root-source-reparented"
			}
			fail(sig, "fingerprint of the source changed: first differing line before=%q after=%q", firstDiff(fpBefore, fpAfter), firstDiff(fpAfter, fpBefore))
			return
		}
		if rdBefore != rdAfter {
			fail("source-reads-changed", "public reads of the source changed: before %+v after %+v", rdBefore, rdAfter)
			return
		}
		_, dstAddrs := fingerprint(dst)
		for a, w := range dstAddrs {
			if sw, ok := srcAddrs[a]; ok {
				fail("aliasing", "destination node %q and source node %q are the same object (%#x)", w, sw, a)
				return
			}
		}
		res.Ev("address_sets_compared", 1)

		// --- history: mutate one side, the other must not move ---
		muts := 0
		n := 1 + r.Intn(12)
		for i := 0; i < n; i++ {
			side, other, sname := dst, srcRoot, "dst"
			if r.Intn(2) == 0 {
				side, other, sname = src, dst, "src"
			}
			fpO, _ := fingerprint(other)
			var rdO string
			{
				var m map[string]interface{}
				e := other.Unpack(&m, rdOpts...)
				if e != nil {
					m = nil
				}
				rdO = fmt.Sprintf("%s|%v", model.CanonIfc(m), e != nil)
			}
			names := []string{"a", "b", "c", "a.b", "a.a", "emb", "emb.a", "emb.a.b", "emb2.b", "m.emb.a", "l.0.a", "l.2.b", "x", "y.z", "b.0", "0", "1.a", "2", "0.b"}
			name := names[r.Intn(len(names))]
			var err error
			var what string
			switch r.Intn(5) {
			case 0:
				err = side.SetString(name, -1, fmt.Sprintf("w%d", i), ucfg.PathSep("."))
				what = "SetString"
			case 1:
				err = side.SetInt(name, r.Intn(3)-1, int64(i), ucfg.PathSep("."))
				what = "SetInt"
			case 2:
				_, err = side.Remove(name, -1, ucfg.PathSep("."))
				what = "Remove"
			case 3:
				t := gen.TopDict(r, treeOpts, 2)
				if r.Intn(2) == 0 {
					t = model.Dict().Set("emb", t)
				}
				err = side.Merge(t.ToGo(), mo...)
				what = "Merge"
			default:
				sub := ucfg.New()
				sub.SetString("k", -1, "v")
				err = side.SetChild(name, -1, sub, ucfg.PathSep("."))
				what = "SetChild"
			}
			res.Eval(1)
			log = append(log, fmt.Sprintf("%s.%s(%q)", sname, what, name))
			if err == nil {
				muts++
			}
			fpO2, _ := fingerprint(other)
			if fpO != fpO2 {
				fail("later-write-visible-through-other-side", "after %s on %s the other side's fingerprint changed: %q vs %q", what, sname, firstDiff(fpO, fpO2), firstDiff(fpO2, fpO))
				return
			}
			var m map[string]interface{}
			e := other.Unpack(&m, rdOpts...)
			if e != nil {
				m = nil
			}
			if rd2 := fmt.Sprintf("%s|%v", model.CanonIfc(m), e != nil); rd2 != rdO {
				fail("later-write-visible-through-other-side", "after %s on %s the other side unpacks differently: %s vs %s", what, sname, rdO, rd2)
				return
			}
		}
		res.Ev("history_mutations", int64(muts))
		if st.Size() >= 3 && muts >= 1 {
			res.Key(strings.Join(log, ";"))
		}
	})
	if panicked {
		fail("panic", "panic %q at %s", pv, where)
	}
	if idx < 2 {
		res.Sample = log
	}
	if verbose {
		fmt.Println(strings.Join(log, "\n"))
	}
	return res.Done()
}

func firstDiff(a, b string) string {
	la, lb := strings.Split(a, "\n"), strings.Split(b, "\n")
	for i, l := range la {
		if i >= len(lb) || lb[i] != l {
			return l
		}
	}
	return ""
}

// sameExceptRootContext: the two fingerprints differ only in the root line
// (stored field / parent of the root) and in the parent path prefix.
func sameExceptRootContext(a, b string) bool {
	la, lb := strings.Split(a, "\n"), strings.Split(b, "\n")
	if len(la) != len(lb) {
		return false
	}
	for i := 1; i < len(la); i++ {
		if la[i] != lb[i] {
			return false
		}
	}
	return la[0] != lb[0]
}
