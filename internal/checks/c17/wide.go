package c17

import (
	"fmt"
	"hash/fnv"
	"math/rand"
	"sort"
	"strconv"
	"strings"

	"github.com/elastic/go-ucfg/parse"

	"verif/internal/harness"
	"verif/internal/model"
)

// Wide and deep documents, and the nesting limit.
//
// "Any nesting" is bounded in practice: the parser refuses documents nested
// deeper than encoding/json does (10000 open arrays/objects). The check pins:
// a document whose deepest value sits inside at most nestLimit containers must
// parse and read back faithfully - whatever else the document holds (tens of
// thousands of siblings incl. empty containers, earlier elements at every
// level) and whatever was parsed before in the same process; a deeper document
// may be refused (an error) or parsed correctly, nothing else.
//
// A document is described by a bigSpec and rendered deterministically from
// it, so that a failing document can be re-rendered without its siblings, with
// one sibling kind only, or with a short tail, to find what the failure
// depends on.

const nestLimit = 10000

// element kinds of the sibling palette
const (
	eEmptyObj = iota
	eEmptyObjWS
	eEmptyArr
	eEmptyArrWS
	eInt
	eTrue
	eNull
	eString
	eEmptyString
	eFloat
	eSmallObj
	eSmallArr
	eArrOfEmptyObj
	eObjOfEmptyObj
	nElemKinds
)

var elemKindName = [nElemKinds]string{
	"empty-object", "empty-object-with-space", "empty-array", "empty-array-with-space", "int", "true", "null",
	"string", "empty-string", "float", "small-object", "small-array", "array-of-empty-object", "object-of-empty-object",
}

// depth the element adds below its container
var elemDepth = [nElemKinds]int{1, 1, 1, 1, 0, 0, 0, 0, 0, 0, 1, 1, 2, 2}

type bigSpec struct {
	seed      int64
	wrappers  string // 'a' / 'o' per wrapper level around the wide level, outermost first
	wideKind  byte   // 'a' / 'o'
	width     int    // siblings at the wide level (the tail not counted)
	palette   []int  // sibling kinds
	tailPos   int    // per mille position of the tail among the siblings (1000 = last)
	tailDepth int    // containers in the tail chain (0: no tail)
	tailStyle int    // 0 arrays, 1 objects, 2 mixed
	sibProb   int    // per mille: a sibling before the child at a tail level
	inner     int    // innermost value (an element kind)
	ws        int    // 0 compact, 1 newline + indent-less, 2 spaces
}

func (s bigSpec) String() string {
	var p []string
	for _, k := range s.palette {
		p = append(p, elemKindName[k])
	}
	return fmt.Sprintf("wrappers=%q wide=%c width=%d siblings=[%s] tail(pos=%d/1000 depth=%d style=%d sibling-per-level=%d/1000 inner=%s) ws=%d seed=%d",
		s.wrappers, s.wideKind, s.width, strings.Join(p, ","), s.tailPos, s.tailDepth, s.tailStyle, s.sibProb, elemKindName[s.inner], s.ws, s.seed)
}

type bigGen struct {
	s          bigSpec
	r          *rand.Rand
	b          strings.Builder
	depth, max int
	counts     [nElemKinds]int
}

func (g *bigGen) enter() {
	g.depth++
	if g.depth > g.max {
		g.max = g.depth
	}
}

func (g *bigGen) sep() {
	g.b.WriteByte(',')
	switch g.s.ws {
	case 1:
		g.b.WriteByte('\n')
	case 2:
		g.b.WriteByte(' ')
	}
}

func (g *bigGen) colon() {
	g.b.WriteByte(':')
	if g.s.ws == 2 {
		g.b.WriteByte(' ')
	}
}

func (g *bigGen) elem(k, i int) *model.Node {
	g.counts[k]++
	if d := g.depth + elemDepth[k]; d > g.max {
		g.max = d
	}
	switch k {
	case eEmptyObj:
		g.b.WriteString("{}")
		return model.Dict()
	case eEmptyObjWS:
		g.b.WriteString("{ }")
		return model.Dict()
	case eEmptyArr:
		g.b.WriteString("[]")
		return model.List()
	case eEmptyArrWS:
		g.b.WriteString("[\n]")
		return model.List()
	case eInt:
		v := int64(i%1000) - 3
		g.b.WriteString(strconv.FormatInt(v, 10))
		return model.P(v)
	case eTrue:
		g.b.WriteString("true")
		return model.P(true)
	case eNull:
		g.b.WriteString("null")
		return model.Nil()
	case eString:
		s := "s" + strconv.Itoa(i%7)
		g.b.WriteString(`"` + s + `"`)
		return model.P(s)
	case eEmptyString:
		g.b.WriteString(`""`)
		return model.P("")
	case eFloat:
		g.b.WriteString("1.5")
		return model.P(1.5)
	case eSmallObj:
		g.b.WriteString(`{"a":1}`)
		return model.Dict().Set("a", model.P(int64(1)))
	case eSmallArr:
		g.b.WriteString("[1]")
		return model.List(model.P(int64(1)))
	case eArrOfEmptyObj:
		g.b.WriteString("[{}]")
		return model.List(model.Dict())
	}
	g.b.WriteString(`{"a":{}}`)
	return model.Dict().Set("a", model.Dict())
}

func (g *bigGen) pick() int { return g.s.palette[g.r.Intn(len(g.s.palette))] }

// shallow sibling for a tail level: never deeper than the chain itself
func (g *bigGen) pickShallow() int {
	k := g.pick()
	if elemDepth[k] > 1 {
		return eInt
	}
	return k
}

func (g *bigGen) open(kind byte) *model.Node {
	g.enter()
	if kind == 'a' {
		g.b.WriteByte('[')
		return model.List()
	}
	g.b.WriteByte('{')
	return model.Dict()
}

func (g *bigGen) close(kind byte) {
	if kind == 'a' {
		g.b.WriteByte(']')
	} else {
		g.b.WriteByte('}')
	}
	g.depth--
}

func (g *bigGen) put(n *model.Node, kind byte, key string, first *bool, write func() *model.Node) {
	if !*first {
		g.sep()
	}
	*first = false
	if kind == 'o' {
		g.b.WriteString(`"` + key + `"`)
		g.colon()
		n.D[key] = write()
		return
	}
	n.A = append(n.A, write())
}

func (g *bigGen) tail(level int) *model.Node {
	if level >= g.s.tailDepth {
		return g.elem(g.s.inner, level)
	}
	kind := byte('a')
	switch g.s.tailStyle {
	case 1:
		kind = 'o'
	case 2:
		if g.r.Intn(4) == 0 {
			kind = 'o'
		}
	}
	n := g.open(kind)
	first := true
	if g.s.sibProb > 0 && g.r.Intn(1000) < g.s.sibProb {
		k := g.pickShallow()
		if level == g.s.tailDepth-1 && elemDepth[k] > elemDepth[g.s.inner] {
			k = eInt // a sibling of the innermost value must not be deeper than it
		}
		g.put(n, kind, "s", &first, func() *model.Node { return g.elem(k, level) })
	}
	g.put(n, kind, "d", &first, func() *model.Node { return g.tail(level + 1) })
	g.close(kind)
	return n
}

func (g *bigGen) wide() *model.Node {
	kind := g.s.wideKind
	n := g.open(kind)
	first := true
	tailAt := -1
	if g.s.tailDepth > 0 {
		tailAt = g.s.width * g.s.tailPos / 1000
	}
	for i := 0; i <= g.s.width; i++ {
		if i == tailAt {
			g.put(n, kind, "t", &first, func() *model.Node { return g.tail(0) })
		}
		if i < g.s.width {
			k := g.pick()
			g.put(n, kind, "k"+strconv.Itoa(i), &first, func() *model.Node { return g.elem(k, i) })
		}
	}
	g.close(kind)
	return n
}

func (g *bigGen) wrap(i int) *model.Node {
	if i >= len(g.s.wrappers) {
		return g.wide()
	}
	kind := g.s.wrappers[i]
	n := g.open(kind)
	first := true
	if g.s.sibProb > 0 && g.r.Intn(2) == 0 {
		k := g.pickShallow()
		g.put(n, kind, "s", &first, func() *model.Node { return g.elem(k, i) })
	}
	g.put(n, kind, "w", &first, func() *model.Node { return g.wrap(i + 1) })
	g.close(kind)
	return n
}

// render returns the text, the data and the nesting depth of the deepest value.
func (s bigSpec) render() (text string, root *model.Node, depth int, counts [nElemKinds]int) {
	g := &bigGen{s: s, r: rand.New(rand.NewSource(s.seed))}
	if s.ws == 1 {
		g.b.WriteString(" \n")
	}
	root = g.wrap(0)
	if s.ws != 0 {
		g.b.WriteString("\n")
	}
	return g.b.String(), root, g.max, g.counts
}

func randomSpec(r *rand.Rand, wide bool) bigSpec {
	s := bigSpec{seed: r.Int63(), wideKind: 'a', ws: r.Intn(3), tailStyle: r.Intn(3), inner: r.Intn(nElemKinds)}
	if r.Intn(3) == 0 {
		s.wideKind = 'o'
	}
	for i, n := 0, []int{0, 0, 1, 2, 3}[r.Intn(5)]; i < n; i++ {
		s.wrappers += string("aao"[r.Intn(3)])
	}
	// palette: 1..3 kinds; empty containers are common members of it
	for i, n := 0, 1+r.Intn(3); i < n; i++ {
		if r.Intn(3) == 0 {
			s.palette = append(s.palette, r.Intn(4))
		} else {
			s.palette = append(s.palette, r.Intn(nElemKinds))
		}
	}
	if wide {
		switch x := r.Intn(100); {
		case x < 25:
			s.width = nestLimit + 1 + r.Intn(100)
		case x < 40:
			s.width = nestLimit - 10 + r.Intn(20)
		case x < 80:
			s.width = 2000 + r.Intn(38000)
		case x < 90:
			s.width = 20000 + r.Intn(40000)
		default:
			s.width = 100 + r.Intn(1900)
		}
	} else {
		s.width = r.Intn(7)
	}
	s.sibProb = []int{0, 0, 10, 300, 1000}[r.Intn(5)]
	s.tailPos = []int{1000, 1000, 1000, 0, 500, r.Intn(1001)}[r.Intn(6)]
	base := len(s.wrappers) + 1 + elemDepth[s.inner]
	target := 0
	switch x := r.Intn(100); {
	case x < 35:
		target = nestLimit
	case x < 45:
		target = nestLimit - 1
	case x < 53:
		target = nestLimit + 1
	case x < 57:
		target = nestLimit + 2 + r.Intn(2000)
	case x < 82:
		target = 3 + r.Intn(nestLimit-2)
	default:
		target = 3 + r.Intn(48)
	}
	if wide && r.Intn(4) == 0 {
		target = 0 // no tail at all
	}
	if s.tailDepth = target - base; s.tailDepth < 0 {
		s.tailDepth = 0
	}
	return s
}

// ---------------------------------------------------------------- linear canonical comparison

const nilHash = 0x9e3779b97f4a7c15

func mixHash(h, x uint64) uint64 {
	h ^= x + 0x9e3779b97f4a7c15 + (h << 6) + (h >> 2)
	h *= 0xbf58476d1ce4e5b9
	return h ^ (h >> 31)
}

func strHash(s string) uint64 {
	h := fnv.New64a()
	h.Write([]byte(s))
	return h.Sum64()
}

type keyHash struct {
	k string
	h uint64
}

func combineDict(l []keyHash) (uint64, bool) {
	if len(l) == 0 {
		return nilHash, true
	}
	sort.Slice(l, func(i, j int) bool { return l[i].k < l[j].k })
	acc := strHash("{")
	for _, e := range l {
		acc = mixHash(mixHash(acc, strHash(e.k)), e.h)
	}
	return acc, false
}

// hashIfc / hashNode hash a value in the canonical form of model.Canon (nil ==
// {} == [] == absent key inside dictionaries, nil list elements stay, numbers
// by value) bottom-up in linear time; the second result says "canonically nil".
func hashIfc(v interface{}) (uint64, bool) {
	switch x := v.(type) {
	case nil:
		return nilHash, true
	case map[string]interface{}:
		l := make([]keyHash, 0, len(x))
		for k, e := range x {
			if h, isNil := hashIfc(e); !isNil {
				l = append(l, keyHash{k, h})
			}
		}
		return combineDict(l)
	case []interface{}:
		if len(x) == 0 {
			return nilHash, true
		}
		acc := strHash("[")
		for _, e := range x {
			h, _ := hashIfc(e)
			acc = mixHash(acc, h)
		}
		return acc, false
	}
	return strHash("p" + model.PrimCanon(v)), false
}

func hashNode(n *model.Node) (uint64, bool) {
	switch {
	case n == nil || n.Kind == model.KNil:
		return nilHash, true
	case n.Kind == model.KPrim:
		return strHash("p" + model.PrimCanon(n.Prim)), false
	case isList(n):
		if len(n.A) == 0 {
			return nilHash, true
		}
		acc := strHash("[")
		for _, e := range n.A {
			h, _ := hashNode(e)
			acc = mixHash(acc, h)
		}
		return acc, false
	}
	l := make([]keyHash, 0, len(n.D))
	for k, e := range n.D {
		if h, isNil := hashNode(e); !isNil {
			l = append(l, keyHash{k, h})
		}
	}
	return combineDict(l)
}

// ---------------------------------------------------------------- judging

type bigOutcome struct {
	panicked  bool
	pv, where string
	err       error
	val       interface{}
}

func (c *runner) parseBig(text string, cfg parse.Config, useValue bool) bigOutcome {
	var o bigOutcome
	c.res.Eval(1)
	o.panicked, o.pv, o.where = harness.Safe(func() {
		if useValue {
			o.val, o.err = parse.Value(text)
		} else {
			o.val, o.err = parse.ValueWithConfig(text, cfg)
		}
	})
	return o
}

func clip(s string, n int) string {
	if len(s) <= n {
		return s
	}
	return s[:n/2] + fmt.Sprintf("...(%d bytes)...", len(s)-n) + s[len(s)-n/2:]
}

func (o bigOutcome) brief() string {
	switch {
	case o.panicked:
		return fmt.Sprintf("PANIC %q at %s", clip(o.pv, 200), o.where)
	case o.err != nil:
		return fmt.Sprintf("error %q", clip(o.err.Error(), 160))
	}
	return fmt.Sprintf("a %T", o.val)
}

// holds: the outcome is the data (in-limit documents must; deeper ones may be refused).
func (o bigOutcome) holds(want uint64) bool {
	if o.panicked || o.err != nil {
		return false
	}
	h, _ := hashIfc(o.val)
	return h == want
}

var bigConfigs = []parse.Config{
	{Array: true, Object: true, StringDQuote: true, StringSQuote: false},
	{Array: true, Object: true, StringDQuote: true, StringSQuote: true, IgnoreCommas: true},
	{Array: true, Object: true, StringDQuote: true, StringSQuote: false, IgnoreCommas: true},
}

func depthClass(d int) string {
	switch {
	case d == nestLimit:
		return "depth=limit"
	case d == nestLimit-1:
		return "depth=limit-1"
	case d == nestLimit+1:
		return "depth=limit+1"
	case d > nestLimit:
		return "depth>limit+1"
	case d > nestLimit/2:
		return "limit/2<depth<limit-1"
	case d > 100:
		return "100<depth<=limit/2"
	}
	return "depth<=100"
}

func widthClass(w int) string {
	switch {
	case w < 100:
		return "width<100"
	case w < nestLimit-10:
		return "width<limit-10"
	case w <= nestLimit+100:
		return "width~limit"
	case w <= 2*nestLimit:
		return "width<=2*limit"
	}
	return "width>2*limit"
}

// disturb parses something deep right before the judged document: the limit
// must not remember anything from an earlier call.
func (c *runner) disturb(r *rand.Rand) {
	var text, what string
	switch r.Intn(5) {
	case 0:
		text, what = strings.Repeat("[", nestLimit+1)+strings.Repeat("]", nestLimit+1), "over-limit arrays"
	case 1:
		text, what = strings.Repeat("[", 5000)+"1", "unterminated deep arrays"
	case 2:
		text, what = strings.Repeat(`{"a":`, nestLimit+5)+"1"+strings.Repeat("}", nestLimit+5), "over-limit objects"
	case 3:
		text, what = "["+strings.Repeat("{},", 12000)+"{}]", "many empty objects"
	default:
		text, what = strings.Repeat(`[{"a":`, 3000)+`"x`, "unterminated string deep inside"
	}
	c.res.Ev("limit_disturber_documents", 1)
	c.res.SetAdd("limit_disturber", what)
	if o := c.parseBig(text, parse.DefaultConfig, true); o.panicked {
		c.res.Violate(panicSig(outcome{where: o.where}), "parse.Value(%s: %q) panicked: %q at %s", what, clip(text, 60), clip(o.pv, 200), o.where)
	}
}

func (c *runner) bigDoc(r *rand.Rand, wide bool) {
	res := c.res
	s := randomSpec(r, wide)
	text, d, depth, counts := s.render()
	want, _ := hashNode(d)
	inLimit := depth <= nestLimit
	if inLimit {
		// second witness (encoding/json has the same limit)
		w, err := decodeJSON(text)
		if err != nil || !sameWitness(d, w) {
			res.Ev("generator_error", 1)
			res.Inconc("wide/deep renderer: encoding/json disagrees (err %v) on %s", err, s)
			return
		}
	}
	if wide {
		res.Ev("wide_documents", 1)
		res.SetAdd("wide_width", widthClass(s.width))
		empties := counts[eEmptyObj] + counts[eEmptyObjWS] + counts[eArrOfEmptyObj] + counts[eObjOfEmptyObj]
		if inLimit && empties+depth > nestLimit {
			res.Ev("wide_in_limit_documents_with_empty_objects_plus_depth_over_limit", 1)
		}
		if inLimit && s.width+depth > nestLimit {
			res.Ev("wide_in_limit_documents_with_siblings_plus_depth_over_limit", 1)
		}
	} else {
		res.Ev("deep_documents", 1)
	}
	for k, n := range counts {
		if n > 0 {
			res.SetAdd("wide_sibling_kind", elemKindName[k])
		}
	}
	res.SetAdd("limit_depth", depthClass(depth))
	res.Ev("big_documents_"+depthClass(depth), 1)
	res.Key(hashKey(s.String()))
	disturbed := r.Intn(2) == 0
	if disturbed {
		c.disturb(r)
	}
	cfgs := []struct {
		cfg      parse.Config
		useValue bool
	}{{parse.DefaultConfig, true}, {bigConfigs[r.Intn(len(bigConfigs))], false}}
	for _, cc := range cfgs {
		name := cfgName(cc.cfg)
		o := c.parseBig(text, cc.cfg, cc.useValue)
		if c.verbose {
			fmt.Printf("big %s depth=%d len=%d %s -> %s\n", s, depth, len(text), name, o.brief())
		}
		if o.panicked {
			res.Violate(panicSig(outcome{where: o.where}), "%s panicked on a document of depth %d, %d bytes (%s): %q at %s; text %q", name, depth, len(text), s, clip(o.pv, 200), o.where, clip(text, 120))
			continue
		}
		if !inLimit {
			switch {
			case o.err != nil:
				res.SetAdd("over_limit_outcome", "refused")
			case o.holds(want):
				res.SetAdd("over_limit_outcome", "parsed")
			default:
				res.Violate("over-limit-document-wrong-value", "%s: document nested %d deep (limit %d) was neither refused nor read back faithfully (%s); %s; text %q", name, depth, nestLimit, o.brief(), s, clip(text, 120))
			}
			continue
		}
		res.Ev("in_limit_big_documents_judged", 1)
		if o.holds(want) {
			continue
		}
		sig, note := c.classifyBig(s, depth, cc.cfg, cc.useValue, o, disturbed)
		res.Violate(sig, "%s: document nested %d deep (limit %d), %d bytes, must parse and read back faithfully, got %s%s; %s; text %q", name, depth, nestLimit, len(text), o.brief(), note, s, clip(text, 160))
	}
}

// classifyBig re-renders the document to see what the failure depends on.
func (c *runner) classifyBig(s bigSpec, depth int, cfg parse.Config, useValue bool, o bigOutcome, disturbed bool) (sig, note string) {
	kind := "mismatch"
	if o.err != nil {
		kind = "rejected"
	}
	passes := func(v bigSpec) (bool, int) {
		t, d, dp, _ := v.render()
		w, _ := hashNode(d)
		return c.parseBig(t, cfg, useValue).holds(w), dp
	}
	if ok, _ := passes(s); ok {
		return "nesting-limit-depends-on-earlier-parse", fmt.Sprintf("; the same text parses when parsed again (a deep document was parsed right before: %v)", disturbed)
	}
	alone := s
	alone.width, alone.sibProb = 0, 0
	okAlone, dAlone := passes(alone)
	if s.tailDepth == 0 {
		okAlone = false
	}
	short := s
	if short.tailDepth > 3 {
		short.tailDepth = 3
	}
	okShort, _ := passes(short)
	switch {
	case okAlone && okShort:
		// neither the siblings nor the depth alone: the siblings count towards the depth
		for _, k := range s.palette {
			one := s
			one.palette = []int{k}
			if ok, _ := passes(one); !ok {
				return "nesting-limit-counts-siblings:" + elemKindName[k], fmt.Sprintf("; parses without the siblings (depth %d) and with a tail of 3; fails with siblings of kind %s only", dAlone, elemKindName[k])
			}
		}
		return "nesting-limit-counts-siblings", "; parses without the siblings and with a short tail"
	case !okShort:
		for _, k := range s.palette {
			one := short
			one.palette = []int{k}
			if ok, _ := passes(one); !ok {
				return "wide-document-" + kind + ":" + elemKindName[k], fmt.Sprintf("; fails with a tail of 3 and siblings of kind %s only", elemKindName[k])
			}
		}
		return "wide-document-" + kind, "; fails with a tail of 3 too"
	}
	// fails without siblings: the depth itself
	if depth == nestLimit {
		return "depth-exactly-limit-" + kind, "; fails without any sibling too"
	}
	return "depth-below-limit-" + kind, "; fails without any sibling too"
}
