package c17

import (
	"math/big"
	"math/rand"
	"strconv"

	"verif/internal/model"
)

// Integer numerals just below MinInt64 whose nearest float64 is -2^63, an
// in-range integer again. The statement wants "numerically equal integers or
// floats"; no 64 bit type holds the numeral and its float64 reads back as
// another in-range integer, so the parser keeps such a numeral as text (every
// digit preserved). Both readings are accepted here - the text of the numeral,
// or the number -2^63 - anything else (an error, another number, other text)
// is a violation. All other numerals beyond 64 bits are part of the random
// documents and must come back as the nearest float64.

const zoneDocsPerCase = 2

func (c *runner) zoneDoc(r *rand.Rand) {
	res := c.res
	k := int64(1 + r.Intn(1024))
	switch r.Intn(4) {
	case 0:
		k = 1
	case 1:
		k = 1024 // the tie, rounds to even = -2^63
	}
	bi := new(big.Int).Sub(big.NewInt(-1<<63), big.NewInt(k))
	num := bi.String()
	if f, err := strconv.ParseFloat(num, 64); err != nil || f != -(1<<63) || fits64(num) {
		res.Ev("generator_error", 1)
		res.Inconc("numeral %s does not round to -2^63", num)
		return
	}
	text, pick := num, func(v interface{}) (interface{}, bool) { return v, true }
	switch r.Intn(4) {
	case 0:
		text = " " + num + "\n"
	case 1:
		text = "[1," + num + " ]"
		pick = func(v interface{}) (interface{}, bool) {
			l, ok := v.([]interface{})
			if !ok || len(l) != 2 {
				return nil, false
			}
			return l[1], true
		}
	case 2:
		text = `{"n": ` + num + `}`
		pick = func(v interface{}) (interface{}, bool) {
			m, ok := v.(map[string]interface{})
			if !ok || len(m) != 1 {
				return nil, false
			}
			return m["n"], true
		}
	}
	res.Ev("numerals_just_below_minint64", 1)
	o := c.parseDefault(text)
	if o.panicked {
		res.Violate(panicSig(o), "parse.Value(%q) panicked: %q at %s", text, o.pv, o.where)
		return
	}
	v, ok := pick(o.val)
	switch {
	case o.err != nil || !ok:
	case v == num:
		res.SetAdd("numeral_just_below_minint64_outcome", "text")
		return
	default:
		if _, isStr := v.(string); !isStr && model.CanonIfc(v) == "-9223372036854775808" {
			res.SetAdd("numeral_just_below_minint64_outcome", "rounded")
			return
		}
	}
	res.Violate("integer-numeral-just-below-minint64-wrong-value", "parse.Value(%q): the numeral rounds to -2^63; accepted are its text or the number -2^63, got %s", text, o)
}
