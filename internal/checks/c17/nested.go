package c17

import (
	"encoding/json"
	"fmt"
	"math/rand"
	"strconv"
	"strings"

	"github.com/elastic/go-ucfg/parse"

	"verif/internal/model"
)

// Nested literal workload: documents whose ELEMENTS (inside an array) or
// member VALUES (inside an object) start with a disabled opener. The
// documented meaning of a disabled syntax is "taken literally": such an
// element is the raw text up to (not including) the enclosing container's next
// stop character (',' or ']' in an array, ',' or '}' in an object), with no
// bracket or quote matching, trimmed of surrounding white space. The literal
// texts never contain the enclosing container's stop characters but do contain
// the OTHER container's closer, ':' , quotes, spaces and openers.
//
// The expectation is built twice: constructively while the text is written,
// and by modelParse (a raw-slicing reader of the rule above). They must agree,
// otherwise the document is dropped as a generator error.

const nestedDocsPerCase = 6

type litInfo struct {
	kind byte // '{' '"' '\''
	ctx  byte // 'a' array element, 'o' object member value
	text string
}

func litKindName(k byte) string {
	switch k {
	case '{':
		return "object"
	case '"':
		return "dquote"
	}
	return "squote"
}

func ctxName(c byte) string {
	if c == 'a' {
		return "array"
	}
	return "object"
}

var cannedLits = map[string][]string{
	"{a":  {`{"a":1}`, `{a}`, `{}`, `{x:{y}}`, `{ "a" : 1 }`, `{"a":"b}"}`, `{`, `{{`, `{a:1}}`, `{"a":{"b":null}}`, `{'a':1}`, `{[`, `{a}b`},
	"\"a": {`"a}b"`, `"abc"`, `"a b"`, `"`, `"a`, `"{x}"`, `"a:b"`, `"}"`, `"a\"b"`, `""`, `"}}"`, `"{"`, `"a'b"`, `"[x"`},
	"\"o": {`"a]b"`, `"]"`, `"[x]"`, `"abc"`, `"a:b"`, `""`, `"a b"`, `"`, `"]]"`, `"a\"b"`, `"{x"`, `"[1]"`},
	"'a":  {`'a}b'`, `'abc'`, `'a b'`, `'`, `'a`, `'{x}'`, `'a:b'`, `'}'`, `''`, `'a"b'`, `'[x'`},
	"'o":  {`'a]b'`, `']'`, `'[x]'`, `'abc'`, `'a:b'`, `''`, `'a b'`, `'`, `'a"b'`, `'{x'`},
}

var litInterior = []string{"a", "b", "x", "y", "k", "1", "0", " ", "  ", ":", `"`, "'", "{", "[", `\`, "é", "日", ".", "-", "\t", "null", "true"}

type nlGen struct {
	r    *rand.Rand
	cfg  parse.Config
	b    strings.Builder
	lits []litInfo
}

func (g *nlGen) pad() {
	if g.r.Intn(10) < 3 {
		for i, n := 0, 1+g.r.Intn(2); i < n; i++ {
			g.b.WriteString(wsChars[g.r.Intn(len(wsChars))])
		}
	}
}

func (g *nlGen) literalKinds(ctx byte) []byte {
	var ks []byte
	if ctx == 'a' && !g.cfg.Object {
		ks = append(ks, '{', '{')
	}
	if !g.cfg.StringDQuote {
		ks = append(ks, '"')
	}
	if !g.cfg.StringSQuote {
		ks = append(ks, '\'')
	}
	return ks
}

func (g *nlGen) literal(kind, ctx byte) string {
	stop, other := ",]", "}"
	if ctx == 'o' {
		stop, other = ",}", "]"
	}
	var t string
	if g.r.Intn(2) == 0 {
		l := cannedLits[string([]byte{kind, ctx})]
		t = l[g.r.Intn(len(l))]
	} else {
		var b strings.Builder
		b.WriteByte(kind)
		for i, n := 0, g.r.Intn(6); i < n; i++ {
			if g.r.Intn(4) == 0 {
				b.WriteString(other)
			} else {
				b.WriteString(litInterior[g.r.Intn(len(litInterior))])
			}
		}
		if g.r.Intn(3) > 0 {
			if kind == '{' {
				b.WriteByte('}')
			} else {
				b.WriteByte(kind)
			}
		}
		t = b.String()
	}
	if strings.ContainsAny(t, stop) {
		t = strings.Map(func(c rune) rune {
			if strings.ContainsRune(stop, c) {
				return 'z'
			}
			return c
		}, t)
	}
	if strings.TrimSpace(t) != t {
		t = strings.TrimSpace(t) + "z"
	}
	return t
}

var nlKeys = []string{"k", "a", "b1", "x y", "ключ", "a.b", "K-2", "key", "0", "n"}
var nlStrings = []string{"", "s", "a,b", "x]y", "x}y", "a:b", "[1,2]", "{k:v}", "né", " p ", "1", "true"}

func (g *nlGen) quoted(s string) bool {
	// writes s with an enabled quote style; false if none can carry it
	dq := g.cfg.StringDQuote
	sq := g.cfg.StringSQuote && !strings.Contains(s, "'")
	switch {
	case dq && (!sq || g.r.Intn(2) == 0):
		g.b.WriteString(plainJSONString(s))
	case sq:
		g.b.WriteString("'" + s + "'")
	default:
		return false
	}
	return true
}

func (g *nlGen) scalar() *model.Node {
	switch g.r.Intn(6) {
	case 0:
		g.b.WriteString("true")
		return model.P(true)
	case 1:
		g.b.WriteString("false")
		return model.P(false)
	case 2:
		g.b.WriteString("null")
		return model.Nil()
	case 3:
		f := float64(g.r.Intn(2000)-1000) / 8
		g.b.WriteString(strconv.FormatFloat(f, 'f', 3, 64))
		return model.P(f)
	}
	v := int64(g.r.Intn(2001) - 1000)
	g.b.WriteString(strconv.FormatInt(v, 10))
	return model.P(v)
}

func (g *nlGen) value(depth int, ctx byte) *model.Node {
	x := g.r.Intn(100)
	if ks := g.literalKinds(ctx); x < 40 && len(ks) > 0 {
		k := ks[g.r.Intn(len(ks))]
		t := g.literal(k, ctx)
		g.lits = append(g.lits, litInfo{k, ctx, t})
		g.b.WriteString(t)
		return model.P(t)
	}
	switch {
	case x < 55:
		return g.scalar()
	case x < 68:
		s := nlStrings[g.r.Intn(len(nlStrings))]
		if g.quoted(s) {
			return model.P(s)
		}
		return g.scalar()
	case x < 86 || !g.cfg.Object:
		if depth <= 0 {
			return g.scalar()
		}
		return g.array(depth - 1)
	default:
		if depth <= 0 {
			return g.scalar()
		}
		return g.object(depth - 1)
	}
}

func (g *nlGen) array(depth int) *model.Node {
	n := model.List()
	g.b.WriteByte('[')
	for i, c := 0, g.r.Intn(4); i < c; i++ {
		if i > 0 {
			g.b.WriteByte(',')
		}
		g.pad()
		n.A = append(n.A, g.value(depth, 'a'))
		g.pad()
	}
	if len(n.A) == 0 {
		g.pad()
	}
	g.b.WriteByte(']')
	return n
}

func (g *nlGen) object(depth int) *model.Node {
	n := model.Dict()
	g.b.WriteByte('{')
	perm := g.r.Perm(len(nlKeys))
	for i, c := 0, g.r.Intn(4); i < c; i++ {
		if i > 0 {
			g.b.WriteByte(',')
		}
		g.pad()
		k := nlKeys[perm[i]]
		// keys: unquoted plain text, or quoted with an ENABLED quote style
		if g.r.Intn(2) == 0 || !g.quoted(k) {
			g.b.WriteString(k)
		}
		g.pad()
		g.b.WriteByte(':')
		g.pad()
		n.D[k] = g.value(depth, 'o')
		g.pad()
	}
	if len(n.D) == 0 {
		g.pad()
	}
	g.b.WriteByte('}')
	return n
}

// ---------------------------------------------------------------- the rule as a raw-slicing reader

type modelReader struct {
	in  string
	cfg parse.Config
	err string
}

func (m *modelReader) fail(s string) *model.Node {
	if m.err == "" {
		m.err = s
	}
	return model.Nil()
}

func (m *modelReader) ws() { m.in = strings.TrimLeft(m.in, " \t\r\n") }

func typeWord(w string) *model.Node {
	switch w {
	case "null":
		return model.Nil()
	case "true":
		return model.P(true)
	case "false":
		return model.P(false)
	}
	if w != "" && (w[0] == '-' || (w[0] >= '0' && w[0] <= '9')) {
		if i, err := strconv.ParseInt(w, 10, 64); err == nil {
			return model.P(i)
		}
		if f, err := strconv.ParseFloat(w, 64); err == nil {
			return model.P(f)
		}
	}
	return model.P(w)
}

func (m *modelReader) raw(stop string) string {
	i := strings.IndexAny(m.in, stop)
	if i <= 0 {
		m.fail("raw text is empty or not terminated")
		return ""
	}
	t := strings.TrimSpace(m.in[:i])
	m.in = m.in[i:]
	return t
}

func (m *modelReader) dq() (string, bool) {
	j := 1
	for j < len(m.in) && m.in[j] != '"' {
		if m.in[j] == '\\' {
			j++
		}
		j++
	}
	if j >= len(m.in) {
		m.fail("unterminated double quoted string")
		return "", false
	}
	var s string
	if err := json.Unmarshal([]byte(m.in[:j+1]), &s); err != nil {
		m.fail("bad double quoted string")
		return "", false
	}
	m.in = m.in[j+1:]
	return s, true
}

func (m *modelReader) sq() (string, bool) {
	j := strings.IndexByte(m.in[1:], '\'')
	if j < 0 {
		m.fail("unterminated single quoted string")
		return "", false
	}
	s := m.in[1 : 1+j]
	m.in = m.in[j+2:]
	return s, true
}

func (m *modelReader) value(stop string) *model.Node {
	m.ws()
	if m.in == "" || m.err != "" {
		return m.fail("value expected")
	}
	switch c := m.in[0]; {
	case c == '[' && m.cfg.Array:
		return m.array()
	case c == '{' && m.cfg.Object:
		return m.object()
	case c == '"' && m.cfg.StringDQuote:
		s, _ := m.dq()
		return model.P(s)
	case c == '\'' && m.cfg.StringSQuote:
		s, _ := m.sq()
		return model.P(s)
	}
	return typeWord(m.raw(stop))
}

func (m *modelReader) array() *model.Node {
	n := model.List()
	m.in = m.in[1:]
	for m.err == "" {
		m.ws()
		if m.in == "" {
			return m.fail("array not closed")
		}
		if m.in[0] == ']' {
			m.in = m.in[1:]
			return n
		}
		n.A = append(n.A, m.value(",]"))
		m.ws()
		if m.in == "" {
			return m.fail("array not closed")
		}
		c := m.in[0]
		m.in = m.in[1:]
		if c == ']' {
			return n
		}
		if c != ',' {
			return m.fail("array: , or ] expected")
		}
	}
	return n
}

func (m *modelReader) object() *model.Node {
	n := model.Dict()
	m.in = m.in[1:]
	for m.err == "" {
		m.ws()
		if m.in == "" {
			return m.fail("object not closed")
		}
		if m.in[0] == '}' {
			m.in = m.in[1:]
			return n
		}
		var k string
		switch c := m.in[0]; {
		case c == '"' && m.cfg.StringDQuote:
			k, _ = m.dq()
		case c == '\'' && m.cfg.StringSQuote:
			k, _ = m.sq()
		case c == '"' || c == '\'':
			return m.fail("key opens with a disabled quote: not judged")
		default:
			k = m.raw(":")
		}
		m.ws()
		if m.in == "" || m.in[0] != ':' {
			return m.fail("object: : expected")
		}
		m.in = m.in[1:]
		if _, dup := n.D[k]; dup {
			return m.fail("duplicate key")
		}
		n.D[k] = m.value(",}")
		m.ws()
		if m.in == "" {
			return m.fail("object not closed")
		}
		c := m.in[0]
		m.in = m.in[1:]
		if c == '}' {
			return n
		}
		if c != ',' {
			return m.fail("object: , or } expected")
		}
	}
	return n
}

// modelParse reads a single bracketed top-level document by the rule.
func modelParse(text string, cfg parse.Config) (*model.Node, string) {
	m := &modelReader{in: text, cfg: cfg}
	n := m.value(",")
	m.ws()
	if m.err == "" && m.in != "" {
		m.fail("text after the top-level value")
	}
	return n, m.err
}

// ---------------------------------------------------------------- the case part

// nestedConfigs: arrays on, at least one of Object / StringDQuote / StringSQuote off.
var nestedConfigs []parse.Config

func init() {
	for m := 0; m < 8; m++ {
		c := parse.Config{Array: true, Object: m&1 != 0, StringDQuote: m&2 != 0, StringSQuote: m&4 != 0}
		if c.Object && c.StringDQuote && c.StringSQuote {
			continue
		}
		nestedConfigs = append(nestedConfigs, c)
	}
}

func (c *runner) nestedDoc(r *rand.Rand, tier string) {
	res := c.res
	var g *nlGen
	var d *model.Node
	for try := 0; ; try++ {
		if try == 20 {
			res.Ev("nested_literal_not_generated", 1)
			return
		}
		g = &nlGen{r: r, cfg: nestedConfigs[r.Intn(len(nestedConfigs))]}
		depth := 1 + r.Intn(2)
		if tier == "thorough" && r.Intn(4) == 0 {
			depth = 3
		}
		if r.Intn(3) == 0 {
			for i, n := 0, r.Intn(3); i < n; i++ {
				g.b.WriteString(wsChars[r.Intn(len(wsChars))])
			}
		}
		if g.cfg.Object && r.Intn(3) == 0 {
			d = g.object(depth)
		} else {
			d = g.array(depth)
		}
		g.pad()
		if len(g.lits) > 0 {
			break
		}
	}
	text := g.b.String()
	want := d.Canon()
	if md, merr := modelParse(text, g.cfg); merr != "" || md.Canon() != want {
		res.Ev("generator_error", 1)
		res.Inconc("nested literal generator and rule reader disagree on %q under %s: reader %s (%s), generator %s", text, cfgName(g.cfg), md.Canon(), merr, want)
		return
	}
	res.Ev("nested_literal_documents", 1)
	for _, l := range g.lits {
		tag := litKindName(l.kind) + "-in-" + ctxName(l.ctx)
		if (l.ctx == 'a' && strings.Contains(l.text, "}")) || (l.ctx == 'o' && strings.Contains(l.text, "]")) {
			tag += ":holds-other-closer"
		}
		res.SetAdd("nested_literal", tag)
	}
	for _, ic := range []bool{false, true} {
		cfg := g.cfg
		cfg.IgnoreCommas = ic
		name := cfgName(cfg)
		res.Key(hashKey(name + text))
		res.SetAdd("config_rule", name+":nested-literal")
		o := c.parseCfg(text, cfg)
		if c.verbose {
			fmt.Printf("nested %q %s -> %s (want %s)\n", text, name, o, want)
		}
		if o.is(want) {
			continue
		}
		if o.panicked {
			res.Violate(panicSig(o), "ValueWithConfig(%q, %s) panicked: %q at %s", text, name, o.pv, o.where)
			continue
		}
		// attribute to the first literal that fails alone in its container
		sig, note := "nested-literal-document-mismatch", ""
		for _, l := range g.lits {
			mini, mw := "["+l.text+"]", model.List(model.P(l.text))
			if l.ctx == 'o' {
				mini, mw = "{k:"+l.text+"}", model.Dict().Set("k", model.P(l.text))
			}
			if om := c.parseCfg(mini, cfg); !om.is(mw.Canon()) {
				sig = "nested-disabled-" + litKindName(l.kind) + "-in-" + ctxName(l.ctx) + "-not-literal"
				note = fmt.Sprintf("; alone: ValueWithConfig(%q) = %s, want %s", mini, om, mw.Canon())
				break
			}
		}
		res.Violate(sig, "ValueWithConfig(%q, %s): elements/values opening with disabled syntax are raw text up to the container's next stop character; got %s, want %s%s", text, name, o, want, note)
	}
}
