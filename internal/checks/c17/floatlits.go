package c17

import (
	"fmt"
	"math"
	"math/big"
	"math/rand"
	"strconv"
	"strings"

	"github.com/elastic/go-ucfg/parse"

	"verif/internal/model"
)

// Numbers in FLOAT syntax (a fraction and/or an exponent) whose value is an
// integer - or within a fraction of one - at and around the limits of the 64
// bit integer types and of float64's exact integers: +-2^31, 2^32, 2^52..2^54,
// 2^62..2^65. The statement wants "numerically equal integers or floats": the
// literal's exact rational value is known by construction (cross-checked with
// big.Rat.SetString on the text and with encoding/json); accepted is a Go
// number that equals the exact value, or the float64 nearest to it
// (big.Rat.Float64, round to nearest even). Any Go number type will do.
// The literal sits at the top level or 1-3 levels deep as an array element or
// an object member between other values, with whitespace at every position
// JSON allows.

const floatLitDocsPerCase = 6

var flAnchors = []uint{31, 32, 52, 53, 53, 54, 62, 63, 63, 63, 63, 64, 64, 64, 65}

var flBandAnchors = []uint{31, 32, 52, 53, 54, 62, 63, 64, 65}

func pow2(k uint) *big.Int { return new(big.Int).Lsh(big.NewInt(1), k) }

type flStep struct {
	arr bool
	idx int
	n   int
	key string
}

type flGen struct {
	r      *rand.Rand
	wsProb int
}

func (g *flGen) ws() string {
	if g.r.Intn(100) >= g.wsProb {
		return ""
	}
	var b strings.Builder
	for i, n := 0, 1+g.r.Intn(2); i < n; i++ {
		b.WriteString(wsChars[g.r.Intn(len(wsChars))])
	}
	return b.String()
}

// literal draws a number in float syntax and its exact value.
func (g *flGen) literal() (text string, exact *big.Rat, anchor string) {
	r := g.r
	k := flAnchors[r.Intn(len(flAnchors))]
	neg := r.Intn(3) == 0
	N := pow2(k)
	ulp := big.NewInt(1) // spacing of float64 just above 2^k
	if k > 52 {
		ulp = pow2(k - 52)
	}
	q := new(big.Int).Rsh(ulp, 2) // the tie just below 2^k sits at -ulp/4
	off := new(big.Int)
	switch r.Intn(9) {
	case 0, 1, 2:
	case 3:
		off.SetInt64(-1)
	case 4:
		off.SetInt64(1)
	case 5:
		cands := []*big.Int{
			new(big.Int).Neg(q), new(big.Int).Sub(new(big.Int).Neg(q), big.NewInt(1)), new(big.Int).Add(new(big.Int).Neg(q), big.NewInt(1)),
			new(big.Int).Neg(new(big.Int).Rsh(ulp, 1)), new(big.Int).Rsh(ulp, 1),
			new(big.Int).Add(new(big.Int).Rsh(ulp, 1), big.NewInt(1)), new(big.Int).Sub(new(big.Int).Rsh(ulp, 1), big.NewInt(1)),
			new(big.Int).Set(ulp), new(big.Int).Neg(ulp),
		}
		off = cands[r.Intn(len(cands))]
	case 6:
		off.SetInt64(int64(r.Intn(4097) - 2048))
	default:
		span := new(big.Int).Lsh(ulp, 1)
		span.Add(span, big.NewInt(1))
		off.Rand(r, span)
		off.Sub(off, ulp)
	}
	N.Add(N, off)
	if N.Sign() <= 0 {
		N = pow2(k)
	}
	frac := ""
	switch r.Intn(5) {
	case 0, 1:
		frac = []string{"0", "0", "00", "000"}[r.Intn(4)]
	case 2:
		frac = []string{"5", "25", "75", "000001", "999", "4999", "5000001"}[r.Intn(7)]
	case 3:
		frac = strconv.Itoa(r.Intn(1000))
	}
	// exact value
	exact = new(big.Rat).SetInt(N)
	if frac != "" {
		fn, _ := new(big.Int).SetString(frac, 10)
		den := new(big.Int).Exp(big.NewInt(10), big.NewInt(int64(len(frac))), nil)
		exact.Add(exact, new(big.Rat).SetFrac(fn, den))
	}
	if neg {
		exact.Neg(exact)
	}
	// spelling
	digits := N.String()
	all, p := digits+frac, len(digits)
	expo := func(E int, force bool) string {
		if E == 0 && !force {
			return ""
		}
		e := []string{"e", "E"}[r.Intn(2)]
		sg := ""
		switch {
		case E < 0:
			sg = "-"
		case E > 0:
			sg = []string{"", "+"}[r.Intn(2)]
		default:
			sg = []string{"", "+", "-"}[r.Intn(3)]
		}
		if E < 0 {
			E = -E
		}
		ds := strconv.Itoa(E)
		if r.Intn(4) == 0 {
			ds = "0" + ds
		}
		return e + sg + ds
	}
	var s string
	switch x := r.Intn(10); {
	case x < 4 && frac != "":
		s = digits + "." + frac + expo(0, r.Intn(5) == 0)
	case x < 5 && frac == "":
		z := 1 + r.Intn(3)
		s = digits + zeros(z) + expo(-z, true)
	case x < 8:
		// scientific: one digit before the point
		s = all[:1] + "." + all[1:] + expo(p-1, true)
		if len(all) == 1 {
			s = all + ".0" + expo(p-1, true)
		}
	case x < 9:
		s = "0." + all + expo(p, true)
	default:
		qq := 1 + r.Intn(len(all))
		ip, fp := all[:qq], all[qq:]
		s = ip
		if fp != "" {
			s += "." + fp
		} else if r.Intn(2) == 0 {
			s += ".0"
		}
		s += expo(p-qq, true)
	}
	if neg {
		s = "-" + s
	}
	return s, exact, map[bool]string{false: "+", true: "-"}[neg] + "2^" + strconv.Itoa(int(k))
}

var flSiblings = []string{"1", "-2", `"s"`, "null", "true", "[2]", `{"z":0}`, "0.5", `""`, "[]", "{}", "1e3"}
var flKeys = []string{"a", "b", "n", "k 1", "", "x:y", "é"}

// wrap puts the literal 0-3 levels deep.
func (g *flGen) wrap(lit string) (text string, path []flStep) {
	r := g.r
	text = lit
	for lv, n := 0, []int{0, 1, 1, 2, 2, 3}[r.Intn(6)]; lv < n; lv++ {
		cnt := 1 + r.Intn(4)
		at := r.Intn(cnt)
		var b strings.Builder
		st := flStep{arr: r.Intn(2) == 0, idx: at, n: cnt}
		if st.arr {
			b.WriteString("[")
			for i := 0; i < cnt; i++ {
				b.WriteString(g.ws())
				if i == at {
					b.WriteString(text)
				} else {
					b.WriteString(flSiblings[r.Intn(len(flSiblings))])
				}
				b.WriteString(g.ws())
				if i < cnt-1 {
					b.WriteString(",")
				}
			}
			b.WriteString("]")
		} else {
			st.key = flKeys[r.Intn(len(flKeys))]
			b.WriteString("{")
			for i := 0; i < cnt; i++ {
				b.WriteString(g.ws())
				if i == at {
					b.WriteString(plainJSONString(st.key))
				} else {
					b.WriteString(`"s` + strconv.Itoa(i) + `"`)
				}
				b.WriteString(g.ws() + ":" + g.ws())
				if i == at {
					b.WriteString(text)
				} else {
					b.WriteString(flSiblings[r.Intn(len(flSiblings))])
				}
				b.WriteString(g.ws())
				if i < cnt-1 {
					b.WriteString(",")
				}
			}
			b.WriteString("}")
		}
		text = b.String()
		path = append([]flStep{st}, path...)
	}
	return g.ws() + text + g.ws(), path
}

func flNavigate(v interface{}, path []flStep) (interface{}, bool) {
	for _, st := range path {
		if st.arr {
			l, ok := v.([]interface{})
			if !ok || len(l) != st.n {
				return nil, false
			}
			v = l[st.idx]
			continue
		}
		m, ok := v.(map[string]interface{})
		if !ok {
			return nil, false
		}
		if v, ok = m[st.key]; !ok {
			return nil, false
		}
	}
	return v, true
}

func flPosition(path []flStep) string {
	if len(path) == 0 {
		return "top"
	}
	var parts []string
	for _, st := range path {
		if st.arr {
			parts = append(parts, "element")
		} else {
			parts = append(parts, "member")
		}
	}
	return strings.Join(parts, ">")
}

func numRat(v interface{}) (*big.Rat, bool) {
	switch x := v.(type) {
	case int:
		return new(big.Rat).SetInt64(int64(x)), true
	case int64:
		return new(big.Rat).SetInt64(x), true
	case uint64:
		return new(big.Rat).SetInt(new(big.Int).SetUint64(x)), true
	case uint:
		return new(big.Rat).SetInt(new(big.Int).SetUint64(uint64(x))), true
	case float64:
		if math.IsNaN(x) || math.IsInf(x, 0) {
			return nil, false
		}
		return new(big.Rat).SetFloat64(x), true
	}
	return nil, false
}

// flBand names the expected value: "rounds-to-+2^63" when the nearest float64
// is exactly a power of two of the list, else "near-<anchor drawn>".
func flBand(nearest *big.Rat, anchor string) string {
	abs := new(big.Rat).Abs(nearest)
	for _, k := range flBandAnchors {
		if abs.Cmp(new(big.Rat).SetInt(pow2(k))) == 0 {
			sg := "+"
			if nearest.Sign() < 0 {
				sg = "-"
			}
			return "rounds-to-" + sg + "2^" + strconv.Itoa(int(k))
		}
	}
	return "near-" + anchor
}

var flConfigs = []parse.Config{
	{Array: true, Object: true, StringDQuote: true, StringSQuote: false},
	{Array: true, Object: true, StringDQuote: true, StringSQuote: true, IgnoreCommas: true},
	{Array: true, Object: true, StringDQuote: true, StringSQuote: false, IgnoreCommas: true},
}

func (c *runner) floatLitDoc(r *rand.Rand) {
	res := c.res
	g := &flGen{r: r, wsProb: []int{0, 0, 10, 40, 90}[r.Intn(5)]}
	lit, exact, anchor := g.literal()
	text, path := g.wrap(lit)

	// generator cross-checks: the text denotes the exact value, the document is
	// JSON and holds the literal at the path
	if !strings.ContainsAny(lit, ".eE") {
		res.Ev("generator_error", 1)
		res.Inconc("float literal without fraction or exponent: %q", lit)
		return
	}
	if rt, ok := new(big.Rat).SetString(lit); !ok || rt.Cmp(exact) != 0 {
		res.Ev("generator_error", 1)
		res.Inconc("float literal %q does not denote %s", lit, exact.RatString())
		return
	}
	w, err := decodeJSON(text)
	if err != nil {
		res.Ev("generator_error", 1)
		res.Inconc("float literal document %q is not JSON: %v", text, err)
		return
	}
	if wv, ok := flNavigate(w, path); !ok || fmt.Sprint(wv) != lit {
		res.Ev("generator_error", 1)
		res.Inconc("float literal document %q: encoding/json finds %v at the path, want %s", text, wv, lit)
		return
	}
	nf, _ := exact.Float64()
	nearest := new(big.Rat).SetFloat64(nf)
	if nearest == nil {
		res.Ev("generator_error", 1)
		return
	}
	band := flBand(nearest, anchor)
	res.Ev("float_syntax_boundary_literals", 1)
	if exact.IsInt() {
		res.Ev("float_syntax_boundary_literals_integral_value", 1)
	}
	if nearest.Cmp(exact) != 0 {
		res.Ev("float_syntax_boundary_literals_not_exact_in_float64", 1)
	}
	res.Ev("float_syntax_literals_"+band, 1)
	res.SetAdd("float_literal_band", band)
	res.SetAdd("float_literal_form", numberClass(lit))
	res.SetAdd("float_literal_position", flPosition(path))
	res.Key(hashKey(text))

	judge := func(o outcome, how string) {
		if o.panicked {
			res.Violate(panicSig(o), "%s(%q) panicked: %q at %s", how, text, o.pv, o.where)
			return
		}
		if o.err != nil {
			res.Violate("json-rejected:float-syntax-number:"+band, "%s(%q): %v; the document is JSON, the number %s sits at %s", how, text, o.err, lit, flPosition(path))
			return
		}
		v, ok := flNavigate(o.val, path)
		if !ok {
			res.Violate("float-syntax-number-document-misread", "%s(%q): no value at %s in %s", how, text, flPosition(path), o)
			return
		}
		res.SetAdd("float_literal_go_type", fmt.Sprintf("%T", v))
		gr, isNum := numRat(v)
		if !isNum {
			if sv, isStr := v.(string); isStr && sv == lit {
				// the numeral came back as its own text
				cls := "integer-part-within-64-bits"
				if ip := strings.TrimLeft(lit, "-"); !fits64(ip[:strings.IndexAny(ip, ".eE")]) {
					cls = "integer-part-beyond-64-bits"
				}
				res.Violate("float-syntax-number-kept-as-text:"+cls, "%s(%q): the number %s (exactly %s, nearest float64 %s) came back as the string %q at %s", how, text, lit, exact.RatString(), model.NumCanon(nf), sv, flPosition(path))
				return
			}
			res.Violate("float-syntax-number-wrong-value:"+band+":not-a-number", "%s(%q): the number %s (exactly %s) came back as %#v (%T)", how, text, lit, exact.RatString(), v, v)
			return
		}
		if gr.Cmp(exact) == 0 || gr.Cmp(nearest) == 0 {
			return
		}
		dev := "other-number"
		if gr.Sign()*exact.Sign() < 0 {
			dev = "opposite-sign"
		}
		res.Violate("float-syntax-number-wrong-value:"+band+":"+dev, "%s(%q): the number %s (exactly %s, nearest float64 %s) came back as %s (%T) at %s", how, text, lit, exact.RatString(), model.NumCanon(nf), model.NumCanon(v), v, flPosition(path))
	}
	judge(c.parseDefault(text), "parse.Value")
	cfg := flConfigs[r.Intn(len(flConfigs))]
	judge(c.parseCfg(text, cfg), "ValueWithConfig["+cfgName(cfg)+"]")
}
