package c17

import (
	"strings"
	"unicode/utf16"
	"unicode/utf8"
)

// A small scanner over documents that are already known to be well formed
// (witnessed by encoding/json). It is used to (a) tell which syntax a document
// uses, (b) name whitespace placements, (c) find and remove, one at a time,
// the spelling features that are known to break the parser, so that a failing
// document can be attributed to the feature that causes the failure.

type tok struct {
	k     byte // 'w' whitespace, 'q' "string", 's' 'string', 'p' number/true/false/null, or one of [ ] { } , :
	s, e  int
	f1    bool   // whitespace between a quoted/array/object member value and the following , or } of an object
	place string // whitespace tokens: where it stands
}

func isWS(c byte) bool { return c == ' ' || c == '\t' || c == '\n' || c == '\r' }

func tokenize(t string) []tok {
	var out []tok
	i := 0
	for i < len(t) {
		ch := t[i]
		switch {
		case isWS(ch):
			j := i
			for j < len(t) && isWS(t[j]) {
				j++
			}
			out = append(out, tok{k: 'w', s: i, e: j})
			i = j
		case ch == '"':
			j := i + 1
			for j < len(t) && t[j] != '"' {
				if t[j] == '\\' {
					j++
				}
				j++
			}
			e := j + 1
			if e > len(t) {
				e = len(t)
			}
			out = append(out, tok{k: 'q', s: i, e: e})
			i = e
		case ch == '\'':
			e := len(t)
			if j := strings.IndexByte(t[i+1:], '\''); j >= 0 {
				e = i + 1 + j + 1
			}
			out = append(out, tok{k: 's', s: i, e: e})
			i = e
		case strings.IndexByte("[]{},:", ch) >= 0:
			out = append(out, tok{k: ch, s: i, e: i + 1})
			i++
		default:
			j := i
			for j < len(t) && !isWS(t[j]) && strings.IndexByte("[]{},:\"'", t[j]) < 0 {
				j++
			}
			out = append(out, tok{k: 'p', s: i, e: j})
			i = j
		}
	}
	var stack []byte
	prev := byte(0)
	for idx := range out {
		tk := &out[idx]
		if tk.k == 'w' {
			next := byte(0)
			if idx+1 < len(out) {
				next = out[idx+1].k
			}
			ctx := byte('t')
			if len(stack) > 0 {
				ctx = stack[len(stack)-1]
			}
			tk.place = placeName(ctx, prev, next)
			if ctx == 'o' && (next == ',' || next == '}') && (prev == 'q' || prev == 's' || prev == ']' || prev == '}') {
				tk.f1 = true
			}
			continue
		}
		switch tk.k {
		case '[':
			stack = append(stack, 'a')
		case '{':
			stack = append(stack, 'o')
		case ']', '}':
			if len(stack) > 0 {
				stack = stack[:len(stack)-1]
			}
		}
		prev = tk.k
	}
	return out
}

func kindName(k byte, start bool) string {
	switch k {
	case 0:
		if start {
			return "start"
		}
		return "end"
	case 'q':
		return "dq-string"
	case 's':
		return "sq-string"
	case 'p':
		return "scalar"
	}
	return string(k)
}

func placeName(ctx, prev, next byte) string {
	c := "top"
	if ctx == 'a' {
		c = "array"
	} else if ctx == 'o' {
		c = "object"
	}
	return c + ":after-" + kindName(prev, true) + ":before-" + kindName(next, false)
}

// syntax says which of the switchable syntaxes a document uses.
type syntax struct {
	arr, obj, dq, sq bool
	open             byte // first non-blank byte
	nontrivial       bool // has a container or an escaped string
}

func syntaxOf(t string, toks []tok) syntax {
	var s syntax
	for _, tk := range toks {
		if tk.k != 'w' && s.open == 0 {
			s.open = t[tk.s]
		}
		switch tk.k {
		case '[':
			s.arr, s.nontrivial = true, true
		case '{':
			s.obj, s.nontrivial = true, true
		case 'q':
			s.dq = true
			if strings.IndexByte(t[tk.s:tk.e], '\\') >= 0 {
				s.nontrivial = true
			}
		case 's':
			s.sq = true
		}
	}
	return s
}

// Known-fragile spelling features.
const (
	fBackslashEnd  = iota // "...\\" : the closing quote directly follows an escaped backslash
	fSolidus              // \/
	fSurrogate            // a UTF-16 surrogate pair written as two u-escapes
	fWSAfterMember        // whitespace after a quoted/array/object member value inside an object
	nFeat
)

var featSig = [nFeat]string{
	"string-ending-in-escaped-backslash",
	"escape-solidus",
	"escape-surrogate-pair",
	"ws-after-object-member-value",
}

type featSet [nFeat]bool

func (f featSet) any() bool {
	for _, b := range f {
		if b {
			return true
		}
	}
	return false
}

func (f featSet) String() string {
	var l []string
	for i, b := range f {
		if b {
			l = append(l, featSig[i])
		}
	}
	return "[" + strings.Join(l, " ") + "]"
}

func hexv(c byte) int {
	switch {
	case c >= '0' && c <= '9':
		return int(c - '0')
	case c >= 'a' && c <= 'f':
		return int(c-'a') + 10
	case c >= 'A' && c <= 'F':
		return int(c-'A') + 10
	}
	return -1
}

// uEscapeAt reads \uXXXX at s[i:], returning the code unit or -1.
func uEscapeAt(s string, i int) int {
	if i+6 > len(s) || s[i] != '\\' || s[i+1] != 'u' {
		return -1
	}
	v := 0
	for k := 2; k < 6; k++ {
		h := hexv(s[i+k])
		if h < 0 {
			return -1
		}
		v = v<<4 | h
	}
	return v
}

// walkDQ walks the escapes of a double quoted token (quotes included) and,
// when out is non-nil, rewrites it without the features in remove.
func walkDQ(s string, remove featSet, out *strings.Builder) (found featSet) {
	put := func(x string) {
		if out != nil {
			out.WriteString(x)
		}
	}
	if len(s) < 2 {
		put(s)
		return
	}
	put(`"`)
	end := len(s) - 1
	i := 1
	for i < end {
		c := s[i]
		if c != '\\' || i+1 >= end {
			put(s[i : i+1])
			i++
			continue
		}
		switch s[i+1] {
		case '/':
			found[fSolidus] = true
			if remove[fSolidus] {
				put("/")
			} else {
				put(`\/`)
			}
			i += 2
		case '\\':
			if i+2 == end {
				found[fBackslashEnd] = true
				if remove[fBackslashEnd] {
					put(bsU5c)
				} else {
					put(`\\`)
				}
			} else {
				put(`\\`)
			}
			i += 2
		case 'u':
			hi := uEscapeAt(s, i)
			if hi >= 0xD800 && hi < 0xDC00 {
				lo := uEscapeAt(s, i+6)
				if lo >= 0xDC00 && lo < 0xE000 && i+12 <= end {
					found[fSurrogate] = true
					if remove[fSurrogate] {
						var buf [4]byte
						n := utf8.EncodeRune(buf[:], utf16.DecodeRune(rune(hi), rune(lo)))
						put(string(buf[:n]))
					} else {
						put(s[i : i+12])
					}
					i += 12
					continue
				}
			}
			if hi >= 0 && i+6 <= end {
				put(s[i : i+6])
				i += 6
			} else {
				put(s[i : i+2])
				i += 2
			}
		default:
			put(s[i : i+2])
			i += 2
		}
	}
	put(`"`)
	return
}

func detect(t string, toks []tok) (f featSet) {
	for _, tk := range toks {
		switch tk.k {
		case 'w':
			if tk.f1 {
				f[fWSAfterMember] = true
			}
		case 'q':
			g := walkDQ(t[tk.s:tk.e], featSet{}, nil)
			for i := range g {
				if g[i] {
					f[i] = true
				}
			}
		}
	}
	return
}

// rewrite returns the document with every occurrence of the features in
// remove respelled in a form that denotes the same data.
func rewrite(t string, toks []tok, remove featSet) string {
	var b strings.Builder
	for _, tk := range toks {
		switch {
		case tk.k == 'w' && tk.f1 && remove[fWSAfterMember]:
		case tk.k == 'q':
			walkDQ(t[tk.s:tk.e], remove, &b)
		default:
			b.WriteString(t[tk.s:tk.e])
		}
	}
	return b.String()
}

// withoutWS drops every whitespace token except the one at index keep (-1: none).
func withoutWS(t string, toks []tok, keep int) string {
	var b strings.Builder
	for i, tk := range toks {
		if tk.k == 'w' && i != keep {
			continue
		}
		b.WriteString(t[tk.s:tk.e])
	}
	return b.String()
}
