// Package c17: see DESIGN.md section 3 C17.
package c17
