package c17

import (
	"fmt"
	"sort"

	"verif/internal/model"
)

// Presence of object members. The canonical comparison (model.Canon) equates
// an absent key with a key whose value is nil, because go-ucfg as a whole
// treats them alike once merged; parse.Value however returns plain Go data and
// the statement says "objects as maps ... null as nil": every member written
// in the document is a key of the map, a member holding null has the value
// nil. For members holding [] or {} the library-wide equivalence "[] and {}
// parse to nil" applies to the VALUE (nil, an empty list or an empty map are
// all accepted), the key itself must be there. The walk below runs after the
// canonical comparison succeeded and compares the key sets exactly.

type memberStats struct {
	objects, members, nullMembers, emptyArrMembers, emptyObjMembers, allEmptyObjects int64
}

func canonNil(n *model.Node) bool { return n == nil || n.Canon() == "nil" }

func emptyValueKind(n *model.Node) string {
	switch k := kindOf(n); k {
	case "null", "empty-array", "empty-object":
		return k
	case "object":
		if canonNil(n) {
			return "object-of-empty-members"
		}
		return k
	default:
		return k
	}
}

// memberDiff walks the data and the parsed value in parallel. It returns the
// first lost or invented member ("" = none).
func memberDiff(d *model.Node, got interface{}, path string, st *memberStats) (sig, note string) {
	switch {
	case d == nil || d.Kind != model.KSub:
		return "", ""
	case isList(d):
		if len(d.A) == 0 {
			return "", ""
		}
		l, ok := got.([]interface{})
		if !ok || len(l) != len(d.A) {
			return "array-shape-differs-behind-equal-canon", fmt.Sprintf("at %s: want a list of %d, got %#v", path, len(d.A), got)
		}
		for i, el := range d.A {
			if s, n := memberDiff(el, l[i], fmt.Sprintf("%s[%d]", path, i), st); s != "" {
				return s, n
			}
		}
		return "", ""
	}
	if len(d.D) == 0 {
		return "", ""
	}
	keys := d.SortedKeys()
	st.objects++
	allEmpty := true
	for _, k := range keys {
		st.members++
		switch emptyValueKind(d.D[k]) {
		case "null":
			st.nullMembers++
		case "empty-array":
			st.emptyArrMembers++
		case "empty-object":
			st.emptyObjMembers++
		case "object-of-empty-members":
		default:
			allEmpty = false
		}
	}
	if allEmpty {
		st.allEmptyObjects++
	}
	m, ok := got.(map[string]interface{})
	if !ok {
		// the whole object is gone (or is something else): blame the deepest
		// member that explains it
		k := keys[0]
		if emptyValueKind(d.D[k]) == "object-of-empty-members" {
			if s, n := memberDiff(d.D[k], nil, path+"."+fmt.Sprintf("%q", k), &memberStats{}); s != "" {
				return s, n
			}
		}
		return "object-member-lost:value-" + emptyValueKind(d.D[k]) + ":object-collapsed", fmt.Sprintf("at %s: the document has an object with the members %q, got %#v", path, keys, got)
	}
	for _, k := range keys {
		v, has := m[k]
		if !has {
			if emptyValueKind(d.D[k]) == "object-of-empty-members" {
				if s, n := memberDiff(d.D[k], nil, path+"."+fmt.Sprintf("%q", k), &memberStats{}); s != "" {
					return s, n
				}
			}
			return "object-member-lost:value-" + emptyValueKind(d.D[k]), fmt.Sprintf("at %s: member %q (value %s) is missing, the map has the keys %q", path, k, compactJSON(d.D[k]), sortedKeysOf(m))
		}
		if s, n := memberDiff(d.D[k], v, path+"."+fmt.Sprintf("%q", k), st); s != "" {
			return s, n
		}
	}
	if len(m) != len(keys) {
		for _, k := range sortedKeysOf(m) {
			if _, has := d.D[k]; !has {
				return "object-member-invented", fmt.Sprintf("at %s: the map has the key %q which the document does not have (members %q)", path, k, keys)
			}
		}
	}
	return "", ""
}

func sortedKeysOf(m map[string]interface{}) []string {
	ks := make([]string, 0, len(m))
	for k := range m {
		ks = append(ks, k)
	}
	sort.Strings(ks)
	return ks
}

// checkMembers runs the walk and records what it covered.
func (c *runner) checkMembers(d *model.Node, o outcome, text, how string, count bool) bool {
	var st memberStats
	sig, note := memberDiff(d, o.val, "$", &st)
	if count {
		res := c.res
		res.Ev("member_presence_objects_walked", st.objects)
		res.Ev("member_presence_members_walked", st.members)
		res.Ev("members_with_null_value", st.nullMembers)
		res.Ev("members_with_empty_array_value", st.emptyArrMembers)
		res.Ev("members_with_empty_object_value", st.emptyObjMembers)
		res.Ev("objects_whose_members_are_all_empty", st.allEmptyObjects)
	}
	if sig == "" {
		return true
	}
	c.res.Violate(sig, "%s(%q): the data compares equal canonically, but %s; got %#v", how, text, note, o.val)
	return false
}
